#!/usr/bin/env python3
"""Rewrite the round-2/round-3 seeded-change table of DESIGN.md from seeded/*/meta.json."""
import glob, json, os, re
V = os.path.dirname(os.path.dirname(os.path.abspath(__file__)))
rows = []
for f in sorted(glob.glob(os.path.join(V, "seeded", "*", "meta.json"))):
    m = json.load(open(f))
    if not re.search(r"-r[2-9]m", m["name"]):
        continue
    by = m.get("detected_by_other_check") or (m["property"] if m.get("detected") else "NOT YET")
    needs = re.sub(r"\s+", " ", m.get("needs_to_manifest", "")).strip().replace("|", "/")
    needs = needs[:170] + ("…" if len(needs) > 170 else "")
    rows.append("| %s | %s | %s |" % (m["name"], needs, by))
s = open(os.path.join(V, "DESIGN.md")).read()
head = "| seeded change | needs (from its README) | caught by |"
a = s.index("**Second, third and fourth rounds of seeded changes**")
b = s.index("| seeded change | needs (from its README)", a)
s = s[:b] + head + "\n|---|---|---|\n" + "\n".join(rows) + "\n"
open(os.path.join(V, "DESIGN.md"), "w").write(s)
print(len(rows), "rows")
