#!/bin/sh
# lib/seedrun.sh <round-dir> <Cxx> <mK> <name> <demo pkg> <extra test pattern|-> <demo -run|-> [check id]
rd=$1; pid=$2; m=$3; name=$4; pkg=$5; extra=$6; dr=$7; chk=${8:-$pid}
[ "$extra" = "-" ] && extra=""; [ "$dr" = "-" ] && dr=""
echo "=== $name"
SKIP_TESTS='Test_runFetchExit|TestInfraTest|TestCombineTwiceWithoutForceFails|TestServeAddrs' DEMO_RUN="$dr" DEMO_PKG=$pkg python3 /verif/lib/seed_confirm.py $chk /verif/.work/$rd/${rd}_$pid/$m $name $extra 2>&1 | grep '"confirmed"\|"detected"'
