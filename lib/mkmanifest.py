#!/usr/bin/env python3
"""Assemble /verif/MANIFEST.json from props/Cxx.json fragments (one per claimed property)."""
import glob
import json
import os

V = os.path.dirname(os.path.dirname(os.path.abspath(__file__)))
props = [json.loads(l) for l in open(os.path.join(V, "properties.jsonl")) if l.strip()]
ids = [p["id"] for p in props]
checks, na = [], []
for pid in ids:
    fp = os.path.join(V, "props", pid + ".json")
    if os.path.exists(fp):
        fr = json.load(open(fp))
        c = {"property_id": pid,
             "quick_cmd": "./check %s --tier quick" % pid,
             "thorough_cmd": "./check %s --tier thorough" % pid,
             "evidence_file": "/verif/evidence/%s.json" % pid,
             "replay_cmd_template": "./check %s --replay {path}" % pid,
             "engine": fr.get("engine", ""),
             "level_claimed": {"category": fr.get("category", "proof"), "text": fr["text"], "design_ref": fr.get("design_ref", "DESIGN.md §5 " + pid)},
             "level_note": fr["level_note"],
             "technique": fr.get("technique", "machine-checked proof in Coq 8.16.1 about an executable model + correspondence check (trace inclusion) against the Go code")}
        checks.append(c)
    else:
        na.append({"property_id": pid, "reason": "check not built yet in this session (work in progress; planned per DESIGN.md §5 %s)" % pid})
base = json.load(open(os.path.join(V, "props", "_manifest_base.json")))
base["checks"] = checks
base["not_applicable"] = na
json.dump(base, open(os.path.join(V, "MANIFEST.json"), "w"), indent=1)
print("claimed:", [c["property_id"] for c in checks], "n/a:", [n["property_id"] for n in na])
