"""Shared machinery of the /verif checks.

A check (props/Cxx.py) does, in this order:
  1. regenerate translator outputs (if the property has any) into coq/gen/
  2. coq_build(): full .vo build of the theory (make -jN); theorems of coq/Properties/Cxx.v are
     re-checked with their Print Assumptions output parsed -> obligations / discharged
  3. go_harness(): run the Go harness against /repo's current working tree -> observed traces
  4. coq_eval(): evaluate the model on the observed traces with vm_compute -> rejects / monitor hits
  5. Result.finish(): evidence file, KNOWN-FINDING / VIOLATION lines, exit code
"""
import contextlib
import fcntl
import glob
import hashlib
import json
import os
import re
import shutil
import subprocess
import sys
import time

VERIF = os.path.dirname(os.path.dirname(os.path.abspath(__file__)))
REPO = os.environ.get("VERIF_REPO", "/repo")
COQ = os.path.join(VERIF, "coq")
HARNESS = os.path.join(VERIF, "harness")
WORK = os.path.join(VERIF, ".work")
NPROC = os.cpu_count() or 4

STD_AXIOMS_OK = {
    # axioms declared by the standard library that a theorem may depend on; each one that shows up
    # is named in the evidence trusted_base
    "functional_extensionality_dep", "proof_irrelevance", "classic", "JMeq_eq", "Eqdep.Eq_rect_eq.eq_rect_eq",
    "FunctionalExtensionality.functional_extensionality_dep", "ClassicalDedekindReals.sig_forall_dec",
    "ClassicalDedekindReals.sig_not_dec", "Classical_Prop.classic", "ProofIrrelevance.proof_irrelevance",
}

BASE_TRUSTED = [
    "Coq 8.16.1 kernel (coqc; vm_compute used for closed evaluations; no native_compute)",
    "Go toolchain and runtime, testing/synctest (quiescence oracle) used by the correspondence harness",
    "the correspondence harness and this driver (lib/vp.py): label recording, canonicalisation, result parsing",
]


def go_env():
    env = dict(os.environ)
    env["GOFLAGS"] = "-mod=mod"
    env["GOPROXY"] = "off"
    env.pop("GOSUMDB", None)
    env.pop("GOTOOLCHAIN", None)
    env["VERIF_REPO"] = REPO
    return env


def sh(cmd, cwd=None, env=None, timeout=1800, inp=None):
    """Run a command; returns (rc, output). rc 124 on timeout."""
    try:
        p = subprocess.run(cmd, cwd=cwd, env=env, shell=isinstance(cmd, str), input=inp,
                           stdout=subprocess.PIPE, stderr=subprocess.STDOUT, timeout=timeout, text=True)
        return p.returncode, p.stdout
    except subprocess.TimeoutExpired as e:
        out = e.stdout or ""
        if isinstance(out, bytes):
            out = out.decode("utf-8", "replace")
        return 124, out + "\n[timeout after %ss]" % timeout


def sub_proofs(R, pid, tag):
    """Result.proofs() for a further property file (Properties/<pid>.v) of the same check: theorem lists are merged,
    checker_cmd / coqchk of the calling check are kept (the sub-file's go under <tag>_*)."""
    cov = R.coverage
    prev = {k: cov.get(k) for k in ("theorems", "checker_cmd", "coqchk")}
    R.proofs(pid=pid)
    cov[tag + "_theorems"] = cov.get("theorems") or []
    cov["theorems"] = (prev["theorems"] or []) + [t for t in cov[tag + "_theorems"] if t not in (prev["theorems"] or [])]
    if prev["checker_cmd"] and prev["checker_cmd"] != cov.get("checker_cmd"):
        cov["checker_cmd"] = prev["checker_cmd"] + "; " + cov.get("checker_cmd", "")
    if "coqchk" in cov and prev["coqchk"] and prev["coqchk"] != cov["coqchk"]:
        cov[tag + "_coqchk"] = cov["coqchk"]
        cov["coqchk"] = prev["coqchk"]


def run_translator(sub, out_name, timeout=300):
    """Run translator/<sub> against REPO into coq/gen/<out_name>; the file is replaced only when its content
    changes (several checks regenerate the same file; an unchanged file keeps make's timestamps)."""
    tr = os.path.join(VERIF, "translator")
    out_v = os.path.join(COQ, "gen", out_name)
    tmp = out_v + ".tmp%d" % os.getpid()
    rc, out = sh("go run ./%s -repo %s -out %s" % (sub, REPO, tmp), cwd=tr, env=go_env(), timeout=timeout)
    if rc == 0 and os.path.exists(tmp):
        new = open(tmp).read()
        old = open(out_v).read() if os.path.exists(out_v) else None
        if new != old:
            os.replace(tmp, out_v)
        else:
            os.remove(tmp)
    elif os.path.exists(tmp):
        os.remove(tmp)
    return rc, out


@contextlib.contextmanager
def locked(name):
    """Serialise steps that write shared build output (checks may be run concurrently)."""
    os.makedirs(WORK, exist_ok=True)
    with open(os.path.join(WORK, name + ".lock"), "w") as f:
        fcntl.flock(f, fcntl.LOCK_EX)
        try:
            yield
        finally:
            fcntl.flock(f, fcntl.LOCK_UN)


# ----------------------------------------------------------------------------------------------
# Coq

def coq_sources():
    out = []
    for p in sorted(glob.glob(os.path.join(COQ, "**", "*.v"), recursive=True)):
        rel = os.path.relpath(p, COQ)
        base = os.path.basename(rel)
        if rel.startswith("gen/cases_") or rel.startswith("scratch/") or "scratch" in base or base.startswith("zz_") or base.startswith("tmp"):
            continue
        out.append(rel)
    return out


def coq_project():
    """(Re)write _CoqProject and Makefile when the file list changed."""
    srcs = coq_sources()
    text = "-R . Charon\n-arg -w -arg -notation-overridden,-deprecated-hint-without-locality,-deprecated-instance-without-locality,-ambiguous-paths,-redundant-canonical-projection\n" + "\n".join(srcs) + "\n"
    cp = os.path.join(COQ, "_CoqProject")
    old = open(cp).read() if os.path.exists(cp) else ""
    if old != text or not os.path.exists(os.path.join(COQ, "Makefile")):
        with open(cp, "w") as f:
            f.write(text)
        rc, out = sh("coq_makefile -f _CoqProject -o Makefile", cwd=COQ)
        if rc != 0:
            raise RuntimeError("coq_makefile failed:\n" + out)


def coq_build(targets=None, timeout=3000, keep_going=False):
    """Full .vo build (never -vos). targets: list of .v paths relative to coq/ (their .vo and
    everything they depend on), or None for everything. Returns (ok, failing_file, log)."""
    with locked("coq"):
        coq_project()
        tg = " ".join(t[:-2] + ".vo" for t in targets) if targets else ""
        rc, out = sh("timeout %d make %s -j%d %s" % (timeout, "-k" if keep_going else "", NPROC, tg), cwd=COQ, timeout=timeout + 30)
        if rc != 0 and ("No such file or directory" in out or ".Makefile.d" in out):
            # the file list changed under us (a source file appeared/disappeared): regenerate and retry once
            for f in ("_CoqProject", ".Makefile.d"):
                try:
                    os.remove(os.path.join(COQ, f))
                except OSError:
                    pass
            coq_project()
            rc, out = sh("timeout %d make %s -j%d %s" % (timeout, "-k" if keep_going else "", NPROC, tg), cwd=COQ, timeout=timeout + 30)
    if rc == 0:
        return True, None, out
    m = re.search(r'File "\./([^"]+)", line (\d+)', out)
    failing = "%s:%s" % (m.group(1), m.group(2)) if m else "unknown (rc=%d)" % rc
    return False, failing, out


def coq_props(pid, timeout=900):
    """Re-check coq/Properties/<pid>.v and parse its theorems and Print Assumptions output.
    Returns dict(obligations, discharged, theorems=[{name, closed, axioms}], ok, log)."""
    rel = "Properties/%s.v" % pid
    src = open(os.path.join(COQ, rel)).read()
    names = re.findall(r"^\s*(?:Theorem|Lemma|Corollary)\s+([A-Za-z0-9_']+)", src, re.M)
    printed = re.findall(r"^\s*Print Assumptions\s+([A-Za-z0-9_'.]+)\s*\.", src, re.M)
    with locked("coq"):
        rc, out = sh("timeout %d coqc -R . Charon -w -notation-overridden,-deprecated-hint-without-locality,-deprecated-instance-without-locality,-ambiguous-paths,-redundant-canonical-projection %s" % (timeout, rel), cwd=COQ, timeout=timeout + 30)
    res = {"ok": rc == 0, "log": out, "theorems": [], "obligations": len(names), "discharged": 0}
    if rc != 0:
        return res
    # split output per Print Assumptions, in order
    chunks = re.split(r"(?m)^(?=Closed under the global context|Axioms:)", out)
    chunks = [c for c in chunks if c.startswith("Closed under") or c.startswith("Axioms:")]
    for i, nm in enumerate(printed):
        ch = chunks[i] if i < len(chunks) else ""
        if ch.startswith("Closed under"):
            res["theorems"].append({"name": nm, "closed": True, "axioms": []})
        else:
            axs = re.findall(r"(?m)^([A-Za-z0-9_'.]+)\s*:", ch)
            res["theorems"].append({"name": nm, "closed": False, "axioms": axs})
    ok_names = set()
    for th in res["theorems"]:
        bad = [a for a in th["axioms"] if a not in STD_AXIOMS_OK and a.split(".")[-1] not in STD_AXIOMS_OK
               and not a.startswith("Uint63") and not a.startswith("PrimInt63") and not a.startswith("PrimFloat")]
        th["foreign_axioms"] = bad
        if not bad:
            ok_names.add(th["name"])
    res["discharged"] = len([n for n in names if n in ok_names])
    res["unprinted"] = [n for n in names if n not in printed]
    return res


FORBIDDEN = re.compile(r"\b(Admitted|admit|Axiom|Axioms|Parameter|Parameters|Conjecture|Admit Obligations|Unset Guard Checking|Unset Positivity Checking|Unset Universe Checking|bypass_check|type-in-type|impredicative-set)\b")


def coq_closure(roots):
    """Transitive closure of `Require`d Charon files starting from the given .v paths (relative to coq/)."""
    seen, todo = [], list(roots)
    while todo:
        rel = todo.pop()
        if rel in seen or not os.path.exists(os.path.join(COQ, rel)):
            continue
        seen.append(rel)
        txt = open(os.path.join(COQ, rel)).read()
        txt = re.sub(r"\(\*.*?\*\)", "", txt, flags=re.S)
        for m in re.finditer(r"(From\s+(\S+)\s+)?Require\s+(?:Import\s+|Export\s+)?(.*?)\.(?=\s|$)", txt, flags=re.S):
            if m.group(2) and m.group(2) != "Charon":
                continue
            for mod in m.group(3).split():
                mod = mod.strip()
                if mod.startswith("Charon."):
                    mod = mod[len("Charon."):]
                cand = mod.replace(".", "/") + ".v"
                if os.path.exists(os.path.join(COQ, cand)):
                    todo.append(cand)
    return seen


def coq_hygiene(roots=None):
    """No Admitted/admit/Axiom/Parameter/... in the files the property depends on (all files when
    roots is None). Returns list of hits."""
    hits = []
    files = coq_closure(roots) if roots else coq_sources()
    for rel in files:
        try:
            txt = open(os.path.join(COQ, rel)).read()
        except OSError:
            continue
        txt = re.sub(r"\(\*.*?\*\)", "", txt, flags=re.S)
        for m in FORBIDDEN.finditer(txt):
            hits.append("%s: %s" % (rel, m.group(0)))
    return hits


def coq_eval(name, text, timeout=1500):
    """Write coq/gen/cases_<name>.v and compile it; returns (rc, output)."""
    os.makedirs(os.path.join(COQ, "gen"), exist_ok=True)
    rel = "gen/cases_%s.v" % name
    with open(os.path.join(COQ, rel), "w") as f:
        f.write(text)
    res = sh("timeout %d coqc -R . Charon -w -notation-overridden,-deprecated-hint-without-locality,-deprecated-instance-without-locality,-ambiguous-paths,-redundant-canonical-projection %s" % (timeout, rel), cwd=COQ, timeout=timeout + 30)
    # only the printed result is used: drop the compiled products (large .glob/.vo files pile up otherwise); the .v stays for inspection
    base = os.path.join(COQ, "gen", "cases_%s" % name)
    for ext in (".vo", ".vok", ".vos", ".glob"):
        try:
            os.remove(base + ext)
        except OSError:
            pass
    try:
        os.remove(os.path.join(COQ, "gen", ".cases_%s.aux" % name))
    except OSError:
        pass
    return res


def parse_marked(out, marker):
    """Our case files print results as  `<marker> = <term>` via Print; return the raw term text."""
    m = re.search(r"(?s)\b%s\s*=\s*(.*?)\n\s*:\s" % re.escape(marker), out)
    return m.group(1).strip() if m else None


def coqchk(pid, timeout=3000):
    """Independent re-check of the compiled property file (thorough tier)."""
    rc, out = sh("timeout %d coqchk -silent -o -R . Charon Charon.Properties.%s" % (timeout, pid), cwd=COQ, timeout=timeout + 30)
    return rc, out


# ----------------------------------------------------------------------------------------------
# Go harness

def harness_prepare():
    """The harness module always compiles the current working tree of REPO: an alternate go.mod
    (used through -modfile, so the committed harness/go.mod is never rewritten) is regenerated from
    REPO/go.mod (same requirement versions and replaces) plus a replace of charon => REPO.
    Returns the modfile path."""
    src = open(os.path.join(REPO, "go.mod")).read()
    src = re.sub(r"(?m)^module\s+\S+", "module verif/harness", src, count=1)
    src += "\nrequire github.com/obolnetwork/charon v0.0.0\n\nreplace github.com/obolnetwork/charon => %s\n" % REPO
    d = os.path.join(WORK, "gomod_" + hashlib.sha256(REPO.encode()).hexdigest()[:8])
    os.makedirs(d, exist_ok=True)
    gm = os.path.join(d, "go.mod")
    with locked("gomod"):
        if not os.path.exists(gm) or not open(gm).read().startswith(src[:200]) or REPO not in open(gm).read():
            with open(gm, "w") as f:
                f.write(src)
        gs = os.path.join(d, "go.sum")
        if not os.path.exists(gs):
            shutil.copyfile(os.path.join(REPO, "go.sum"), gs)
    return gm


def go_harness(pkg, run="TestGen", env_extra=None, timeout=1500, tags="verif", outdir=None, extra_args=""):
    """go test -run <run> ./<pkg> in the harness module. Returns (rc, output, outdir)."""
    gm = harness_prepare()
    outdir = outdir or os.path.join(WORK, pkg.replace("/", "_"))
    os.makedirs(outdir, exist_ok=True)
    env = go_env()
    env["VERIF_OUT"] = outdir
    env.setdefault("VERIF_SEED", "1")
    if env_extra:
        env.update({k: str(v) for k, v in env_extra.items()})
    cmd = "go test -modfile=%s -count=1 -tags %s -timeout %ds -run '%s' %s ./%s" % (gm, tags, timeout, run, extra_args, pkg)
    rc, out = sh(cmd, cwd=HARNESS, env=env, timeout=timeout + 60)
    return rc, out, outdir


def go_overlay_test(repo_pkg, overlay_files, run="TestVerif", env_extra=None, timeout=1500, outdir=None, tags="verif"):
    """Run in-package tests kept under /verif against /repo/<repo_pkg> with `go test -overlay`,
    leaving /repo's working tree untouched. overlay_files: {name_in_pkg: path_under_verif}."""
    outdir = outdir or os.path.join(WORK, "ov_" + repo_pkg.replace("/", "_"))
    os.makedirs(outdir, exist_ok=True)
    ov = {"Replace": {os.path.join(REPO, repo_pkg, k): v for k, v in overlay_files.items()}}
    ovp = os.path.join(outdir, "overlay.json")
    with open(ovp, "w") as f:
        json.dump(ov, f)
    env = go_env()
    env["VERIF_OUT"] = outdir
    env.setdefault("VERIF_SEED", "1")
    if env_extra:
        env.update({k: str(v) for k, v in env_extra.items()})
    cmd = "go test -count=1 -tags %s -timeout %ds -overlay %s -run '%s' ./%s" % (tags, timeout, ovp, run, repo_pkg)
    rc, out = sh(cmd, cwd=REPO, env=env, timeout=timeout + 60)
    return rc, out, outdir


# ----------------------------------------------------------------------------------------------
# Results

def known_findings():
    p = os.path.join(VERIF, "KNOWN_FINDINGS.json")
    if not os.path.exists(p):
        return []
    return json.load(open(p)).get("findings", [])


class Result:
    """Collects what a check found and turns it into evidence, output lines and an exit code."""

    def __init__(self, pid, level="proof"):
        self.pid = pid
        self.level = level
        self.tier = os.environ.get("VERIF_TIER", "quick")
        if "--tier" in sys.argv:
            self.tier = sys.argv[sys.argv.index("--tier") + 1]
        os.environ["VERIF_TIER"] = self.tier
        try:
            self.seed = int(os.environ.get("VERIF_SEED", "1"))
        except ValueError:
            self.seed = 1
        os.environ["VERIF_SEED"] = str(self.seed)
        self.t0 = time.time()
        self.coverage = {"evaluations": 0, "distinct_nontrivial": 0, "rule": "", "samples": [],
                         "obligations": 0, "discharged": 0, "checker_cmd": "", "trusted_base": list(BASE_TRUSTED)}
        self.assumptions = []
        self.concrete = []   # {"key":..., "what":..., "replay": obj}
        self.broken = []     # {"name":..., "detail":...}  theorem / correspondence that no longer checks
        self.notes = []

    @property
    def thorough(self):
        return self.tier == "thorough"

    # -- proof side
    def proofs(self, pid=None, extra_targets=None):
        """Build the theory of the property and record obligations/discharged."""
        pid = pid or self.pid
        hy = coq_hygiene(["Properties/%s.v" % pid] + (extra_targets or []))
        if hy:
            self.broken.append({"name": "hygiene", "detail": "forbidden vernacular: " + "; ".join(hy[:10])})
        targets = ["Properties/%s.v" % pid] + (extra_targets or [])
        ok, failing, log = coq_build(targets)
        self.coverage["checker_cmd"] = "make -j%d (coq_makefile, full .vo) in /verif/coq; coqc Properties/%s.v with Print Assumptions" % (NPROC, pid)
        if not ok:
            try:  # the statements of the file that no longer builds count as obligations that are not discharged
                nstm = len(re.findall(r"^\s*(?:Theorem|Lemma|Corollary|Example)\b", open(os.path.join(COQ, "Properties", pid + ".v")).read(), re.M))
            except OSError:
                nstm = 0
            self.coverage["obligations"] += max(nstm, 1)
            self.broken.append({"name": "proof:" + str(failing), "detail": log[-3000:]})
            return False
        pr = coq_props(pid)
        self.coverage["obligations"] += pr["obligations"]
        self.coverage["discharged"] += pr["discharged"]
        self.coverage["theorems"] = [t["name"] + (" [closed]" if t["closed"] else " [axioms: %s]" % ",".join(t["axioms"])) for t in pr["theorems"]]
        axs = sorted({a for t in pr["theorems"] for a in t["axioms"]})
        if axs:
            self.coverage["trusted_base"].append("standard-library axioms reported by Print Assumptions: " + ", ".join(axs))
        else:
            self.coverage["trusted_base"].append("Print Assumptions: every theorem of Properties/%s.v is closed under the global context (no axioms)" % pid)
        if not pr["ok"]:
            self.broken.append({"name": "proof:Properties/%s.v" % pid, "detail": pr["log"][-3000:]})
            return False
        for t in pr["theorems"]:
            if t.get("foreign_axioms"):
                self.broken.append({"name": "axiom-dependence:" + t["name"], "detail": ",".join(t["foreign_axioms"])})
        if pr["unprinted"]:
            self.broken.append({"name": "no Print Assumptions under: " + ",".join(pr["unprinted"]), "detail": ""})
        if pr["discharged"] != pr["obligations"]:
            return False
        if self.thorough and os.environ.get("VERIF_NO_COQCHK") != "1":
            rc, out = coqchk(pid)
            self.coverage["coqchk"] = "rc=%d; %s" % (rc, " | ".join(out.strip().splitlines()[-12:]))
            if rc != 0:
                self.broken.append({"name": "coqchk:Properties/%s" % pid, "detail": out[-3000:]})
        return True

    # -- findings
    def violation(self, key, what, replay):
        self.concrete.append({"key": key, "what": what, "replay": replay})

    def broke(self, name, detail=""):
        self.broken.append({"name": name, "detail": detail})

    def add_samples(self, samples, limit=3):
        for s in samples[:limit]:
            self.coverage["samples"].append(s)

    def finish(self):
        os.makedirs(os.path.join(VERIF, "evidence"), exist_ok=True)
        os.makedirs(os.path.join(VERIF, "replays"), exist_ok=True)
        kf = [f for f in known_findings() if f.get("property") == self.pid and f.get("status") == "known"]
        lines, nviol = [], 0
        known_hit = {}
        for i, c in enumerate(self.concrete):
            match = next((f for f in kf if f.get("key") == c["key"]), None)
            if match:
                known_hit.setdefault(match["id"], (match, c))
                continue
            nviol += 1
            rp = os.path.join("replays", "%s-%d-%d.json" % (self.pid, self.seed, i))
            with open(os.path.join(VERIF, rp), "w") as f:
                json.dump({"property": self.pid, "key": c["key"], "what": c["what"], "replay": c["replay"]}, f, indent=1)
            lines.append("VIOLATION property=%s replay=%s" % (self.pid, rp))
            if nviol >= 5:
                break
        for fid, (match, c) in known_hit.items():
            print("KNOWN-FINDING: property=%s %s (%s)" % (self.pid, match["what"], fid))
        if self.broken and nviol == 0:
            rp = os.path.join("replays", "%s-%d-broken.json" % (self.pid, self.seed))
            with open(os.path.join(VERIF, rp), "w") as f:
                json.dump({"property": self.pid, "no_failing_input_found": True,
                           "broken": self.broken}, f, indent=1)
            lines.append("VIOLATION property=%s replay=%s no-failing-input-found" % (self.pid, rp))
            nviol += 1
        ev = {"property_id": self.pid, "tier": self.tier, "seed": self.seed, "level": self.level,
              "coverage": self.coverage, "assumptions": self.assumptions,
              "wall_s": round(time.time() - self.t0, 2), "violations": nviol}
        if self.notes:
            ev["coverage"]["notes"] = self.notes
        ev["coverage"]["known_findings_seen"] = sorted(known_hit.keys())
        if self.broken:
            ev["coverage"]["broken"] = [b["name"] for b in self.broken]
        evname = "%s.json" % self.pid
        if os.environ.get("VERIF_REPLAY") or os.environ.get("VERIF_REPO", "/repo") != "/repo":
            evname = "%s.scratch.json" % self.pid   # replays and runs against scratch trees do not overwrite evidence
        with open(os.path.join(VERIF, "evidence", evname), "w") as f:
            json.dump(ev, f, indent=1, default=str)
        for l in lines:
            print(l)
        for b in self.broken[:6]:
            sys.stderr.write("BROKEN %s\n%s\n" % (b["name"], (b["detail"] or "")[-600:]))
        if len(self.broken) > 6:
            sys.stderr.write("... and %d more broken items (see replay file)\n" % (len(self.broken) - 6))
        print("check %s tier=%s seed=%d: obligations=%d discharged=%d evaluations=%d nontrivial=%d violations=%d wall=%.1fs" % (
            self.pid, self.tier, self.seed, self.coverage["obligations"], self.coverage["discharged"],
            self.coverage["evaluations"], self.coverage["distinct_nontrivial"], nviol, time.time() - self.t0))
        sys.exit(1 if nviol else 0)


def digest(obj):
    return hashlib.sha256(json.dumps(obj, sort_keys=True).encode()).hexdigest()[:16]


def coq_list(items):
    return "[" + "; ".join(items) + "]"


def chunks(xs, n):
    for i in range(0, len(xs), n):
        yield xs[i:i + n]
