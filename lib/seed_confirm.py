#!/usr/bin/env python3
"""lib/seed_confirm.py <Cxx> <mutout_dir/mK> <name>  — confirm a seeded change independently and keep it.

In a scratch worktree of /repo HEAD: (1) patch applies and `go build ./...` passes, (2) the existing
tests of the touched packages pass, (3) the demonstration FAILS with the patch and PASSES without it.
Then runs `VERIF_REPO=<worktree> ./check Cxx` against the patched tree and records whether the check
reports a VIOLATION. Result is written to /verif/seeded/<name>/meta.json with patch.diff and the demo."""
import json, os, re, shutil, subprocess, sys, time

pid, src, name = sys.argv[1], sys.argv[2].rstrip("/"), sys.argv[3]
extra_tests = sys.argv[4:]  # optional extra package paths to test
V = os.path.dirname(os.path.dirname(os.path.abspath(__file__)))
wt = "/tmp/seedwt_%s" % name
env = dict(os.environ, GOFLAGS="-mod=mod", GOPROXY="off")
env.pop("GOSUMDB", None); env.pop("GOTOOLCHAIN", None)

def sh(cmd, cwd=None, timeout=3000, e=None):
    p = subprocess.run(cmd, shell=True, cwd=cwd, env=e or env, stdout=subprocess.PIPE, stderr=subprocess.STDOUT, text=True, timeout=timeout)
    return p.returncode, p.stdout

sh("git -C /repo worktree remove --force %s" % wt)
rc, out = sh("git -C /repo worktree add --detach %s HEAD" % wt)
assert rc == 0, out
meta = {"property": pid, "name": name, "base_commit": sh("git -C /repo rev-parse --short HEAD")[1].strip(), "ran": []}
try:
    patch = os.path.join(src, "patch.diff")
    demos = [f for f in os.listdir(src) if f.endswith("_test.go") or f.endswith(".go")]
    readme = open(os.path.join(src, "README.md")).read() if os.path.exists(os.path.join(src, "README.md")) else ""
    ptxt = open(patch).read()
    pkgs = sorted({os.path.dirname(m) for m in re.findall(r"^\+\+\+ b/(\S+\.go)", ptxt, re.M)})
    # where does the demo go? first line comment / README mention; default: first touched package
    demo_pkg = None
    for d in demos:
        head = open(os.path.join(src, d)).read(2000)
        m = re.search(r"(?:place|put|copy)[^\n]*?\b((?:core|app|dkg|cluster|cmd|tbls|eth2util|p2p|testutil)[\w/]*)", head, re.I) or re.search(r"(?:place|put|copy)[^\n]*?\b((?:core|app|dkg|cluster|cmd|tbls|eth2util|p2p|testutil)/[\w/]*)", readme, re.I)
        if m:
            demo_pkg = m.group(1).rstrip("/")
    demo_pkg = demo_pkg or pkgs[0]
    if os.environ.get("DEMO_PKG"):
        demo_pkg = os.environ["DEMO_PKG"]
    def place_demo():
        for d in demos:
            shutil.copyfile(os.path.join(src, d), os.path.join(wt, demo_pkg, "zz_seed_" + d))
    def remove_demo():
        for d in demos:
            p = os.path.join(wt, demo_pkg, "zz_seed_" + d)
            if os.path.exists(p): os.remove(p)
    def run_demo():
        place_demo()
        rc, out = sh("go test -count=1 -vet=off %s ./%s" % (("-run '%s'" % os.environ["DEMO_RUN"]) if os.environ.get("DEMO_RUN") else "", demo_pkg), cwd=wt)
        remove_demo()
        return rc == 0, out[-1500:]
    # baseline: demo passes without the patch
    ok0, log0 = run_demo()
    meta["demo_passes_without_change"] = ok0
    rc, out = sh("git apply %s" % os.path.abspath(patch), cwd=wt)
    assert rc == 0, "patch does not apply: " + out
    rc, out = sh("go build ./...", cwd=wt)
    meta["builds"] = rc == 0
    tp = sorted(set(["./%s/..." % p for p in pkgs] + extra_tests))
    if os.environ.get("TEST_PKGS"):  # exact package patterns instead (e.g. ./app/ without the always-failing app/log golden tests)
        tp = os.environ["TEST_PKGS"].split()
    rc, out = sh("go test -count=1 -vet=off %s %s" % (("-skip '%s'" % os.environ["SKIP_TESTS"]) if os.environ.get("SKIP_TESTS") else "", " ".join(tp)), cwd=wt)
    meta["existing_tests_pass"] = rc == 0
    if rc != 0:
        meta["existing_tests_log"] = out[-1500:]
    meta["existing_tests_run"] = tp
    ok1, log1 = run_demo()
    meta["demo_fails_with_change"] = not ok1
    meta["demo_log_with_change"] = log1[-800:]
    # our check against the patched tree
    e = dict(env, VERIF_REPO=wt)
    t0 = time.time()
    rc, out = sh("./check %s --tier quick" % pid, cwd=V, e=e, timeout=3000)
    meta["check_cmd"] = "VERIF_REPO=<worktree with patch> ./check %s --tier quick" % pid
    meta["check_exit"] = rc
    meta["check_violation_lines"] = [l for l in out.splitlines() if l.startswith("VIOLATION") or l.startswith("KNOWN-FINDING")][:6]
    meta["check_wall_s"] = round(time.time() - t0, 1)
    meta["detected"] = rc == 1 and any(l.startswith("VIOLATION") for l in out.splitlines())
    meta["needs_to_manifest"] = ""
    m = re.search(r"(?is)(what is needed|what triggers|needed for the violation|to manifest)[^\n]*\n(.*?)(\n#|\n\*\*|\Z)", readme)
    if m: meta["needs_to_manifest"] = m.group(2).strip()[:1200]
    dst = os.path.join(V, "seeded", name)
    os.makedirs(dst, exist_ok=True)
    shutil.copyfile(patch, os.path.join(dst, "patch.diff"))
    for d in demos:
        shutil.copyfile(os.path.join(src, d), os.path.join(dst, d))
    if readme:
        open(os.path.join(dst, "README.md"), "w").write(readme)
    meta["demo_package"] = demo_pkg
    meta["confirmed"] = bool(meta["builds"] and meta["existing_tests_pass"] and meta["demo_fails_with_change"] and meta["demo_passes_without_change"])
    json.dump(meta, open(os.path.join(dst, "meta.json"), "w"), indent=1)
    print(json.dumps({k: meta[k] for k in ("confirmed", "builds", "existing_tests_pass", "demo_passes_without_change", "demo_fails_with_change", "detected", "check_exit", "check_violation_lines")}, indent=1))
finally:
    sh("git -C /repo worktree remove --force %s" % wt)
