(* C03 at network level (Qbft/Net.v) for EVERY execution, whatever Definition.Compare answers (CmpOk / CmpFail / CmpTimeout in
   any pattern -- no hypothesis on the verdicts at all): an honest member never decides the zero value; a decided value was
   proposed in a PRE-PREPARE by the leader of the decision round; with no Byzantine members the decided value is the input
   value of some member.  Same proofs as Validity.v over the invariant of CmpInv.v instantiated with acc = rej = True (the
   compareFailureRound+1 shortcut skips the JUSTIFICATION of a PRE-PREPARE, not the leader / non-zero checks, and an honest
   leader still proposes its input or a prepared value). *)
From Coq Require Import List NArith Arith Bool Lia.
From Charon Require Import Common.Quorum Qbft.Model Qbft.Monitor Qbft.ModelFacts Qbft.Inv Qbft.Card Qbft.Net Qbft.NetInv
  Qbft.Agreement Qbft.Validity Qbft.CmpInv Qbft.AgreementCmp Qbft.NetExamples.
Import ListNotations.
Set Warnings "-unused-intro-pattern".

Section ValidCmp.
Variables (acc rej : nat -> N -> Prop) (c : cfg) (nt : net) (tr : list (nat * label)).
Hypothesis Hwf : wf_cfg c.
Hypothesis NI : cinv acc rej c nt tr.

(* behind every decision there is an honest PREPARE for the decided round and value *)
Lemma cdecided_honest_prepare : forall i, good c i -> decided (nst nt i) = true ->
  exists y, In y (sent nt) /\ ty y = Prepare /\ rnd y = round (nst nt i) /\ val y = qcommitV (nst nt i).
Proof.
  intros i Hg Hd.
  destruct (cdecided_quorum acc rej c nt tr NI i Hg Hd) as [S [S1 [S2 [S3 S4]]]].
  destruct (has_honest (c_n c) (c_honest c) S S1 S2) as [h [H1 H2]]; [pose proof (byz_lt_q c Hwf); unfold qc in *; lia|].
  destruct (S4 h H1 H2) as [cm [B1 [B2 [B3 [B4 B5]]]]].
  destruct (c_ccommit acc rej c nt tr NI cm B1 B3) as [L [L1 L2]].
  destruct (nsrc_sources _ L _ L2) as [S' [S1' [S2' S3']]].
  assert (Sb : below (c_n c) S') by (intros x Hx; destruct (S3' x Hx) as [y [Y1 [_ Y3]]]; subst x; exact (proj1 (L1 y Y1))).
  destruct (has_honest (c_n c) (c_honest c) S' S1' Sb) as [h' [G1 G2]]; [pose proof (byz_lt_q c Hwf); unfold qc in *; lia|].
  destruct (S3' h' G1) as [y [Y1 [Y2 Y3]]]. apply f_trv_spec in Y2. destruct Y2 as [T [R V]].
  exists y. split; [|split; [exact T | split; congruence]].
  apply (deliv_honest_in c); [exact (L1 y Y1) | rewrite Y3; exact G2].
Qed.

Theorem cdecide_nonzero_states : forall i, good c i -> decided (nst nt i) = true -> qcommitV (nst nt i) <> 0%N.
Proof.
  intros i Hg Hd. destruct (cdecided_honest_prepare i Hg Hd) as [y [Y1 [Y2 [_ Y4]]]]. rewrite <- Y4.
  exact (proj1 (csent_prepare_facts acc rej c nt tr NI y Y1 Y2)).
Qed.

(* the decided value was proposed by the leader of the decision round *)
Theorem cdecide_leader_proposed_states : forall i, good c i -> decided (nst nt i) = true ->
  exists ppm, deliv c (sent nt) ppm /\ ty ppm = PrePrepare /\ rnd ppm = round (nst nt i)
              /\ val ppm = qcommitV (nst nt i) /\ src ppm = c_leader c (round (nst nt i)).
Proof.
  intros i Hg Hd. destruct (cdecided_honest_prepare i Hg Hd) as [y [Y1 [Y2 [Y3 Y4]]]].
  destruct (in_split y (sent nt) Y1) as [p1 [p2 Hs]].
  destruct (c_cpp acc rej c nt tr NI p1 y p2 Hs Y2) as [ppm [P1 [P2 [P3 [P4 P5]]]]].
  exists ppm. rewrite Hs. split; [apply deliv_prefix; exact P1|]. repeat split; congruence.
Qed.

(* no Byzantine members: every proposed / prepared value is some member's input *)
Hypothesis Hall : forall i, i < c_n c -> c_honest c i = true.

Lemma call_honest_in : forall l y, deliv c l y -> In y l.
Proof. intros l y H. apply (deliv_honest_in c); [exact H | apply Hall; exact (proj1 H)]. Qed.

Lemma cvalues_are_inputs : forall k pre b post, length pre = k -> sent nt = pre ++ b :: post ->
  (ty b = Prepare \/ ty b = PrePrepare) ->
  exists j, good c j /\ input (nst nt j) = val b /\ val b <> 0%N.
Proof.
  induction k as [k IH] using lt_wf_ind. intros pre b post Hk Hs Hty.
  assert (Hback : forall y, In y pre -> (ty y = Prepare \/ ty y = PrePrepare) -> val y = val b ->
            exists j, good c j /\ input (nst nt j) = val b /\ val b <> 0%N).
  { intros y Hy Hyt Hyv. destruct (in_split y pre Hy) as [p1 [p2 Hp]]. rewrite <- Hyv.
    apply (IH (length p1)) with (pre := p1) (post := p2 ++ b :: post); auto.
    - rewrite <- Hk, Hp, app_length. simpl. lia.
    - rewrite Hs, Hp, <- app_assoc. reflexivity. }
  destruct Hty as [Hty|Hty].
  - destruct (c_cpp acc rej c nt tr NI pre b post Hs Hty) as [ppm [P1 [P2 [_ [P4 _]]]]].
    apply (Hback ppm); auto. apply call_honest_in. exact P1.
  - destruct (c_cppv acc rej c nt tr NI pre b post Hs Hty) as [[H1 H2]|[y [Y1 [Y2 Y3]]]].
    + exists (src b). split; [apply (c_sent acc rej c nt tr NI); rewrite Hs; apply in_or_app; right; left; reflexivity | auto].
    + apply (Hback y); auto. apply call_honest_in. exact Y1.
Qed.

Theorem cvalidity_no_byz_states : forall i, good c i -> decided (nst nt i) = true ->
  exists j, good c j /\ input (nst nt j) = qcommitV (nst nt i) /\ qcommitV (nst nt i) <> 0%N.
Proof.
  intros i Hg Hd. destruct (cdecided_honest_prepare i Hg Hd) as [y [Y1 [Y2 [_ Y4]]]].
  destruct (in_split y (sent nt) Y1) as [p1 [p2 Hs]]. rewrite <- Y4.
  apply (cvalues_are_inputs (length p1) p1 y p2 eq_refl Hs). left. exact Y2.
Qed.

End ValidCmp.


(* ---- traces: no hypothesis on Compare ---- *)

Definition anyv : nat -> N -> Prop := fun _ _ => True.

Lemma nreach_cinv_any : forall c nt tr, wf_cfg c -> nreach c nt tr -> cinv anyv anyv c nt tr.
Proof. intros c nt tr Hwf Hr. exact (nreach_cinv anyv anyv c nt tr Hwf Hr (trace_cmp_any tr)). Qed.

Lemma nreach_dec_inv_any : forall c nt tr, wf_cfg c -> nreach c nt tr -> dec_inv c nt tr.
Proof. intros c nt tr Hwf Hr. exact (nreach_dec_inv_cmp anyv anyv c nt tr Hwf Hr (trace_cmp_any tr)). Qed.

Theorem decide_nonzero_any : forall c nt tr, wf_cfg c -> nreach c nt tr ->
  forall i v r, In (i, v, r) (trace_decides tr) -> v <> 0%N.
Proof.
  intros c nt tr Hwf Hr i v r Hi.
  pose proof (nreach_cinv_any c nt tr Hwf Hr) as NI.
  destruct (nreach_dec_inv_any c nt tr Hwf Hr i v r Hi) as [Hg [Hd [Hv _]]].
  rewrite <- Hv. exact (cdecide_nonzero_states anyv anyv c nt tr Hwf NI i Hg Hd).
Qed.

Theorem decide_leader_proposed_any : forall c nt tr, wf_cfg c -> nreach c nt tr ->
  forall i v r, In (i, v, r) (trace_decides tr) ->
  exists ppm, deliv c (sent nt) ppm /\ ty ppm = PrePrepare /\ rnd ppm = r /\ val ppm = v /\ src ppm = c_leader c r.
Proof.
  intros c nt tr Hwf Hr i v r Hi.
  pose proof (nreach_cinv_any c nt tr Hwf Hr) as NI.
  destruct (nreach_dec_inv_any c nt tr Hwf Hr i v r Hi) as [Hg [Hd [Hv Hrd]]].
  rewrite <- Hv, <- Hrd. exact (cdecide_leader_proposed_states anyv anyv c nt tr Hwf NI i Hg Hd).
Qed.

Theorem validity_no_byz_any : forall c nt tr, wf_cfg c -> (forall i, i < c_n c -> c_honest c i = true) ->
  nreach c nt tr ->
  forall i v r, In (i, v, r) (trace_decides tr) -> v <> 0%N /\ exists j outs, In (j, LInput v outs) tr.
Proof.
  intros c nt tr Hwf Hall Hr i v r Hi.
  pose proof (nreach_cinv_any c nt tr Hwf Hr) as NI.
  destruct (nreach_dec_inv_any c nt tr Hwf Hr i v r Hi) as [Hg [Hd [Hv _]]].
  destruct (cvalidity_no_byz_states anyv anyv c nt tr Hwf NI Hall i Hg Hd) as [j [Hj [Hin Hnz]]].
  rewrite Hv in Hin, Hnz. split; [exact Hnz|].
  pose proof (nreach_inp_inv c nt tr Hwf Hr j) as Hinp. rewrite Hin in Hinp. destruct (Hinp Hnz) as [outs Ho].
  exists j, outs. exact Ho.
Qed.

(* ---- non-vacuity: an all-honest execution with a compare failure, recorded from four real core/qbft.Run processes
   (harness/qbft TestCmpFun, scenario cmpfun-honest): member 3's comparison rejects the leader's value 7; everybody decides 7,
   the input of member 0. ---- *)
Definition exhon_cfg : cfg := mkcfg 4 100 (lead_rr 3 4) (fun _ => true).
Definition exhon_trace : list (nat * label) := [
  (0, LStart [NewTimer 1]);
  (1, LStart [NewTimer 1]);
  (2, LStart [NewTimer 1]);
  (3, LStart [NewTimer 1]);
  (0, LInput 7%N [Bcast (mk PrePrepare 0 1 7 0 0) []]);
  (1, LInput 8%N []);
  (2, LInput 9%N []);
  (3, LInput 10%N []);
  (0, LRecv (mkm (mk PrePrepare 0 1 7 0 0) []) CmpOk [Upon JustPrePrepare; StopTimer; NewTimer 1; Bcast (mk Prepare 0 1 7 0 0) []]);
  (1, LRecv (mkm (mk PrePrepare 0 1 7 0 0) []) CmpOk [Upon JustPrePrepare; StopTimer; NewTimer 1; Bcast (mk Prepare 1 1 7 0 0) []]);
  (2, LRecv (mkm (mk PrePrepare 0 1 7 0 0) []) CmpOk [Upon JustPrePrepare; StopTimer; NewTimer 1; Bcast (mk Prepare 2 1 7 0 0) []]);
  (3, LRecv (mkm (mk PrePrepare 0 1 7 0 0) []) CmpFail [Upon JustPrePrepare; StopTimer; NewTimer 1]);
  (0, LRecv (mkm (mk Prepare 0 1 7 0 0) []) CmpOk []);
  (0, LRecv (mkm (mk Prepare 1 1 7 0 0) []) CmpOk []);
  (0, LRecv (mkm (mk Prepare 2 1 7 0 0) []) CmpOk [Upon QPrepares; Bcast (mk Commit 0 1 7 0 0) []]);
  (1, LRecv (mkm (mk Prepare 0 1 7 0 0) []) CmpOk []);
  (1, LRecv (mkm (mk Prepare 1 1 7 0 0) []) CmpOk []);
  (1, LRecv (mkm (mk Prepare 2 1 7 0 0) []) CmpOk [Upon QPrepares; Bcast (mk Commit 1 1 7 0 0) []]);
  (2, LRecv (mkm (mk Prepare 0 1 7 0 0) []) CmpOk []);
  (2, LRecv (mkm (mk Prepare 1 1 7 0 0) []) CmpOk []);
  (2, LRecv (mkm (mk Prepare 2 1 7 0 0) []) CmpOk [Upon QPrepares; Bcast (mk Commit 2 1 7 0 0) []]);
  (0, LRecv (mkm (mk Commit 0 1 7 0 0) []) CmpOk []);
  (0, LRecv (mkm (mk Commit 1 1 7 0 0) []) CmpOk []);
  (0, LRecv (mkm (mk Commit 2 1 7 0 0) []) CmpOk [Upon QCommits; StopTimer; Decide 7%N 1 [(mk Commit 0 1 7 0 0); (mk Commit 1 1 7 0 0); (mk Commit 2 1 7 0 0)]]);
  (1, LRecv (mkm (mk Commit 0 1 7 0 0) []) CmpOk []);
  (1, LRecv (mkm (mk Commit 1 1 7 0 0) []) CmpOk []);
  (1, LRecv (mkm (mk Commit 2 1 7 0 0) []) CmpOk [Upon QCommits; StopTimer; Decide 7%N 1 [(mk Commit 0 1 7 0 0); (mk Commit 1 1 7 0 0); (mk Commit 2 1 7 0 0)]]);
  (2, LRecv (mkm (mk Commit 0 1 7 0 0) []) CmpOk []);
  (2, LRecv (mkm (mk Commit 1 1 7 0 0) []) CmpOk []);
  (2, LRecv (mkm (mk Commit 2 1 7 0 0) []) CmpOk [Upon QCommits; StopTimer; Decide 7%N 1 [(mk Commit 0 1 7 0 0); (mk Commit 1 1 7 0 0); (mk Commit 2 1 7 0 0)]]);
  (3, LRecv (mkm (mk Commit 0 1 7 0 0) []) CmpOk []);
  (3, LRecv (mkm (mk Commit 1 1 7 0 0) []) CmpOk []);
  (3, LRecv (mkm (mk Commit 2 1 7 0 0) []) CmpOk [Upon QCommits; StopTimer; Decide 7%N 1 [(mk Commit 0 1 7 0 0); (mk Commit 1 1 7 0 0); (mk Commit 2 1 7 0 0)]]) ].

Example exhon_accepted : NetExamples.nrun_ok exhon_cfg exhon_trace = true.
Proof. vm_compute. reflexivity. Qed.
Example exhon_has_failure : existsb (fun e => negb (label_nofail (snd e))) exhon_trace = true.
Proof. vm_compute. reflexivity. Qed.
Example exhon_decides : trace_decides exhon_trace = [(0, 7%N, 1); (1, 7%N, 1); (2, 7%N, 1); (3, 7%N, 1)].
Proof. vm_compute. reflexivity. Qed.
Example exhon_input : In (0, LInput 7%N [Bcast (mk PrePrepare 0 1 7 0 0) []]) exhon_trace.
Proof. vm_compute. tauto. Qed.
