(* C03 at network level (Qbft/Net.v), default configuration (Compare never fails): an honest member never decides the
   zero value; a decided value was proposed in a PRE-PREPARE by the leader of the decision round (a part that an honest
   leader broadcast, or one with a Byzantine source); with no Byzantine members the decided value is the input value
   of some member. *)
From Coq Require Import List NArith Arith Bool Lia.
From Charon Require Import Common.Quorum Qbft.Model Qbft.Monitor Qbft.ModelFacts Qbft.Inv Qbft.Card Qbft.Net Qbft.NetInv
  Qbft.Agreement.
Import ListNotations.
Set Warnings "-unused-intro-pattern".

Lemma deliv_prefix : forall c pre b post y, deliv c pre y -> deliv c (pre ++ b :: post) y.
Proof. intros. apply deliv_mono. assumption. Qed.

Section Valid.
Variables (c : cfg) (nt : net).
Hypothesis Hwf : wf_cfg c.
Hypothesis NI : ninv c nt.

(* behind every decision there is an honest PREPARE for the decided round and value *)
Lemma decided_honest_prepare : forall i, good c i -> decided (nst nt i) = true ->
  exists y, In y (sent nt) /\ ty y = Prepare /\ rnd y = round (nst nt i) /\ val y = qcommitV (nst nt i).
Proof.
  intros i Hg Hd.
  destruct (decided_quorum c nt NI i Hg Hd) as [S [S1 [S2 [S3 S4]]]].
  destruct (has_honest (c_n c) (c_honest c) S S1 S2) as [h [H1 H2]]; [pose proof (byz_lt_q c Hwf); unfold qc in *; lia|].
  destruct (S4 h H1 H2) as [cm [B1 [B2 [B3 [B4 B5]]]]].
  destruct (n_ccommit c nt NI cm B1 B3) as [L [L1 L2]].
  destruct (nsrc_sources _ L _ L2) as [S' [S1' [S2' S3']]].
  assert (Sb : below (c_n c) S') by (intros x Hx; destruct (S3' x Hx) as [y [Y1 [_ Y3]]]; subst x; exact (proj1 (L1 y Y1))).
  destruct (has_honest (c_n c) (c_honest c) S' S1' Sb) as [h' [G1 G2]]; [pose proof (byz_lt_q c Hwf); unfold qc in *; lia|].
  destruct (S3' h' G1) as [y [Y1 [Y2 Y3]]]. apply f_trv_spec in Y2. destruct Y2 as [T [R V]].
  exists y. split; [|split; [exact T | split; congruence]].
  apply (deliv_honest_in c); [exact (L1 y Y1) | rewrite Y3; exact G2].
Qed.

Theorem decide_nonzero_states : forall i, good c i -> decided (nst nt i) = true -> qcommitV (nst nt i) <> 0%N.
Proof.
  intros i Hg Hd. destruct (decided_honest_prepare i Hg Hd) as [y [Y1 [Y2 [_ Y4]]]]. rewrite <- Y4.
  exact (sent_prepare_nonzero c nt NI y Y1 Y2).
Qed.

(* the decided value was proposed by the leader of the decision round *)
Theorem decide_leader_proposed_states : forall i, good c i -> decided (nst nt i) = true ->
  exists ppm, deliv c (sent nt) ppm /\ ty ppm = PrePrepare /\ rnd ppm = round (nst nt i)
              /\ val ppm = qcommitV (nst nt i) /\ src ppm = c_leader c (round (nst nt i)).
Proof.
  intros i Hg Hd. destruct (decided_honest_prepare i Hg Hd) as [y [Y1 [Y2 [Y3 Y4]]]].
  destruct (in_split y (sent nt) Y1) as [p1 [p2 Hs]].
  destruct (n_cpp c nt NI p1 y p2 Hs Y2) as [ppm [P1 [P2 [P3 [P4 P5]]]]].
  exists ppm. rewrite Hs. split; [apply deliv_prefix; exact P1|]. repeat split; congruence.
Qed.

(* no Byzantine members: every proposed / prepared value is some member's input *)
Hypothesis Hall : forall i, i < c_n c -> c_honest c i = true.

Lemma all_honest_in : forall l y, deliv c l y -> In y l.
Proof. intros l y H. apply (deliv_honest_in c); [exact H | apply Hall; exact (proj1 H)]. Qed.

Lemma values_are_inputs : forall k pre b post, length pre = k -> sent nt = pre ++ b :: post ->
  (ty b = Prepare \/ ty b = PrePrepare) ->
  exists j, good c j /\ input (nst nt j) = val b /\ val b <> 0%N.
Proof.
  induction k as [k IH] using lt_wf_ind. intros pre b post Hk Hs Hty.
  assert (Hback : forall y, In y pre -> (ty y = Prepare \/ ty y = PrePrepare) -> val y = val b ->
            exists j, good c j /\ input (nst nt j) = val b /\ val b <> 0%N).
  { intros y Hy Hyt Hyv. destruct (in_split y pre Hy) as [p1 [p2 Hp]]. rewrite <- Hyv.
    apply (IH (length p1)) with (pre := p1) (post := p2 ++ b :: post); auto.
    - rewrite <- Hk, Hp, app_length. simpl. lia.
    - rewrite Hs, Hp, <- app_assoc. reflexivity. }
  destruct Hty as [Hty|Hty].
  - destruct (n_cpp c nt NI pre b post Hs Hty) as [ppm [P1 [P2 [_ [P4 _]]]]].
    apply (Hback ppm); auto. apply all_honest_in. exact P1.
  - destruct (n_cppv c nt NI pre b post Hs Hty) as [[H1 H2]|[y [Y1 [Y2 Y3]]]].
    + exists (src b). split; [apply (n_sent c nt NI); rewrite Hs; apply in_or_app; right; left; reflexivity | auto].
    + apply (Hback y); auto. apply all_honest_in. exact Y1.
Qed.

Theorem validity_no_byz_states : forall i, good c i -> decided (nst nt i) = true ->
  exists j, good c j /\ input (nst nt j) = qcommitV (nst nt i) /\ qcommitV (nst nt i) <> 0%N.
Proof.
  intros i Hg Hd. destruct (decided_honest_prepare i Hg Hd) as [y [Y1 [Y2 [_ Y4]]]].
  destruct (in_split y (sent nt) Y1) as [p1 [p2 Hs]]. rewrite <- Y4.
  apply (values_are_inputs (length p1) p1 y p2 eq_refl Hs). left. exact Y2.
Qed.

End Valid.

(* ---- traces ---- *)

(* a member's input value was given to it by an LInput label of the trace *)
Definition inp_inv (nt : net) (tr : list (nat * label)) : Prop :=
  forall j, input (nst nt j) <> 0%N -> exists outs, In (j, LInput (input (nst nt j)) outs) tr.

Lemma nreach_inp_inv : forall c nt tr, wf_cfg c -> nreach c nt tr -> inp_inv nt tr.
Proof.
  intros c nt tr Hwf H. induction H as [|nt tr i l nt' Hr IH Hs].
  - intros j Hj. simpl in Hj. contradiction.
  - inversion Hs as [nt0 i0 l0 s' Hgood Hstep Hdel]; subst nt0 i0 l0.
    pose proof (step_fstep _ _ _ _ Hstep) as Hf.
    assert (Hnp : 1 <= nodes (pp c i)) by exact (proj1 Hwf).
    destruct (fstep_pp_origin _ _ _ _ _ _ Hnp Hf) as [_ [O2 O3]].
    intros j Hj. simpl in Hj |- *. destruct (Nat.eq_dec j i) as [->|Hne].
    + rewrite upd_same in Hj |- *.
      destruct (N.eq_dec (input s') (input (nst nt i))) as [Heq|Hneq].
      * rewrite Heq in Hj |- *. destruct (IH i Hj) as [outs Ho]. exists outs. apply in_or_app. left. exact Ho.
      * specialize (O3 Hneq). destruct l as [o1|v1 o1|m1 c1 o1|o1]; simpl in O3; try discriminate.
        inversion O3; subst v1. exists o1. apply in_or_app. right. left. reflexivity.
    + rewrite upd_other in Hj |- * by assumption. destruct (IH j Hj) as [outs Ho]. exists outs. apply in_or_app. left. exact Ho.
Qed.

(* C03, network level, default configuration *)
Theorem decide_nonzero_default : forall c nt tr, wf_cfg c -> nreach c nt tr -> trace_nofail tr ->
  forall i v r, In (i, v, r) (trace_decides tr) -> v <> 0%N.
Proof.
  intros c nt tr Hwf Hr Hnf i v r Hi.
  pose proof (nreach_ninv c nt tr Hwf Hr Hnf) as NI.
  destruct (nreach_dec_inv c nt tr Hwf Hr Hnf i v r Hi) as [Hg [Hd [Hv _]]].
  rewrite <- Hv. exact (decide_nonzero_states c nt Hwf NI i Hg Hd).
Qed.

Theorem decide_leader_proposed : forall c nt tr, wf_cfg c -> nreach c nt tr -> trace_nofail tr ->
  forall i v r, In (i, v, r) (trace_decides tr) ->
  exists ppm, deliv c (sent nt) ppm /\ ty ppm = PrePrepare /\ rnd ppm = r /\ val ppm = v /\ src ppm = c_leader c r.
Proof.
  intros c nt tr Hwf Hr Hnf i v r Hi.
  pose proof (nreach_ninv c nt tr Hwf Hr Hnf) as NI.
  destruct (nreach_dec_inv c nt tr Hwf Hr Hnf i v r Hi) as [Hg [Hd [Hv Hrd]]].
  rewrite <- Hv, <- Hrd. exact (decide_leader_proposed_states c nt Hwf NI i Hg Hd).
Qed.

Theorem validity_no_byz : forall c nt tr, wf_cfg c -> (forall i, i < c_n c -> c_honest c i = true) ->
  nreach c nt tr -> trace_nofail tr ->
  forall i v r, In (i, v, r) (trace_decides tr) -> v <> 0%N /\ exists j outs, In (j, LInput v outs) tr.
Proof.
  intros c nt tr Hwf Hall Hr Hnf i v r Hi.
  pose proof (nreach_ninv c nt tr Hwf Hr Hnf) as NI.
  destruct (nreach_dec_inv c nt tr Hwf Hr Hnf i v r Hi) as [Hg [Hd [Hv _]]].
  destruct (validity_no_byz_states c nt Hwf NI Hall i Hg Hd) as [j [Hj [Hin Hnz]]].
  rewrite Hv in Hin, Hnz. split; [exact Hnz|].
  pose proof (nreach_inp_inv c nt tr Hwf Hr j) as Hinp. rewrite Hin in Hinp. destruct (Hinp Hnz) as [outs Ho].
  exists j, outs. exact Ho.
Qed.
