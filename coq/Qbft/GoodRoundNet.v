(* C04 termination: the closure hypotheses of [good_round_decides] (Qbft/GoodRound.v) DERIVED from
   reachability in the network semantics Qbft/Net.v for crash-only executions:
     - no Byzantine member ([allhon]); members may stop taking steps at any point;
     - no Compare failure;
     - the network delays, drops, duplicates and reorders, but delivers every message with the
       justification it was sent with ([creach]; Net.v alone also lets the network re-assemble
       justifications out of honest parts -- see [cross_assembly_breaks_buf_fresh] for why that is
       excluded here).
   The pool is ALL messages broadcast so far, with their justifications ([sentm tr]). *)
From Coq Require Import List NArith Arith Bool Lia.
From Charon Require Import Common.Quorum Qbft.Model Qbft.Monitor Qbft.ModelFacts Qbft.Justified
  Qbft.GoodRound Qbft.GoodRoundFacts Qbft.GoodRoundQrc
  Qbft.Inv Qbft.Card Qbft.Net Qbft.NetInv Qbft.Agreement Qbft.NeverUnjust.
Import ListNotations.
Set Warnings "-unused-intro-pattern".

(* ------------------------------------------------------------------------------------------ *)
(* Crash-only reachability                                                                     *)

Definition allhon (c : cfg) : Prop := forall k, k < c_n c -> c_honest c k = true.

(* every message broadcast in a global trace, with the justification it was sent with *)
Definition sentm (tr : list (nat * label)) : list msg := flat_map (fun e => bcasts (label_outs (snd e))) tr.

Inductive creach (c : cfg) : net -> list (nat * label) -> Prop :=
| CR0 : creach c net_init []
| CRS : forall nt tr i l nt', creach c nt tr -> nstep c nt i l nt' -> label_nofail l = true ->
    (forall m cm outs, l = LRecv m cm outs -> In m (sentm tr)) ->
    creach c nt' (tr ++ [(i, l)]).

Lemma creach_nreach : forall c nt tr, creach c nt tr -> nreach c nt tr /\ trace_nofail tr.
Proof.
  intros c nt tr H. induction H as [|nt tr i l nt' H [IH1 IH2] Hs Hnf Hm].
  - split; [constructor | intros i l []].
  - split; [econstructor; eassumption|]. intros j l' Hin. apply in_app_or in Hin.
    destruct Hin as [Hin|[Hin|[]]]; [eapply IH2; eassumption | inversion Hin; subst; exact Hnf].
Qed.

Lemma sentm_app : forall a b, sentm (a ++ b) = sentm a ++ sentm b.
Proof. intros. unfold sentm. apply flat_map_app. Qed.

Lemma bcasts_mains : forall outs, map main (bcasts outs) = bc_mains outs.
Proof. induction outs as [|o outs IH]; [reflexivity|]. destruct o; simpl; rewrite ?IH; reflexivity. Qed.

Lemma bcasts_In : forall outs m, In m (bcasts outs) <-> In (Bcast (main m) (just m)) outs.
Proof.
  induction outs as [|o outs IH]; intro m; simpl; [tauto|].
  destruct o; simpl; rewrite IH; try (split; [auto | intros [H|H]; [discriminate | auto]]).
  destruct m as [mb mj]. simpl. split; intros [H|H]; auto; left; inversion H; reflexivity.
Qed.

Lemma deliv_allhon : forall c l b, allhon c -> deliv c l b -> In b l.
Proof. intros c l b Ha [H1 [H2|H2]]; [exact H2 | rewrite (Ha _ H1) in H2; discriminate]. Qed.

(* ------------------------------------------------------------------------------------------ *)
(* Single process: shape and provenance of what is broadcast                                   *)

Ltac in_outs Hin :=
  simpl in Hin; rewrite ?in_app_iff in Hin; simpl in Hin;
  repeat match type of Hin with
  | _ \/ _ => destruct Hin as [Hin|Hin]
  | False => contradiction
  end; try discriminate Hin; try (inversion Hin; subst; clear Hin).

Lemma prep_pick_types : forall s J y, prep_pick_ok s J = true -> In y J -> ty y = Prepare.
Proof.
  intros s J y H Hy. unfold prep_pick_ok in H. apply pick_ok_spec in H. destruct H as [_ [H _]].
  rewrite forallb_forall in H. specialize (H y Hy). apply f_trv_inv in H. tauto.
Qed.

Lemma bcast_shape : forall p s e o s' outs, fstep p s e o = Some (s', outs) ->
  forall b J, In (Bcast b J) outs ->
  src b = self p /\
  match ty b with
  | Prepare | Commit => J = [] /\ pr b = 0 /\ pv b = 0%N
  | RoundChange => forall y, In y J -> ty y = Prepare
  | PrePrepare => pr b = 0 /\ pv b = 0%N
  | Decided => decided s = true
  end.
Proof.
  intros p s e o s' outs H b J Hin.
  destruct e; crush_fstep H; in_outs Hin; simpl; auto.
  all: try (split; [reflexivity|]; intros y Hy; eapply prep_pick_types; eauto; fail).
  apply andb_true_iff in Heqb5. destruct Heqb5 as [_ Hp]. split; [reflexivity|]. intros y Hy. eapply prep_pick_types; eauto.
Qed.


Lemma prep_pick_sub : forall s J y, prep_pick_ok s J = true -> In y J -> In y (prepJ s).
Proof.
  intros s J y H Hy. unfold prep_pick_ok in H. apply pick_ok_spec in H. destruct H as [_ [_ [H _]]]. auto.
Qed.

Lemma bcast_parts : forall p s e o s' outs, fstep p s e o = Some (s', outs) ->
  forall b J, In (Bcast b J) outs -> forall y, In y J ->
  In y (prepJ s') \/ In y (qcommit s) \/ In y (flat (buffer s')) \/ (exists all c0, ppj s = PQrc all c0 /\ In y all).
Proof.
  intros p s e o s' outs H b J Hin y Hy.
  destruct e; crush_fstep H; in_outs Hin; simpl; auto; try contradiction.
  all: try (left; eapply prep_pick_sub; eauto; fail).
  all: try (right; right; left; simpl; autorewrite with st; eapply adm_qrc_sub; eauto; fail).
  - right. right. right. exists all, c. split; [reflexivity|]. apply andb_true_iff in Heqb2. destruct Heqb2 as [Ha _].
    eapply adm_qrc_sub; eauto.
  - apply andb_true_iff in Heqb5. destruct Heqb5 as [_ Hp]. left. simpl in Hp. exact (prep_pick_sub _ _ y Hp Hy).
  - right. right. left. eapply adm_qrc_sub; eauto.
  - right. right. left. eapply adm_qrc_sub; eauto.
Qed.

(* the round of a broadcast (other than DECIDED) is the sender's round after the step *)
Lemma bcast_round : forall p s e o s' outs, fstep p s e o = Some (s', outs) ->
  forall b J, In (Bcast b J) outs -> ty b <> Decided -> rnd b = round s'.
Proof.
  intros p s e o s' outs H b J Hin Ht.
  destruct e; crush_fstep H; in_outs Hin; simpl; autorewrite with st; simpl; auto; try congruence.
  apply Nat.eqb_eq in Heqb5. autorewrite with st in Heqb5. simpl in Heqb5. auto.
Qed.

Lemma adm_qrc_rc_rnd : forall p all r J y, adm_qrc p all r J = true -> In y J -> ty y = RoundChange -> rnd y = r.
Proof.
  intros p all r J y H Hy Ht. unfold adm_qrc in H. destruct (nullQ p all r).
  - apply pick_ok_spec in H. destruct H as [_ [H _]]. rewrite forallb_forall in H. specialize (H y Hy).
    rewrite f_rc_null_split in H. apply andb_true_iff in H. destruct H as [H _]. apply f_rc_inv in H. tauto.
  - apply andb_true_iff in H. destruct H as [HJ H]. apply list_beq_eq in HJ.
    destruct (filter (is_ty Prepare) J) as [|p0 Jp'] eqn:EJp; [discriminate|].
    rewrite !andb_true_iff in H. destruct H as [[[[[[_ _] _] Hall] _] _] _].
    assert (Hin : In y (filter (is_ty RoundChange) J)) by (apply filter_In; split; [exact Hy | unfold is_ty; rewrite Ht; reflexivity]).
    rewrite forallb_forall in Hall. specialize (Hall y Hin). rewrite !andb_true_iff in Hall.
    destruct Hall as [[Hf _] _]. apply f_rc_inv in Hf. tauto.
Qed.


(* ------------------------------------------------------------------------------------------ *)
(* Single process: what a member has done in its current round is among its broadcasts         *)

Ltac idp_in H := rewrite ?is_dup_set_timer', ?is_dup_set_prepared', ?is_dup_set_decided', ?idp_buffer, ?idp_cfr, ?idp_ppj,
  ?idp_input, ?idp_resends, ?idp_started, ?idp_dead, ?idp_round, ?is_dup_mark in H.

Lemma kjpp_fstep : forall p s e o s' outs P, 
  (decided s = false -> is_dup s JustPrePrepare (round s) = true -> exists x, In (mkm (mk Prepare (self p) (round s) x 0 0) []) P) ->
  fstep p s e o = Some (s', outs) -> ev_cmpfail e = false ->
  decided s' = false -> is_dup s' JustPrePrepare (round s') = true ->
  exists x, In (mkm (mk Prepare (self p) (round s') x 0 0) []) (P ++ bcasts outs).
Proof.
  intros p s e o s' outs P IH H Hcf A1 A2.
  destruct e; crush_fstep H; try discriminate Hcf; undec A1; simpl in A2; autorewrite with st in A2; simpl in A2; repeat idp_in A2; simpl in A2;
    try discriminate A2.
  all: simpl; autorewrite with st; simpl.
  all: try congruence.
  all: try (first [destruct (IH A1 A2) as [x Hx] | destruct (IH eq_refl A2) as [x Hx]]; exists x; apply in_or_app; left; exact Hx).
  all: try (exists (val (main m)); apply in_or_app; right; simpl; left;
            repeat match goal with E : (_ =? _) = true |- _ => apply Nat.eqb_eq in E; autorewrite with st in E; simpl in E end;
            congruence).
Qed.

Lemma kqp_fstep : forall p s e o s' outs P, 
  (decided s = false -> is_dup s QPrepares (round s) = true -> exists x, In (mkm (mk Commit (self p) (round s) x 0 0) []) P) ->
  fstep p s e o = Some (s', outs) -> ev_cmpfail e = false ->
  decided s' = false -> is_dup s' QPrepares (round s') = true ->
  exists x, In (mkm (mk Commit (self p) (round s') x 0 0) []) (P ++ bcasts outs).
Proof.
  intros p s e o s' outs P IH H Hcf A1 A2.
  destruct e; crush_fstep H; try discriminate Hcf; undec A1; simpl in A2; autorewrite with st in A2; simpl in A2; repeat idp_in A2; simpl in A2;
    try discriminate A2.
  all: simpl; autorewrite with st; simpl.
  all: try congruence.
  all: try (first [destruct (IH A1 A2) as [x Hx] | destruct (IH eq_refl A2) as [x Hx]]; exists x; apply in_or_app; left; exact Hx).
  all: try (exists (val (main m)); apply in_or_app; right; simpl; left;
            repeat match goal with E : (_ =? _) = true |- _ => apply Nat.eqb_eq in E; autorewrite with st in E; simpl in E end;
            congruence).
Qed.


Definition has_pp (p : params) (P : list msg) (k : nat) : Prop :=
  exists m, In m P /\ src (main m) = self p /\ ty (main m) = PrePrepare /\ rnd (main m) = k.

Lemma has_pp_mono : forall p P X k, has_pp p P k -> has_pp p (P ++ X) k.
Proof. intros p P X k [m [H1 H2]]. exists m. split; [apply in_or_app; auto | exact H2]. Qed.

Lemma kqrc_fstep : forall p s e o s' outs P,
  (decided s = false -> dead s = false -> is_dup s QRC (round s) = true -> input s <> 0%N \/ ppj s = PNone -> has_pp p P (round s)) ->
  fstep p s e o = Some (s', outs) -> ev_cmpfail e = false ->
  decided s' = false -> dead s' = false -> is_dup s' QRC (round s') = true -> input s' <> 0%N \/ ppj s' = PNone ->
  has_pp p (P ++ bcasts outs) (round s').
Proof.
  intros p s e o s' outs P IH H Hcf A1 A0 A2 A3.
  destruct e; crush_fstep H; try discriminate Hcf; undec A1; simpl in A0, A2, A3; autorewrite with st in A0, A2, A3; simpl in A0, A2, A3;
    repeat idp_in A2; simpl in A2; try discriminate A2; try discriminate A0.
  all: simpl; autorewrite with st; simpl.
  all: try congruence.
  all: try (apply has_pp_mono; first [apply IH; auto; fail | apply (IH eq_refl); auto; fail]).
  all: try (destruct A3 as [A3|A3]; try discriminate A3; apply has_pp_mono; first [apply IH; auto; fail | apply (IH eq_refl); auto; fail]).
  all: try (eexists; split; [apply in_or_app; right; left; reflexivity | simpl; auto]; fail).
  all: exfalso; destruct A3 as [A3|A3]; [|discriminate A3];
    match goal with E : (input _ =? 0)%N = true |- _ => autorewrite with st in E; simpl in E; apply N.eqb_eq in E; contradiction end.
Qed.


Lemma ppj_keep : forall p s e o s' outs, inv p s -> fstep p s e o = Some (s', outs) ->
  ppj s = PNone -> is_dup s QRC (round s) = true -> ppj s' = PNone.
Proof.
  intros p s e o s' outs Hinv H Hp Hd. destruct e.
  - crush_fstep H. apply orb_false_iff in Heqb. destruct Heqb as [Hst _]. rewrite (i_init p s Hinv Hst) in Hd. discriminate.
    apply orb_false_iff in Heqb. destruct Heqb as [Hst _]. rewrite (i_init p s Hinv Hst) in Hd. discriminate.
  - crush_fstep H; simpl; autorewrite with st; simpl; auto; congruence.
  - crush_fstep H; try rule_facts2; simpl; autorewrite with st; simpl; auto; try congruence.
    all: exfalso; destruct Hr as [_ [Hr _]]; simpl in Hr; rewrite Hr in Hnd; unfold is_dup in *; simpl in Hnd; congruence.
  - crush_fstep H; reflexivity.
Qed.

(* a PRE-PREPARE of round k in the member's log is accounted for by its state *)
Definition pp_cur (s : state) : Prop :=
  (round s = 1 /\ input s <> 0%N) \/ (is_dup s QRC (round s) = true /\ (input s <> 0%N \/ ppj s = PNone)).
Definition pp_ok (s : state) (k : nat) : Prop := k < round s \/ (k = round s /\ pp_cur s).

Lemma pp_ok_fstep : forall p s e o s' outs k, 1 <= nodes p -> inv p s -> (decided s = false -> 1 <= round s) ->
  pp_ok s k -> fstep p s e o = Some (s', outs) -> decided s' = false -> pp_ok s' k.
Proof.
  intros p s e o s' outs k Hn Hinv H1 Hk H Hd.
  pose proof (fstep_effects p s e o s' outs Hn Hinv H) as [_ [_ [E3 [E4 [E5 _]]]]].
  destruct (fstep_pp_origin p s e o s' outs Hn H) as [_ [I1 I2]].
  assert (Hds : decided s = false) by (destruct (decided s) eqn:E; [destruct (E3 eq_refl); congruence | reflexivity]).
  specialize (E4 Hd). specialize (E5 Hd). specialize (H1 Hds).
  destruct Hk as [Hk|[Hk Hc]]; [left; lia|].
  destruct (Nat.eq_dec (round s') (round s)) as [Er|Er]; [|left; lia].
  right. split; [congruence|]. unfold pp_cur in *. rewrite Er.
  destruct Hc as [[C1 C2]|[C1 C2]].
  - left. split; [assumption|]. rewrite (I1 C2). exact C2.
  - right. split; [apply E5; auto|]. destruct C2 as [C2|C2].
    + left. rewrite (I1 C2). exact C2.
    + right. eapply ppj_keep; eauto.
Qed.



Lemma pp_emit : forall p s e o s' outs b J, inv p s -> cache_fact s ->
  (forall m c, e = ERecv m c -> f_rc 1 (main m) = false) ->
  fstep p s e o = Some (s', outs) -> In (Bcast b J) outs -> ty b = PrePrepare ->
  round s' = round s /\ rnd b = round s /\ pp_cur s' /\ ~ pp_cur s.
Proof.
  intros p s e o s' outs b J Hinv [_ Hc] Hrc H Hin Ht. pose proof (i_ppj p s Hinv) as Hi.
  destruct e; crush_fstep H; try rule_facts2; in_outs Hin; try discriminate Ht; unfold pp_cur; simpl; autorewrite with st; simpl.
  - (* input arrives at the round-1 leader *)
    apply orb_false_iff in Heqb0. destruct Heqb0 as [_ Hin0]. apply negb_false_iff, N.eqb_eq in Hin0. apply N.eqb_neq in Heqb1.
    repeat split; auto. intros [[_ X]|[_ [X|X]]]; congruence.
  - (* input releases the cached justification *)
    apply orb_false_iff in Heqb0. destruct Heqb0 as [_ Hin0]. apply negb_false_iff, N.eqb_eq in Hin0. apply N.eqb_neq in Heqb1.
    repeat split; auto. intros [[_ X]|[_ [X|X]]]; congruence.
  - destruct Hr as [Hty [Hrr _]]; simpl in Hrr.
    assert (Hr1 : round s <> 1) by
      (intro E; specialize (Hrc m _ eq_refl); unfold f_rc, is_ty in Hrc; rewrite Hty, Hrr, E in Hrc; discriminate).
    assert (Hnd' : is_dup s QRC (round s) = false) by (rewrite <- Hrr; exact Hnd).
    split; [reflexivity|]. split; [reflexivity|]. split; [|intros [[X _]|[X _]]; [contradiction | congruence]].
    right. split; [rewrite is_dup_mark, Hrr, Nat.eqb_refl; reflexivity|].
    destruct (ppj s) eqn:Ep; [right; reflexivity | exfalso; auto | exfalso; congruence].
  - destruct Hr as [Hty [Hrr _]]; simpl in Hrr.
    assert (Hr1 : round s <> 1) by
      (intro E; specialize (Hrc m _ eq_refl); unfold f_rc, is_ty in Hrc; rewrite Hty, Hrr, E in Hrc; discriminate).
    assert (Hnd' : is_dup s QRC (round s) = false) by (rewrite <- Hrr; exact Hnd).
    split; [reflexivity|]. split; [reflexivity|]. split; [|intros [[X _]|[X _]]; [contradiction | congruence]].
    right. split; [rewrite is_dup_mark, Hrr, Nat.eqb_refl; reflexivity|].
    left. autorewrite with st in *. simpl in *. apply N.eqb_neq. assumption.
Qed.


(* ------------------------------------------------------------------------------------------ *)
(* The per-member invariant relating a member's state to the messages broadcast so far         *)

Record kinv (p : params) (s : state) (P : list msg) : Prop := mkk {
  k_pp : decided s = false -> forall m, In m P -> src (main m) = self p -> ty (main m) = PrePrepare ->
         pp_ok s (rnd (main m));
  (* one PRE-PREPARE per round *)
  k_ppu : decided s = false -> forall m m', In m P -> In m' P ->
          src (main m) = self p -> src (main m') = self p ->
          ty (main m) = PrePrepare -> ty (main m') = PrePrepare ->
          rnd (main m) = rnd (main m') -> m = m';
  k_jpp : decided s = false -> is_dup s JustPrePrepare (round s) = true ->
          exists x, In (mkm (mk Prepare (self p) (round s) x 0 0) []) P;
  k_qp : decided s = false -> is_dup s QPrepares (round s) = true ->
         exists x, In (mkm (mk Commit (self p) (round s) x 0 0) []) P;
  k_qrc : decided s = false -> dead s = false -> is_dup s QRC (round s) = true ->
          input s <> 0%N \/ ppj s = PNone -> has_pp p P (round s)
}.

Lemma kinv_init : forall p, kinv p init [].
Proof. intro p. constructor; simpl; intros; try contradiction; discriminate. Qed.

(* messages of other members do not matter *)
Lemma kinv_other : forall p s P X, (forall m, In m X -> src (main m) <> self p) -> kinv p s P -> kinv p s (P ++ X).
Proof.
  intros p s P X HX [K1 K2 K3 K4 K5]. constructor.
  - intros Hd m Hm Hs Ht. apply in_app_or in Hm. destruct Hm as [Hm|Hm]; [auto | exfalso; eapply HX; eauto].
  - intros Hd m m' Hm Hm' Hs Hs' Ht Ht' Hr. apply in_app_or in Hm. apply in_app_or in Hm'.
    destruct Hm as [Hm|Hm]; [|exfalso; eapply HX; eauto]. destruct Hm' as [Hm'|Hm']; [|exfalso; eapply HX; eauto]. auto.
  - intros Hd Hx. destruct (K3 Hd Hx) as [x Hin]. exists x. apply in_or_app. auto.
  - intros Hd Hx. destruct (K4 Hd Hx) as [x Hin]. exists x. apply in_or_app. auto.
  - intros Hd Hdd Hx Hy. apply has_pp_mono. auto.
Qed.

Lemma bcasts_length : forall outs, length (bcasts outs) = length (bc_mains outs).
Proof. intro outs. rewrite <- bcasts_mains. rewrite map_length. reflexivity. Qed.

Lemma at_most_one : forall {A} (l : list A) x y, length l <= 1 -> In x l -> In y l -> x = y.
Proof.
  intros A l x y H Hx Hy. destruct l as [|a [|b l]]; simpl in *; try lia; try contradiction.
  destruct Hx as [<-|[]]. destruct Hy as [<-|[]]. reflexivity.
Qed.

Lemma kinv_fstep : forall p s e o s' outs P, 1 <= nodes p -> inv p s -> (decided s = false -> 1 <= round s) ->
  cache_fact s -> (forall m c, e = ERecv m c -> f_rc 1 (main m) = false) -> ev_cmpfail e = false ->
  kinv p s P -> fstep p s e o = Some (s', outs) -> kinv p s' (P ++ bcasts outs).
Proof.
  intros p s e o s' outs P Hn Hinv H1 Hc Hrc Hcf [K1 K2 K3 K4 K5] H.
  pose proof (fstep_effects p s e o s' outs Hn Hinv H) as [E1 [_ [E3 _]]].
  assert (Hds : decided s' = false -> decided s = false).
  { intro Hd. destruct (decided s) eqn:E; [destruct (E3 eq_refl); congruence | reflexivity]. }
  assert (Hnew : forall m, In m (bcasts outs) -> ty (main m) = PrePrepare ->
            round s' = round s /\ rnd (main m) = round s /\ pp_cur s' /\ ~ pp_cur s).
  { intros m Hm Ht. apply bcasts_In in Hm. eapply pp_emit; eauto. }
  constructor.
  - intros Hd m Hm Hs Ht. apply in_app_or in Hm. destruct Hm as [Hm|Hm].
    + eapply pp_ok_fstep; eauto.
    + destruct (Hnew m Hm Ht) as [N1 [N2 [N3 _]]]. right. split; [congruence | exact N3].
  - intros Hd m m' Hm Hm' Hs Hs' Ht Ht' Hr. apply in_app_or in Hm. apply in_app_or in Hm'.
    destruct Hm as [Hm|Hm]; destruct Hm' as [Hm'|Hm'].
    + auto.
    + exfalso. destruct (Hnew m' Hm' Ht') as [_ [N2 [_ N4]]].
      destruct (K1 (Hds Hd) m Hm Hs Ht) as [Hlt|[_ Hcur]]; [lia | auto].
    + exfalso. destruct (Hnew m Hm Ht) as [_ [N2 [_ N4]]].
      destruct (K1 (Hds Hd) m' Hm' Hs' Ht') as [Hlt|[_ Hcur]]; [lia | auto].
    + eapply at_most_one; [|exact Hm|exact Hm']. rewrite bcasts_length. exact E1.
  - intros Hd Hx. eapply kjpp_fstep; eauto.
  - intros Hd Hx. eapply kqp_fstep; eauto.
  - intros Hd Hdd Hx Hy. eapply kqrc_fstep; eauto.
Qed.

Lemma bufmsgs_fstep : forall p s e o s' outs, fstep p s e o = Some (s', outs) ->
  forall x, In x (bufmsgs (buffer s')) -> In x (bufmsgs (buffer s)) \/ exists c, e = ERecv x c.
Proof.
  intros p s e o s' outs H x Hx.
  destruct e; crush_fstep H; simpl in Hx; autorewrite with st in Hx; simpl in Hx; auto.
  all: apply (bufmsgs_s1 0 (fun z => z) p s m x) in Hx; destruct Hx as [Hx| ->]; eauto.
Qed.

(* shape of a broadcast message *)
Definition shape (ld : nat -> nat) (m : msg) : Prop :=
  match ty (main m) with
  | Prepare | Commit => just m = [] /\ pr (main m) = 0 /\ pv (main m) = 0%N
  | RoundChange => forall y, In y (just m) -> ty y = Prepare
  | PrePrepare => pr (main m) = 0 /\ pv (main m) = 0%N /\ src (main m) = ld (rnd (main m))
                  /\ forall y, In y (just m) -> ty y = RoundChange -> rnd y = rnd (main m)
  | Decided => True
  end.

Lemma bcast_shape_full : forall p s e o s' outs, 1 <= nodes p -> inv p s -> fstep p s e o = Some (s', outs) ->
  forall b J, In (Bcast b J) outs -> src b = self p /\ shape (leader p) (mkm b J).
Proof.
  intros p s e o s' outs Hn Hinv H b J Hin.
  destruct (bcast_shape p s e o s' outs H b J Hin) as [Hs Hsh]. split; [exact Hs|].
  unfold shape. simpl. destruct (ty b) eqn:Et; auto.
  destruct (fstep_pp_detail p s e o s' outs Hn Hinv H b J Hin Et) as [_ [Hl Hc]].
  destruct Hsh as [A B]. split; [exact A|]. split; [exact B|]. split.
  - unfold is_leader in Hl. apply Nat.eqb_eq in Hl. congruence.
  - intros y Hy Hty. destruct Hc as [[_ [-> _]]|[all [c0 [Ha _]]]]; [destruct Hy|]. eapply adm_qrc_rc_rnd; eauto.
Qed.


(* ------------------------------------------------------------------------------------------ *)
(* Network invariant of crash-only executions                                                  *)

Record xinv (c : cfg) (nt : net) (tr : list (nat * label)) : Prop := mkx {
  x_main : map main (sentm tr) = sent nt;
  x_parts : forall m y, In m (sentm tr) -> In y (just m) -> In y (sent nt);
  x_buf : forall i, good c i -> forall m, In m (bufmsgs (buffer (nst nt i))) -> In m (sentm tr);
  x_dec : forall b, In b (sent nt) -> ty b = Decided -> decided (nst nt (src b)) = true;
  x_rnd : forall b, In b (sent nt) -> decided (nst nt (src b)) = false -> rnd b <= round (nst nt (src b));
  x_rc2 : forall b, In b (sent nt) -> ty b = RoundChange -> 2 <= rnd b;
  x_rcu : forall b b', In b (sent nt) -> In b' (sent nt) -> ty b = RoundChange -> ty b' = RoundChange ->
          src b = src b' -> rnd b = rnd b' -> b = b';
  x_shape : forall m, In m (sentm tr) -> shape (c_leader c) m;
  x_k : forall i, good c i -> kinv (pp c i) (nst nt i) (sentm tr);
  x_dd : forall i, good c i -> dedup_fact (nst nt i);
  x_cf : forall i, good c i -> cache_fact (nst nt i)
}.

Lemma xinv_init : forall c, xinv c net_init [].
Proof.
  intro c. constructor; simpl; intros; try contradiction; auto.
  - apply kinv_init.
  - apply dedup_fact_init.
  - apply cache_fact_init.
Qed.

Lemma sentm_snoc : forall tr i l, sentm (tr ++ [(i, l)]) = sentm tr ++ bcasts (label_outs l).
Proof. intros. rewrite sentm_app. unfold sentm at 2. simpl. rewrite app_nil_r. reflexivity. Qed.

Lemma xinv_step : forall c nt tr i l nt', wf_cfg c -> allhon c -> ninv c nt -> ninv c nt' -> ppjinv c nt ->
  xinv c nt tr -> nstep c nt i l nt' -> label_nofail l = true ->
  (forall m cm outs, l = LRecv m cm outs -> In m (sentm tr)) ->
  xinv c nt' (tr ++ [(i, l)]).
Proof.
  intros c nt tr i l nt' Hwf Hall NI NI' PI [X1 X2 X3 X4 X5 X6 X7 X8 X9 X10 X11] Hs Hnf Hrecv.
  inversion Hs as [nt0 i0 l0 s' Hgood Hstep Hdel]; subst nt0 i0 l0.
  pose proof (step_fstep _ _ _ _ Hstep) as Hf.
  assert (Hn : 1 <= nodes (pp c i)) by exact (proj1 Hwf).
  pose proof (n_inv c nt NI i Hgood) as Hinv. pose proof (n_linv c nt NI i Hgood) as Hlin.
  pose proof (fstep_effects _ _ _ _ _ _ Hn Hinv Hf) as [E1 [E2 [E3 [E4 [E5 [E6 [E7 [E8 _]]]]]]]].
  assert (Hds : decided s' = false -> decided (nst nt i) = false).
  { intro Hd. destruct (decided (nst nt i)) eqn:E; [destruct (E3 eq_refl); congruence | reflexivity]. }
  assert (Hsrc : forall m, In m (bcasts (label_outs l)) -> src (main m) = i).
  { intros m Hm. apply bcasts_In in Hm. destruct (bcast_shape _ _ _ _ _ _ Hf _ _ Hm) as [A _]. exact A. }
  assert (Hsrcb : forall b, In b (bc_mains (label_outs l)) -> src b = i) by (intros b Hb; apply (E2 b Hb)).
  subst nt'.
  constructor; rewrite ?sentm_snoc; simpl.
  - rewrite map_app, bcasts_mains, X1. reflexivity.
  - intros m y Hm Hy. apply in_app_or in Hm. destruct Hm as [Hm|Hm]; [apply in_or_app; left; eauto|].
    apply bcasts_In in Hm.
    destruct (bcast_parts _ _ _ _ _ _ Hf _ _ Hm y Hy) as [A|[A|[A|[all [c0 [A1 A2]]]]]].
    + pose proof (n_prepJ c _ NI' i Hgood y) as D. simpl in D. rewrite upd_same in D. exact (deliv_allhon _ _ _ Hall (D A)).
    + apply in_or_app. left. exact (deliv_allhon _ _ _ Hall (n_qcm c nt NI i Hgood y A)).
    + pose proof (n_buf c _ NI' i Hgood y) as D. simpl in D. rewrite upd_same in D. exact (deliv_allhon _ _ _ Hall (D A)).
    + apply in_or_app. left. destruct (PI i Hgood all c0 A1) as [_ D]. exact (deliv_allhon _ _ _ Hall (D y A2)).
  - intros j Hj m Hm. apply in_or_app. left. destruct (Nat.eq_dec j i) as [->|Hne].
    + rewrite upd_same in Hm. destruct (bufmsgs_fstep _ _ _ _ _ _ Hf m Hm) as [A|[cm A]]; [eauto|].
      destruct l; simpl in A; try discriminate A. inversion A; subst. eapply Hrecv. reflexivity.
    + rewrite upd_other in Hm by assumption. eauto.
  - (* DECIDED only from decided members *)
    intros b Hb Ht. apply in_app_or in Hb. destruct Hb as [Hb|Hb].
    + destruct (Nat.eq_dec (src b) i) as [E|Hne].
      * rewrite E, upd_same. apply E3. rewrite <- E. auto.
      * rewrite upd_other by assumption. auto.
    + rewrite (Hsrcb b Hb), upd_same. rewrite <- bcasts_mains in Hb. apply in_map_iff in Hb. destruct Hb as [m [Em Hm]].
      apply bcasts_In in Hm. destruct (bcast_shape _ _ _ _ _ _ Hf _ _ Hm) as [_ Hsh]. rewrite Em, Ht in Hsh.
      apply E3. exact Hsh.
  - (* rounds of broadcasts of undecided members *)
    intros b Hb Hd. apply in_app_or in Hb. destruct Hb as [Hb|Hb].
    + destruct (Nat.eq_dec (src b) i) as [E|Hne].
      * rewrite E, upd_same in *. specialize (X5 b Hb). rewrite E in X5. specialize (X5 (Hds Hd)). specialize (E4 Hd). lia.
      * rewrite upd_other in * by assumption. auto.
    + rewrite (Hsrcb b Hb), upd_same in *. rewrite <- bcasts_mains in Hb. apply in_map_iff in Hb. destruct Hb as [m [Em Hm]].
      apply bcasts_In in Hm. rewrite Em in Hm. destruct (mtype_eqb (ty b) Decided) eqn:Et.
      * apply mtype_eqb_eq in Et. destruct (bcast_shape _ _ _ _ _ _ Hf _ _ Hm) as [_ Hsh]. rewrite Et in Hsh.
        destruct (E3 Hsh) as [Hx _]. congruence.
      * rewrite (bcast_round _ _ _ _ _ _ Hf _ _ Hm); [lia|]. intro Hx. apply mtype_eqb_eq in Hx. congruence.
  - intros b Hb Ht. apply in_app_or in Hb. destruct Hb as [Hb|Hb]; [eauto|].
    destruct (E8 b Hb Ht) as [R1 [R2 [R3 _]]]. pose proof (l_round1 _ _ _ Hlin R1). lia.
  - assert (Hold : forall b b', In b (sent nt) -> In b' (bc_mains (label_outs l)) -> ty b = RoundChange -> ty b' = RoundChange ->
                   src b = src b' -> rnd b = rnd b' -> False).
    { intros b b' Hb Hb' Ht Ht' Hsr Hr. destruct (E8 b' Hb' Ht') as [R1 [R2 [R3 _]]].
      assert (Ho : In b (own nt i)) by (apply filter_In; split; [exact Hb | apply Nat.eqb_eq; rewrite Hsr; auto]).
      pose proof (l_rc _ _ _ Hlin b Ho Ht R1). lia. }
    intros b b' Hb Hb' Ht Ht' Hsr Hr. apply in_app_or in Hb. apply in_app_or in Hb'.
    destruct Hb as [Hb|Hb]; destruct Hb' as [Hb'|Hb'].
    + eauto.
    + exfalso. eapply Hold; eauto.
    + exfalso. eapply (Hold b' b); eauto.
    + eapply at_most_one; [exact E1 | exact Hb | exact Hb'].
  - intros m Hm. apply in_app_or in Hm. destruct Hm as [Hm|Hm]; [auto|].
    apply bcasts_In in Hm. destruct (bcast_shape_full _ _ _ _ _ _ Hn Hinv Hf _ _ Hm) as [_ Hsh]. destruct m. exact Hsh.
  - intros j Hj. destruct (Nat.eq_dec j i) as [->|Hne].
    + rewrite upd_same. eapply kinv_fstep; eauto.
      * intro Hd. exact (l_round1 _ _ _ Hlin Hd).
      * intros m cm Em. destruct (f_rc 1 (main m)) eqn:Ef; [|reflexivity]. exfalso. apply f_rc_inv in Ef. destruct Ef as [Et Er].
        destruct l; simpl in Em; try discriminate Em. inversion Em; subst m0 c0.
        destruct (Hdel m cm outs eq_refl) as [Hd _]. pose proof (deliv_allhon _ _ _ Hall Hd) as Hin.
        pose proof (X6 _ Hin Et). lia.
      * apply nofail_ev. exact Hnf.
    + rewrite upd_other by assumption. apply kinv_other; [|auto]. intros m Hm. rewrite (Hsrc m Hm). simpl. auto.
  - intros j Hj. destruct (Nat.eq_dec j i) as [->|Hne]; [rewrite upd_same | rewrite upd_other by assumption; auto].
    eapply dedup_fact_fstep; eauto.
  - intros j Hj. destruct (Nat.eq_dec j i) as [->|Hne]; [rewrite upd_same | rewrite upd_other by assumption; auto].
    eapply cache_fact_fstep; eauto.
Qed.

Theorem creach_xinv : forall c nt tr, wf_cfg c -> allhon c -> creach c nt tr -> xinv c nt tr.
Proof.
  intros c nt tr Hwf Hall H. induction H as [|nt tr i l nt' H IH Hs Hnf Hm].
  - apply xinv_init.
  - destruct (creach_nreach _ _ _ H) as [Hr Hnft].
    pose proof (nreach_ninv c nt tr Hwf Hr Hnft) as NI.
    eapply xinv_step; eauto.
    + eapply ninv_step; eauto.
    + eapply nreach_ppjinv; eauto.
Qed.

(* ------------------------------------------------------------------------------------------ *)
(* The hypotheses of good_round_decides derived for a reachable crash-only state               *)

Section Derive.
Variables (c : cfg) (nt : net) (tr : list (nat * label)) (R : list nat) (r : nat).
Hypothesis Hwf : wf_cfg c.
Hypothesis Hall : allhon c.
Hypothesis Hreach : creach c nt tr.
(* the members of R are members, in round r, running *)
Hypothesis HR : forall i, In i R -> i < c_n c.
Hypothesis HRst : forall i, In i R -> round (nst nt i) = r /\ started (nst nt i) = true /\ dead (nst nt i) = false.
(* RESIDUAL ASSUMPTION: no member (in particular none of the stopped members outside R) has decided
   or is in a round beyond r *)
Hypothesis Hund : forall j, j < c_n c -> decided (nst nt j) = false /\ round (nst nt j) <= r.

Notation P := (sentm tr).
Notation ld := (c_leader c).

Lemma d_ninv : ninv c nt.
Proof. destruct (creach_nreach _ _ _ Hreach) as [A B]. exact (nreach_ninv c nt tr Hwf A B). Qed.

Lemma d_xinv : xinv c nt tr.
Proof. exact (creach_xinv c nt tr Hwf Hall Hreach). Qed.

Lemma d_good : forall j, j < c_n c -> good c j.
Proof. intros j Hj. split; [exact Hj | exact (Hall j Hj)]. Qed.

Lemma d_main_sent : forall m, In m P -> In (main m) (sent nt).
Proof. intros m Hm. rewrite <- (x_main _ _ _ d_xinv). apply in_map. exact Hm. Qed.

Lemma d_sent_main : forall b, In b (sent nt) -> has_main P b.
Proof.
  intros b Hb. rewrite <- (x_main _ _ _ d_xinv) in Hb. apply in_map_iff in Hb. destruct Hb as [m [E Hm]]. exists m. auto.
Qed.

Lemma d_src : forall b, In b (sent nt) -> src b < c_n c.
Proof. intros b Hb. exact (proj1 (n_sent c nt d_ninv b Hb)). Qed.

(* every broadcast message is accepted by isJustified everywhere (NeverUnjust.v) *)
Lemma d_justified : forall m, In m P -> forall j c', justified (pp c j) m c' = true.
Proof.
  intros m Hm j c'. unfold sentm in Hm. apply in_flat_map in Hm. destruct Hm as [[i l] [Hil Hm]]. simpl in Hm.
  apply bcasts_In in Hm. destruct (creach_nreach _ _ _ Hreach) as [A B].
  pose proof (honest_never_unjust c nt tr Hwf Hall A B i l (main m) (just m) Hil Hm j c') as H.
  destruct m. exact H.
Qed.

Lemma d_deliv : forall l b, deliv c l b -> In b l.
Proof. intros l b. apply deliv_allhon. exact Hall. Qed.

Lemma nsrc_witness : forall f (l : list bmsg), 1 <= nsrc f l -> exists b, In b l /\ f b = true.
Proof.
  intros f l H. unfold nsrc in H. destruct (filter f l) as [|b t] eqn:E; [simpl in H; lia|].
  assert (Hin : In b (filter f l)) by (rewrite E; left; reflexivity). apply filter_In in Hin. eauto.
Qed.

(* a PREPARE was sent in answer to a PRE-PREPARE of the round's leader for that value *)
Lemma d_prepare_pp : forall b, In b (sent nt) -> ty b = Prepare ->
  exists mp, In mp P /\ ty (main mp) = PrePrepare /\ rnd (main mp) = rnd b /\ src (main mp) = ld (rnd b)
             /\ val (main mp) = val b.
Proof.
  intros b Hb Ht. destruct (in_split _ _ Hb) as [pre [post E]].
  destruct (n_cpp c nt d_ninv pre b post E Ht) as [ppm [D [T [Rn [V S]]]]].
  assert (Hin : In ppm (sent nt)) by (rewrite E; apply in_or_app; left; apply d_deliv; exact D).
  destruct (d_sent_main ppm Hin) as [mp [M1 M2]]. exists mp. rewrite M2. auto.
Qed.

(* every message that carries a value of round r leads back to a PRE-PREPARE(r) of the leader *)
Lemma d_carrier_pp : forall m, In m P -> carrier ld r (main m) = true ->
  exists mp, In mp P /\ ty (main mp) = PrePrepare /\ rnd (main mp) = r /\ src (main mp) = ld r
             /\ val (main mp) = val (main m).
Proof.
  intros m Hm Hc. pose proof (d_main_sent m Hm) as Hb. unfold carrier in Hc.
  destruct (ty (main m)) eqn:Et; try discriminate Hc.
  - apply andb_true_iff in Hc. destruct Hc as [C1 C2]. apply Nat.eqb_eq in C1, C2. exists m. auto.
  - apply Nat.eqb_eq in Hc. destruct (d_prepare_pp _ Hb Et) as [mp H]. rewrite Hc in H. exists mp. exact H.
  - apply Nat.eqb_eq in Hc. destruct (n_ccommit c nt d_ninv _ Hb Et) as [L [L1 L2]].
    pose proof (quorum_pos (c_n c) (proj1 Hwf)) as Hq.
    destruct (nsrc_witness _ L (Nat.le_trans _ _ _ Hq L2)) as [y [Y1 Y2]]. apply f_trv_inv in Y2. destruct Y2 as [Y2 [Y3 Y4]].
    destruct (d_prepare_pp y (d_deliv _ _ (L1 y Y1)) Y2) as [mp H]. rewrite Y3, Y4, Hc in H. exists mp. exact H.
  - exfalso. pose proof (x_dec _ _ _ d_xinv _ Hb Et) as Hd. destruct (Hund _ (d_src _ Hb)) as [Hu _]. congruence.
Qed.

Lemma d_pool_ok : pool_ok ld r P.
Proof.
  constructor.
  - intros m Hm. pose proof (d_main_sent m Hm) as Hb. destruct (Hund _ (d_src _ Hb)) as [Hu Hr].
    pose proof (x_rnd _ _ _ d_xinv _ Hb Hu). lia.
  - intros m Hm Ht. exfalso. pose proof (d_main_sent m Hm) as Hb.
    pose proof (x_dec _ _ _ d_xinv _ Hb Ht) as Hd. destruct (Hund _ (d_src _ Hb)) as [Hu _]. congruence.
  - intros m m' Hm Hm' C C'.
    destruct (d_carrier_pp m Hm C) as [mp [A1 [A2 [A3 [A4 A5]]]]].
    destruct (d_carrier_pp m' Hm' C') as [mp' [B1 [B2 [B3 [B4 B5]]]]].
    pose proof (d_main_sent mp A1) as Hb. pose proof (d_src _ Hb) as Hl. rewrite A4 in Hl.
    destruct (Hund _ Hl) as [Hu _].
    assert (E : mp = mp').
    { apply (k_ppu _ _ _ (x_k _ _ _ d_xinv (ld r) (d_good _ Hl)) Hu); auto; simpl; congruence. }
    subst mp'. congruence.
  - intros m b Hm Hb Hp. apply d_sent_main. eapply (x_parts _ _ _ d_xinv); eauto.
Qed.


Lemma d_start_ok : forall i, In i R -> start_ok r P i (nst nt i).
Proof.
  intros i Hi. pose proof (HR i Hi) as Hlt. pose proof (d_good i Hlt) as Hg.
  destruct (HRst i Hi) as [Hr [Hst Hdd]]. destruct (Hund i Hlt) as [Hu _].
  pose proof (x_k _ _ _ d_xinv i Hg) as K. pose proof (x_dd _ _ _ d_xinv i Hg Hu) as D.
  constructor; auto.
  - intro Hx. rewrite <- Hr in Hx |- *. exact (k_jpp _ _ _ K Hu Hx).
  - intro Hx. rewrite <- Hr in Hx |- *. exact (k_qp _ _ _ K Hu Hx).
  - exact (proj1 (D r)).
  - intro k. exact (proj2 (D k)).
  - intros b Hb _. apply d_sent_main. apply d_deliv. exact (n_buf c nt d_ninv i Hg b Hb).
Qed.


Definition g_of : gcfg := mkg (nst nt) P (fun _ => []) [].

Lemma d_norc1 : norc 1 g_of.
Proof.
  intros m Hm Ht Hr. simpl in Hm. pose proof (x_rc2 _ _ _ d_xinv _ (d_main_sent m Hm) Ht). lia.
Qed.

Lemma d_pp_form : forall m, In m P -> ty (main m) = PrePrepare ->
  m = mkm (mk PrePrepare (ld (rnd (main m))) (rnd (main m)) (val (main m)) 0 0) (just m) /\ val (main m) <> 0%N.
Proof.
  intros m Hm Ht. pose proof (x_shape _ _ _ d_xinv m Hm) as Hs. unfold shape in Hs. rewrite Ht in Hs.
  destruct Hs as [S1 [S2 [S3 _]]]. split.
  - destruct m as [[t s0 r0 v0 p0 w0] j]. simpl in *. subst. reflexivity.
  - pose proof (d_justified m Hm 0 0) as Hj. unfold justified in Hj. rewrite Ht in Hj. unfold justified_preprepare in Hj.
    rewrite !andb_true_iff in Hj. destruct Hj as [[_ Hv] _]. apply negb_true_iff, N.eqb_neq in Hv. exact Hv.
Qed.

Lemma d_case_r1 : r = 1 -> (exists m, In m P /\ ty (main m) = PrePrepare /\ rnd (main m) = 1) ->
  exists v J, v <> 0%N /\ In (mkm (mk PrePrepare (ld 1) 1 v 0 0) J) P.
Proof.
  intros _ [m [Hm [Ht Hr]]]. destruct (d_pp_form m Hm Ht) as [E Hv]. rewrite Hr in E.
  exists (val (main m)), (just m). split; [exact Hv | rewrite <- E; exact Hm].
Qed.


(* well-formedness of every PREPARE part around *)
Lemma d_prep_wf : forall b, In b (sent nt) -> ty b = Prepare -> 1 <= rnd b /\ val b <> 0%N.
Proof.
  intros b Hb Ht. split.
  - pose proof (n_linv c nt d_ninv (src b) (n_sent c nt d_ninv b Hb)) as L.
    exact (l_prep_pos _ _ _ L b (own_intro nt b Hb) Ht).
  - exact (sent_prepare_nonzero c nt d_ninv b Hb Ht).
Qed.

Section Case2.
Hypothesis HlR : In (ld r) R.
Hypothesis Hinp : input (nst nt (ld r)) <> 0%N.
Hypothesis Hrcs : forall i, In i R -> exists m, In m P /\ f_rc r (main m) = true /\ src (main m) = i.

Lemma d_r2 : 2 <= r.
Proof.
  destruct (Hrcs _ HlR) as [m [M1 [M2 _]]]. apply f_rc_inv in M2. destruct M2 as [T Rn].
  pose proof (x_rc2 _ _ _ d_xinv _ (d_main_sent m M1) T). lia.
Qed.

Lemma d_rcs : rcs_in_pool (c_n c) (c_fifo c) ld r R P.
Proof.
  intros i Hi. destruct (Hrcs i Hi) as [m [M1 [M2 M3]]]. exists m. repeat split; auto.
  pose proof (d_justified m M1 (ld r) 0) as Hj. apply f_rc_inv in M2. destruct M2 as [T _].
  unfold justified in Hj. rewrite T in Hj. exact Hj.
Qed.

Section Fresh.
Hypothesis Hnd : is_dup (nst nt (ld r)) QRC r = false.

Lemma d_nocar : forall m, In m P -> carrier ld r (main m) = false.
Proof.
  intros m Hm. destruct (carrier ld r (main m)) eqn:C; [|reflexivity]. exfalso.
  destruct (d_carrier_pp m Hm C) as [mp [A1 [A2 [A3 [A4 A5]]]]].
  pose proof (HR _ HlR) as Hl. destruct (Hund _ Hl) as [Hu _]. destruct (HRst _ HlR) as [Hr _].
  pose proof (k_pp _ _ _ (x_k _ _ _ d_xinv (ld r) (d_good _ Hl)) Hu mp A1 A4 A2) as Hk.
  rewrite A3 in Hk. unfold pp_ok, pp_cur in Hk. rewrite Hr in Hk. pose proof d_r2.
  destruct Hk as [Hk|[_ [[Hk _]|[Hk _]]]]; [lia | lia | congruence].
Qed.

Lemma d_nest : forall m y, In m P -> In y (just m) -> f_rc r y = false.
Proof.
  intros m y Hm Hy. destruct (f_rc r y) eqn:F; [|reflexivity]. exfalso. apply f_rc_inv in F. destruct F as [Ty Ry].
  pose proof (x_shape _ _ _ d_xinv m Hm) as Hs. unfold shape in Hs. pose proof (d_nocar m Hm) as Hc. unfold carrier in Hc.
  destruct (ty (main m)) eqn:Et.
  - destruct Hs as [_ [_ [S3 S4]]]. rewrite (S4 y Hy Ty) in Ry. rewrite Ry, S3, Ry, !Nat.eqb_refl in Hc. discriminate.
  - destruct Hs as [S1 _]. rewrite S1 in Hy. destruct Hy.
  - destruct Hs as [S1 _]. rewrite S1 in Hy. destruct Hy.
  - rewrite (Hs y Hy) in Ty. discriminate.
  - discriminate.
Qed.

Lemma d_pool_fresh : pool_fresh ld r P.
Proof.
  constructor.
  - exact d_nocar.
  - intros m b Hm Hb Ht. apply d_prep_wf; [|exact Ht]. destruct Hb as [<-|Hb]; [apply d_main_sent; exact Hm|].
    eapply (x_parts _ _ _ d_xinv); eauto.
  - exact d_nest.
  - intros m m' Hm Hm' F F' Hs. apply f_rc_inv in F, F'. destruct F as [T Rn]. destruct F' as [T' Rn'].
    assert (E : main m = main m').
    { apply (x_rcu _ _ _ d_xinv); auto using d_main_sent. congruence. }
    rewrite E. auto.
Qed.

Lemma d_buf_fresh : buf_fresh (c_n c) (c_fifo c) ld r P (nst nt (ld r)).
Proof.
  pose proof (HR _ HlR) as Hl. pose proof (d_good _ Hl) as Hg.
  constructor.
  - intros b Hb Ht. apply d_prep_wf; [|exact Ht]. apply d_deliv. exact (n_buf c nt d_ninv _ Hg b Hb).
  - intros m y Hm Hy. apply (d_nest m y); [|exact Hy]. exact (x_buf _ _ _ d_xinv _ Hg m Hm).
  - intros m Hm F. pose proof (x_buf _ _ _ d_xinv _ Hg m Hm) as HmP. split; [|exists m; auto].
    pose proof (d_justified m HmP (ld r) 0) as Hj. apply f_rc_inv in F. destruct F as [T _].
    unfold justified in Hj. rewrite T in Hj. exact Hj.
Qed.

End Fresh.

Lemma d_leader_ok : leader_ok (c_n c) (c_fifo c) ld r P (nst nt (ld r)).
Proof.
  pose proof (HR _ HlR) as Hl. pose proof (d_good _ Hl) as Hg.
  destruct (Hund _ Hl) as [Hu _]. destruct (HRst _ HlR) as [Hr [_ Hdd]]. pose proof d_r2 as Hr2.
  constructor.
  - exact Hinp.
  - exact (n_cfr c nt d_ninv _ Hg).
  - intro Hnd. split; [|split; [exact (d_pool_fresh Hnd) | exact (d_buf_fresh Hnd)]].
    destruct (x_cf _ _ _ d_xinv _ Hg) as [_ Hc]. rewrite Hr in Hc.
    destruct (ppj (nst nt (ld r))); [reflexivity | lia | congruence].
  - intro Hd. assert (Hd' : is_dup (nst nt (ld r)) QRC (round (nst nt (ld r))) = true) by (rewrite Hr; exact Hd).
    destruct (k_qrc _ _ _ (x_k _ _ _ d_xinv _ Hg) Hu Hdd Hd' (or_introl Hinp)) as [m [M1 [M2 [M3 M4]]]].
    exists m. split; [exact M1|]. split; [exact M3|]. split; [congruence|]. intros i c'. exact (d_justified m M1 i c').
Qed.

End Case2.

End Derive.

(* ------------------------------------------------------------------------------------------ *)
(* good_round_decides from reachability in Net.v                                               *)

Theorem good_round_decides_from_net : forall c nt tr R r g,
  wf_cfg c -> allhon c -> creach c nt tr ->
  NoDup R -> quorum (c_n c) <= length R -> (forall i, In i R -> i < c_n c) -> In (c_leader c r) R ->
  (forall i, In i R -> round (nst nt i) = r /\ started (nst nt i) = true /\ dead (nst nt i) = false) ->
  (forall j, j < c_n c -> decided (nst nt j) = false /\ round (nst nt j) <= r) ->
  ((r = 1 /\ exists m, In m (sentm tr) /\ ty (main m) = PrePrepare /\ rnd (main m) = 1)
   \/ (input (nst nt (c_leader c r)) <> 0%N
       /\ forall i, In i R -> exists m, In m (sentm tr) /\ f_rc r (main m) = true /\ src (main m) = i)) ->
  gsteps (c_n c) (c_fifo c) (c_leader c) R (g_of nt tr) g -> delivered_all R g ->
  fifo_ok (c_fifo c) R (g_of nt tr) g ->
  exists v, (forall i, In i R -> exists k, In (i, v, k) (gdecs g))
            /\ (forall i x k, In (i, x, k) (gdecs g) -> x = v /\ k = r).
Proof.
  intros c nt tr R r g Hwf Hall Hreach Hnd Hq HR HlR HRst Hund Hcase Hsteps Hdel Hfifo.
  apply (good_round_decides (c_n c) (c_fifo c) (c_leader c) R r (g_of nt tr) g); auto.
  - exact (proj1 Hwf).
  - simpl. eapply d_pool_ok; eauto.
  - intros i Hi. simpl. eapply d_start_ok; eauto.
  - destruct Hcase as [[E1 Hpp]|[Hinp Hrcs]].
    + left. split; [exact E1|]. subst r. split; [eapply d_norc1; eauto|]. simpl. eapply d_case_r1; eauto.
    + right. simpl. split; [eapply d_leader_ok; eauto | eapply d_rcs; eauto].
Qed.

(* a reading of the invariant of independent interest: a member that has not decided has broadcast
   at most one PRE-PREPARE per round (crash-only executions, any n) *)
Theorem one_preprepare_per_round : forall c nt tr, wf_cfg c -> allhon c -> creach c nt tr ->
  forall m m', In m (sentm tr) -> In m' (sentm tr) ->
  ty (main m) = PrePrepare -> ty (main m') = PrePrepare ->
  src (main m) = src (main m') -> rnd (main m) = rnd (main m') ->
  decided (nst nt (src (main m))) = false -> m = m'.
Proof.
  intros c nt tr Hwf Hall Hr m m' Hm Hm' Ht Ht' Hs Hrn Hd.
  pose proof (creach_xinv c nt tr Hwf Hall Hr) as X.
  destruct (creach_nreach _ _ _ Hr) as [A B]. pose proof (nreach_ninv c nt tr Hwf A B) as NI.
  assert (Hb : In (main m) (sent nt)) by (rewrite <- (x_main _ _ _ X); apply in_map; exact Hm).
  pose proof (n_sent c nt NI _ Hb) as Hg.
  apply (k_ppu _ _ _ (x_k _ _ _ X _ Hg) Hd); auto; simpl; congruence.
Qed.
