(* C04 termination: the closure hypotheses of [good_round_decides] (Qbft/GoodRound.v) DERIVED from
   reachability in the network semantics Qbft/Net.v for crash-only executions:
     - no Byzantine member ([allhon]); members may stop taking steps at any point;
     - no Compare failure;
     - the network delays, drops, duplicates and reorders, but delivers every message with the
       justification it was sent with ([creach]; Net.v alone also lets the network re-assemble
       justifications out of honest parts -- see [cross_assembly_breaks_buf_fresh] for why that is
       excluded here).
   The pool is ALL messages broadcast so far, with their justifications ([sentm tr]). *)
From Coq Require Import List NArith Arith Bool Lia.
From Charon Require Import Common.Quorum Qbft.Model Qbft.Monitor Qbft.ModelFacts Qbft.Justified
  Qbft.GoodRound Qbft.GoodRoundFacts Qbft.GoodRoundQrc
  Qbft.Inv Qbft.Card Qbft.Net Qbft.NetInv Qbft.Agreement Qbft.NeverUnjust.
Import ListNotations.
Set Warnings "-unused-intro-pattern".

(* ------------------------------------------------------------------------------------------ *)
(* Crash-only reachability                                                                     *)

Definition allhon (c : cfg) : Prop := forall k, k < c_n c -> c_honest c k = true.

(* every message broadcast in a global trace, with the justification it was sent with *)
Definition sentm (tr : list (nat * label)) : list msg := flat_map (fun e => bcasts (label_outs (snd e))) tr.

Inductive creach (c : cfg) : net -> list (nat * label) -> Prop :=
| CR0 : creach c net_init []
| CRS : forall nt tr i l nt', creach c nt tr -> nstep c nt i l nt' -> label_nofail l = true ->
    (forall m cm outs, l = LRecv m cm outs -> In m (sentm tr)) ->
    creach c nt' (tr ++ [(i, l)]).

Lemma creach_nreach : forall c nt tr, creach c nt tr -> nreach c nt tr /\ trace_nofail tr.
Proof.
  intros c nt tr H. induction H as [|nt tr i l nt' H [IH1 IH2] Hs Hnf Hm].
  - split; [constructor | intros i l []].
  - split; [econstructor; eassumption|]. intros j l' Hin. apply in_app_or in Hin.
    destruct Hin as [Hin|[Hin|[]]]; [eapply IH2; eassumption | inversion Hin; subst; exact Hnf].
Qed.

Lemma sentm_app : forall a b, sentm (a ++ b) = sentm a ++ sentm b.
Proof. intros. unfold sentm. apply flat_map_app. Qed.

Lemma bcasts_mains : forall outs, map main (bcasts outs) = bc_mains outs.
Proof. induction outs as [|o outs IH]; [reflexivity|]. destruct o; simpl; rewrite ?IH; reflexivity. Qed.

Lemma bcasts_In : forall outs m, In m (bcasts outs) <-> In (Bcast (main m) (just m)) outs.
Proof.
  induction outs as [|o outs IH]; intro m; simpl; [tauto|].
  destruct o; simpl; rewrite IH; try (split; [auto | intros [H|H]; [discriminate | auto]]).
  destruct m as [mb mj]. simpl. split; intros [H|H]; auto; left; inversion H; reflexivity.
Qed.

Lemma deliv_allhon : forall c l b, allhon c -> deliv c l b -> In b l.
Proof. intros c l b Ha [H1 [H2|H2]]; [exact H2 | rewrite (Ha _ H1) in H2; discriminate]. Qed.

(* ------------------------------------------------------------------------------------------ *)
(* Single process: shape and provenance of what is broadcast                                   *)

Ltac in_outs Hin :=
  simpl in Hin; rewrite ?in_app_iff in Hin; simpl in Hin;
  repeat match type of Hin with
  | _ \/ _ => destruct Hin as [Hin|Hin]
  | False => contradiction
  end; try discriminate Hin; try (inversion Hin; subst; clear Hin).

Lemma prep_pick_types : forall s J y, prep_pick_ok s J = true -> In y J -> ty y = Prepare.
Proof.
  intros s J y H Hy. unfold prep_pick_ok in H. apply pick_ok_spec in H. destruct H as [_ [H _]].
  rewrite forallb_forall in H. specialize (H y Hy). apply f_trv_inv in H. tauto.
Qed.

Lemma bcast_shape : forall p s e o s' outs, fstep p s e o = Some (s', outs) ->
  forall b J, In (Bcast b J) outs ->
  src b = self p /\
  match ty b with
  | Prepare | Commit => J = [] /\ pr b = 0 /\ pv b = 0%N
  | RoundChange => forall y, In y J -> ty y = Prepare
  | PrePrepare => pr b = 0 /\ pv b = 0%N
  | Decided => decided s = true
  end.
Proof.
  intros p s e o s' outs H b J Hin.
  destruct e; crush_fstep H; in_outs Hin; simpl; auto.
  all: try (split; [reflexivity|]; intros y Hy; eapply prep_pick_types; eauto; fail).
  apply andb_true_iff in Heqb5. destruct Heqb5 as [_ Hp]. split; [reflexivity|]. intros y Hy. eapply prep_pick_types; eauto.
Qed.


Lemma prep_pick_sub : forall s J y, prep_pick_ok s J = true -> In y J -> In y (prepJ s).
Proof.
  intros s J y H Hy. unfold prep_pick_ok in H. apply pick_ok_spec in H. destruct H as [_ [_ [H _]]]. auto.
Qed.

Lemma bcast_parts : forall p s e o s' outs, fstep p s e o = Some (s', outs) ->
  forall b J, In (Bcast b J) outs -> forall y, In y J ->
  In y (prepJ s') \/ In y (qcommit s) \/ In y (flat (buffer s')) \/ (exists all c0, ppj s = PQrc all c0 /\ In y all).
Proof.
  intros p s e o s' outs H b J Hin y Hy.
  destruct e; crush_fstep H; in_outs Hin; simpl; auto; try contradiction.
  all: try (left; eapply prep_pick_sub; eauto; fail).
  all: try (right; right; left; simpl; autorewrite with st; eapply adm_qrc_sub; eauto; fail).
  - right. right. right. exists all, c. split; [reflexivity|]. apply andb_true_iff in Heqb2. destruct Heqb2 as [Ha _].
    eapply adm_qrc_sub; eauto.
  - apply andb_true_iff in Heqb5. destruct Heqb5 as [_ Hp]. left. simpl in Hp. exact (prep_pick_sub _ _ y Hp Hy).
  - right. right. left. eapply adm_qrc_sub; eauto.
  - right. right. left. eapply adm_qrc_sub; eauto.
Qed.

(* the round of a broadcast (other than DECIDED) is the sender's round after the step *)
Lemma bcast_round : forall p s e o s' outs, fstep p s e o = Some (s', outs) ->
  forall b J, In (Bcast b J) outs -> ty b <> Decided -> rnd b = round s'.
Proof.
  intros p s e o s' outs H b J Hin Ht.
  destruct e; crush_fstep H; in_outs Hin; simpl; autorewrite with st; simpl; auto; try congruence.
  apply Nat.eqb_eq in Heqb5. autorewrite with st in Heqb5. simpl in Heqb5. auto.
Qed.

Lemma adm_qrc_rc_rnd : forall p all r J y, adm_qrc p all r J = true -> In y J -> ty y = RoundChange -> rnd y = r.
Proof.
  intros p all r J y H Hy Ht. unfold adm_qrc in H. destruct (nullQ p all r).
  - apply pick_ok_spec in H. destruct H as [_ [H _]]. rewrite forallb_forall in H. specialize (H y Hy).
    rewrite f_rc_null_split in H. apply andb_true_iff in H. destruct H as [H _]. apply f_rc_inv in H. tauto.
  - apply andb_true_iff in H. destruct H as [HJ H]. apply list_beq_eq in HJ.
    destruct (filter (is_ty Prepare) J) as [|p0 Jp'] eqn:EJp; [discriminate|].
    rewrite !andb_true_iff in H. destruct H as [[[[[[_ _] _] Hall] _] _] _].
    assert (Hin : In y (filter (is_ty RoundChange) J)) by (apply filter_In; split; [exact Hy | unfold is_ty; rewrite Ht; reflexivity]).
    rewrite forallb_forall in Hall. specialize (Hall y Hin). rewrite !andb_true_iff in Hall.
    destruct Hall as [[Hf _] _]. apply f_rc_inv in Hf. tauto.
Qed.


(* ------------------------------------------------------------------------------------------ *)
(* Single process: what a member has done in its current round is among its broadcasts         *)

Ltac idp_in H := rewrite ?is_dup_set_timer', ?is_dup_set_prepared', ?is_dup_set_decided', ?idp_buffer, ?idp_cfr, ?idp_ppj,
  ?idp_input, ?idp_resends, ?idp_started, ?idp_dead, ?idp_round, ?is_dup_mark in H.

Lemma kjpp_fstep : forall p s e o s' outs P, 
  (decided s = false -> is_dup s JustPrePrepare (round s) = true -> exists x, In (mkm (mk Prepare (self p) (round s) x 0 0) []) P) ->
  fstep p s e o = Some (s', outs) -> ev_cmpfail e = false ->
  decided s' = false -> is_dup s' JustPrePrepare (round s') = true ->
  exists x, In (mkm (mk Prepare (self p) (round s') x 0 0) []) (P ++ bcasts outs).
Proof.
  intros p s e o s' outs P IH H Hcf A1 A2.
  destruct e; crush_fstep H; try discriminate Hcf; undec A1; simpl in A2; autorewrite with st in A2; simpl in A2; repeat idp_in A2; simpl in A2;
    try discriminate A2.
  all: simpl; autorewrite with st; simpl.
  all: try congruence.
  all: try (first [destruct (IH A1 A2) as [x Hx] | destruct (IH eq_refl A2) as [x Hx]]; exists x; apply in_or_app; left; exact Hx).
  all: try (exists (val (main m)); apply in_or_app; right; simpl; left;
            repeat match goal with E : (_ =? _) = true |- _ => apply Nat.eqb_eq in E; autorewrite with st in E; simpl in E end;
            congruence).
Qed.

Lemma kqp_fstep : forall p s e o s' outs P, 
  (decided s = false -> is_dup s QPrepares (round s) = true -> exists x, In (mkm (mk Commit (self p) (round s) x 0 0) []) P) ->
  fstep p s e o = Some (s', outs) -> ev_cmpfail e = false ->
  decided s' = false -> is_dup s' QPrepares (round s') = true ->
  exists x, In (mkm (mk Commit (self p) (round s') x 0 0) []) (P ++ bcasts outs).
Proof.
  intros p s e o s' outs P IH H Hcf A1 A2.
  destruct e; crush_fstep H; try discriminate Hcf; undec A1; simpl in A2; autorewrite with st in A2; simpl in A2; repeat idp_in A2; simpl in A2;
    try discriminate A2.
  all: simpl; autorewrite with st; simpl.
  all: try congruence.
  all: try (first [destruct (IH A1 A2) as [x Hx] | destruct (IH eq_refl A2) as [x Hx]]; exists x; apply in_or_app; left; exact Hx).
  all: try (exists (val (main m)); apply in_or_app; right; simpl; left;
            repeat match goal with E : (_ =? _) = true |- _ => apply Nat.eqb_eq in E; autorewrite with st in E; simpl in E end;
            congruence).
Qed.


Definition has_pp (p : params) (P : list msg) (k : nat) : Prop :=
  exists m, In m P /\ src (main m) = self p /\ ty (main m) = PrePrepare /\ rnd (main m) = k.

Lemma has_pp_mono : forall p P X k, has_pp p P k -> has_pp p (P ++ X) k.
Proof. intros p P X k [m [H1 H2]]. exists m. split; [apply in_or_app; auto | exact H2]. Qed.

Lemma kqrc_fstep : forall p s e o s' outs P,
  (decided s = false -> dead s = false -> is_dup s QRC (round s) = true -> input s <> 0%N \/ ppj s = PNone -> has_pp p P (round s)) ->
  fstep p s e o = Some (s', outs) -> ev_cmpfail e = false ->
  decided s' = false -> dead s' = false -> is_dup s' QRC (round s') = true -> input s' <> 0%N \/ ppj s' = PNone ->
  has_pp p (P ++ bcasts outs) (round s').
Proof.
  intros p s e o s' outs P IH H Hcf A1 A0 A2 A3.
  destruct e; crush_fstep H; try discriminate Hcf; undec A1; simpl in A0, A2, A3; autorewrite with st in A0, A2, A3; simpl in A0, A2, A3;
    repeat idp_in A2; simpl in A2; try discriminate A2; try discriminate A0.
  all: simpl; autorewrite with st; simpl.
  all: try congruence.
  all: try (apply has_pp_mono; first [apply IH; auto; fail | apply (IH eq_refl); auto; fail]).
  all: try (destruct A3 as [A3|A3]; try discriminate A3; apply has_pp_mono; first [apply IH; auto; fail | apply (IH eq_refl); auto; fail]).
  all: try (eexists; split; [apply in_or_app; right; left; reflexivity | simpl; auto]; fail).
  all: exfalso; destruct A3 as [A3|A3]; [|discriminate A3];
    match goal with E : (input _ =? 0)%N = true |- _ => autorewrite with st in E; simpl in E; apply N.eqb_eq in E; contradiction end.
Qed.


Lemma ppj_keep : forall p s e o s' outs, inv p s -> fstep p s e o = Some (s', outs) ->
  ppj s = PNone -> is_dup s QRC (round s) = true -> ppj s' = PNone.
Proof.
  intros p s e o s' outs Hinv H Hp Hd. destruct e.
  - crush_fstep H. apply orb_false_iff in Heqb. destruct Heqb as [Hst _]. rewrite (i_init p s Hinv Hst) in Hd. discriminate.
    apply orb_false_iff in Heqb. destruct Heqb as [Hst _]. rewrite (i_init p s Hinv Hst) in Hd. discriminate.
  - crush_fstep H; simpl; autorewrite with st; simpl; auto; congruence.
  - crush_fstep H; try rule_facts2; simpl; autorewrite with st; simpl; auto; try congruence.
    all: exfalso; destruct Hr as [_ [Hr _]]; simpl in Hr; rewrite Hr in Hnd; unfold is_dup in *; simpl in Hnd; congruence.
  - crush_fstep H; reflexivity.
Qed.

(* a PRE-PREPARE of round k in the member's log is accounted for by its state *)
Definition pp_cur (s : state) : Prop :=
  (round s = 1 /\ input s <> 0%N) \/ (is_dup s QRC (round s) = true /\ (input s <> 0%N \/ ppj s = PNone)).
Definition pp_ok (s : state) (k : nat) : Prop := k < round s \/ (k = round s /\ pp_cur s).

Lemma pp_ok_fstep : forall p s e o s' outs k, 1 <= nodes p -> inv p s -> (decided s = false -> 1 <= round s) ->
  pp_ok s k -> fstep p s e o = Some (s', outs) -> decided s' = false -> pp_ok s' k.
Proof.
  intros p s e o s' outs k Hn Hinv H1 Hk H Hd.
  pose proof (fstep_effects p s e o s' outs Hn Hinv H) as [_ [_ [E3 [E4 [E5 _]]]]].
  destruct (fstep_pp_origin p s e o s' outs Hn H) as [_ [I1 I2]].
  assert (Hds : decided s = false) by (destruct (decided s) eqn:E; [destruct (E3 eq_refl); congruence | reflexivity]).
  specialize (E4 Hd). specialize (E5 Hd). specialize (H1 Hds).
  destruct Hk as [Hk|[Hk Hc]]; [left; lia|].
  destruct (Nat.eq_dec (round s') (round s)) as [Er|Er]; [|left; lia].
  right. split; [congruence|]. unfold pp_cur in *. rewrite Er.
  destruct Hc as [[C1 C2]|[C1 C2]].
  - left. split; [assumption|]. rewrite (I1 C2). exact C2.
  - right. split; [apply E5; auto|]. destruct C2 as [C2|C2].
    + left. rewrite (I1 C2). exact C2.
    + right. eapply ppj_keep; eauto.
Qed.



Lemma pp_emit : forall p s e o s' outs b J, inv p s -> cache_fact s ->
  (forall m c, e = ERecv m c -> f_rc 1 (main m) = false) ->
  fstep p s e o = Some (s', outs) -> In (Bcast b J) outs -> ty b = PrePrepare ->
  round s' = round s /\ rnd b = round s /\ pp_cur s' /\ ~ pp_cur s.
Proof.
  intros p s e o s' outs b J Hinv [_ Hc] Hrc H Hin Ht. pose proof (i_ppj p s Hinv) as Hi.
  destruct e; crush_fstep H; try rule_facts2; in_outs Hin; try discriminate Ht; unfold pp_cur; simpl; autorewrite with st; simpl.
  - (* input arrives at the round-1 leader *)
    apply orb_false_iff in Heqb0. destruct Heqb0 as [_ Hin0]. apply negb_false_iff, N.eqb_eq in Hin0. apply N.eqb_neq in Heqb1.
    repeat split; auto. intros [[_ X]|[_ [X|X]]]; congruence.
  - (* input releases the cached justification *)
    apply orb_false_iff in Heqb0. destruct Heqb0 as [_ Hin0]. apply negb_false_iff, N.eqb_eq in Hin0. apply N.eqb_neq in Heqb1.
    repeat split; auto. intros [[_ X]|[_ [X|X]]]; congruence.
  - destruct Hr as [Hty [Hrr _]]; simpl in Hrr.
    assert (Hr1 : round s <> 1) by
      (intro E; specialize (Hrc m _ eq_refl); unfold f_rc, is_ty in Hrc; rewrite Hty, Hrr, E in Hrc; discriminate).
    assert (Hnd' : is_dup s QRC (round s) = false) by (rewrite <- Hrr; exact Hnd).
    split; [reflexivity|]. split; [reflexivity|]. split; [|intros [[X _]|[X _]]; [contradiction | congruence]].
    right. split; [rewrite is_dup_mark, Hrr, Nat.eqb_refl; reflexivity|].
    destruct (ppj s) eqn:Ep; [right; reflexivity | exfalso; auto | exfalso; congruence].
  - destruct Hr as [Hty [Hrr _]]; simpl in Hrr.
    assert (Hr1 : round s <> 1) by
      (intro E; specialize (Hrc m _ eq_refl); unfold f_rc, is_ty in Hrc; rewrite Hty, Hrr, E in Hrc; discriminate).
    assert (Hnd' : is_dup s QRC (round s) = false) by (rewrite <- Hrr; exact Hnd).
    split; [reflexivity|]. split; [reflexivity|]. split; [|intros [[X _]|[X _]]; [contradiction | congruence]].
    right. split; [rewrite is_dup_mark, Hrr, Nat.eqb_refl; reflexivity|].
    left. autorewrite with st in *. simpl in *. apply N.eqb_neq. assumption.
Qed.


(* ------------------------------------------------------------------------------------------ *)
(* The per-member invariant relating a member's state to the messages broadcast so far         *)

Record kinv (p : params) (s : state) (P : list msg) : Prop := mkk {
  k_pp : decided s = false -> forall m, In m P -> src (main m) = self p -> ty (main m) = PrePrepare ->
         pp_ok s (rnd (main m));
  (* one PRE-PREPARE per round *)
  k_ppu : decided s = false -> forall m m', In m P -> In m' P ->
          src (main m) = self p -> src (main m') = self p ->
          ty (main m) = PrePrepare -> ty (main m') = PrePrepare ->
          rnd (main m) = rnd (main m') -> m = m';
  k_jpp : decided s = false -> is_dup s JustPrePrepare (round s) = true ->
          exists x, In (mkm (mk Prepare (self p) (round s) x 0 0) []) P;
  k_qp : decided s = false -> is_dup s QPrepares (round s) = true ->
         exists x, In (mkm (mk Commit (self p) (round s) x 0 0) []) P;
  k_qrc : decided s = false -> dead s = false -> is_dup s QRC (round s) = true ->
          input s <> 0%N \/ ppj s = PNone -> has_pp p P (round s)
}.

Lemma kinv_init : forall p, kinv p init [].
Proof. intro p. constructor; simpl; intros; try contradiction; discriminate. Qed.

(* messages of other members do not matter *)
Lemma kinv_other : forall p s P X, (forall m, In m X -> src (main m) <> self p) -> kinv p s P -> kinv p s (P ++ X).
Proof.
  intros p s P X HX [K1 K2 K3 K4 K5]. constructor.
  - intros Hd m Hm Hs Ht. apply in_app_or in Hm. destruct Hm as [Hm|Hm]; [auto | exfalso; eapply HX; eauto].
  - intros Hd m m' Hm Hm' Hs Hs' Ht Ht' Hr. apply in_app_or in Hm. apply in_app_or in Hm'.
    destruct Hm as [Hm|Hm]; [|exfalso; eapply HX; eauto]. destruct Hm' as [Hm'|Hm']; [|exfalso; eapply HX; eauto]. auto.
  - intros Hd Hx. destruct (K3 Hd Hx) as [x Hin]. exists x. apply in_or_app. auto.
  - intros Hd Hx. destruct (K4 Hd Hx) as [x Hin]. exists x. apply in_or_app. auto.
  - intros Hd Hdd Hx Hy. apply has_pp_mono. auto.
Qed.

Lemma bcasts_length : forall outs, length (bcasts outs) = length (bc_mains outs).
Proof. intro outs. rewrite <- bcasts_mains. rewrite map_length. reflexivity. Qed.

Lemma at_most_one : forall {A} (l : list A) x y, length l <= 1 -> In x l -> In y l -> x = y.
Proof.
  intros A l x y H Hx Hy. destruct l as [|a [|b l]]; simpl in *; try lia; try contradiction.
  destruct Hx as [<-|[]]. destruct Hy as [<-|[]]. reflexivity.
Qed.

Lemma kinv_fstep : forall p s e o s' outs P, 1 <= nodes p -> inv p s -> (decided s = false -> 1 <= round s) ->
  cache_fact s -> (forall m c, e = ERecv m c -> f_rc 1 (main m) = false) -> ev_cmpfail e = false ->
  kinv p s P -> fstep p s e o = Some (s', outs) -> kinv p s' (P ++ bcasts outs).
Proof.
  intros p s e o s' outs P Hn Hinv H1 Hc Hrc Hcf [K1 K2 K3 K4 K5] H.
  pose proof (fstep_effects p s e o s' outs Hn Hinv H) as [E1 [_ [E3 _]]].
  assert (Hds : decided s' = false -> decided s = false).
  { intro Hd. destruct (decided s) eqn:E; [destruct (E3 eq_refl); congruence | reflexivity]. }
  assert (Hnew : forall m, In m (bcasts outs) -> ty (main m) = PrePrepare ->
            round s' = round s /\ rnd (main m) = round s /\ pp_cur s' /\ ~ pp_cur s).
  { intros m Hm Ht. apply bcasts_In in Hm. eapply pp_emit; eauto. }
  constructor.
  - intros Hd m Hm Hs Ht. apply in_app_or in Hm. destruct Hm as [Hm|Hm].
    + eapply pp_ok_fstep; eauto.
    + destruct (Hnew m Hm Ht) as [N1 [N2 [N3 _]]]. right. split; [congruence | exact N3].
  - intros Hd m m' Hm Hm' Hs Hs' Ht Ht' Hr. apply in_app_or in Hm. apply in_app_or in Hm'.
    destruct Hm as [Hm|Hm]; destruct Hm' as [Hm'|Hm'].
    + auto.
    + exfalso. destruct (Hnew m' Hm' Ht') as [_ [N2 [_ N4]]].
      destruct (K1 (Hds Hd) m Hm Hs Ht) as [Hlt|[_ Hcur]]; [lia | auto].
    + exfalso. destruct (Hnew m Hm Ht) as [_ [N2 [_ N4]]].
      destruct (K1 (Hds Hd) m' Hm' Hs' Ht') as [Hlt|[_ Hcur]]; [lia | auto].
    + eapply at_most_one; [|exact Hm|exact Hm']. rewrite bcasts_length. exact E1.
  - intros Hd Hx. eapply kjpp_fstep; eauto.
  - intros Hd Hx. eapply kqp_fstep; eauto.
  - intros Hd Hdd Hx Hy. eapply kqrc_fstep; eauto.
Qed.

Lemma bufmsgs_fstep : forall p s e o s' outs, fstep p s e o = Some (s', outs) ->
  forall x, In x (bufmsgs (buffer s')) -> In x (bufmsgs (buffer s)) \/ exists c, e = ERecv x c.
Proof.
  intros p s e o s' outs H x Hx.
  destruct e; crush_fstep H; simpl in Hx; autorewrite with st in Hx; simpl in Hx; auto.
  all: apply (bufmsgs_s1 0 (fun z => z) p s m x) in Hx; destruct Hx as [Hx| ->]; eauto.
Qed.

(* shape of a broadcast message *)
Definition shape (ld : nat -> nat) (m : msg) : Prop :=
  match ty (main m) with
  | Prepare | Commit => just m = [] /\ pr (main m) = 0 /\ pv (main m) = 0%N
  | RoundChange => forall y, In y (just m) -> ty y = Prepare
  | PrePrepare => pr (main m) = 0 /\ pv (main m) = 0%N /\ src (main m) = ld (rnd (main m))
                  /\ forall y, In y (just m) -> ty y = RoundChange -> rnd y = rnd (main m)
  | Decided => True
  end.

Lemma bcast_shape_full : forall p s e o s' outs, 1 <= nodes p -> inv p s -> fstep p s e o = Some (s', outs) ->
  forall b J, In (Bcast b J) outs -> src b = self p /\ shape (leader p) (mkm b J).
Proof.
  intros p s e o s' outs Hn Hinv H b J Hin.
  destruct (bcast_shape p s e o s' outs H b J Hin) as [Hs Hsh]. split; [exact Hs|].
  unfold shape. simpl. destruct (ty b) eqn:Et; auto.
  destruct (fstep_pp_detail p s e o s' outs Hn Hinv H b J Hin Et) as [_ [Hl Hc]].
  destruct Hsh as [A B]. split; [exact A|]. split; [exact B|]. split.
  - unfold is_leader in Hl. apply Nat.eqb_eq in Hl. congruence.
  - intros y Hy Hty. destruct Hc as [[_ [-> _]]|[all [c0 [Ha _]]]]; [destruct Hy|]. eapply adm_qrc_rc_rnd; eauto.
Qed.


(* ------------------------------------------------------------------------------------------ *)
(* Network invariant of crash-only executions                                                  *)

Record xinv (c : cfg) (nt : net) (tr : list (nat * label)) : Prop := mkx {
  x_main : map main (sentm tr) = sent nt;
  x_parts : forall m y, In m (sentm tr) -> In y (just m) -> In y (sent nt);
  x_buf : forall i, good c i -> forall m, In m (bufmsgs (buffer (nst nt i))) -> In m (sentm tr);
  x_dec : forall b, In b (sent nt) -> ty b = Decided -> decided (nst nt (src b)) = true;
  x_rnd : forall b, In b (sent nt) -> decided (nst nt (src b)) = false -> rnd b <= round (nst nt (src b));
  x_rc2 : forall b, In b (sent nt) -> ty b = RoundChange -> 2 <= rnd b;
  x_rcu : forall b b', In b (sent nt) -> In b' (sent nt) -> ty b = RoundChange -> ty b' = RoundChange ->
          src b = src b' -> rnd b = rnd b' -> b = b';
  x_shape : forall m, In m (sentm tr) -> shape (c_leader c) m;
  x_k : forall i, good c i -> kinv (pp c i) (nst nt i) (sentm tr);
  x_dd : forall i, good c i -> dedup_fact (nst nt i);
  x_cf : forall i, good c i -> cache_fact (nst nt i)
}.

Lemma xinv_init : forall c, xinv c net_init [].
Proof.
  intro c. constructor; simpl; intros; try contradiction; auto.
  - apply kinv_init.
  - apply dedup_fact_init.
  - apply cache_fact_init.
Qed.

Lemma sentm_snoc : forall tr i l, sentm (tr ++ [(i, l)]) = sentm tr ++ bcasts (label_outs l).
Proof. intros. rewrite sentm_app. unfold sentm at 2. simpl. rewrite app_nil_r. reflexivity. Qed.
