(* Leader rotation (wrapper: leader = (slot + dutyType + round) mod n): among any f+1 consecutive rounds one has an
   honest leader, for every n >= 1 and every set of at most f Byzantine members. *)
From Coq Require Import List Arith Bool Lia.
From Charon Require Import Common.Quorum Qbft.Model Qbft.Card.
Import ListNotations.

Lemma mod_window_inj : forall n a k1 k2, 1 <= n -> k1 < n -> k2 < n -> (a + k1) mod n = (a + k2) mod n -> k1 = k2.
Proof.
  intros n a k1 k2 Hn H1 H2 H.
  assert (Hn0 : n <> 0) by lia.
  pose proof (Nat.div_mod (a + k1) n Hn0) as D1. pose proof (Nat.div_mod (a + k2) n Hn0) as D2.
  rewrite H in D1.
  set (q1 := (a + k1) / n) in *. set (q2 := (a + k2) / n) in *. set (m := (a + k2) mod n) in *.
  destruct (Nat.lt_trichotomy q1 q2) as [Hlt|[Heq|Hgt]]; [exfalso; nia | nia | exfalso; nia].
Qed.

Lemma NoDup_map_inj_in : forall {A B} (f : A -> B) l, (forall x y, In x l -> In y l -> f x = f y -> x = y) -> NoDup l -> NoDup (map f l).
Proof.
  intros A B f l Hinj Hnd. induction Hnd as [|x l Hx Hnd IH]; simpl; [constructor|].
  constructor.
  - intro Hin. apply in_map_iff in Hin. destruct Hin as [y [Hy1 Hy2]].
    assert (y = x) by (apply Hinj; [right; exact Hy2 | left; reflexivity | exact Hy1]). subst. contradiction.
  - apply IH. intros a b Ha Hb. apply Hinj; right; assumption.
Qed.

Theorem rotation_bound : forall n hon off r, 1 <= n -> byz_count n hon <= faulty n ->
  exists k, k <= faulty n /\ hon (lead_rr off n (r + k)) = true.
Proof.
  intros n hon off r Hn Hb.
  set (len := faulty n + 1).
  assert (Hlen : len <= n) by (pose proof (three_f_lt_n n Hn); unfold len; lia).
  set (ldrs := map (fun k => (off + r + k) mod n) (seq 0 len)).
  assert (Hnd : NoDup ldrs).
  { apply NoDup_map_inj_in; [|apply seq_NoDup]. intros x y Hx Hy Hxy. apply in_seq in Hx. apply in_seq in Hy.
    apply (mod_window_inj n (off + r) x y Hn); [lia | lia | exact Hxy]. }
  assert (Hbel : below n ldrs).
  { intros z Hz. apply in_map_iff in Hz. destruct Hz as [k [Hk _]]. subst z. apply Nat.mod_upper_bound. lia. }
  destruct (has_honest n hon ldrs Hnd Hbel) as [x [Hx1 Hx2]]; [unfold ldrs; rewrite map_length, seq_length; unfold len; lia|].
  apply in_map_iff in Hx1. destruct Hx1 as [k [Hk1 Hk2]]. apply in_seq in Hk2.
  exists k. split; [unfold len in Hk2; lia|]. unfold lead_rr. rewrite Nat.add_assoc. rewrite Hk1. exact Hx2.
Qed.
