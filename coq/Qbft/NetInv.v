(* Invariant of the network semantics (Qbft/Net.v) for executions in which Compare never fails:
   per-member invariants, provenance of everything members hold, and certificates for what honest
   members have broadcast. *)
From Coq Require Import List NArith Arith Bool Lia.
From Charon Require Import Common.Quorum Qbft.Model Qbft.Monitor Qbft.ModelFacts Qbft.Inv Qbft.Card Qbft.Net.
Import ListNotations.
Set Warnings "-unused-intro-pattern".

Record ninv (c : cfg) (nt : net) : Prop := mkninv {
  n_inv  : forall i, good c i -> inv (pp c i) (nst nt i);
  n_linv : forall i, good c i -> linv (pp c i) (nst nt i) (own nt i);
  n_cfr  : forall i, good c i -> cfr (nst nt i) = 0;
  n_sent : forall b, In b (sent nt) -> good c (src b);
  n_buf  : forall i, good c i -> forall b, In b (flat (buffer (nst nt i))) -> deliv c (sent nt) b;
  n_prepJ : forall i, good c i -> forall b, In b (prepJ (nst nt i)) -> deliv c (sent nt) b;
  n_qcm  : forall i, good c i -> forall b, In b (qcommit (nst nt i)) -> deliv c (sent nt) b;
  (* an honest PREPARE answers a justified PRE-PREPARE whose parts were deliverable before it *)
  n_cprep : forall pre b post, sent nt = pre ++ b :: post -> ty b = Prepare ->
      val b <> 0%N /\
      (rnd b = 1 \/ exists J x, (forall y, In y J -> deliv c pre y)
                               /\ contains_jqrc (qc c) J (rnd b) = Some x /\ (x = 0%N \/ val b = x));
  (* ... sent by the leader of that round, for that value *)
  n_cpp : forall pre b post, sent nt = pre ++ b :: post -> ty b = Prepare ->
      exists ppm, deliv c pre ppm /\ ty ppm = PrePrepare /\ rnd ppm = rnd b /\ val ppm = val b /\ src ppm = c_leader c (rnd b);
  (* an honest PRE-PREPARE proposes its sender's input value or the value of a PREPARE deliverable before it *)
  n_cppv : forall pre b post, sent nt = pre ++ b :: post -> ty b = PrePrepare ->
      (val b = input (nst nt (src b)) /\ val b <> 0%N) \/
      exists y, deliv c pre y /\ ty y = Prepare /\ val y = val b;
  (* an honest COMMIT(r, v) was sent with a quorum of PREPARE(r, v) in hand *)
  n_ccommit : forall b, In b (sent nt) -> ty b = Commit ->
      exists L, (forall y, In y L -> deliv c (sent nt) y) /\ qc c <= nsrc (f_trv Prepare (rnd b) (val b)) L;
  (* an honest ROUND-CHANGE claims nothing or a (pr, pv) backed by a quorum of PREPARE(pr, pv) *)
  n_crc : forall b, In b (sent nt) -> ty b = RoundChange ->
      (pr b = 0 /\ pv b = 0%N) \/
      exists L, (forall y, In y L -> deliv c (sent nt) y) /\ qc c <= nsrc (f_trv Prepare (pr b) (pv b)) L
}.

Lemma deliv_mono : forall c l l' b, deliv c l b -> deliv c (l ++ l') b.
Proof. intros c l l' b [H1 [H2|H2]]; split; auto. left. apply in_or_app. auto. Qed.

Lemma ninv_init : forall c, ninv c net_init.
Proof.
  intro c. constructor; simpl; intros; try contradiction.
  - apply inv_init.
  - apply linv_init.
  - reflexivity.
  - destruct pre; discriminate.
  - destruct pre; discriminate.
  - destruct pre; discriminate.
Qed.

Lemma upd_same : forall f i s, upd f i s i = s.
Proof. intros. unfold upd. rewrite Nat.eqb_refl. reflexivity. Qed.
Lemma upd_other : forall f i s j, j <> i -> upd f i s j = f j.
Proof. intros. unfold upd. destruct (j =? i) eqn:E; [apply Nat.eqb_eq in E; contradiction | reflexivity]. Qed.

Lemma filter_src_all : forall i B, (forall b, In b B -> src b = i) -> filter (fun b => src b =? i) B = B.
Proof.
  intros i B H. apply filter_all. apply forallb_forall. intros b Hb. apply Nat.eqb_eq. auto.
Qed.
Lemma filter_src_none : forall i j B, j <> i -> (forall b, In b B -> src b = i) -> filter (fun b => src b =? j) B = [].
Proof.
  intros i j B Hne H. apply filter_none. apply forallb_forall. intros b Hb. apply negb_true_iff, Nat.eqb_neq.
  rewrite (H b Hb). auto.
Qed.

Lemma snoc_split : forall {A} (pre l : list A) x b post, l ++ [x] = pre ++ b :: post ->
  (post = [] /\ pre = l /\ b = x) \/ exists post0, post = post0 ++ [x] /\ l = pre ++ b :: post0.
Proof.
  intros A. induction pre as [|a pre IH]; intros l x b post H; simpl in H.
  - destruct l as [|a' l']; simpl in H; inversion H; subst.
    + left. auto.
    + right. exists l'. auto.
  - destruct l as [|a' l']; simpl in H; inversion H; subst.
    + destruct pre; discriminate.
    + destruct (IH l' x b post H2) as [[H3 [H4 H5]]|[post0 [H3 H4]]].
      * left. subst. auto.
      * right. exists post0. subst. auto.
Qed.

Lemma nodes_pp : forall c i, nodes (pp c i) = c_n c. Proof. reflexivity. Qed.
Lemma self_pp : forall c i, self (pp c i) = i. Proof. reflexivity. Qed.
Lemma qn_pp : forall c i, qn (pp c i) = qc c. Proof. reflexivity. Qed.

Lemma ev_parts_deliv : forall c nt l,
  (forall m cm outs, l = LRecv m cm outs -> msg_deliv c (sent nt) m) ->
  forall b, In b (ev_parts (event_of l)) -> deliv c (sent nt) b.
Proof.
  intros c nt l H b Hb. destruct l as [o|v o|m cm o|o]; simpl in Hb; try contradiction.
  destruct (H m cm o eq_refl) as [H1 H2]. destruct Hb as [Hb|Hb]; [subst; assumption | auto].
Qed.

Lemma nofail_ev : forall l, label_nofail l = true -> ev_cmpfail (event_of l) = false.
Proof. intros [o|v o|m [] o|o]; simpl; intros; try reflexivity; discriminate. Qed.

Lemma ninv_step : forall c nt i l nt', wf_cfg c -> ninv c nt -> nstep c nt i l nt' -> label_nofail l = true -> ninv c nt'.
Proof.
  intros c nt i l nt' [Hn Hbz] NI Hs Hnf.
  inversion Hs as [nt0 i0 l0 s' Hgood Hstep Hdel]; subst nt0 i0 l0. clear Hs.
  set (p := pp c i) in *. set (s := nst nt i) in *. set (outs := label_outs l) in *. set (B := bc_mains outs) in *.
  pose proof (step_fstep p s l s' Hstep) as Hf. fold outs in Hf.
  assert (Hnp : 1 <= nodes p) by exact Hn.
  pose proof (n_inv c nt NI i Hgood) as Hinv. fold s p in Hinv.
  pose proof (n_linv c nt NI i Hgood) as Hlinv. fold s p in Hlinv.
  pose proof (fstep_effects p s _ _ s' outs Hnp Hinv Hf) as E.
  destruct E as [E1 [E2 [E3 [E4 [E5 [E6 [E7 [E8 [E9 [E10 E11]]]]]]]]]]. fold B in E1, E2, E3, E6, E7, E8, E9, E10.
  pose proof (fstep_provenance p s _ _ s' outs Hf) as [P1 [P2 [P3 P4]]].
  pose proof (ev_parts_deliv c nt l Hdel) as Hparts.
  assert (HsrcB : forall b, In b B -> src b = i) by (intros b Hb; rewrite (E2 b Hb); reflexivity).
  assert (Hown_i : own (mknet (upd (nst nt) i s') (sent nt ++ B)) i = own nt i ++ B).
  { unfold own. simpl. rewrite filter_app, (filter_src_all i B HsrcB). reflexivity. }
  assert (Hown_j : forall j, j <> i -> own (mknet (upd (nst nt) i s') (sent nt ++ B)) j = own nt j).
  { intros j Hj. unfold own. simpl. rewrite filter_app, (filter_src_none i j B Hj HsrcB), app_nil_r. reflexivity. }
  (* deliverability of the new buffer of i *)
  assert (Hbuf' : forall b, In b (flat (buffer s')) -> deliv c (sent nt ++ B) b).
  { intros b Hb. apply deliv_mono. destruct (P1 b Hb) as [H|H]; [exact (n_buf c nt NI i Hgood b H) | auto]. }
  constructor; simpl.
  - (* n_inv *) intros j Hj. destruct (Nat.eq_dec j i) as [->|Hne].
    + rewrite upd_same. eapply inv_fstep; eassumption.
    + rewrite upd_other by assumption. apply (n_inv c nt NI j Hj).
  - (* n_linv *) intros j Hj. destruct (Nat.eq_dec j i) as [->|Hne].
    + rewrite upd_same, Hown_i. eapply linv_fstep; eassumption.
    + rewrite upd_other, Hown_j by assumption. apply (n_linv c nt NI j Hj).
  - (* n_cfr *) intros j Hj. destruct (Nat.eq_dec j i) as [->|Hne].
    + rewrite upd_same. rewrite (P4 (nofail_ev l Hnf)). apply (n_cfr c nt NI i Hgood).
    + rewrite upd_other by assumption. apply (n_cfr c nt NI j Hj).
  - (* n_sent *) intros b Hb. apply in_app_or in Hb. destruct Hb as [Hb|Hb]; [apply (n_sent c nt NI b Hb)|].
    rewrite (HsrcB b Hb). exact Hgood.
  - (* n_buf *) intros j Hj b Hb. destruct (Nat.eq_dec j i) as [->|Hne].
    + rewrite upd_same in Hb. auto.
    + rewrite upd_other in Hb by assumption. apply deliv_mono. apply (n_buf c nt NI j Hj b Hb).
  - (* n_prepJ *) intros j Hj b Hb. destruct (Nat.eq_dec j i) as [->|Hne].
    + rewrite upd_same in Hb. destruct (P2 b Hb) as [H|H]; [apply deliv_mono; apply (n_prepJ c nt NI i Hgood b H) | auto].
    + rewrite upd_other in Hb by assumption. apply deliv_mono. apply (n_prepJ c nt NI j Hj b Hb).
  - (* n_qcm *) intros j Hj b Hb. destruct (Nat.eq_dec j i) as [->|Hne].
    + rewrite upd_same in Hb. destruct (P3 b Hb) as [H|[H|H]];
        [apply deliv_mono; apply (n_qcm c nt NI i Hgood b H) | auto | apply deliv_mono; auto].
    + rewrite upd_other in Hb by assumption. apply deliv_mono. apply (n_qcm c nt NI j Hj b Hb).
  - (* n_cprep *) intros pre b post Hsplit Hty.
    assert (HB : B = [] \/ exists x, B = [x]).
    { destruct B as [|x [|y B']]; [left; reflexivity | right; exists x; reflexivity | simpl in E1; lia]. }
    destruct HB as [HB|[x HB]]; rewrite HB in *.
    + rewrite app_nil_r in Hsplit. apply (n_cprep c nt NI pre b post Hsplit Hty).
    + destruct (snoc_split pre (sent nt) x b post Hsplit) as [[Hp [Hpre Hbx]]|[post0 [Hp Hsent]]].
      * subst post pre b.
        destruct (fstep_origins p s _ _ s' outs Hf x) as [Op _]; [fold B; rewrite HB; left; reflexivity|].
        destruct (Op Hty) as [m [cm [He [Hm1 [Hm2 [Hm3 Hj]]]]]].
        assert (Hcfr : cfr s = 0) by apply (n_cfr c nt NI i Hgood). rewrite Hcfr in Hj.
        unfold justified in Hj. rewrite Hm1 in Hj. unfold justified_preprepare in Hj.
        rewrite !andb_true_iff in Hj. destruct Hj as [[_ Hv] Hor].
        apply negb_true_iff, N.eqb_neq in Hv. rewrite <- Hm3 in Hv. split; [exact Hv|].
        rewrite !orb_true_iff in Hor. destruct Hor as [[Hor|Hor]|Hor].
        -- left. apply Nat.eqb_eq in Hor. lia.
        -- left. apply Nat.eqb_eq in Hor. simpl in Hor. lia.
        -- right. change (qn p) with (qc c) in Hor. destruct (contains_jqrc (qc c) (just m) (rnd (main m))) as [x0|] eqn:Ec; [|discriminate].
           exists (just m), x0. rewrite Hm2. split; [|split; [exact Ec|]].
           ++ intros y Hy. apply Hparts. destruct l as [o1|v1 o1|m1 c1 o1|o1]; simpl in He; try discriminate.
              inversion He; subst. simpl. right. exact Hy.
           ++ apply orb_true_iff in Hor. destruct Hor as [Hor|Hor]; apply N.eqb_eq in Hor; [left; exact Hor | right; rewrite Hm3; exact Hor].
      * subst post. apply (n_cprep c nt NI pre b post0 Hsent Hty).
  - (* n_cpp *) intros pre b post Hsplit Hty.
    assert (HB : B = [] \/ exists x, B = [x]).
    { destruct B as [|x [|y B']]; [left; reflexivity | right; exists x; reflexivity | simpl in E1; lia]. }
    destruct HB as [HB|[x HB]]; rewrite HB in *.
    + rewrite app_nil_r in Hsplit. apply (n_cpp c nt NI pre b post Hsplit Hty).
    + destruct (snoc_split pre (sent nt) x b post Hsplit) as [[Hp [Hpre Hbx]]|[post0 [Hp Hsent]]].
      * subst post pre b.
        destruct (fstep_origins p s _ _ s' outs Hf x) as [Op _]; [fold B; rewrite HB; left; reflexivity|].
        destruct (Op Hty) as [m [cm [He [Hm1 [Hm2 [Hm3 Hj]]]]]].
        unfold justified in Hj. rewrite Hm1 in Hj. unfold justified_preprepare in Hj.
        rewrite !andb_true_iff in Hj. destruct Hj as [[Hl _] _]. unfold is_leader in Hl. apply Nat.eqb_eq in Hl. simpl in Hl.
        exists (main m). split; [|split; [exact Hm1 | split; [auto | split; [auto | rewrite Hm2; auto]]]].
        apply Hparts. destruct l as [o1|v1 o1|m1 c1 o1|o1]; simpl in He; try discriminate. inversion He; subst. simpl. left. reflexivity.
      * subst post. apply (n_cpp c nt NI pre b post0 Hsent Hty).
  - (* n_cppv *) intros pre b post Hsplit Hty.
    destruct (fstep_pp_origin p s _ _ s' outs Hnp Hf) as [O1 [O2 O3]].
    assert (Hold : forall pre0 b0 post0, sent nt = pre0 ++ b0 :: post0 -> ty b0 = PrePrepare ->
              (val b0 = input (upd (nst nt) i s' (src b0)) /\ val b0 <> 0%N) \/
              exists y, deliv c pre0 y /\ ty y = Prepare /\ val y = val b0).
    { intros pre0 b0 post0 Hs0 Ht0. destruct (n_cppv c nt NI pre0 b0 post0 Hs0 Ht0) as [[Hv1 Hv2]|Hv]; [left|right; exact Hv].
      split; [|exact Hv2]. destruct (Nat.eq_dec (src b0) i) as [Hsi|Hne].
      - rewrite Hsi, upd_same. rewrite Hsi in Hv1. fold s in Hv1. rewrite O2; [exact Hv1 | rewrite <- Hv1; exact Hv2].
      - rewrite upd_other by assumption. exact Hv1. }
    assert (HB : B = [] \/ exists x, B = [x]).
    { destruct B as [|x [|y B']]; [left; reflexivity | right; exists x; reflexivity | simpl in E1; lia]. }
    destruct HB as [HB|[x HB]]; rewrite HB in *.
    + rewrite app_nil_r in Hsplit. apply (Hold pre b post Hsplit Hty).
    + destruct (snoc_split pre (sent nt) x b post Hsplit) as [[Hp [Hpre Hbx]]|[post0 [Hp Hsent]]].
      * subst post pre b. assert (Hx : In x (bc_mains outs)) by (fold B; rewrite HB; left; reflexivity).
        destruct (O1 x Hx Hty) as [[Hv1 Hv2]|[y [Y1 [Y2 Y3]]]].
        -- left. rewrite (HsrcB x (or_introl eq_refl)), upd_same. split; [exact Hv1 | rewrite Hv1; exact Hv2].
        -- right. exists y. split; [|auto]. destruct (P1 y Y1) as [Hy|Hy]; [exact (n_buf c nt NI i Hgood y Hy) | auto].
      * subst post. apply (Hold pre b post0 Hsent Hty).
  - (* n_ccommit *) intros b Hb Hty. apply in_app_or in Hb. destruct Hb as [Hb|Hb].
    + destruct (n_ccommit c nt NI b Hb Hty) as [L [HL1 HL2]]. exists L. split; [intros y Hy; apply deliv_mono; auto | exact HL2].
    + destruct (fstep_origins p s _ _ s' outs Hf b Hb) as [_ Oc]. specialize (Oc Hty). change (qn p) with (qc c) in Oc.
      exists (flat (buffer s')). split; [exact Hbuf' | exact Oc].
  - (* n_crc *) intros b Hb Hty. apply in_app_or in Hb. destruct Hb as [Hb|Hb].
    + destruct (n_crc c nt NI b Hb Hty) as [H|[L [HL1 HL2]]]; [left; exact H|].
      right. exists L. split; [intros y Hy; apply deliv_mono; auto | exact HL2].
    + destruct (E8 b Hb Hty) as [_ [_ [_ [Hpr Hpv]]]]. rewrite Hpr, Hpv.
      destruct (i_prep p s Hinv) as [[Hq1 [Hq2 Hq3]]|Hq]; [left; auto|].
      right. exists (prepJ s). split; [|exact Hq].
      intros y Hy. apply deliv_mono. apply (n_prepJ c nt NI i Hgood y Hy).
Qed.

(* ---- the executable replay is sound for the relation ---- *)

Lemma deliv_b_sound : forall c l b, deliv_b c l b = true -> deliv c l b.
Proof.
  intros c l b H. unfold deliv_b in H. apply andb_true_iff in H. destruct H as [H1 H2]. apply Nat.ltb_lt in H1.
  split; [exact H1|]. apply orb_true_iff in H2. destruct H2 as [H2|H2]; [left; apply memb_In; exact H2 | right; apply negb_true_iff; exact H2].
Qed.

Lemma nrun_nreach : forall c tr nt nt' tr0, nreach c nt tr0 -> nrun c nt tr = Some nt' -> nreach c nt' (tr0 ++ tr).
Proof.
  intros c. induction tr as [|[i l] tr IH]; simpl; intros nt nt' tr0 Hr H.
  - inversion H; subst. rewrite app_nil_r. exact Hr.
  - destruct ((i <? c_n c) && c_honest c i && recv_ok c nt l) eqn:E; [|discriminate].
    destruct (step (pp c i) (nst nt i) l) as [s'|] eqn:Es; [|discriminate].
    rewrite !andb_true_iff in E. destruct E as [[E1 E2] E3]. apply Nat.ltb_lt in E1.
    replace (tr0 ++ (i, l) :: tr) with ((tr0 ++ [(i, l)]) ++ tr) by (rewrite <- app_assoc; reflexivity).
    assert (Hd : forall m cm outs, l = LRecv m cm outs -> msg_deliv c (sent nt) m).
    { intros m cm outs Hl. subst l. simpl in E3. unfold msg_deliv_b in E3. apply andb_true_iff in E3.
      destruct E3 as [E3 E4]. split; [apply deliv_b_sound; exact E3|]. intros b Hb. rewrite forallb_forall in E4. apply deliv_b_sound. auto. }
    apply (IH _ _ _ (NRS c nt tr0 i l _ Hr (NStep c nt i l s' (conj E1 E2) Es Hd)) H).
Qed.

Theorem nrun_sound : forall c tr nt, nrun c net_init tr = Some nt -> nreach c nt tr.
Proof. intros c tr nt H. exact (nrun_nreach c tr net_init nt [] (NR0 c) H). Qed.
