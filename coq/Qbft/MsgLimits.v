(* C04, the verifyMsgLimits clause (core/consensus/qbft/qbft.go): the wrapper drops, before any signature check, a
   consensus message with more than 2 * nodes justification parts or more than 2 * (justification parts + 1) values.
   For "no honest message is rejected" every message qbft.Run hands to Transport.Broadcast must respect both bounds.

   Single process, every label sequence of the model (any peers' behaviour, any compare verdicts, any map order): if every
   RECEIVED message names only sources < nodes (the wrapper rejects unknown peers) and carries at most 2 * nodes
   justification parts (the receiving wrapper's own verifyMsgLimits), then every Broadcast carries
     * no justification for PREPARE / COMMIT, at most nodes parts for ROUND-CHANGE, at most 2 * nodes for PRE-PREPARE and
       DECIDED  (justifications are built by one-per-source picks from buffers that hold members' parts only; a DECIDED
       re-broadcasts a commit quorum picked per source, or the justification of a DECIDED it received);
     * at most 2 * (parts + 1) distinct non-zero values (what the wrapper's transport attaches: the distinct non-zero
       value / prepared-value hashes of the main part and of every justification part). *)
From Coq Require Import List NArith Arith Bool Lia.
From Charon Require Import Common.Quorum Qbft.Model Qbft.Monitor Qbft.ModelFacts Qbft.Inv Qbft.Card Qbft.NeverUnjust.
Import ListNotations.
Set Warnings "-unused-intro-pattern".

(* ---- counting ---- *)

Definition srcs_below (n : nat) (l : list bmsg) : Prop := forall b, In b l -> src b < n.

Lemma nodup_src_length : forall n J, nodupn (map src J) = true -> srcs_below n J -> length J <= n.
Proof.
  intros n J H Hb. rewrite <- (map_length src J). apply NoDup_below_length; [apply nodupn_NoDup; exact H|].
  intros x Hx. apply in_map_iff in Hx. destruct Hx as [b [E Hin]]. subst x. auto.
Qed.

Lemma pick_ok_length : forall n f all J, pick_ok f all J = true -> srcs_below n all -> length J <= n.
Proof.
  intros n f all J H Hb. apply pick_ok_spec in H. destruct H as [H1 [_ [H3 _]]].
  apply nodup_src_length; [exact H1|]. intros b Hin. auto.
Qed.

(* getJustifiedQrc: a quorum of ROUND-CHANGEs, one per source, plus (unless all are null) a quorum of PREPAREs, one per source *)
Lemma adm_qrc_length : forall p all r J, adm_qrc p all r J = true -> srcs_below (nodes p) all -> length J <= 2 * nodes p.
Proof.
  intros p all r J H Hb. unfold adm_qrc in H. destruct (nullQ p all r).
  - pose proof (pick_ok_length (nodes p) _ all J H Hb). lia.
  - apply andb_true_iff in H. destruct H as [HJ H]. apply list_beq_eq in HJ.
    destruct (filter (is_ty Prepare) J) as [|p0 Jp'] eqn:EJp; [discriminate|].
    rewrite !andb_true_iff in H. destruct H as [[[[[[Hpick _] Hnd] Hall] _] _] _].
    rewrite HJ, app_length.
    assert (H1 : length (filter (is_ty RoundChange) J) <= nodes p).
    { apply nodup_src_length; [exact Hnd|]. intros b Hin. rewrite forallb_forall in Hall. specialize (Hall b Hin).
      rewrite !andb_true_iff in Hall. destruct Hall as [[_ Hm] _]. apply memb_In in Hm. auto. }
    pose proof (pick_ok_length (nodes p) _ all (p0 :: Jp') Hpick Hb). lia.
Qed.

(* ---- where the justification of a broadcast comes from ---- *)

Lemma fstep_bcast_shape : forall p s e o s' outs, fstep p s e o = Some (s', outs) ->
  forall b J, In (Bcast b J) outs ->
  match ty b with
  | Prepare | Commit => J = []
  | RoundChange => exists f, pick_ok f (prepJ s) J = true
  | Decided => J = qcommit s
  | PrePrepare => J = [] \/ exists all r, adm_qrc p all r J = true /\ (all = flat (buffer s') \/ exists c0, ppj s = PQrc all c0)
  end.
Proof.
  intros p s e o s' outs H b J Hin.
  destruct e; crush_fstep H; try rule_facts2; prep_facts; bool_facts; simpl in Hin.
  all: repeat (destruct Hin as [Hin|Hin]; [try discriminate Hin|]); try contradiction.
  all: try (apply in_app_or in Hin; destruct Hin as [Hin|Hin]; simpl in Hin).
  all: repeat (destruct Hin as [Hin|Hin]; [try discriminate Hin|]); try contradiction.
  all: inversion Hin; subst b J; clear Hin; simpl; st; auto.
  all: try (eexists; eassumption).
  all: try (right; eexists; eexists; split; [eassumption | first [left; reflexivity | right; eexists; reflexivity]]).
  all: try (unfold prep_pick_ok in *; st; eexists; eassumption).
Qed.

(* qCommit is a per-source pick of COMMITs from the buffer, or the justification of a received DECIDED *)
Lemma fstep_qcommit_shape : forall p s e o s' outs, fstep p s e o = Some (s', outs) ->
  qcommit s' = qcommit s
  \/ (exists m c, e = ERecv m c /\ qcommit s' = just m)
  \/ (exists f, pick_ok f (flat (buffer s')) (qcommit s') = true).
Proof.
  intros p s e o s' outs H.
  destruct e; crush_fstep H; st; auto.
  all: try (right; left; eexists; eexists; split; reflexivity).
  all: try (right; right; eexists; eassumption).
Qed.

(* ---- the invariant ---- *)

(* what the wrapper guarantees about a message it hands to Run: known peers only, its own verifyMsgLimits passed *)
Definition ev_ok (p : params) (e : event) : Prop :=
  match e with
  | ERecv m _ => src (main m) < nodes p /\ srcs_below (nodes p) (just m) /\ length (just m) <= 2 * nodes p
  | _ => True
  end.

Record lim_inv (p : params) (s : state) : Prop := mklim {
  li_buf : srcs_below (nodes p) (flat (buffer s));
  li_prepJ : srcs_below (nodes p) (prepJ s);
  li_ppj : forall all c0, ppj s = PQrc all c0 -> srcs_below (nodes p) all;
  li_qc : length (qcommit s) <= 2 * nodes p
}.

Lemma lim_init : forall p, lim_inv p init.
Proof.
  intro p. constructor; simpl.
  - intros b [].
  - intros b [].
  - intros all c0 H. discriminate.
  - lia.
Qed.

Lemma lim_fstep : forall p s e o s' outs, lim_inv p s -> ev_ok p e -> fstep p s e o = Some (s', outs) -> lim_inv p s'.
Proof.
  intros p s e o s' outs [L1 L2 L3 L4] He H.
  pose proof (fstep_provenance p s e o s' outs H) as [P1 [P2 [_ _]]].
  assert (Hparts : srcs_below (nodes p) (ev_parts e)).
  { destruct e as [|v|m c|]; simpl; intros y Hy; try contradiction. destruct He as [H1 [H2 _]]. destruct Hy as [Hy|Hy]; [subst; exact H1 | auto]. }
  assert (Hbuf : srcs_below (nodes p) (flat (buffer s'))).
  { intros b Hb. destruct (P1 b Hb) as [Hx|Hx]; auto. }
  constructor.
  - exact Hbuf.
  - intros b Hb. destruct (P2 b Hb) as [Hx|Hx]; auto.
  - intros all c0 Hp. destruct (fstep_ppj _ _ _ _ _ _ H all c0 Hp) as [Hq|[Hq _]]; [eauto | subst all; exact Hbuf].
  - destruct (fstep_qcommit_shape _ _ _ _ _ _ H) as [Hq|[[m [c [Hq1 Hq2]]]|[f Hq]]].
    + rewrite Hq. exact L4.
    + subst e. rewrite Hq2. destruct He as [_ [_ He]]. exact He.
    + pose proof (pick_ok_length (nodes p) f _ _ Hq Hbuf). lia.
Qed.

(* verifyMsgLimits, first clause, per message type *)
Definition just_bound (p : params) (b : bmsg) : nat :=
  match ty b with
  | Prepare | Commit => 0
  | RoundChange => nodes p
  | PrePrepare | Decided => 2 * nodes p
  end.

Lemma just_bound_le : forall p b, just_bound p b <= 2 * nodes p.
Proof. intros p b. unfold just_bound. destruct (ty b); lia. Qed.

Lemma fstep_bcast_bounded : forall p s e o s' outs, lim_inv p s -> ev_ok p e -> fstep p s e o = Some (s', outs) ->
  forall b J, In (Bcast b J) outs -> length J <= just_bound p b.
Proof.
  intros p s e o s' outs Hl He H b J Hin.
  pose proof (lim_fstep p s e o s' outs Hl He H) as Hl'.
  pose proof (fstep_bcast_shape p s e o s' outs H b J Hin) as Hs. unfold just_bound.
  destruct (ty b).
  - destruct Hs as [->|[all [r [Ha [->|[c0 Hp]]]]]]; [simpl; lia | |].
    + exact (adm_qrc_length p _ r J Ha (li_buf p s' Hl')).
    + exact (adm_qrc_length p all r J Ha (li_ppj p s Hl all c0 Hp)).
  - subst J. simpl. lia.
  - subst J. simpl. lia.
  - destruct Hs as [f Hf]. exact (pick_ok_length (nodes p) f _ J Hf (li_prepJ p s Hl)).
  - subst J. exact (li_qc p s Hl).
Qed.

(* ---- second clause: the values the wrapper attaches ---- *)

Fixpoint dedupv (l : list N) : list N :=
  match l with [] => [] | x :: r => x :: filter (fun y => negb (N.eqb y x)) (dedupv r) end.

(* transport.Broadcast: the distinct non-zero hashes among value / prepared value of the main part and of every part *)
Definition msg_values (b : bmsg) (J : list bmsg) : list N :=
  dedupv (filter (fun x => negb (N.eqb x 0)) (val b :: pv b :: flat_map (fun y => [val y; pv y]) J)).

Lemma filter_length_le : forall {A} (f : A -> bool) l, length (filter f l) <= length l.
Proof. intros A f l. induction l as [|x l IH]; simpl; [lia|]. destruct (f x); simpl; lia. Qed.

Lemma dedupv_length : forall l, length (dedupv l) <= length l.
Proof.
  induction l as [|x l IH]; simpl; [lia|].
  pose proof (filter_length_le (fun y => negb (N.eqb y x)) (dedupv l)). lia.
Qed.

Lemma flat_pairs_length : forall J : list bmsg, length (flat_map (fun y => [val y; pv y]) J) = 2 * length J.
Proof. induction J as [|y J IH]; simpl; [reflexivity|]. rewrite IH. lia. Qed.

Lemma msg_values_bound : forall b J, length (msg_values b J) <= 2 * (length J + 1).
Proof.
  intros b J. unfold msg_values.
  set (raw := val b :: pv b :: flat_map (fun y => [val y; pv y]) J).
  pose proof (dedupv_length (filter (fun x => negb (N.eqb x 0)) raw)) as H1.
  pose proof (filter_length_le (fun x => negb (N.eqb x 0)) raw) as H2.
  assert (H3 : length raw = 2 + 2 * length J) by (unfold raw; simpl; rewrite flat_pairs_length; reflexivity).
  lia.
Qed.

(* both clauses of verifyMsgLimits for a broadcast (b, J) in a cluster of n members *)
Definition limits_ok (n : nat) (b : bmsg) (J : list bmsg) : Prop :=
  length J <= 2 * n /\ length (msg_values b J) <= 2 * (length J + 1).

(* ---- every label sequence of the model ---- *)

Lemma run_lim : forall p ls s s', lim_inv p s -> (forall l, In l ls -> ev_ok p (event_of l)) -> run p s ls = Some s' ->
  lim_inv p s' /\
  forall l b J, In l ls -> In (Bcast b J) (label_outs l) -> length J <= just_bound p b.
Proof.
  intros p. induction ls as [|l0 ls IH]; simpl; intros s s' Hl Hev H.
  - inversion H; subst. split; [exact Hl | intros l b J []].
  - destruct (step p s l0) as [s1|] eqn:E; [|discriminate]. apply step_fstep in E.
    assert (He0 : ev_ok p (event_of l0)) by (apply Hev; left; reflexivity).
    pose proof (lim_fstep _ _ _ _ _ _ Hl He0 E) as Hl1.
    destruct (IH s1 s' Hl1 (fun l Hin => Hev l (or_intror Hin)) H) as [Hfin Hrest].
    split; [exact Hfin|]. intros l b J [Hin|Hin] Hb.
    + subst l0. exact (fstep_bcast_bounded _ _ _ _ _ _ Hl He0 E b J Hb).
    + exact (Hrest l b J Hin Hb).
Qed.

Theorem run_bcast_limits : forall p ls s, run p init ls = Some s -> (forall l, In l ls -> ev_ok p (event_of l)) ->
  forall l b J, In l ls -> In (Bcast b J) (label_outs l) -> length J <= just_bound p b /\ limits_ok (nodes p) b J.
Proof.
  intros p ls s H Hev l b J Hl Hb.
  destruct (run_lim p ls init s (lim_init p) Hev H) as [_ Hall]. pose proof (Hall l b J Hl Hb) as Hj.
  split; [exact Hj|]. split; [pose proof (just_bound_le p b); lia | apply msg_values_bound].
Qed.

(* ---- network level (Qbft/Net.v): any Byzantine members, any compare verdicts ---- *)
From Charon Require Import Qbft.Net Qbft.NetInv.

(* every message handed to a member's Run passed that member's verifyMsgLimits (first clause) *)
Definition trace_recv_limited (c : cfg) (tr : list (nat * label)) : Prop :=
  forall i m cm outs, In (i, LRecv m cm outs) tr -> length (just m) <= 2 * c_n c.

Lemma nstep_ev_ok : forall c nt i l nt', nstep c nt i l nt' ->
  (forall m cm outs, l = LRecv m cm outs -> length (just m) <= 2 * c_n c) -> ev_ok (pp c i) (event_of l).
Proof.
  intros c nt i l nt' Hs Hlen. inversion Hs as [nt0 i0 l0 s' Hgood Hstep Hdel]; subst.
  destruct l as [o|v o|m cm o|o]; simpl; auto.
  destruct (Hdel m cm o eq_refl) as [[H1 _] H2]. split; [exact H1|]. split; [|exact (Hlen m cm o eq_refl)].
  intros b Hb. exact (proj1 (H2 b Hb)).
Qed.

Theorem net_bcast_limits : forall c nt tr, nreach c nt tr -> trace_recv_limited c tr ->
  (forall i, lim_inv (pp c i) (nst nt i)) /\
  forall i l b J, In (i, l) tr -> In (Bcast b J) (label_outs l) ->
    length J <= just_bound (pp c i) b /\ limits_ok (c_n c) b J.
Proof.
  intros c nt tr H. induction H as [|nt tr i0 l0 nt' Hr IH Hs]; intro Hlim.
  - split; [intro i; apply lim_init | intros i l b J []].
  - assert (Hlim' : trace_recv_limited c tr).
    { intros i m cm outs Hin. apply (Hlim i m cm outs). apply in_or_app. left. exact Hin. }
    destruct (IH Hlim') as [Hinv Hold].
    assert (Hev : ev_ok (pp c i0) (event_of l0)).
    { apply (nstep_ev_ok c nt i0 l0 nt' Hs). intros m cm outs ->. apply (Hlim i0 m cm outs). apply in_or_app. right. left. reflexivity. }
    inversion Hs as [nt0 i1 l1 s' Hgood Hstep Hdel]; subst nt0 i1 l1. apply step_fstep in Hstep.
    split.
    + intro i. simpl. destruct (Nat.eq_dec i i0) as [->|Hne].
      * rewrite upd_same. exact (lim_fstep _ _ _ _ _ _ (Hinv i0) Hev Hstep).
      * rewrite upd_other by assumption. apply Hinv.
    + intros i l b J Hin Hb. apply in_app_or in Hin. destruct Hin as [Hin|[Hin|[]]]; [exact (Hold i l b J Hin Hb)|].
      inversion Hin; subst i l.
      pose proof (fstep_bcast_bounded _ _ _ _ _ _ (Hinv i0) Hev Hstep b J Hb) as Hj.
      split; [exact Hj|]. split; [pose proof (just_bound_le (pp c i0) b); simpl in *; lia | apply msg_values_bound].
Qed.

Theorem honest_bcast_within_limits : forall c nt tr, nreach c nt tr -> trace_recv_limited c tr ->
  forall i l b J, In (i, l) tr -> In (Bcast b J) (label_outs l) -> limits_ok (c_n c) b J.
Proof. intros c nt tr Hr Hl i l b J Hi Hb. exact (proj2 (proj2 (net_bcast_limits c nt tr Hr Hl) i l b J Hi Hb)). Qed.

(* ---- executable forms (used by the correspondence check) ---- *)

Definition limits_okb (n : nat) (b : bmsg) (J : list bmsg) : bool :=
  (length J <=? 2 * n) && (length (msg_values b J) <=? 2 * (length J + 1)).

Definition type_bound_okb (n : nat) (b : bmsg) (J : list bmsg) : bool :=
  length J <=? match ty b with Prepare | Commit => 0 | RoundChange => n | _ => 2 * n end.

Definition recv_limited_b (n : nat) (tr : list (nat * label)) : bool :=
  forallb (fun e => match snd e with LRecv m _ _ => length (just m) <=? 2 * n | _ => true end) tr.

(* global indices of the labels with a Broadcast outside the limits *)
Fixpoint bcast_over_from (n : nat) (tr : list (nat * label)) (k : nat) : list nat :=
  match tr with
  | [] => []
  | e :: r =>
      (if forallb (fun o => match o with Bcast b J => limits_okb n b J && type_bound_okb n b J | _ => true end) (label_outs (snd e))
       then [] else [k]) ++ bcast_over_from n r (S k)
  end.
Definition bcast_over (n : nat) (tr : list (nat * label)) : list nat := bcast_over_from n tr 0.

Lemma recv_limited_b_sound : forall c tr, recv_limited_b (c_n c) tr = true -> trace_recv_limited c tr.
Proof.
  intros c tr H i m cm outs Hin. unfold recv_limited_b in H. rewrite forallb_forall in H. specialize (H _ Hin). simpl in H.
  apply Nat.leb_le. exact H.
Qed.

Lemma bcast_over_nil : forall n tr k, (forall i l b J, In (i, l) tr -> In (Bcast b J) (label_outs l) ->
     limits_okb n b J && type_bound_okb n b J = true) -> bcast_over_from n tr k = [].
Proof.
  intros n. induction tr as [|[i l] tr IH]; intros k H; simpl; [reflexivity|].
  rewrite IH by (intros i' l' b J Hin Hb; apply (H i' l' b J); [right; exact Hin | exact Hb]).
  rewrite app_nil_r.
  assert (Hf : forallb (fun o => match o with Bcast b J => limits_okb n b J && type_bound_okb n b J | _ => true end) (label_outs l) = true).
  { apply forallb_forall. intros o Ho. destruct o; try reflexivity. apply (H i l b j); [left; reflexivity | exact Ho]. }
  rewrite Hf. reflexivity.
Qed.

(* every global trace the executable replay accepts, whose received messages respect the limit: no broadcast exceeds it *)
Theorem limits_observed : forall c tr nt, nrun c net_init tr = Some nt -> recv_limited_b (c_n c) tr = true ->
  bcast_over (c_n c) tr = [].
Proof.
  intros c tr nt Hr Hb. apply bcast_over_nil. intros i l b J Hi Ho.
  destruct (proj2 (net_bcast_limits c nt tr (nrun_sound c tr nt Hr) (recv_limited_b_sound c tr Hb)) i l b J Hi Ho) as [H1 [H2 H3]].
  unfold just_bound in H1. simpl in H1.
  unfold limits_okb, type_bound_okb. rewrite !andb_true_iff. repeat split; apply Nat.leb_le; assumption.
Qed.

(* verifyMsgLimits as a function of (nodes, number of justification parts, number of values) *)
Definition wrapper_limits_okb (n j v : nat) : bool := (j <=? 2 * n) && (v <=? 2 * (j + 1)).

Lemma limits_okb_wrapper : forall n b J, limits_okb n b J = wrapper_limits_okb n (length J) (length (msg_values b J)).
Proof. reflexivity. Qed.

Lemma limits_okb_spec : forall n b J, limits_okb n b J = true <-> limits_ok n b J.
Proof. intros. unfold limits_okb, limits_ok. rewrite andb_true_iff, !Nat.leb_le. tauto. Qed.
