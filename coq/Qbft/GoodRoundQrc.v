(* Round r > 1 of the good-round theorem: the leader that has buffered a quorum of justified
   ROUND-CHANGE(r), one (pr, pv) per source, finds a justified quorum whatever Go's map order
   (getJustifiedQrc cannot fail), and what it then proposes is accepted by every receiver. *)
From Coq Require Import List NArith Arith Bool Lia.
From Charon Require Import Common.Quorum Qbft.Model Qbft.ModelFacts Qbft.Inv Qbft.Justified Qbft.GoodRound Qbft.GoodRoundFacts.
Import ListNotations.
Set Warnings "-unused-intro-pattern".

(* ------------------------------------------------------------------------------------------ *)
(* Part A: getJustifiedQrc is forced to succeed                                                *)

Lemma dedupk_In : forall k l, In k (dedupk l) <-> In k l.
Proof.
  intros k l. induction l as [|[a b] l IH]; simpl; [tauto|].
  rewrite filter_In, IH. destruct k as [x y]. simpl.
  destruct (Nat.eq_dec x a) as [->|Hx]; [destruct (N.eq_dec y b) as [->|Hy]|].
  - tauto.
  - split; [tauto|]. intros [H|H]; [inversion H; congruence|]. right. split; [assumption|].
    rewrite Nat.eqb_refl. simpl. apply negb_true_iff. apply N.eqb_neq. assumption.
  - split; [tauto|]. intros [H|H]; [inversion H; congruence|]. right. split; [assumption|].
    apply Nat.eqb_neq in Hx. rewrite Hx. reflexivity.
Qed.

Lemma max_pr_exists : forall l : list bmsg, l <> [] -> exists x, In x l /\ forall y, In y l -> pr y <= pr x.
Proof.
  induction l as [|a l IH]; [congruence|]. intros _. destruct l as [|b l].
  - exists a. split; [left; reflexivity|]. intros y [<-|[]]. lia.
  - destruct IH as [x [Hx Hmax]]; [discriminate|].
    destruct (le_lt_dec (pr a) (pr x)).
    + exists x. split; [right; assumption|]. intros y [<-|Hy]; [assumption | apply Hmax; assumption].
    + exists a. split; [left; reflexivity|]. intros y [<-|Hy]; [lia|]. specialize (Hmax y Hy). lia.
Qed.

Definition is_null (b : bmsg) : bool := (pr b =? 0) && N.eqb (pv b) 0.

Lemma f_rc_null_split : forall r b, f_rc_null r b = f_rc r b && is_null b.
Proof. intros r b. unfold f_rc_null, is_null. rewrite andb_assoc. reflexivity. Qed.

Lemma f_rc_inv : forall r b, f_rc r b = true <-> ty b = RoundChange /\ rnd b = r.
Proof. intros r b. unfold f_rc, is_ty. rewrite andb_true_iff, mtype_eqb_eq, Nat.eqb_eq. tauto. Qed.

Section Forced.
Variables (p : params) (all : list bmsg) (r : nat).
Hypothesis Hq1 : 1 <= qn p.
(* every ROUND-CHANGE(r) is null or comes with its quorum of PREPAREs *)
Hypothesis Ha : forall b, In b all -> f_rc r b = true ->
  is_null b = true \/ qn p <= nsrc (f_trv Prepare (pr b) (pv b)) all.
(* one (pr, pv) per source *)
Hypothesis Hb : forall b b', In b all -> In b' all -> f_rc r b = true -> f_rc r b' = true -> src b = src b' ->
  pr b = pr b' /\ pv b = pv b'.
Hypothesis Hq : qn p <= nsrc (f_rc r) all.

Lemma all_null_nullQ : forallb is_null (filter (f_rc r) all) = true -> nullQ p all r = true.
Proof.
  intro H. unfold nullQ. apply Nat.leb_le. etransitivity; [exact Hq|]. unfold nsrc.
  rewrite (filter_ext_in (f_rc_null r) (f_rc r)); [lia|].
  intros b Hb'. rewrite f_rc_null_split. destruct (f_rc r b) eqn:E; [|reflexivity]. simpl.
  rewrite forallb_forall in H. apply H. apply filter_In. auto.
Qed.

Lemma nsrc_pos_witness : forall f (l : list bmsg), 1 <= nsrc f l -> exists b, In b l /\ f b = true.
Proof.
  intros f l H. unfold nsrc in H. destruct (filter f l) as [|b t] eqn:E; [simpl in H; lia|].
  assert (Hin : In b (filter f l)) by (rewrite E; left; reflexivity). apply filter_In in Hin. eauto.
Qed.

Lemma key_in_prep_keys : forall k v, qn p <= nsrc (f_trv Prepare k v) all -> In (k, v) (prep_keys p all).
Proof.
  intros k v H. unfold prep_keys. apply filter_In. split; [|apply Nat.leb_le; exact H].
  apply dedupk_In. destruct (nsrc_pos_witness _ _ (Nat.le_trans _ _ _ Hq1 H)) as [b [B1 B2]].
  apply f_trv_inv in B2. destruct B2 as [B2 [B3 B4]]. apply in_map_iff. exists b. split; [congruence|].
  apply filter_In. split; [assumption|]. unfold is_ty. rewrite B2. reflexivity.
Qed.

Lemma src_rcs_In : forall s b, In b (src_rcs all r s) <-> In b all /\ f_rc r b = true /\ src b = s.
Proof. intros s b. unfold src_rcs. rewrite filter_In, andb_true_iff, Nat.eqb_eq. tauto. Qed.

Lemma rc_srcs_In : forall s, In s (rc_srcs all r) <-> exists b, In b all /\ f_rc r b = true /\ src b = s.
Proof.
  intros s. unfold rc_srcs. rewrite dedupn_In, in_map_iff. split; intros [b H]; exists b.
  - destruct H as [H1 H2]. apply filter_In in H2. tauto.
  - destruct H as [H1 [H2 H3]]. split; [assumption|]. apply filter_In. auto.
Qed.

Lemma rc_srcs_len : length (rc_srcs all r) = nsrc (f_rc r) all.
Proof. reflexivity. Qed.

(* the key of a non-null ROUND-CHANGE(r) with maximal prepared round passes whatever the order *)
Lemma max_key_passes : forall bs, In bs all -> f_rc r bs = true -> is_null bs = false ->
  (forall b, In b all -> f_rc r b = true -> pr b <= pr bs) ->
  In (pr bs, pv bs) (prep_keys p all)
  /\ must_pass p all r (pr bs, pv bs) = true /\ may_pass p all r (pr bs, pv bs) = true.
Proof.
  intros bs Hin Hrc Hnn Hmax.
  assert (Hkey : qn p <= nsrc (f_trv Prepare (pr bs) (pv bs)) all).
  { destruct (Ha bs Hin Hrc) as [H|H]; [congruence | exact H]. }
  split; [apply key_in_prep_keys; exact Hkey|].
  assert (Hs : In (src bs) (rc_srcs all r)) by (apply rc_srcs_In; eauto).
  split.
  - unfold must_pass. simpl fst. simpl snd. apply andb_true_iff. split.
    + apply Nat.leb_le. rewrite filter_all; [rewrite rc_srcs_len; exact Hq|].
      apply forallb_forall. intros s _. apply forallb_forall. intros b Hb'. apply src_rcs_In in Hb'.
      apply Nat.leb_le. apply Hmax; tauto.
    + apply existsb_exists. exists (src bs). split; [exact Hs|].
      apply forallb_forall. intros b Hb'. apply src_rcs_In in Hb'. destruct Hb' as [B1 [B2 B3]].
      destruct (Hb b bs B1 Hin B2 Hrc B3) as [E1 E2]. rewrite E1, E2, Nat.eqb_refl, N.eqb_refl. reflexivity.
  - unfold may_pass. simpl fst. simpl snd. apply andb_true_iff. split.
    + apply Nat.leb_le. rewrite filter_all; [rewrite rc_srcs_len; exact Hq|].
      apply forallb_forall. intros s Hs'. apply rc_srcs_In in Hs'. destruct Hs' as [b [B1 [B2 B3]]].
      apply existsb_exists. exists b. split; [apply src_rcs_In; auto|]. apply Nat.leb_le. apply Hmax; assumption.
    + apply existsb_exists. exists bs. split; [exact Hin|]. rewrite Hrc, Nat.eqb_refl, N.eqb_refl. reflexivity.
Qed.


Theorem qrc_forced : may_ok p all r = true /\ may_fail p all r = false.
Proof.
  destruct (forallb is_null (filter (f_rc r) all)) eqn:En.
  - pose proof (all_null_nullQ En) as Hnull. unfold may_ok, may_fail. rewrite Hnull. auto.
  - (* some non-null ROUND-CHANGE(r): take one with maximal prepared round *)
    set (NN := filter (fun b => negb (is_null b)) (filter (f_rc r) all)).
    assert (Hne : NN <> []).
    { intro E. assert (forallb is_null (filter (f_rc r) all) = true); [|congruence].
      apply forallb_forall. intros b Hb'. destruct (is_null b) eqn:E2; [reflexivity|].
      assert (In b NN) by (apply filter_In; rewrite E2; auto). rewrite E in H. destruct H. }
    destruct (max_pr_exists NN Hne) as [bs [Hbs Hmax]].
    apply filter_In in Hbs. destruct Hbs as [Hbs Hnn]. apply filter_In in Hbs. destruct Hbs as [Hin Hrc].
    apply negb_true_iff in Hnn.
    assert (Hmax' : forall b, In b all -> f_rc r b = true -> pr b <= pr bs).
    { intros b B1 B2. destruct (is_null b) eqn:E2.
      - unfold is_null in E2. apply andb_true_iff in E2. destruct E2 as [E2 _]. apply Nat.eqb_eq in E2. lia.
      - apply Hmax. apply filter_In. rewrite E2. split; [apply filter_In; auto | reflexivity]. }
    destruct (max_key_passes bs Hin Hrc Hnn Hmax') as [K1 [K2 K3]].
    unfold may_ok, may_fail. split.
    + apply orb_true_iff. right. apply existsb_exists. eauto.
    + apply andb_false_iff. right. apply negb_false_iff. apply existsb_exists. eauto.
Qed.

End Forced.

(* ------------------------------------------------------------------------------------------ *)
(* Part B: what the QRC rule does when the leader has its input and an empty cache             *)

Lemma fire_qrc : forall p s2 m o s' outs,
  apply_rule p s2 m CmpOk QRC o = Some (s', outs) -> ppj s2 = PNone -> input s2 <> 0%N ->
  s' = s2 /\ adm_qrc p (flat (buffer s2)) (rnd (main m)) (o_just o) = true /\
  exists v, outs = [Bcast (mk PrePrepare (self p) (round s2) v 0 0) (o_just o)] /\
    ((exists spr, single (qn p) (o_just o) = (spr, v, true) /\ cfr s2 <> spr)
     \/ (v = input s2 /\ forall spr spv, single (qn p) (o_just o) = (spr, spv, true) -> cfr s2 = spr)).
Proof.
  intros p s2 m o s' outs H Hppj Hin. simpl in H.
  destruct (adm_qrc p (flat (buffer s2)) (rnd (main m)) (o_just o)) eqn:Ea.
  - destruct (single (qn p) (o_just o)) as [[spr spv] ok] eqn:Es.
    destruct (ok && negb (cfr s2 =? spr)) eqn:Eb.
    + injection H as Hs Ho. subst s' outs. split; [reflexivity|]. split; [reflexivity|]. exists spv. split; [reflexivity|].
      left. apply andb_true_iff in Eb. destruct Eb as [-> Eb]. apply negb_true_iff, Nat.eqb_neq in Eb. eauto.
    + rewrite Hppj in H. destruct (N.eqb (input s2) 0) eqn:Ei; [apply N.eqb_eq in Ei; contradiction|].
      injection H as Hs Ho. subst s' outs. split; [reflexivity|]. split; [reflexivity|]. exists (input s2). split; [reflexivity|].
      right. split; [reflexivity|]. intros spr' spv' E. inversion E; subst. simpl in Eb.
      apply negb_false_iff, Nat.eqb_eq in Eb. exact Eb.
  - destruct (o_just o); [|discriminate]. destruct (may_own _ _ _ _); [|discriminate].
    rewrite Hppj in H. destruct (N.eqb (input s2) 0) eqn:Ei; [apply N.eqb_eq in Ei; contradiction | discriminate].
Qed.

Lemma qrc_pp_justified : forall p all r J v c,
  1 <= qn p -> adm_qrc p all r J = true -> v <> 0%N ->
  (forall spr spv, single (qn p) J = (spr, spv, true) -> v = spv) ->
  justified_preprepare p (mkm (mk PrePrepare (leader p r) r v 0 0) J) c = true.
Proof.
  intros p all r J v c Hq Ha Hv Hs. unfold justified_preprepare, is_leader. simpl.
  rewrite Nat.eqb_refl. simpl.
  destruct (N.eqb v 0) eqn:E; [apply N.eqb_eq in E; contradiction|]. simpl.
  destruct (adm_qrc_contains p all r J Hq Ha) as [x [Hx Hx2]]. rewrite Hx.
  destruct Hx2 as [->|[spr Hx2]].
  - rewrite !orb_true_r. reflexivity.
  - rewrite (Hs _ _ Hx2), N.eqb_refl, !orb_true_r. reflexivity.
Qed.

(* ------------------------------------------------------------------------------------------ *)
(* Part C: the round with a leader that proposes on a quorum of ROUND-CHANGEs                  *)

Section Round.
Variables (n fifo_ : nat) (ld : nat -> nat) (R : list nat) (r : nat).
Hypothesis Hn : 1 <= n.
Notation pp := (pp n fifo_ ld).
Notation carrier := (carrier ld r).
Notation q := (quorum n).
Notation l := (ld r).
Notation proc_ok := (proc_ok n ld r).
Notation seen_ok := (seen_ok n fifo_ ld r).
Notation ginv := (ginv n fifo_ ld R r).

(* While nobody has a value for round r, a delivery produces no broadcast and no decision; the only
   rule that can produce something is the leader's QRC. *)
Lemma fresh_cases : forall P i s m o s' outs, pool_ok ld r P -> In m P -> proc_ok P i s ->
  (forall m, In m P -> carrier (main m) = false) ->
  fstep (pp i) s (ERecv m CmpOk) o = Some (s', outs) ->
  decided s = false /\
  ( (justified (pp i) m (cfr s) = false /\ s' = s /\ outs = [Unjust m])
  \/ (justified (pp i) m (cfr s) = true /\ s' = s1_of (pp i) s m /\ outs = []
      /\ existsb (fun rl => rule_eqb rl Nothing || is_dup s rl (rnd (main m))) (rules_of (pp i) (s1_of (pp i) s m) m) = true)
  \/ (justified (pp i) m (cfr s) = true /\ s' = mark (s1_of (pp i) s m) UnjustQRC (rnd (main m)) /\ outs = [Upon UnjustQRC]
      /\ existsb (rule_eqb UnjustQRC) (rules_of (pp i) (s1_of (pp i) s m) m) = true)
  \/ (justified (pp i) m (cfr s) = true /\ ty (main m) = RoundChange /\ rnd (main m) = r /\ l = i
      /\ is_dup s QRC r = false
      /\ exists o' outs', apply_rule (pp i) (mark (s1_of (pp i) s m) QRC r) m CmpOk QRC o' = Some (s', outs')
                          /\ outs = Upon QRC :: outs') ).
Proof.
  intros P i s m o s' outs Hp Hm Hs Hnc H.
  apply fstep_outcome in H. destruct H as [_ [_ H]].
  pose proof (pr_round _ _ _ _ _ _ Hs) as Hround. pose proof (po_rnd _ _ _ Hp m Hm) as Hle.
  assert (Hund : decided s = false).
  { destruct (decided s) eqn:Hd; [|reflexivity]. destruct (pr_decv _ _ _ _ _ _ Hs Hd) as [m0 [M1 [M2 _]]].
    rewrite (Hnc m0 M1) in M2. discriminate. }
  split; [exact Hund|].
  pose proof (Hnc m Hm) as Hcm. unfold GoodRound.carrier in Hcm.
  destruct H as [Hd|rs Hd Ht|Hd Hj|Hd Hj Hex|rl o' s'' outs' Hd Hj Hex Hdup Ha]; try congruence.
  - left. auto.
  - right. left. auto.
  - pose proof (rules_of_inv _ _ _ _ Hex) as Hr.
    destruct rl; simpl in Hr; try (simpl in Ha; discriminate).
    + exfalso. destruct Hr as [Ht Hr]. simpl in Hr. assert (Er : rnd (main m) = r) by lia.
      pose proof (Hnc m Hm). pose proof (justified_pp_carrier n fifo_ ld r i m _ Ht Er Hj). congruence.
    + exfalso. destruct Hr as [Ht [Hr _]]. simpl in Hr. rewrite Ht in Hcm. rewrite Hr, Hround, Nat.eqb_refl in Hcm. discriminate.
    + exfalso. destruct Hr as [Ht [Hr _]]. simpl in Hr. rewrite Ht in Hcm. rewrite Hr, Hround, Nat.eqb_refl in Hcm. discriminate.
    + right. right. left. apply fire_urc in Ha. destruct Ha as [-> ->]. auto.
    + exfalso. destruct Hr as [_ Hr]. simpl in Hr. lia.
    + right. right. right. destruct Hr as [Ht [Hr Hl]]. simpl in Hr. unfold is_leader in Hl. simpl in Hl.
      apply Nat.eqb_eq in Hl. assert (Er : rnd (main m) = r) by lia. rewrite Er in *.
      repeat split; auto. eauto.
    + exfalso. rewrite Hr in Hcm. discriminate.
Qed.


Lemma recv_frame : forall p s m o s' outs, fstep p s (ERecv m CmpOk) o = Some (s', outs) ->
  input s' = input s /\ cfr s' = cfr s.
Proof.
  intros p s m o s' outs H. crush_fstep H; simpl; autorewrite with st; simpl; auto.
Qed.

Lemma recv_dup_mono : forall P i s m o s' outs, pool_ok ld r P -> In m P -> proc_ok P i s ->
  fstep (pp i) s (ERecv m CmpOk) o = Some (s', outs) ->
  forall rl k, is_dup s rl k = true -> is_dup s' rl k = true.
Proof.
  intros P i s m o s' outs Hp Hm Hs H rl0 k0 Hk.
  apply fstep_outcome in H. destruct H as [_ [_ H]].
  pose proof (pr_round _ _ _ _ _ _ Hs) as Hround. pose proof (po_rnd _ _ _ Hp m Hm) as Hle.
  destruct H as [Hd|rs Hd Ht|Hd Hj|Hd Hj Hex|rl o' s'' outs' Hd Hj Hex Hdup Ha]; auto.
  pose proof (rules_of_inv _ _ _ _ Hex) as Hr.
  assert (Hk2 : is_dup (mark (s1_of (pp i) s m) rl (rnd (main m))) rl0 k0 = true).
  { rewrite is_dup_mark, is_dup_s1, Hk. apply orb_true_r. }
  destruct rl; simpl in Hr; try (simpl in Ha; discriminate).
  - destruct Hr as [Ht Hr]. simpl in Hr.
    apply fire_jpp in Ha; [|autorewrite with st; simpl; lia]. destruct Ha as [-> _].
    rewrite is_dup_set_timer', is_dup_mark, Hk2. apply orb_true_r.
  - apply fire_qp in Ha. destruct Ha as [-> _]. exact Hk2.
  - destruct Hr as [Ht [Hr _]]. simpl in Hr.
    apply fire_qc in Ha; [|autorewrite with st; simpl; lia]. destruct Ha as [_ [-> _]]. exact Hk2.
  - apply fire_urc in Ha. destruct Ha as [-> _]. exact Hk2.
  - destruct Hr as [_ Hr]. simpl in Hr. lia.
  - simpl in Ha. destr_hyp Ha; inv_eqs; exact Hk2.
  - apply fire_jd in Ha; [|autorewrite with st; simpl; pose proof (po_dec _ _ _ Hp m Hm Hr); lia].
    destruct Ha as [-> _]. exact Hk2.
Qed.


Lemma bufmsgs_s1 : forall p s m x, In x (bufmsgs (buffer (s1_of p s m))) -> In x (bufmsgs (buffer s)) \/ x = m.
Proof.
  intros p s m x. simpl. generalize (fifo p). intro k. induction (buffer s) as [|[s0 qq] buf IH]; simpl.
  - unfold bufmsgs. simpl. rewrite app_nil_r. intro H. unfold lastn in H. apply In_skipn_gr in H.
    destruct H as [H|[]]. auto.
  - destruct (s0 =? src (main m)); unfold bufmsgs; simpl; rewrite !in_app_iff.
    + intros [H|H]; [|tauto]. unfold lastn in H. apply In_skipn_gr in H. apply in_app_or in H.
      destruct H as [H|[H|[]]]; auto.
    + intros [H|H]; [tauto|]. apply IH in H. tauto.
Qed.

Lemma buf_fresh_s1 : forall P s m c, pool_fresh ld r P -> In m P -> justified (pp l) m c = true ->
  buf_fresh n fifo_ ld r P s -> buf_fresh n fifo_ ld r P (s1_of (pp l) s m).
Proof.
  intros P s m c Hpf Hm Hj [B1 B2 B3]. constructor.
  - intros b Hb Ht. apply flat_s1 in Hb. destruct Hb as [Hb|[Hb|Hb]]; [auto | |].
    + apply (pf_prep _ _ _ Hpf m b Hm); [left; assumption | assumption].
    + apply (pf_prep _ _ _ Hpf m b Hm); [right; assumption | assumption].
  - intros m' b Hm' Hb. apply bufmsgs_s1 in Hm'. destruct Hm' as [Hm'| ->]; [eauto|].
    apply (pf_nest _ _ _ Hpf m b Hm Hb).
  - intros m' Hm' Hf. apply bufmsgs_s1 in Hm'. destruct Hm' as [Hm'| ->]; [auto|].
    split; [|exists m; auto]. apply f_rc_inv in Hf. destruct Hf as [Hf _].
    unfold justified in Hj. rewrite Hf in Hj. exact Hj.
Qed.

Lemma pool_ok_add_first : forall P m',
  pool_ok ld r P -> (forall m, In m P -> carrier (main m) = false) ->
  rnd (main m') <= r -> ty (main m') <> Decided ->
  (forall b, In b (just m') -> pc r b -> has_main P b) ->
  pool_ok ld r (P ++ [m']).
Proof.
  intros P m' [H1 H2 H3 H4] Hnc A1 A2 A4. constructor.
  - intros m Hm. apply in_app_or in Hm. destruct Hm as [Hm|[Hm|[]]]; subst; auto.
  - intros m Hm. apply in_app_or in Hm. destruct Hm as [Hm|[Hm|[]]]; subst; auto. contradiction.
  - intros m1 m2 Hm1 Hm2 C1 C2. apply in_app_or in Hm1. apply in_app_or in Hm2.
    destruct Hm1 as [Hm1|[Hm1|[]]]; destruct Hm2 as [Hm2|[Hm2|[]]]; subst; auto.
    + rewrite (Hnc _ Hm1) in C1. discriminate.
    + rewrite (Hnc _ Hm2) in C2. discriminate.
  - intros m b Hm Hb Hp. apply in_app_or in Hm. destruct Hm as [Hm|[Hm|[]]]; subst.
    + eapply has_main_mono; [|eapply H4; eauto]. apply incl_appl, incl_refl.
    + eapply has_main_mono; [|eapply A4; eauto]. apply incl_appl, incl_refl.
Qed.


Lemma justified_rc_cases : forall p m, justified_roundchange p m = true ->
  is_null (main m) = true
  \/ (qn p <= length (just m) /\ nodupn (map src (just m)) = true
      /\ forallb (f_trv Prepare (pr (main m)) (pv (main m))) (just m) = true).
Proof.
  intros p m H. unfold justified_roundchange in H. destruct (just m) as [|x ps] eqn:E.
  - left. exact H.
  - right. rewrite !andb_true_iff in H. destruct H as [[H1 H2] H3]. apply Nat.leb_le in H1.
    split; [exact H1|]. split; [exact H2|]. exact H3.
Qed.

Lemma leader_forced : forall P s m, pool_fresh ld r P -> buf_fresh n fifo_ ld r P s ->
  q <= nsrc (f_rc r) (flat (buffer s)) -> ty (main m) = RoundChange -> rnd (main m) = r -> round s = r ->
  rules_of (pp l) s m = [QRC].
Proof.
  intros P s m Hpf [B1 B2 B3] Hq Ht Hrd Hround.
  pose proof (quorum_pos n Hn) as Hq1.
  assert (Hmain : forall b, In b (flat (buffer s)) -> f_rc r b = true ->
            exists m', In m' (bufmsgs (buffer s)) /\ main m' = b).
  { intros b Hb Hf. rewrite flat_bufmsgs in Hb. apply flat_msgs_in in Hb. destruct Hb as [m' [M1 [M2|M2]]]; [eauto|].
    rewrite (B2 m' b M1 M2) in Hf. discriminate. }
  destruct (qrc_forced (pp l) (flat (buffer s)) r) as [Hok Hfail]; auto.
  - intros b Hb Hf. destruct (Hmain b Hb Hf) as [m' [M1 M2]]. subst b.
    destruct (B3 m' M1 Hf) as [Hj _]. apply justified_rc_cases in Hj. destruct Hj as [Hj|[J1 [J2 J3]]]; [left; exact Hj|].
    right. etransitivity; [exact J1|]. rewrite <- (nsrc_self _ _ J2 J3). apply nsrc_incl.
    intros y Hy. rewrite flat_bufmsgs. apply flat_msgs_in. exists m'. auto.
  - intros b b' Hb Hb' Hf Hf' Hsrc. destruct (Hmain b Hb Hf) as [m1 [M1 M2]]. destruct (Hmain b' Hb' Hf') as [m2 [M3 M4]].
    subst b b'. destruct (B3 m1 M1 Hf) as [_ [x1 [X1 X2]]]. destruct (B3 m2 M3 Hf') as [_ [x2 [X3 X4]]].
    rewrite <- X2, <- X4 in *. apply (pf_uniq _ _ _ Hpf x1 x2); auto.
  - unfold rules_of. rewrite Ht, Hrd, Hround, Nat.ltb_irrefl.
    assert (E : nsrc (f_rc r) (flat (buffer s)) <? qn (pp l) = false) by (apply Nat.ltb_ge; exact Hq).
    rewrite E, Hok, Hfail. unfold is_leader. simpl. rewrite Nat.eqb_refl. reflexivity.
Qed.


Lemma qrc_fire_post : forall P s m o' s' outs',
  pool_fresh ld r P -> In m P -> round s = r ->
  input s <> 0%N -> cfr s = 0 -> ppj s = PNone -> buf_fresh n fifo_ ld r P s ->
  justified (pp l) m (cfr s) = true -> rnd (main m) = r ->
  apply_rule (pp l) (mark (s1_of (pp l) s m) QRC r) m CmpOk QRC o' = Some (s', outs') ->
  s' = mark (s1_of (pp l) s m) QRC r /\
  exists v J, outs' = [Bcast (mk PrePrepare l r v 0 0) J]
    /\ (forall i c, justified (pp i) (mkm (mk PrePrepare l r v 0 0) J) c = true)
    /\ (forall b, In b J -> In b (flat (buffer (s1_of (pp l) s m)))).
Proof.
  intros P s m o' s' outs' Hpf Hm Hround Hin Hcfr Hppj Hbf Hj Hrd Ha.
  pose proof (quorum_pos n Hn) as Hq1.
  pose proof (buf_fresh_s1 P s m _ Hpf Hm Hj Hbf) as [B1 _ _].
  apply fire_qrc in Ha; [| autorewrite with st; exact Hppj | autorewrite with st; exact Hin].
  destruct Ha as [-> [Hadm [v [-> Hv]]]]. split; [reflexivity|].
  autorewrite with st in Hadm. rewrite Hrd in Hadm.
  assert (Hsub : forall b, In b (o_just o') -> In b (flat (buffer (s1_of (pp l) s m)))).
  { intros b Hb. eapply adm_qrc_sub; eauto. }
  exists v, (o_just o'). split; [|split; [|exact Hsub]].
  - simpl. autorewrite with st. simpl. rewrite Hround. reflexivity.
  - intros i c. unfold justified. simpl ty.
    apply (qrc_pp_justified (pp i) (flat (buffer (s1_of (pp l) s m))) r (o_just o') v c); auto.
    + destruct Hv as [[spr [Hs Hne]]|[-> _]]; [|autorewrite with st; exact Hin].
      destruct (single_true_witness _ _ _ _ Hq1 Hs) as [y [Y1 [Y2 [Y3 Y4]]]]. subst v.
      apply (B1 y (Hsub y Y1) Y2).
    + intros spr spv Hs. destruct Hv as [[spr' [Hs' Hne]]|[-> Hall]].
      * unfold qn in Hs, Hs'. simpl in Hs, Hs'. rewrite Hs in Hs'. inversion Hs'. reflexivity.
      * exfalso. specialize (Hall spr spv Hs). autorewrite with st in Hall. simpl in Hall. rewrite Hcfr in Hall.
        destruct (single_true_witness _ _ _ _ Hq1 Hs) as [y [Y1 [Y2 [Y3 Y4]]]].
        destruct (B1 y (Hsub y Y1) Y2) as [Hpos _]. lia.
Qed.


(* ------------------------------------------------------------------------------------------ *)
(* The extended invariant                                                                      *)

Definition jrc (m : msg) : bool := justified_roundchange (pp l) m.

(* the leader's "received => done": a quorum of justified ROUND-CHANGE(r) received in the window
   means the QRC rule of round r has been executed *)
Definition lseen_ok (s : state) (S : list msg) : Prop :=
  decided s = false -> q <= nsrc (f_rc r) (map main (filter jrc S)) -> is_dup s QRC r = true.

Record ginv2 (g0 g : gcfg) : Prop := mkg2 {
  g2_inv : ginv g0 g;
  g2_lead : leader_ok n fifo_ ld r (pool g) (gst g l);
  g2_seen : lseen_ok (gst g l) (seen g l)
}.

Lemma leader_ok_sent_mono : forall P X s, leader_ok n fifo_ ld r P s -> is_dup s QRC r = true ->
  leader_ok n fifo_ ld r (P ++ X) s.
Proof.
  intros P X s [L1 L2 L3 L4] Hd. constructor; auto.
  - intro H. congruence.
  - intros _. destruct (L4 Hd) as [ml [M1 M2]]. exists ml. split; [apply in_or_app; auto | exact M2].
Qed.

Lemma leader_step_sent : forall P s m o s' outs, pool_ok ld r P -> In m P -> proc_ok P l s ->
  leader_ok n fifo_ ld r P s -> is_dup s QRC r = true ->
  fstep (pp l) s (ERecv m CmpOk) o = Some (s', outs) ->
  leader_ok n fifo_ ld r (P ++ bcasts outs) s' /\ is_dup s' QRC r = true.
Proof.
  intros P s m o s' outs Hp Hm Hs [L1 L2 L3 L4] Hd H.
  pose proof (recv_dup_mono _ _ _ _ _ _ _ Hp Hm Hs H QRC r Hd) as Hd'.
  destruct (recv_frame _ _ _ _ _ _ H) as [F1 F2].
  split; [|exact Hd']. constructor.
  - rewrite F1. exact L1.
  - rewrite F2. exact L2.
  - intro Hx. congruence.
  - intros _. destruct (L4 Hd) as [ml [M1 M2]]. exists ml. split; [apply in_or_app; auto | exact M2].
Qed.


Lemma buf_fresh_ext : forall P s s', buffer s' = buffer s -> buf_fresh n fifo_ ld r P s -> buf_fresh n fifo_ ld r P s'.
Proof. intros P s s' E [B1 B2 B3]. constructor; rewrite E; assumption. Qed.

Lemma jrc_count_snoc : forall S m, f_rc r (main m) && jrc m = false ->
  nsrc (f_rc r) (map main (filter jrc (S ++ [m]))) = nsrc (f_rc r) (map main (filter jrc S)).
Proof.
  intros S m H. rewrite filter_app. simpl. destruct (jrc m) eqn:E.
  - rewrite map_app. simpl. apply nsrc_snoc_false. rewrite andb_true_r in H. exact H.
  - rewrite app_nil_r. reflexivity.
Qed.

Lemma rc_justified : forall i m c, ty (main m) = RoundChange -> justified (pp i) m c = justified_roundchange (pp l) m.
Proof. intros i m c Ht. unfold justified. rewrite Ht. reflexivity. Qed.

(* a quorum counted over the justified ROUND-CHANGEs seen is a quorum in the buffer *)
Lemma jrc_count_buffer : forall s0 s S, seen_ok l s0 s S -> decided s = false ->
  nsrc (f_rc r) (map main (filter jrc S)) <= nsrc (f_rc r) (flat (buffer s)).
Proof.
  intros s0 s S Hse Hd. apply nsrc_sub. intros b Hb Hf. apply in_map_iff in Hb. destruct Hb as [m' [E Hm']]. subst b.
  apply filter_In in Hm'. destruct Hm' as [M1 M2]. apply bufmsgs_flat_main.
  apply (se_buf _ _ _ _ _ _ _ _ Hse Hd m' M1). apply f_rc_inv in Hf. destruct Hf as [Hf _].
  rewrite (rc_justified l m' _ Hf). exact M2.
Qed.


Lemma leader_step_quiet : forall P s0 s S m s',
  pool_ok ld r P -> In m P -> proc_ok P l s -> decided s = false ->
  leader_ok n fifo_ ld r P s -> is_dup s QRC r = false ->
  seen_ok l s0 s' (S ++ [m]) -> lseen_ok s S ->
  ( (justified (pp l) m (cfr s) = false /\ s' = s)
  \/ (justified (pp l) m (cfr s) = true /\ s' = s1_of (pp l) s m
      /\ existsb (fun rl => rule_eqb rl Nothing || is_dup s rl (rnd (main m))) (rules_of (pp l) (s1_of (pp l) s m) m) = true)
  \/ (justified (pp l) m (cfr s) = true /\ s' = mark (s1_of (pp l) s m) UnjustQRC (rnd (main m))
      /\ existsb (rule_eqb UnjustQRC) (rules_of (pp l) (s1_of (pp l) s m) m) = true) ) ->
  leader_ok n fifo_ ld r P s' /\ lseen_ok s' (S ++ [m]).
Proof.
  intros P s0 s S m s' Hp Hm Hs Hd Hlo Hfr Hse Hls Hcase.
  pose proof Hlo as [L1 L2 L3 L4]. destruct (L3 Hfr) as [Hppj [Hpf Hbf]].
  pose proof (pr_round _ _ _ _ _ _ Hs) as Hround.
  assert (Hdup' : is_dup s' QRC r = false).
  { destruct Hcase as [[_ ->]|[[_ [-> _]]|[_ [-> _]]]]; auto. rewrite is_dup_mark, is_dup_s1, Hfr. reflexivity. }
  assert (Hd' : decided s' = false).
  { destruct Hcase as [[_ ->]|[[_ [-> _]]|[_ [-> _]]]]; auto. unfold decided. autorewrite with st. exact Hd. }
  split.
  - destruct Hcase as [[_ ->]|[[Hj [-> _]]|[Hj [-> _]]]]; [exact Hlo | |].
    + constructor; auto. intros _. split; [exact Hppj|]. split; [exact Hpf|]. eapply buf_fresh_s1; eauto.
    + constructor; autorewrite with st; auto.
      * intros _. split; [exact Hppj|]. split; [exact Hpf|].
        eapply buf_fresh_ext; [|eapply buf_fresh_s1; eauto]. autorewrite with st. reflexivity.
      * intro Hx. congruence.
  - intros _ Hcount. destruct (f_rc r (main m) && jrc m) eqn:E.
    + (* m is a justified ROUND-CHANGE(r): the leader's classification is forced to QRC *)
      exfalso. apply andb_true_iff in E. destruct E as [Ef Ej]. apply f_rc_inv in Ef. destruct Ef as [Ht Hrd].
      assert (Hjm : justified (pp l) m (cfr s) = true) by (rewrite (rc_justified l m _ Ht); exact Ej).
      assert (Hbuf : buffer s' = buffer (s1_of (pp l) s m)).
      { destruct Hcase as [[Hj _]|[[_ [-> _]]|[_ [-> _]]]]; [congruence | reflexivity | autorewrite with st; reflexivity]. }
      assert (Hq : q <= nsrc (f_rc r) (flat (buffer (s1_of (pp l) s m)))).
      { rewrite <- Hbuf. etransitivity; [exact Hcount|]. eapply jrc_count_buffer; eauto. }
      assert (Hrules : rules_of (pp l) (s1_of (pp l) s m) m = [QRC]).
      { eapply leader_forced; eauto. eapply buf_fresh_s1; eauto. }
      destruct Hcase as [[Hj _]|[[_ [_ Hex]]|[_ [_ Hex]]]]; [congruence | |].
      * rewrite Hrules in Hex. simpl in Hex. rewrite Hrd, Hfr in Hex. discriminate.
      * rewrite Hrules in Hex. discriminate.
    + rewrite jrc_count_snoc in Hcount by exact E. rewrite (Hls Hd Hcount) in Hfr. discriminate.
Qed.


Lemma ginv2_fire : forall g0 g m o' s' outs',
  ginv2 g0 g -> In l R -> In m (pool g) -> is_dup (gst g l) QRC r = false ->
  decided (gst g l) = false -> justified (pp l) m (cfr (gst g l)) = true ->
  ty (main m) = RoundChange -> rnd (main m) = r ->
  apply_rule (pp l) (mark (s1_of (pp l) (gst g l) m) QRC r) m CmpOk QRC o' = Some (s', outs') ->
  qlen (buffer (gst g0 l)) (src (main m)) + length (filter (from_src (src (main m))) (seen g l ++ [m])) <= fifo_ ->
  ginv2 g0 (mkg (upd (gst g) l s') (pool g ++ bcasts (Upon QRC :: outs'))
                (upd (seen g) l (seen g l ++ [m])) (gdecs g ++ decides l (Upon QRC :: outs'))).
Proof.
  intros g0 g m o' s' outs' [[G1 G2 G3 G4 G5] Hlo Hls] HlR Hm Hfr Hd Hj Ht Hrd Ha Hfifo.
  pose proof Hlo as [L1 L2 L3 L4]. destruct (L3 Hfr) as [Hppj [Hpf Hbf]].
  pose proof (G2 l HlR) as Hs. pose proof (pr_round _ _ _ _ _ _ Hs) as Hround.
  destruct (qrc_fire_post _ _ _ _ _ _ Hpf Hm Hround L1 L2 Hppj Hbf Hj Hrd Ha) as [-> [v [J [-> [Hjust Hsub]]]]].
  simpl bcasts. simpl decides. rewrite app_nil_r.
  set (ml := mkm (mk PrePrepare l r v 0 0) J).
  set (s1 := s1_of (pp l) (gst g l) m).
  assert (Hs1 : proc_ok (pool g) l s1) by (apply proc_ok_s1; auto).
  assert (Hp' : pool_ok ld r (pool g ++ [ml])).
  { apply pool_ok_add_first; auto.
    - apply (pf_nocar _ _ _ Hpf).
    - unfold ml. simpl. discriminate.
    - unfold ml. simpl. intros b Hb Hpc. apply (pr_buf _ _ _ _ _ _ Hs1 b (Hsub b Hb) Hpc). }
  assert (Hlen : qlen (buffer (gst g l)) (src (main m)) < fifo_).
  { pose proof (se_q _ _ _ _ _ _ _ _ (G3 l HlR) (src (main m))) as Hq. rewrite filter_snoc_len in Hfifo.
    unfold from_src at 2 in Hfifo. rewrite Nat.eqb_refl in Hfifo. lia. }
  assert (Hdupn : is_dup (mark s1 QRC r) QRC r = true).
  { rewrite is_dup_mark, rule_eqb_refl, Nat.eqb_refl. reflexivity. }
  constructor; [constructor|constructor|]; simpl.
  - exact Hp'.
  - intros j Hj'. destruct (Nat.eq_dec j l) as [->|Hne].
    + rewrite upd_same. apply proc_ok_mark; try discriminate. apply proc_ok_s1; [exact Hp' | apply in_or_app; auto |].
      eapply proc_ok_mono; [|exact Hs]. apply incl_appl, incl_refl.
    + rewrite upd_other by assumption. eapply proc_ok_mono; [|apply G2; assumption]. apply incl_appl, incl_refl.
  - intros j Hj'. destruct (Nat.eq_dec j l) as [->|Hne].
    + rewrite !upd_same. eapply seen_buffered; eauto; try (autorewrite with st; reflexivity); try congruence.
      all: try (intros rl k Hk; rewrite is_dup_mark, is_dup_s1, Hk; apply orb_true_r).
    + rewrite !upd_other by assumption. apply G3. assumption.
  - intros j x k Hin. destruct (G4 j x k Hin) as [E [m0 [M1 M2]]]. split; [exact E|]. exists m0.
    split; [apply in_or_app; auto | exact M2].
  - intros j Hj' Hdj. destruct (Nat.eq_dec j l) as [->|Hne].
    + rewrite upd_same in Hdj. unfold decided in Hdj. autorewrite with st in Hdj. simpl in Hdj.
      fold (decided (gst g l)) in Hdj. congruence.
    + rewrite upd_other in Hdj by assumption. auto.
  - rewrite upd_same. autorewrite with st. simpl. exact L1.
  - rewrite upd_same. autorewrite with st. simpl. exact L2.
  - rewrite upd_same. intro Hx. congruence.
  - rewrite upd_same. intros _. exists ml. split; [apply in_or_app; right; left; reflexivity|].
    split; [reflexivity|]. split; [reflexivity|]. exact Hjust.
  - rewrite !upd_same. intros _ _. exact Hdupn.
Qed.


Lemma ginv2_deliver : forall g0 g i m o s' outs,
  ginv2 g0 g -> In l R -> (forall j, In j R -> decided (gst g0 j) = false) ->
  In i R -> In m (pool g) ->
  fstep (pp i) (gst g i) (ERecv m CmpOk) o = Some (s', outs) ->
  qlen (buffer (gst g0 i)) (src (main m)) + length (filter (from_src (src (main m))) (seen g i ++ [m])) <= fifo_ ->
  ginv2 g0 (mkg (upd (gst g) i s') (pool g ++ bcasts outs) (upd (seen g) i (seen g i ++ [m])) (gdecs g ++ decides i outs)).
Proof.
  intros g0 g i m o s' outs Hinv HlR Hund Hi Hm H Hfifo.
  pose proof Hinv as [Hg Hlo Hls].
  pose proof (gi_pool _ _ _ _ _ _ _ Hg) as Hp. pose proof (gi_proc _ _ _ _ _ _ _ Hg i Hi) as Hs.
  pose proof (pr_round _ _ _ _ _ _ Hs) as Hround.
  destruct (is_dup (gst g l) QRC r) eqn:Eq.
  - (* the leader has proposed *)
    assert (Hnq : forall outs', outs <> Upon QRC :: outs').
    { eapply no_qrc_out; [exact H|]. intro Hx. apply rules_of_inv in Hx. simpl in Hx. destruct Hx as [_ [Hx1 Hx2]].
      unfold is_leader in Hx2. simpl in Hx2. apply Nat.eqb_eq in Hx2.
      assert (Er : rnd (main m) = r) by congruence. rewrite Er in Hx2. rewrite Er. rewrite <- Hx2. exact Eq. }
    pose proof (ginv_deliver n fifo_ ld R r Hn g0 g i m o s' outs Hg Hund Hi Hm H Hnq Hfifo) as Hg'.
    destruct (Nat.eq_dec i l) as [->|Hne].
    + destruct (leader_step_sent _ _ _ _ _ _ Hp Hm Hs Hlo Eq H) as [Hlo' Hdup'].
      constructor; simpl; rewrite ?upd_same; auto. intros _ _. exact Hdup'.
    + constructor; simpl; rewrite ?upd_other by auto; auto. apply leader_ok_sent_mono; auto.
  - (* nobody has a value yet *)
    destruct (lo_fresh _ _ _ _ _ _ Hlo Eq) as [Hppj [Hpf Hbf]].
    destruct (fresh_cases _ _ _ _ _ _ _ Hp Hm Hs (pf_nocar _ _ _ Hpf) H) as [Hd Hcase].
    destruct Hcase as [C|[C|[C|C]]].
    4: { destruct C as [Hj [Ht [Hrd [Hl [_ [o' [outs' [Ha ->]]]]]]]]. subst i.
         eapply ginv2_fire; eauto. }
    1: destruct C as [Cj [Cs Co]].
    2: destruct C as [Cj [Cs [Co Cx]]].
    3: destruct C as [Cj [Cs [Co Cx]]].
    all: assert (Hnq : forall outs', outs <> Upon QRC :: outs') by (intros outs' E; rewrite Co in E; discriminate).
    all: pose proof (ginv_deliver n fifo_ ld R r Hn g0 g i m o s' outs Hg Hund Hi Hm H Hnq Hfifo) as Hg'.
    all: assert (Hb : bcasts outs = []) by (rewrite Co; reflexivity).
    all: rewrite Hb in *; rewrite app_nil_r in *.
    all: destruct (Nat.eq_dec i l) as [->|Hne];
      [| constructor; simpl; rewrite ?upd_other by auto; auto].
    all: pose proof (gi_seen _ _ _ _ _ _ _ Hg' l HlR) as Hse; simpl in Hse; rewrite !upd_same in Hse.
    all: assert (Hq : leader_ok n fifo_ ld r (pool g) s' /\ lseen_ok s' (seen g l ++ [m]))
           by (eapply leader_step_quiet; eauto;
               first [left; solve [auto] | right; left; solve [auto] | right; right; solve [auto]]).
    all: destruct Hq as [Q1 Q2]; constructor; simpl; rewrite ?upd_same; auto.
Qed.


Lemma ginv2_steps : forall g0 g, gsteps n fifo_ ld R g0 g -> fifo_ok fifo_ R g0 g ->
  ginv2 g0 g0 -> In l R -> (forall j, In j R -> decided (gst g0 j) = false) ->
  ginv2 g0 g /\ incl (pool g0) (pool g).
Proof.
  intros g0 g Hs. induction Hs as [g|g0 g1 g2 Hs IH Hst]; intros Hf Hinv HlR Hund.
  - split; [assumption | apply incl_refl].
  - assert (Hf1 : fifo_ok fifo_ R g0 g1) by (eapply fifo_ok_step; eauto).
    destruct (IH Hf1 Hinv HlR Hund) as [I1 I3].
    destruct Hst as [g i m o s' outs Hi Hm H]. split.
    + eapply ginv2_deliver; eauto.
      specialize (Hf i (src (main m)) Hi). simpl in Hf. rewrite upd_same in Hf. exact Hf.
    + simpl. apply incl_appl. exact I3.
Qed.

Theorem good_round_qrc : forall g0 g,
  NoDup R -> q <= length R -> In l R ->
  pool_ok ld r (pool g0) ->
  (forall i, In i R -> start_ok r (pool g0) i (gst g0 i)) ->
  leader_ok n fifo_ ld r (pool g0) (gst g0 l) ->
  rcs_in_pool n fifo_ ld r R (pool g0) ->
  (forall i, In i R -> seen g0 i = []) -> gdecs g0 = [] ->
  gsteps n fifo_ ld R g0 g -> delivered_all R g -> fifo_ok fifo_ R g0 g ->
  exists v, (forall i, In i R -> exists k, In (i, v, k) (gdecs g))
            /\ (forall i x k, In (i, x, k) (gdecs g) -> x = v /\ k = r).
Proof.
  intros g0 g Hnd Hq HlR Hp Hst Hlo Hrcs Hseen Hdecs Hsteps Hdel Hfifo.
  pose proof (quorum_pos n Hn) as Hq1.
  pose proof (ginv_start n fifo_ ld R r Hn g0 Hp Hst Hseen Hdecs) as Hinv0.
  assert (Hund : forall j, In j R -> decided (gst g0 j) = false) by (intros j Hj; apply (so_undecided _ _ _ _ (Hst j Hj))).
  assert (Hinv20 : ginv2 g0 g0).
  { constructor; auto. intros _ Hc. rewrite (Hseen l HlR) in Hc. unfold nsrc in Hc. simpl in Hc. lia. }
  destruct (ginv2_steps g0 g Hsteps Hfifo Hinv20 HlR Hund) as [[Hinv Hlo' Hls] Hincl].
  assert (Hdup : is_dup (gst g l) QRC r = true).
  { destruct (is_dup (gst g l) QRC r) eqn:Eq; [reflexivity|]. exfalso.
    destruct (lo_fresh _ _ _ _ _ _ Hlo' Eq) as [_ [Hpf _]].
    assert (Hdl : decided (gst g l) = false).
    { destruct (decided (gst g l)) eqn:Hd; [|reflexivity].
      destruct (pr_decv _ _ _ _ _ _ (gi_proc _ _ _ _ _ _ _ Hinv l HlR) Hd) as [m0 [M1 [M2 _]]].
      rewrite (pf_nocar _ _ _ Hpf m0 M1) in M2. discriminate. }
    assert (Hc : q <= nsrc (f_rc r) (map main (filter jrc (seen g l)))).
    { etransitivity; [exact Hq|]. apply nsrc_covers; [exact Hnd|]. intros j Hj.
      destruct (Hrcs j Hj) as [m [M1 [M2 [M3 M4]]]]. exists (main m). split; [|auto].
      apply in_map. apply filter_In. split; [|exact M4]. apply Hdel; auto. }
    rewrite (Hls Hdl Hc) in Eq. discriminate. }
  destruct (lo_sent _ _ _ _ _ _ Hlo' Hdup) as [ml [M1 [M2 [M3 M4]]]].
  pose proof (justified_pp_carrier n fifo_ ld r 0 ml 0 M2 M3 (M4 0 0)) as Hcar.
  exists (val (main ml)).
  assert (Hvals : forall i x k, In (i, x, k) (gdecs g) -> x = val (main ml) /\ k = r).
  { intros i x k Hin. destruct (gi_decs _ _ _ _ _ _ _ Hinv i x k Hin) as [E [m0 [N1 [N2 N3]]]]. split; [|exact E].
    rewrite <- N3. apply (po_val _ _ _ (gi_pool _ _ _ _ _ _ _ Hinv)); auto. }
  split; [|exact Hvals].
  intros i Hi.
  assert (Hd : decided (gst g i) = true).
  { eapply (all_decided n fifo_ ld R r g0 g ml); eauto. }
  destruct (gi_decd _ _ _ _ _ _ _ Hinv i Hi Hd) as [x [k Hx]]. destruct (Hvals i x k Hx) as [-> _]. exists k. exact Hx.
Qed.

End Round.

(* ------------------------------------------------------------------------------------------ *)
(* The two cases together                                                                      *)

(* what the leader of the round has done / is able to do *)
Definition leader_case (n fifo_ : nat) (ld : nat -> nat) (R : list nat) (r : nat) (g0 : gcfg) : Prop :=
  (* round 1: the leader has its input value, i.e. its PRE-PREPARE(1) is in the pool (the model
     broadcasts it in the very step that receives the input); nobody sends ROUND-CHANGE(1) *)
  (r = 1 /\ norc 1 g0 /\ exists v J, v <> 0%N /\ In (mkm (mk PrePrepare (ld 1) 1 v 0 0) J) (pool g0))
  \/
  (* any round: the leader has its input and every member of R has broadcast ROUND-CHANGE(r) *)
  (leader_ok n fifo_ ld r (pool g0) (gst g0 (ld r)) /\ rcs_in_pool n fifo_ ld r R (pool g0)).

Theorem good_round_decides : forall n fifo_ ld R r g0 g,
  1 <= n -> NoDup R -> quorum n <= length R -> In (ld r) R ->
  pool_ok ld r (pool g0) ->
  (forall i, In i R -> start_ok r (pool g0) i (gst g0 i)) ->
  leader_case n fifo_ ld R r g0 ->
  (forall i, In i R -> seen g0 i = []) -> gdecs g0 = [] ->
  gsteps n fifo_ ld R g0 g -> delivered_all R g -> fifo_ok fifo_ R g0 g ->
  exists v, (forall i, In i R -> exists k, In (i, v, k) (gdecs g))
            /\ (forall i x k, In (i, x, k) (gdecs g) -> x = v /\ k = r).
Proof.
  intros n fifo_ ld R r g0 g Hn Hnd Hq HlR Hp Hst Hcase Hseen Hdecs Hsteps Hdel Hfifo.
  destruct Hcase as [[-> [Hnorc [v [J [Hv Hin]]]]]|[Hlo Hrcs]].
  - exists v. eapply good_round_decides_r1; eauto.
  - eapply good_round_qrc; eauto.
Qed.

(* ------------------------------------------------------------------------------------------ *)
(* Reachable-state fact used in [buf_fresh]                                                    *)

Definition bufj_fact (p : params) (s : state) : Prop :=
  forall m, In m (bufmsgs (buffer s)) -> ty (main m) = RoundChange -> justified_roundchange p m = true.

Lemma bufj_fact_fstep : forall p s e o s' outs, bufj_fact p s -> fstep p s e o = Some (s', outs) -> bufj_fact p s'.
Proof.
  intros p s e o s' outs Hs H. unfold bufj_fact in *. destruct e.
  - crush_fstep H; simpl; autorewrite with st; simpl; auto.
  - crush_fstep H; simpl; autorewrite with st; simpl; auto.
  - crush_fstep H; simpl; autorewrite with st; simpl; auto.
    all: intros m0 Hm0 Ht; apply (bufmsgs_s1 0 (fun x => x) p s m m0) in Hm0; destruct Hm0 as [Hm0| ->]; [auto|];
      apply negb_false_iff in Heqb1; unfold justified in Heqb1; rewrite Ht in Heqb1; exact Heqb1.
  - crush_fstep H; simpl; autorewrite with st; simpl; auto.
Qed.

(* reachable-state fact behind [buf_fresh]: a buffered ROUND-CHANGE passed isJustifiedRoundChange *)
Theorem run_buffer_rc_justified : forall p ls s, run p init ls = Some s ->
  forall m, In m (bufmsgs (buffer s)) -> ty (main m) = RoundChange -> justified_roundchange p m = true.
Proof.
  intros p ls s H. change (bufj_fact p s).
  eapply (run_invariant p (bufj_fact p)); [| |exact H].
  - intros. eapply bufj_fact_fstep; eassumption.
  - unfold bufj_fact. simpl. intros m Hm. destruct Hm.
Qed.


(* ------------------------------------------------------------------------------------------ *)
(* Reachable-state fact behind the round-1 case                                                *)

Definition sent_msgs (ls : list label) : list msg := flat_map (fun l => bcasts (label_outs l)) ls.

Definition r1_fact (p : params) (s : state) (log : list msg) : Prop :=
  (decided s = false -> 1 <= round s) /\
  (started s = false -> s = init) /\
  (decided s = false -> dead s = false -> started s = true -> round s = 1 -> is_leader p 1 (self p) = true ->
     (input s = 0%N /\ ppj s = PEmpty)
     \/ (input s <> 0%N /\ In (mkm (mk PrePrepare (self p) 1 (input s) 0 0) []) log)).

Lemma r1_fact_fstep : forall p s e o s' outs log, 1 <= nodes p -> r1_fact p s log -> fstep p s e o = Some (s', outs) ->
  r1_fact p s' (log ++ bcasts outs).
Proof.
  intros p s e o s' outs log Hn [H1 [H0 H2]] H. unfold r1_fact.
  pose proof (quorum_pos (nodes p) Hn) as Hq. fold (qn p) in Hq. destruct e.
  - crush_fstep H; apply orb_false_iff in Heqb; destruct Heqb as [Hst Hdd]; rewrite (H0 Hst) in *; simpl;
      (split; [lia|]); (split; [discriminate|]); intros; auto; try congruence.
  - assert (Hst : started s = true /\ dead s = false /\ input s = 0%N).
    { unfold fstep in H. destruct (negb (started s) || dead s || negb (N.eqb (input s) 0)) eqn:E; [discriminate|].
      apply orb_false_iff in E. destruct E as [E E3]. apply orb_false_iff in E. destruct E as [E1 E2].
      apply negb_false_iff in E1, E3. apply N.eqb_eq in E3. auto. }
    destruct Hst as [Hst [Hdd Hin]].
    crush_fstep H; simpl; autorewrite with st; simpl; (split; [auto|]); (split; [intro; congruence|]).
    all: intros A1 A2 A3 A4 A5; try discriminate.
    all: assert (A1' : decided s = false) by exact A1.
    all: destruct (H2 A1' A2 A3 A4 A5) as [[B1 B2]|[B1 B2]]; try congruence.
    right. apply N.eqb_neq in Heqb0. split; [exact Heqb0|]. rewrite A4. apply in_or_app. right. left. reflexivity.
  - assert (Hst : started s = true /\ dead s = false).
    { unfold fstep in H. destruct (negb (started s) || dead s) eqn:E; [discriminate|].
      apply orb_false_iff in E. destruct E as [E1 E2]. apply negb_false_iff in E1. auto. }
    destruct Hst as [Hst Hdd].
    crush_fstep H; try rule_facts; simpl; autorewrite with st; simpl; rewrite ?app_nil_r; (split; [|split; [intro; congruence|]]).
    all: prep_facts; eqb_conv.
    all: try (intros _; apply H1; reflexivity).
    all: try (apply H2; reflexivity).
    all: try (intro A1; undec A1; try congruence; try specialize (H1 A1); simpl in *; lia).
    all: try (intros A1 A2 A3 A4 A5; undec A1; try congruence).
    all: try first [specialize (H1 A1) | specialize (H1 eq_refl)].
    all: try (assert (Hr1 : round s = 1) by (simpl in *; lia)).
    all: try (first [pose proof (H2 A1 A2 A3 Hr1 A5) as HH | pose proof (H2 eq_refl A2 A3 Hr1 A5) as HH | pose proof (H2 eq_refl A2 A3 A4 A5) as HH];
              destruct HH as [[B1 B2]|[B1 B2]];
              [left; split; [exact B1 | try exact B2] | right; split; [exact B1 | try (apply in_or_app; left); exact B2]]).
    all: try (exfalso; simpl in *; autorewrite with st in *; simpl in *; first [congruence | lia]).
    + intro A1. exfalso. apply negb_false_iff in Heqb1. unfold justified in Heqb1. rewrite Hr in Heqb1.
      unfold justified_decided in Heqb1. apply Nat.leb_le in Heqb1. unfold decided in A1. simpl in A1.
      destruct (just m); [unfold nsrc in Heqb1; simpl in Heqb1; lia | discriminate].
    + exfalso. apply negb_false_iff in Heqb1. unfold justified in Heqb1. rewrite Hr in Heqb1.
      unfold justified_decided in Heqb1. apply Nat.leb_le in Heqb1.
      destruct (just m); [unfold nsrc in Heqb1; simpl in Heqb1; lia | discriminate].
  - assert (Hst : started s = true /\ dead s = false).
    { unfold fstep in H. destruct (negb (started s) || dead s) eqn:E; [discriminate|].
      apply orb_false_iff in E. destruct E as [E1 E2]. apply negb_false_iff in E1. auto. }
    destruct Hst as [Hst Hdd].
    crush_fstep H; simpl; autorewrite with st; simpl; (split; [|split; [intro; congruence|]]).
    + intro A1. undec A1. specialize (H1 A1). lia.
    + intros A1 A2 A3 A4 A5. undec A1. specialize (H1 A1). lia.
Qed.

Lemma r1_fact_init : forall p, r1_fact p init [].
Proof. intro p. split; [simpl; lia|]. split; [reflexivity|]. intros _ _ H. discriminate. Qed.

Lemma run_r1_fact_from : forall p ls s s' log, 1 <= nodes p -> r1_fact p s log -> run p s ls = Some s' ->
  r1_fact p s' (log ++ sent_msgs ls).
Proof.
  intros p. induction ls as [|l ls IH]; simpl; intros s s' log Hn Hs H.
  - inversion H; subst. rewrite app_nil_r. exact Hs.
  - destruct (step p s l) as [s1|] eqn:E; [|discriminate]. apply step_fstep in E.
    rewrite app_assoc. eapply IH; [exact Hn | | exact H]. eapply r1_fact_fstep; eassumption.
Qed.

(* reachable-state fact behind the round-1 case: a running, undecided round-1 leader that has its
   input value has broadcast PRE-PREPARE(1, input) (with the empty justification) *)
Theorem leader_input_sent : forall p ls s, 1 <= nodes p -> run p init ls = Some s ->
  decided s = false -> dead s = false -> started s = true -> round s = 1 -> is_leader p 1 (self p) = true ->
  input s <> 0%N -> In (mkm (mk PrePrepare (self p) 1 (input s) 0 0) []) (sent_msgs ls).
Proof.
  intros p ls s Hn H A1 A2 A3 A4 A5 Hin.
  destruct (run_r1_fact_from p ls init s [] Hn (r1_fact_init p) H) as [_ [_ H2]].
  destruct (H2 A1 A2 A3 A4 A5) as [[B1 _]|[_ B2]]; [contradiction | exact B2].
Qed.

