(* Round r > 1 of the good-round theorem: the leader that has buffered a quorum of justified
   ROUND-CHANGE(r), one (pr, pv) per source, finds a justified quorum whatever Go's map order
   (getJustifiedQrc cannot fail), and what it then proposes is accepted by every receiver. *)
From Coq Require Import List NArith Arith Bool Lia.
From Charon Require Import Common.Quorum Qbft.Model Qbft.ModelFacts Qbft.Inv Qbft.Justified Qbft.GoodRound Qbft.GoodRoundFacts.
Import ListNotations.
Set Warnings "-unused-intro-pattern".

(* ------------------------------------------------------------------------------------------ *)
(* Part A: getJustifiedQrc is forced to succeed                                                *)

Lemma dedupk_In : forall k l, In k (dedupk l) <-> In k l.
Proof.
  intros k l. induction l as [|[a b] l IH]; simpl; [tauto|].
  rewrite filter_In, IH. destruct k as [x y]. simpl.
  destruct (Nat.eq_dec x a) as [->|Hx]; [destruct (N.eq_dec y b) as [->|Hy]|].
  - tauto.
  - split; [tauto|]. intros [H|H]; [inversion H; congruence|]. right. split; [assumption|].
    rewrite Nat.eqb_refl. simpl. apply negb_true_iff. apply N.eqb_neq. assumption.
  - split; [tauto|]. intros [H|H]; [inversion H; congruence|]. right. split; [assumption|].
    apply Nat.eqb_neq in Hx. rewrite Hx. reflexivity.
Qed.

Lemma max_pr_exists : forall l : list bmsg, l <> [] -> exists x, In x l /\ forall y, In y l -> pr y <= pr x.
Proof.
  induction l as [|a l IH]; [congruence|]. intros _. destruct l as [|b l].
  - exists a. split; [left; reflexivity|]. intros y [<-|[]]. lia.
  - destruct IH as [x [Hx Hmax]]; [discriminate|].
    destruct (le_lt_dec (pr a) (pr x)).
    + exists x. split; [right; assumption|]. intros y [<-|Hy]; [assumption | apply Hmax; assumption].
    + exists a. split; [left; reflexivity|]. intros y [<-|Hy]; [lia|]. specialize (Hmax y Hy). lia.
Qed.

Definition is_null (b : bmsg) : bool := (pr b =? 0) && N.eqb (pv b) 0.

Lemma f_rc_null_split : forall r b, f_rc_null r b = f_rc r b && is_null b.
Proof. intros r b. unfold f_rc_null, is_null. rewrite andb_assoc. reflexivity. Qed.

Lemma f_rc_inv : forall r b, f_rc r b = true <-> ty b = RoundChange /\ rnd b = r.
Proof. intros r b. unfold f_rc, is_ty. rewrite andb_true_iff, mtype_eqb_eq, Nat.eqb_eq. tauto. Qed.

Section Forced.
Variables (p : params) (all : list bmsg) (r : nat).
Hypothesis Hq1 : 1 <= qn p.
(* every ROUND-CHANGE(r) is null or comes with its quorum of PREPAREs *)
Hypothesis Ha : forall b, In b all -> f_rc r b = true ->
  is_null b = true \/ qn p <= nsrc (f_trv Prepare (pr b) (pv b)) all.
(* one (pr, pv) per source *)
Hypothesis Hb : forall b b', In b all -> In b' all -> f_rc r b = true -> f_rc r b' = true -> src b = src b' ->
  pr b = pr b' /\ pv b = pv b'.
Hypothesis Hq : qn p <= nsrc (f_rc r) all.

Lemma all_null_nullQ : forallb is_null (filter (f_rc r) all) = true -> nullQ p all r = true.
Proof.
  intro H. unfold nullQ. apply Nat.leb_le. etransitivity; [exact Hq|]. unfold nsrc.
  rewrite (filter_ext_in (f_rc_null r) (f_rc r)); [lia|].
  intros b Hb'. rewrite f_rc_null_split. destruct (f_rc r b) eqn:E; [|reflexivity]. simpl.
  rewrite forallb_forall in H. apply H. apply filter_In. auto.
Qed.

Lemma nsrc_pos_witness : forall f (l : list bmsg), 1 <= nsrc f l -> exists b, In b l /\ f b = true.
Proof.
  intros f l H. unfold nsrc in H. destruct (filter f l) as [|b t] eqn:E; [simpl in H; lia|].
  assert (Hin : In b (filter f l)) by (rewrite E; left; reflexivity). apply filter_In in Hin. eauto.
Qed.

Lemma key_in_prep_keys : forall k v, qn p <= nsrc (f_trv Prepare k v) all -> In (k, v) (prep_keys p all).
Proof.
  intros k v H. unfold prep_keys. apply filter_In. split; [|apply Nat.leb_le; exact H].
  apply dedupk_In. destruct (nsrc_pos_witness _ _ (Nat.le_trans _ _ _ Hq1 H)) as [b [B1 B2]].
  apply f_trv_inv in B2. destruct B2 as [B2 [B3 B4]]. apply in_map_iff. exists b. split; [congruence|].
  apply filter_In. split; [assumption|]. unfold is_ty. rewrite B2. reflexivity.
Qed.

Lemma src_rcs_In : forall s b, In b (src_rcs all r s) <-> In b all /\ f_rc r b = true /\ src b = s.
Proof. intros s b. unfold src_rcs. rewrite filter_In, andb_true_iff, Nat.eqb_eq. tauto. Qed.

Lemma rc_srcs_In : forall s, In s (rc_srcs all r) <-> exists b, In b all /\ f_rc r b = true /\ src b = s.
Proof.
  intros s. unfold rc_srcs. rewrite dedupn_In, in_map_iff. split; intros [b H]; exists b.
  - destruct H as [H1 H2]. apply filter_In in H2. tauto.
  - destruct H as [H1 [H2 H3]]. split; [assumption|]. apply filter_In. auto.
Qed.

Lemma rc_srcs_len : length (rc_srcs all r) = nsrc (f_rc r) all.
Proof. reflexivity. Qed.

(* the key of a non-null ROUND-CHANGE(r) with maximal prepared round passes whatever the order *)
Lemma max_key_passes : forall bs, In bs all -> f_rc r bs = true -> is_null bs = false ->
  (forall b, In b all -> f_rc r b = true -> pr b <= pr bs) ->
  In (pr bs, pv bs) (prep_keys p all)
  /\ must_pass p all r (pr bs, pv bs) = true /\ may_pass p all r (pr bs, pv bs) = true.
Proof.
  intros bs Hin Hrc Hnn Hmax.
  assert (Hkey : qn p <= nsrc (f_trv Prepare (pr bs) (pv bs)) all).
  { destruct (Ha bs Hin Hrc) as [H|H]; [congruence | exact H]. }
  split; [apply key_in_prep_keys; exact Hkey|].
  assert (Hs : In (src bs) (rc_srcs all r)) by (apply rc_srcs_In; eauto).
  split.
  - unfold must_pass. simpl fst. simpl snd. apply andb_true_iff. split.
    + apply Nat.leb_le. rewrite filter_all; [rewrite rc_srcs_len; exact Hq|].
      apply forallb_forall. intros s _. apply forallb_forall. intros b Hb'. apply src_rcs_In in Hb'.
      apply Nat.leb_le. apply Hmax; tauto.
    + apply existsb_exists. exists (src bs). split; [exact Hs|].
      apply forallb_forall. intros b Hb'. apply src_rcs_In in Hb'. destruct Hb' as [B1 [B2 B3]].
      destruct (Hb b bs B1 Hin B2 Hrc B3) as [E1 E2]. rewrite E1, E2, Nat.eqb_refl, N.eqb_refl. reflexivity.
  - unfold may_pass. simpl fst. simpl snd. apply andb_true_iff. split.
    + apply Nat.leb_le. rewrite filter_all; [rewrite rc_srcs_len; exact Hq|].
      apply forallb_forall. intros s Hs'. apply rc_srcs_In in Hs'. destruct Hs' as [b [B1 [B2 B3]]].
      apply existsb_exists. exists b. split; [apply src_rcs_In; auto|]. apply Nat.leb_le. apply Hmax; assumption.
    + apply existsb_exists. exists bs. split; [exact Hin|]. rewrite Hrc, Nat.eqb_refl, N.eqb_refl. reflexivity.
Qed.


Theorem qrc_forced : may_ok p all r = true /\ may_fail p all r = false.
Proof.
  destruct (forallb is_null (filter (f_rc r) all)) eqn:En.
  - pose proof (all_null_nullQ En) as Hnull. unfold may_ok, may_fail. rewrite Hnull. auto.
  - (* some non-null ROUND-CHANGE(r): take one with maximal prepared round *)
    set (NN := filter (fun b => negb (is_null b)) (filter (f_rc r) all)).
    assert (Hne : NN <> []).
    { intro E. assert (forallb is_null (filter (f_rc r) all) = true); [|congruence].
      apply forallb_forall. intros b Hb'. destruct (is_null b) eqn:E2; [reflexivity|].
      assert (In b NN) by (apply filter_In; rewrite E2; auto). rewrite E in H. destruct H. }
    destruct (max_pr_exists NN Hne) as [bs [Hbs Hmax]].
    apply filter_In in Hbs. destruct Hbs as [Hbs Hnn]. apply filter_In in Hbs. destruct Hbs as [Hin Hrc].
    apply negb_true_iff in Hnn.
    assert (Hmax' : forall b, In b all -> f_rc r b = true -> pr b <= pr bs).
    { intros b B1 B2. destruct (is_null b) eqn:E2.
      - unfold is_null in E2. apply andb_true_iff in E2. destruct E2 as [E2 _]. apply Nat.eqb_eq in E2. lia.
      - apply Hmax. apply filter_In. rewrite E2. split; [apply filter_In; auto | reflexivity]. }
    destruct (max_key_passes bs Hin Hrc Hnn Hmax') as [K1 [K2 K3]].
    unfold may_ok, may_fail. split.
    + apply orb_true_iff. right. apply existsb_exists. eauto.
    + apply andb_false_iff. right. apply negb_false_iff. apply existsb_exists. eauto.
Qed.

End Forced.

(* ------------------------------------------------------------------------------------------ *)
(* Part B: what the QRC rule does when the leader has its input and an empty cache             *)

Lemma fire_qrc : forall p s2 m o s' outs,
  apply_rule p s2 m CmpOk QRC o = Some (s', outs) -> ppj s2 = PNone -> input s2 <> 0%N ->
  s' = s2 /\ adm_qrc p (flat (buffer s2)) (rnd (main m)) (o_just o) = true /\
  exists v, outs = [Bcast (mk PrePrepare (self p) (round s2) v 0 0) (o_just o)] /\
    ((exists spr, single (qn p) (o_just o) = (spr, v, true) /\ cfr s2 <> spr)
     \/ (v = input s2 /\ forall spr spv, single (qn p) (o_just o) = (spr, spv, true) -> cfr s2 = spr)).
Proof.
  intros p s2 m o s' outs H Hppj Hin. simpl in H.
  destruct (adm_qrc p (flat (buffer s2)) (rnd (main m)) (o_just o)) eqn:Ea.
  - destruct (single (qn p) (o_just o)) as [[spr spv] ok] eqn:Es.
    destruct (ok && negb (cfr s2 =? spr)) eqn:Eb.
    + injection H as Hs Ho. subst s' outs. split; [reflexivity|]. split; [reflexivity|]. exists spv. split; [reflexivity|].
      left. apply andb_true_iff in Eb. destruct Eb as [-> Eb]. apply negb_true_iff, Nat.eqb_neq in Eb. eauto.
    + rewrite Hppj in H. destruct (N.eqb (input s2) 0) eqn:Ei; [apply N.eqb_eq in Ei; contradiction|].
      injection H as Hs Ho. subst s' outs. split; [reflexivity|]. split; [reflexivity|]. exists (input s2). split; [reflexivity|].
      right. split; [reflexivity|]. intros spr' spv' E. inversion E; subst. simpl in Eb.
      apply negb_false_iff, Nat.eqb_eq in Eb. exact Eb.
  - destruct (o_just o); [|discriminate]. destruct (may_own _ _ _ _); [|discriminate].
    rewrite Hppj in H. destruct (N.eqb (input s2) 0) eqn:Ei; [apply N.eqb_eq in Ei; contradiction | discriminate].
Qed.

Lemma qrc_pp_justified : forall p all r J v c,
  1 <= qn p -> adm_qrc p all r J = true -> v <> 0%N ->
  (forall spr spv, single (qn p) J = (spr, spv, true) -> v = spv) ->
  justified_preprepare p (mkm (mk PrePrepare (leader p r) r v 0 0) J) c = true.
Proof.
  intros p all r J v c Hq Ha Hv Hs. unfold justified_preprepare, is_leader. simpl.
  rewrite Nat.eqb_refl. simpl.
  destruct (N.eqb v 0) eqn:E; [apply N.eqb_eq in E; contradiction|]. simpl.
  destruct (adm_qrc_contains p all r J Hq Ha) as [x [Hx Hx2]]. rewrite Hx.
  destruct Hx2 as [->|[spr Hx2]].
  - rewrite !orb_true_r. reflexivity.
  - rewrite (Hs _ _ Hx2), N.eqb_refl, !orb_true_r. reflexivity.
Qed.
