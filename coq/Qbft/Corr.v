(* Correspondence check for the QBFT model: evaluation functions used by gen/cases_qbft_*.v.

   A [case] is one observed execution: a global trace of (process id, label) recorded by
   harness/qbft from real qbft.Run processes (one process for adversarial sequences, n processes for
   cluster executions).  [rejects] projects the trace per process and reports the first label the
   model refuses (trace inclusion).  The global monitors transcribe C02/C03/C04 on the observed
   execution, without any model state. *)
From Coq Require Import List NArith Arith Bool.
From Charon Require Import Common.Quorum Qbft.Model Qbft.Monitor Qbft.Inv Qbft.Net.
Import ListNotations.

Record case := mkcase {
  c_id : nat;
  c_nodes : nat;
  c_fifo : nat;
  c_off : nat;                       (* leader r = (c_off + r) mod c_nodes *)
  c_expect : list nat;               (* processes that must decide in this execution (timely schedules), else [] *)
  c_cluster : bool;                  (* every process of the trace is a real honest qbft.Run; what it receives was broadcast by
                                        such processes or assembled by the members c_byz from those broadcasts and their own parts *)
  c_byz : list nat;                  (* members played by the scripted Byzantine adversary (cluster-byz), else [] *)
  c_trace : list (nat * label)
}.

Definition case_params (c : case) (i : nat) : params :=
  {| nodes := c_nodes c; fifo := c_fifo c; leader := lead_rr (c_off c) (c_nodes c); self := i |}.

Definition proj (i : nat) (t : list (nat * label)) : list label :=
  map snd (filter (fun e => fst e =? i) t).

Definition pids (t : list (nat * label)) : list nat := dedupn (map fst t).

Fixpoint first_reject (p : params) (s : state) (ls : list label) (i : nat) : option nat :=
  match ls with
  | [] => None
  | l :: r => match step p s l with Some s' => first_reject p s' r (S i) | None => Some i end
  end.

(* (case id, process, index in that process's own label sequence) of the first refused label *)
Definition rejects (c : case) : list (nat * (nat * nat)) :=
  flat_map (fun i => match first_reject (case_params c i) init (proj i (c_trace c)) 0 with
                     | Some k => [(c_id c, (i, k))]
                     | None => []
                     end) (pids (c_trace c)).

(* ---- monitors over the observed global trace ---- *)

Definition all_decides (t : list (nat * label)) : list (nat * (N * nat * list bmsg)) :=
  flat_map (fun e => map (fun d => (fst e, d)) (decides_of (label_outs (snd e)))) t.

(* C02: no two Decide outputs (of any processes) carry different values. *)
Definition c02_ok (t : list (nat * label)) : bool :=
  match all_decides t with
  | [] => true
  | (_, (v, _, _)) :: r => forallb (fun d => N.eqb (fst (fst (snd d))) v) r
  end.

(* C03: each process decides at most once, never the zero value, and the qcommit handed to Decide
   contains COMMIT(round, value) from at least quorum distinct sources.
   Returns (process, code): 1 = decided twice, 2 = zero value, 3 = qcommit without quorum. *)
Definition c03_bad (n : nat) (t : list (nat * label)) : list (nat * nat) :=
  let ds := all_decides t in
  flat_map (fun i =>
    let mine := filter (fun d => fst d =? i) ds in
    (if 1 <? length mine then [(i, 1)] else [])
    ++ flat_map (fun d => match snd d with (v, r, qc) =>
         (if N.eqb v 0 then [(i, 2)] else [])
         ++ (if quorum n <=? nsrc (f_trv Commit r v) qc then [] else [(i, 3)]) end) mine)
    (pids t).

(* C04 (safety half): LogUnjust fired for a message that some process of this execution broadcast
   earlier, with the justification it was broadcast with.  Returns (process, global index). *)
Fixpoint bcasts_of (outs : list output) : list msg :=
  match outs with
  | [] => []
  | Bcast b j :: r => mkm b j :: bcasts_of r
  | _ :: r => bcasts_of r
  end.

Fixpoint c04_unjust_from (sent : list msg) (t : list (nat * label)) (k : nat) : list (nat * nat) :=
  match t with
  | [] => []
  | (i, l) :: r =>
      let outs := label_outs l in
      (if existsb (fun o => match o with Unjust m => existsb (meq m) sent | _ => false end) outs then [(i, k)] else [])
      ++ c04_unjust_from (bcasts_of outs ++ sent) r (S k)
  end.
Definition c04_unjust (t : list (nat * label)) : list (nat * nat) := c04_unjust_from [] t 0.

(* C04 (termination half, observed): the processes the schedule obliges to decide did decide. *)
Definition c04_undecided (c : case) : list nat :=
  filter (fun i => negb (existsb (fun d => fst d =? i) (all_decides (c_trace c)))) (c_expect c).

(* bounded DECIDED re-broadcast as observed: after its Decide a process emits nothing but at most one
   Bcast DECIDED per received ROUND-CHANGE. Checked by the model (trace inclusion); here only the
   number of post-decision outputs is reported for coverage. *)
Definition post_decision_bcasts (i : nat) (t : list (nat * label)) : nat :=
  let fix go (ls : list label) (dec : bool) : nat :=
    match ls with
    | [] => 0
    | l :: r =>
        let outs := label_outs l in
        (if dec then length (bcasts_of outs) else 0)
        + go r (dec || match decides_of outs with [] => false | _ => true end)
    end in go (proj i t) false.

(* the single-process monitor of C03 (Qbft/Monitor.v; proved for every model trace in ModelFacts.v) evaluated
   directly on the observed label sequence of every process: (case, (process, index of the violating label)) *)
Definition mon3_bad (c : case) : list (nat * (nat * nat)) :=
  flat_map (fun i => match mon3_first_violation (case_params c i) g3_init (proj i (c_trace c)) 0 with
                     | Some k => [(c_id c, (i, k))]
                     | None => []
                     end) (pids (c_trace c)).

(* Network level: a cluster execution must be an execution of Qbft/Net.v (members c_byz Byzantine, the others honest):
   every part of every delivered message was broadcast before by an honest member or has a Byzantine source.  (case, index of the first refused global step) *)
Definition case_cfg (c : case) : cfg :=
  mkcfg (c_nodes c) (c_fifo c) (lead_rr (c_off c) (c_nodes c)) (fun i => negb (memn i (c_byz c))).
Definition net_bad (c : case) : list (nat * nat) :=
  if c_cluster c then
    match nrun_first_reject (case_cfg c) net_init (c_trace c) 0 with Some k => [(c_id c, k)] | None => [] end
  else [].

(* Deliverability alone (no model): every part of every delivered message was broadcast before, according to the
   observed Broadcast callbacks, or has a Byzantine source.  Used to tell whether a REPLAYED event list is an execution
   on the tree it is replayed against (an honest message of the recording may never be broadcast there). *)
Fixpoint deliv_first_bad (c : cfg) (snt : list bmsg) (tr : list (nat * label)) (k : nat) : option nat :=
  match tr with
  | [] => None
  | (i, l) :: r =>
      if recv_ok c (mknet (fun _ => init) snt) l then deliv_first_bad c (snt ++ bc_mains (label_outs l)) r (S k) else Some k
  end.
Definition deliv_bad (c : case) : list (nat * nat) :=
  if c_cluster c then
    match deliv_first_bad (case_cfg c) [] (c_trace c) 0 with Some k => [(c_id c, k)] | None => [] end
  else [].

(* ---- whole case files ---- *)
Definition all_deliv (cs : list case) : list (nat * nat) := flat_map deliv_bad cs.
Definition all_net (cs : list case) : list (nat * nat) := flat_map net_bad cs.
Definition all_mon3 (cs : list case) : list (nat * (nat * nat)) := flat_map mon3_bad cs.

Definition all_rejects (cs : list case) : list (nat * (nat * nat)) := flat_map rejects cs.
Definition all_c02 (cs : list case) : list nat :=
  flat_map (fun c => if c02_ok (c_trace c) then [] else [c_id c]) cs.
Definition all_c03 (cs : list case) : list (nat * (nat * nat)) :=
  flat_map (fun c => map (fun x => (c_id c, x)) (c03_bad (c_nodes c) (c_trace c))) cs.
Definition all_c04u (cs : list case) : list (nat * (nat * nat)) :=
  flat_map (fun c => map (fun x => (c_id c, x)) (c04_unjust (c_trace c))) cs.
Definition all_c04d (cs : list case) : list (nat * nat) :=
  flat_map (fun c => map (fun x => (c_id c, x)) (c04_undecided c)) cs.

(* quorum / leader tables compared with Go *)
Definition qf_table (k : nat) : list (nat * nat) := map (fun n => (quorum n, faulty n)) (seq 1 k).
Definition qf_mismatch (k : nat) (go : list (nat * nat)) : list nat :=
  flat_map (fun e => match e with (n, (a, b)) => if (fst a =? fst b) && (snd a =? snd b) then [] else [n] end)
           (combine (seq 1 k) (combine (qf_table k) go)).
(* rows (off, n, [leader of round 1; leader of round 2; ...]) observed from the wrapper's leader function;
   returns the (off, n, round) at which the model's round-robin leader differs *)
Definition leader_mismatch (rows : list (nat * nat * list nat)) : list (nat * nat * nat) :=
  flat_map (fun e => match e with (off, n, ls) =>
    flat_map (fun rl => if lead_rr off n (fst rl) =? snd rl then [] else [(off, n, fst rl)])
             (combine (seq 1 (length ls)) ls) end) rows.
