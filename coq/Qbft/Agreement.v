(* C02 agreement for the network semantics Qbft/Net.v, default configuration (Compare never fails):
   no two honest members decide different values, for every n >= 1, every set of at most
   f = floor((n-1)/3) Byzantine members, every leader function, every FIFO limit, every schedule of
   inputs, deliveries (any deliverable message, see Net.v), timeouts, and every choice of Go's map orders. *)
From Coq Require Import List NArith Arith Bool Lia.
From Charon Require Import Common.Quorum Qbft.Model Qbft.Monitor Qbft.ModelFacts Qbft.Inv Qbft.Card Qbft.Net Qbft.NetInv.
Import ListNotations.
Set Warnings "-unused-intro-pattern".

(* ---- what the justification checks give ---- *)

Lemma uniq_first_spec : forall l seen,
  NoDup (map src (uniq_first seen l)) /\
  (forall y, In y (uniq_first seen l) -> In y l /\ ~ In (src y) seen).
Proof.
  induction l as [|b l IH]; simpl; intros seen.
  - split; [constructor | intros y []].
  - destruct (memn (src b) seen) eqn:E.
    + destruct (IH seen) as [H1 H2]. split; [exact H1|]. intros y Hy. destruct (H2 y Hy). tauto.
    + destruct (IH (src b :: seen)) as [H1 H2]. split.
      * simpl. constructor; [|exact H1]. intro Hin. apply in_map_iff in Hin. destruct Hin as [y [Hy1 Hy2]].
        destruct (H2 y Hy2) as [_ Hn]. apply Hn. left. auto.
      * intros y [Hy|Hy].
        -- subst y. split; [left; reflexivity|]. intro Hin. apply memn_In in Hin. congruence.
        -- destruct (H2 y Hy) as [Ha Hb]. split; [right; exact Ha|]. intro Hin. apply Hb. right. exact Hin.
Qed.

Lemma single_true_spec : forall q J spr spv, 1 <= q -> single q J = (spr, spv, true) ->
  exists P, (forall y, In y P -> In y J /\ ty y = Prepare /\ rnd y = spr /\ val y = spv)
            /\ NoDup (map src P) /\ q <= length P.
Proof.
  intros q J spr spv Hq H. unfold single in H.
  remember (filter (is_ty Prepare) J) as P eqn:EP.
  destruct P as [|p0 P'].
  - inversion H. apply Nat.leb_le in H3. lia.
  - destruct (nodupn (map src (p0 :: P')) && forallb (fun b => (rnd b =? rnd p0) && N.eqb (val b) (val p0)) (p0 :: P')) eqn:E; [|discriminate].
    apply andb_true_iff in E. destruct E as [E1 E2]. inversion H; subst spr spv. apply Nat.leb_le in H3.
    exists (p0 :: P'). split; [|split; [apply nodupn_NoDup; exact E1 | exact H3]].
    intros y Hy. assert (Hy' : In y (filter (is_ty Prepare) J)) by (rewrite <- EP; exact Hy).
    apply filter_In in Hy'. destruct Hy' as [Hy1 Hy2]. apply mtype_eqb_eq in Hy2.
    rewrite forallb_forall in E2. specialize (E2 y Hy). apply andb_true_iff in E2. destruct E2 as [E2 E3].
    apply Nat.eqb_eq in E2. apply N.eqb_eq in E3. auto.
Qed.

Lemma contains_jqrc_spec : forall q J r x, 1 <= q -> contains_jqrc q J r = Some x ->
  exists qrc, q <= length qrc /\ NoDup (map src qrc)
    /\ (forall y, In y qrc -> In y J /\ ty y = RoundChange /\ rnd y = r)
    /\ ((forall y, In y qrc -> pr y = 0 /\ pv y = 0%N) /\ x = 0%N
        \/ exists spr, single q J = (spr, x, true) /\ (forall y, In y qrc -> pr y <= spr)).
Proof.
  intros q J r x Hq H. unfold contains_jqrc in H.
  set (qrc := uniq_first [] (filter (f_rc r) J)) in *.
  destruct (uniq_first_spec (filter (f_rc r) J) []) as [U1 U2]. fold qrc in U1, U2.
  destruct (length qrc <? q) eqn:El; [discriminate|]. apply Nat.ltb_ge in El.
  exists qrc. split; [exact El|]. split; [exact U1|]. split.
  - intros y Hy. destruct (U2 y Hy) as [Hy1 _]. apply filter_In in Hy1. destruct Hy1 as [Hy1 Hy2].
    unfold f_rc in Hy2. apply andb_true_iff in Hy2. destruct Hy2 as [Hy2 Hy3].
    apply mtype_eqb_eq in Hy2. apply Nat.eqb_eq in Hy3. auto.
  - destruct (forallb (fun b => (pr b =? 0) && N.eqb (pv b) 0) qrc) eqn:Ez.
    + left. inversion H. split; [|reflexivity]. intros y Hy. rewrite forallb_forall in Ez. specialize (Ez y Hy).
      apply andb_true_iff in Ez. destruct Ez as [Ez1 Ez2]. apply Nat.eqb_eq in Ez1. apply N.eqb_eq in Ez2. auto.
    + right. destruct (single q J) as [[spr spv] ok] eqn:Es. destruct ok; [|discriminate].
      destruct (forallb (fun b => pr b <=? spr) qrc && existsb (fun b => (pr b =? spr) && N.eqb (pv b) spv) qrc) eqn:E2; [|discriminate].
      inversion H; subst x. exists spr. split; [reflexivity|].
      apply andb_true_iff in E2. destruct E2 as [E2 _]. intros y Hy. rewrite forallb_forall in E2. specialize (E2 y Hy).
      apply Nat.leb_le. exact E2.
Qed.

(* the sources behind an nsrc count *)
Lemma nsrc_sources : forall f L k, k <= nsrc f L ->
  exists S, NoDup S /\ k <= length S /\ forall x, In x S -> exists y, In y L /\ f y = true /\ src y = x.
Proof.
  intros f L k H. exists (dedupn (map src (filter f L))). split; [apply dedupn_NoDup|]. split; [exact H|].
  intros x Hx. apply (proj1 (dedupn_In _ _)) in Hx. apply in_map_iff in Hx. destruct Hx as [y [Hy1 Hy2]]. apply filter_In in Hy2.
  exists y. tauto.
Qed.

Lemma f_trv_spec : forall t r v b, f_trv t r v b = true <-> ty b = t /\ rnd b = r /\ val b = v.
Proof.
  intros. unfold f_trv, is_ty. rewrite !andb_true_iff, mtype_eqb_eq, Nat.eqb_eq, N.eqb_eq. tauto.
Qed.

Section Agree.
Variables (c : cfg) (nt : net).
Hypothesis Hwf : wf_cfg c.
Hypothesis NI : ninv c nt.

Let n := c_n c.
Let q := qc c.
Let hon := c_honest c.
Let byz := byz_count n hon.

Lemma n_pos : 1 <= n. Proof. exact (proj1 Hwf). Qed.
Lemma q_pos : 1 <= q. Proof. exact (quorum_pos n n_pos). Qed.
Lemma byz_le_f : byz <= faulty n. Proof. exact (proj2 Hwf). Qed.
Lemma byz_lt_q : byz < q. Proof. pose proof byz_le_f. pose proof (faulty_lt_quorum n n_pos). unfold q, qc. fold n. lia. Qed.
Lemma two_q : n + byz < q + q. Proof. pose proof byz_le_f. pose proof (quorum_intersection n n_pos). unfold q, qc. fold n. lia. Qed.

Lemma deliv_honest_in : forall l b, deliv c l b -> hon (src b) = true -> In b l.
Proof. intros l b [_ [H|H]] Hh; [exact H | unfold hon in Hh; congruence]. Qed.

Lemma deliv_below : forall l b, deliv c l b -> src b < n.
Proof. intros l b [H _]. exact H. Qed.

Lemma own_intro : forall b, In b (sent nt) -> In b (own nt (src b)).
Proof. intros b H. unfold own. apply filter_In. split; [exact H | apply Nat.eqb_refl]. Qed.

Lemma sent_good : forall b, In b (sent nt) -> good c (src b).
Proof. exact (n_sent c nt NI). Qed.

(* two honest PREPAREs of one member for one round carry one value *)
Lemma sent_prepare_uniq : forall y1 y2, In y1 (sent nt) -> In y2 (sent nt) -> src y1 = src y2 ->
  ty y1 = Prepare -> ty y2 = Prepare -> rnd y1 = rnd y2 -> val y1 = val y2.
Proof.
  intros y1 y2 H1 H2 Hs T1 T2 Hr.
  pose proof (n_linv c nt NI (src y1) (sent_good y1 H1)) as L.
  apply (l_prep_uniq _ _ _ L y1 y2); auto using own_intro. rewrite Hs. apply own_intro. exact H2.
Qed.

Lemma sent_commit_uniq : forall y1 y2, In y1 (sent nt) -> In y2 (sent nt) -> src y1 = src y2 ->
  ty y1 = Commit -> ty y2 = Commit -> rnd y1 = rnd y2 -> val y1 = val y2.
Proof.
  intros y1 y2 H1 H2 Hs T1 T2 Hr.
  pose proof (n_linv c nt NI (src y1) (sent_good y1 H1)) as L.
  apply (l_commit_uniq _ _ _ L y1 y2); auto using own_intro. rewrite Hs. apply own_intro. exact H2.
Qed.

Lemma sent_prepare_nonzero : forall y, In y (sent nt) -> ty y = Prepare -> val y <> 0%N.
Proof.
  intros y H T. destruct (in_split y (sent nt) H) as [p1 [p2 Hs]].
  exact (proj1 (n_cprep c nt NI p1 y p2 Hs T)).
Qed.

(* (r0, v) is locked by the members Lk: they are honest, each has sent COMMIT(r0, v), and together with any
   quorum they exceed n *)
Definition locked (r0 : nat) (v : N) (Lk : list nat) : Prop :=
  NoDup Lk /\ below n Lk /\ n + 1 <= q + length Lk /\
  forall d, In d Lk -> good c d /\
    exists cm, In cm (sent nt) /\ src cm = d /\ ty cm = Commit /\ rnd cm = r0 /\ val cm = v.

(* Once (r0, v) is locked, every honest PREPARE for a later round is for v. *)
Lemma lock_prepares : forall r0 v Lk, locked r0 v Lk ->
  forall k pre b post, length pre = k -> sent nt = pre ++ b :: post -> ty b = Prepare -> r0 < rnd b -> val b = v.
Proof.
  intros r0 v Lk [HLnd [HLb [HLlen HLk]]].
  assert (Hr0 : 1 <= r0).
  { assert (Hqn : q <= n) by exact (quorum_le_n n n_pos).
    destruct Lk as [|d Lk']; [simpl in HLlen; lia|].
    destruct (HLk d (or_introl eq_refl)) as [Hgd [cm [C1 [C2 [C3 [C4 C5]]]]]].
    pose proof (n_linv c nt NI d Hgd) as L. rewrite <- C4. apply (l_commit_pos _ _ _ L cm); [|exact C3].
    rewrite <- C2. apply own_intro. exact C1. }
  induction k as [k IH] using lt_wf_ind. intros pre b post Hk Hsent Hty Hr.
  destruct (n_cprep c nt NI pre b post Hsent Hty) as [Hv0 [H1|[J [x [HJ [Hc Hx]]]]]]; [lia|].
  fold q in Hc.
  destruct (contains_jqrc_spec q J (rnd b) x q_pos Hc) as [qrc [Q1 [Q2 [Q3 Q4]]]].
  assert (Hpre_sent : forall y, In y pre -> In y (sent nt)) by (intros y Hy; rewrite Hsent; apply in_or_app; left; exact Hy).
  (* a locker among the round-change quorum *)
  assert (HS1b : below n (map src qrc)).
  { intros z Hz. apply in_map_iff in Hz. destruct Hz as [y [Hy1 Hy2]]. subst z. destruct (Q3 y Hy2) as [Hy3 _]. exact (deliv_below _ _ (HJ y Hy3)). }
  pose proof (inter_length n (map src qrc) Lk Q2 HLnd HS1b HLb) as Hint. rewrite map_length in Hint.
  destruct (filter (fun z => mem z (map src qrc)) Lk) as [|d rest] eqn:Ed; [simpl in Hint; lia|].
  assert (Hd : In d (filter (fun z => mem z (map src qrc)) Lk)) by (rewrite Ed; left; reflexivity).
  apply filter_In in Hd. destruct Hd as [HdL HdS]. apply mem_In in HdS. apply in_map_iff in HdS. destruct HdS as [rc [Hrc1 Hrc2]].
  destruct (Q3 rc Hrc2) as [HrcJ [HrcT HrcR]].
  destruct (HLk d HdL) as [Hgd [cm [C1 [C2 [C3 [C4 C5]]]]]].
  assert (Hrc_pre : In rc pre) by (apply deliv_honest_in; [apply HJ; exact HrcJ | unfold hon; rewrite Hrc1; exact (proj2 Hgd)]).
  pose proof (n_linv c nt NI d Hgd) as Ld.
  assert (Hlock : rnd cm <= pr rc /\ (rnd cm = pr rc -> val cm = pv rc)).
  { apply (l_rc_lock _ _ _ Ld cm rc); auto.
    - rewrite <- C2. apply own_intro. exact C1.
    - rewrite <- Hrc1. apply own_intro. apply Hpre_sent. exact Hrc_pre.
    - rewrite C4, HrcR. exact Hr. }
  rewrite C4 in Hlock. destruct Hlock as [Hlk1 Hlk2].
  destruct Q4 as [[Hnull _]|[spr [Hsingle Hspr]]]; [destruct (Hnull rc Hrc2); lia|].
  assert (Hspr_ge : r0 <= spr) by (specialize (Hspr rc Hrc2); lia).
  destruct (single_true_spec q J spr x q_pos Hsingle) as [P [P1 [P2 P3]]].
  assert (HS2b : below n (map src P)).
  { intros z Hz. apply in_map_iff in Hz. destruct Hz as [y [Hy1 Hy2]]. subst z. destruct (P1 y Hy2) as [Hy3 _]. exact (deliv_below _ _ (HJ y Hy3)). }
  (* an honest PREPARE(spr, x) among the attached prepares *)
  destruct (has_honest n hon (map src P) P2 HS2b) as [h [Hh1 Hh2]]; [rewrite map_length; pose proof byz_lt_q; fold byz; lia|].
  apply in_map_iff in Hh1. destruct Hh1 as [yh [Yh1 Yh2]]. destruct (P1 yh Yh2) as [YhJ [YhT [YhR YhV]]].
  assert (Yh_pre : In yh pre) by (apply deliv_honest_in; [apply HJ; exact YhJ | rewrite Yh1; exact Hh2]).
  assert (Hxnz : x <> 0%N) by (rewrite <- YhV; apply sent_prepare_nonzero; [apply Hpre_sent; exact Yh_pre | exact YhT]).
  destruct Hx as [Hx|Hx]; [contradiction|]. rewrite Hx.
  destruct (Nat.eq_dec r0 spr) as [Heq|Hne].
  - (* the prepared round is the locked round: two prepare quorums of round r0 share an honest member *)
    destruct (n_ccommit c nt NI cm C1 C3) as [L [HL1 HL2]]. rewrite C4, C5 in HL2. fold q in HL2.
    destruct (nsrc_sources _ L q HL2) as [S3 [S3a [S3b S3c]]].
    assert (HS3b : below n S3).
    { intros z Hz. destruct (S3c z Hz) as [y [Hy1 [_ Hy3]]]. subst z. exact (deliv_below _ _ (HL1 y Hy1)). }
    destruct (inter_honest n hon (map src P) S3 P2 S3a HS2b HS3b) as [h' [G1 [G2 G3]]];
      [rewrite map_length; pose proof two_q; fold byz; lia|].
    apply in_map_iff in G1. destruct G1 as [y2 [Y2a Y2b]]. destruct (P1 y2 Y2b) as [Y2J [Y2T [Y2R Y2V]]].
    destruct (S3c h' G2) as [y3 [Y3a [Y3b Y3c]]]. apply f_trv_spec in Y3b. destruct Y3b as [Y3T [Y3R Y3V]].
    assert (Y2s : In y2 (sent nt)) by (apply Hpre_sent; apply deliv_honest_in; [apply HJ; exact Y2J | rewrite Y2a; exact G3]).
    assert (Y3s : In y3 (sent nt)) by (apply deliv_honest_in; [apply HL1; exact Y3a | rewrite Y3c; exact G3]).
    rewrite <- Y2V, <- Y3V. apply sent_prepare_uniq; auto; congruence.
  - (* a later prepared round: the induction hypothesis applies to the honest PREPARE found above *)
    destruct (in_split yh pre Yh_pre) as [p1 [p2 Hp]].
    rewrite <- YhV. apply (IH (length p1)) with (pre := p1) (post := p2 ++ b :: post); auto.
    + rewrite <- Hk, Hp, app_length. simpl. lia.
    + rewrite Hsent, Hp, <- app_assoc. reflexivity.
    + lia.
Qed.

(* the commit quorum of a decided honest member: its sources, and the COMMITs behind the honest ones *)
Lemma decided_quorum : forall i, good c i -> decided (nst nt i) = true ->
  exists S, NoDup S /\ below n S /\ q <= length S /\
    forall x, In x S -> hon x = true ->
      exists cm, In cm (sent nt) /\ src cm = x /\ ty cm = Commit /\ rnd cm = round (nst nt i) /\ val cm = qcommitV (nst nt i).
Proof.
  intros i Hg Hd.
  pose proof (i_qc _ _ (n_inv c nt NI i Hg) Hd) as Hq. change (qn (pp c i)) with q in Hq.
  destruct (nsrc_sources _ _ q Hq) as [S [S1 [S2 S3]]].
  exists S. split; [exact S1|]. split; [|split; [exact S2|]].
  - intros x Hx. destruct (S3 x Hx) as [y [Y1 [_ Y3]]]. subst x. exact (deliv_below _ _ (n_qcm c nt NI i Hg y Y1)).
  - intros x Hx Hh. destruct (S3 x Hx) as [y [Y1 [Y2 Y3]]]. apply f_trv_spec in Y2. destruct Y2 as [T [R V]].
    exists y. repeat split; auto. apply deliv_honest_in; [exact (n_qcm c nt NI i Hg y Y1) | rewrite Y3; exact Hh].
Qed.

Lemma decided_locks : forall i, good c i -> decided (nst nt i) = true ->
  exists Lk, locked (round (nst nt i)) (qcommitV (nst nt i)) Lk.
Proof.
  intros i Hg Hd. destruct (decided_quorum i Hg Hd) as [S [S1 [S2 [S3 S4]]]].
  exists (filter hon S). unfold locked.
  assert (Hb : below n (filter hon S)) by (intros x Hx; apply filter_In in Hx; apply S2; tauto).
  split; [apply NoDup_filter'; exact S1|]. split; [exact Hb|]. split.
  - pose proof (honest_part_length n hon S S1 S2) as H1. fold byz in H1. pose proof byz_le_f.
    assert (H2 : n + 1 <= q + (q - faulty n)) by exact (quorum_meets_honest_part n n_pos). lia.
  - intros d Hd'. apply filter_In in Hd'. destruct Hd' as [D1 D2]. split; [split; [apply S2; exact D1 | exact D2]|].
    exact (S4 d D1 D2).
Qed.

Lemma agree_le : forall i j, good c i -> good c j -> decided (nst nt i) = true -> decided (nst nt j) = true ->
  round (nst nt i) <= round (nst nt j) -> qcommitV (nst nt i) = qcommitV (nst nt j).
Proof.
  intros i j Hgi Hgj Hdi Hdj Hle.
  destruct (decided_quorum i Hgi Hdi) as [Si [Si1 [Si2 [Si3 Si4]]]].
  destruct (decided_quorum j Hgj Hdj) as [Sj [Sj1 [Sj2 [Sj3 Sj4]]]].
  destruct (Nat.eq_dec (round (nst nt i)) (round (nst nt j))) as [Heq|Hne].
  - (* same round: the two commit quorums share an honest member, which commits once per round *)
    destruct (inter_honest n hon Si Sj Si1 Sj1 Si2 Sj2) as [h [H1 [H2 H3]]]; [pose proof two_q; fold byz; lia|].
    destruct (Si4 h H1 H3) as [ci [A1 [A2 [A3 [A4 A5]]]]]. destruct (Sj4 h H2 H3) as [cj [B1 [B2 [B3 [B4 B5]]]]].
    rewrite <- A5, <- B5. apply sent_commit_uniq; auto; congruence.
  - (* a later round: an honest member of the later commit quorum committed on a prepare quorum, which holds an
       honest PREPARE for the later round; the lock of the earlier decision forces its value *)
    destruct (decided_locks i Hgi Hdi) as [Lk HLk].
    destruct (has_honest n hon Sj Sj1 Sj2) as [h [H1 H2]]; [pose proof byz_lt_q; fold byz; lia|].
    destruct (Sj4 h H1 H2) as [cj [B1 [B2 [B3 [B4 B5]]]]].
    destruct (n_ccommit c nt NI cj B1 B3) as [L [L1 L2]]. fold q in L2.
    destruct (nsrc_sources _ L q L2) as [S [S1 [S2 S3]]].
    assert (Sb : below n S) by (intros x Hx; destruct (S3 x Hx) as [y [Y1 [_ Y3]]]; subst x; exact (deliv_below _ _ (L1 y Y1))).
    destruct (has_honest n hon S S1 Sb) as [h' [G1 G2]]; [pose proof byz_lt_q; fold byz; lia|].
    destruct (S3 h' G1) as [y [Y1 [Y2 Y3]]]. apply f_trv_spec in Y2. destruct Y2 as [T [R V]].
    assert (Ys : In y (sent nt)) by (apply deliv_honest_in; [exact (L1 y Y1) | rewrite Y3; exact G2]).
    destruct (in_split y (sent nt) Ys) as [p1 [p2 Hs]].
    rewrite <- B5, <- V. symmetry.
    apply (lock_prepares _ _ Lk HLk (length p1) p1 y p2 eq_refl Hs T). rewrite R, B4. lia.
Qed.

Theorem agreement_states : forall i j, good c i -> good c j -> decided (nst nt i) = true -> decided (nst nt j) = true ->
  qcommitV (nst nt i) = qcommitV (nst nt j).
Proof.
  intros i j Hgi Hgj Hdi Hdj.
  destruct (Nat.le_ge_cases (round (nst nt i)) (round (nst nt j))) as [H|H].
  - apply agree_le; assumption.
  - symmetry. apply agree_le; assumption.
Qed.

End Agree.

(* ---- reachable states and traces ---- *)

Lemma nreach_ninv : forall c nt tr, wf_cfg c -> nreach c nt tr -> trace_nofail tr -> ninv c nt.
Proof.
  intros c nt tr Hwf H. induction H as [|nt tr i l nt' Hr IH Hs]; intro Hnf.
  - apply ninv_init.
  - eapply ninv_step; [exact Hwf | apply IH | exact Hs | apply (Hnf i l); apply in_or_app; right; left; reflexivity].
    intros j l' Hin. apply (Hnf j l'). apply in_or_app. left. exact Hin.
Qed.

Lemma fstep_decide_out : forall p s e o s' outs, fstep p s e o = Some (s', outs) ->
  forall v r qcm, In (Decide v r qcm) outs -> decided s = false /\ qcommit s' = qcm /\ qcommitV s' = v /\ round s' = r.
Proof.
  intros p s e o s' outs H v r qcm Hin.
  destruct e; crush_fstep H; try rule_facts2; eqb_conv; simpl in Hin.
  all: repeat (destruct Hin as [Hin|Hin]; [try discriminate Hin|]); try contradiction.
  all: try (apply in_app_or in Hin; destruct Hin as [Hin|Hin]; simpl in Hin).
  all: repeat (destruct Hin as [Hin|Hin]; [try discriminate Hin|]); try contradiction.
  all: inversion Hin; subst; st; auto.
Qed.

Lemma fstep_decided_persist : forall p s e o s' outs, inv p s -> fstep p s e o = Some (s', outs) -> decided s = true ->
  qcommit s' = qcommit s /\ qcommitV s' = qcommitV s /\ round s' = round s.
Proof.
  intros p s e o s' outs Hi H Hd. pose proof (i_timer p s Hi Hd) as Ht.
  destruct e; crush_fstep H; st; auto; try congruence.
Qed.

Definition dec_inv (c : cfg) (nt : net) (tr : list (nat * label)) : Prop :=
  forall i v r, In (i, v, r) (trace_decides tr) ->
    good c i /\ decided (nst nt i) = true /\ qcommitV (nst nt i) = v /\ round (nst nt i) = r.

Lemma trace_decides_app : forall a b, trace_decides (a ++ b) = trace_decides a ++ trace_decides b.
Proof. intros. unfold trace_decides. apply flat_map_app. Qed.

Lemma nreach_dec_inv : forall c nt tr, wf_cfg c -> nreach c nt tr -> trace_nofail tr -> dec_inv c nt tr.
Proof.
  intros c nt tr Hwf H. induction H as [|nt tr i l nt' Hr IH Hs]; intro Hnf.
  - intros i v r [].
  - assert (Hnf' : trace_nofail tr) by (intros j l' Hin; apply (Hnf j l'); apply in_or_app; left; exact Hin).
    specialize (IH Hnf'). pose proof (nreach_ninv c nt tr Hwf Hr Hnf') as NI.
    inversion Hs as [nt0 i0 l0 s' Hgood Hstep Hdel]; subst nt0 i0 l0.
    pose proof (step_fstep _ _ _ _ Hstep) as Hf.
    intros j v r Hin. rewrite trace_decides_app in Hin. apply in_app_or in Hin. simpl. destruct Hin as [Hin|Hin].
    + destruct (IH j v r Hin) as [Hg [Hd [Hv Hrd]]]. split; [exact Hg|].
      destruct (Nat.eq_dec j i) as [->|Hne].
      * rewrite upd_same. destruct (fstep_decided_persist _ _ _ _ _ _ (n_inv c nt NI i Hgood) Hf Hd) as [Hq [Hv' Hr']].
        unfold decided in *. rewrite Hq, Hv', Hr'. auto.
      * rewrite upd_other by assumption. auto.
    + unfold trace_decides in Hin. simpl in Hin. rewrite app_nil_r in Hin. apply in_map_iff in Hin.
      destruct Hin as [[[v0 r0] qcm] [He Hd]]. simpl in He. inversion He; subst j v r.
      unfold decides_of in Hd. apply in_flat_map in Hd. destruct Hd as [o [Ho1 Ho2]].
      destruct o; simpl in Ho2; try contradiction. destruct Ho2 as [Ho2|[]]. inversion Ho2; subst.
      destruct (fstep_decide_out _ _ _ _ _ _ Hf _ _ _ Ho1) as [_ [Hq [Hv Hrd]]].
      rewrite upd_same. split; [exact Hgood|]. split; [|auto].
      unfold decided. rewrite Hq.
      (* the qcommit of a Decide is not empty: it holds a quorum *)
      pose proof (n_inv c nt NI i Hgood) as Hinv.
      assert (Hnp : 1 <= nodes (pp c i)) by exact (proj1 Hwf).
      destruct qcm as [|x qcm']; [|reflexivity]. exfalso.
      pose proof (fstep_mon3 (pp c i) (nst nt i) l _ s' Hnp Hinv Hf) as [Hc _].
      destruct (fstep_decide_out _ _ _ _ _ _ Hf _ _ _ Ho1) as [Hnd _].
      unfold check3, ghost_of in Hc. simpl in Hc. rewrite Hnd in Hc.
      assert (Hdec : In (v0, r0, @nil bmsg) (decides_of (label_outs l))).
      { unfold decides_of. apply in_flat_map. exists (Decide v0 r0 []). split; [exact Ho1 | left; reflexivity]. }
      destruct (decides_of (label_outs l)) as [|[[v1 r1] q1] [|d2 rest]] eqn:Ed; try contradiction; try discriminate.
      destruct Hdec as [Hdec|[]]. inversion Hdec; subst. apply Nat.leb_le in Hc. unfold nsrc in Hc. simpl in Hc.
      pose proof (quorum_pos (c_n c) (proj1 Hwf)). unfold qn in Hc. simpl in Hc. lia.
Qed.

(* C02 agreement, default configuration: every two Decide callbacks of honest members, anywhere in any execution
   of the network semantics, carry the same value. *)
Theorem agreement_default : forall c nt tr, wf_cfg c -> nreach c nt tr -> trace_nofail tr ->
  forall i v r j v' r', In (i, v, r) (trace_decides tr) -> In (j, v', r') (trace_decides tr) -> v = v'.
Proof.
  intros c nt tr Hwf Hr Hnf i v r j v' r' Hi Hj.
  pose proof (nreach_ninv c nt tr Hwf Hr Hnf) as NI.
  pose proof (nreach_dec_inv c nt tr Hwf Hr Hnf) as DI.
  destruct (DI i v r Hi) as [Hgi [Hdi [Hvi _]]]. destruct (DI j v' r' Hj) as [Hgj [Hdj [Hvj _]]].
  rewrite <- Hvi, <- Hvj. apply (agreement_states c nt Hwf NI); assumption.
Qed.
