(* Proofs about the round-timer model Qbft/Timer.v (statements collected in Properties/C04_timer.v).

   What is here: (1) every trace accepted by the model passes the closed-form trace monitor;
   (2) Prop readings: durations / absolute deadlines of every request of every call history;
   (3) the arithmetic of the default (eager double linear) timer: round occupancy, one doubling,
   re-alignment after a doubled round, monotonicity, clamp; (4) explicit bounds on the instant at
   which a timer-driven process enters round f+2 (one full leader rotation), for the three timers.

   What is NOT here (nor anywhere else): the real-time bridge of C04 -- that latencies below a third
   of the shortest timeout etc. imply the hypothesis of good_round_decides. *)
From Coq Require Import List ZArith Bool Lia.
From Charon Require Import Qbft.Timer.
Import ListNotations.
Local Open Scope Z_scope.

Ltac consts :=
  unfold proposalRoundTimeout, linearRoundTimeout, increasingRoundTimeout, IncRoundStart,
    IncRoundIncrease, LinearRoundInc, ProposalRoundExtra, sec, ms in *.

(* ------------------------------------------------------------------------------------------- *)
(* lookup / ghost bookkeeping *)

Lemma lookup_cons : forall r k v m, lookup r ((k, v) :: m) = if k =? r then Some v else lookup r m.
Proof. reflexivity. Qed.

Fixpoint first_now (r : Z) (ls : list label) : option Z :=
  match ls with
  | [] => None
  | LReq r' now _ _ _ :: t => if r' =? r then Some now else first_now r t
  end.

Lemma first_now_requested : forall r ls, requested r ls = match first_now r ls with Some _ => true | None => false end.
Proof.
  induction ls as [|[r' now dur fire until] t IH]; simpl; auto.
  destruct (r' =? r); simpl; auto.
Qed.

Lemma lookup_ghost_upd : forall g r now r0,
  lookup r0 (ghost_upd g r now) =
  match lookup r0 g with Some n => Some n | None => if r =? r0 then Some now else None end.
Proof.
  intros. unfold ghost_upd. destruct (lookup r g) eqn:E.
  - destruct (lookup r0 g) eqn:E0; auto. destruct (Z.eqb_spec r r0); auto. subst. congruence.
  - rewrite lookup_cons. destruct (Z.eqb_spec r r0).
    + subst. rewrite E. reflexivity.
    + destruct (lookup r0 g); reflexivity.
Qed.

Lemma lookup_ghost_after : forall ls g r0,
  lookup r0 (ghost_after g ls) = match lookup r0 g with Some n => Some n | None => first_now r0 ls end.
Proof.
  induction ls as [|[r now dur fire until] t IH]; intros; simpl.
  - destruct (lookup r0 g); reflexivity.
  - rewrite IH, lookup_ghost_upd. destruct (lookup r0 g); auto. destruct (r =? r0); auto.
Qed.

(* ------------------------------------------------------------------------------------------- *)
(* (1) accepted traces pass the monitor *)

Definition rel (c : cfg) (st g : list (Z * Z)) : Prop :=
  c_kind c = KEager ->
  forall r, lookup r st = option_map (fun n0 => base c n0 + eager_timeout c r) (lookup r g).

Lemma step_rel : forall c st g r now dur fire until st',
  rel c st g ->
  step c st (LReq r now dur fire until) = Some st' ->
  lab_ok (spec_dur c g r now) (LReq r now dur fire until) = true /\ rel c st' (ghost_upd g r now).
Proof.
  intros c st g r now dur fire until st' R H.
  unfold step in H. destruct (tstep c st r now) as [st1 d] eqn:T.
  destruct (lab_ok d (LReq r now dur fire until)) eqn:L; [|discriminate]. inversion H; subst st1; clear H.
  unfold tstep in T. unfold spec_dur. unfold rel in *.
  destruct (c_kind c) eqn:K.
  - inversion T; subst. split; auto. intro; discriminate.
  - specialize (R eq_refl). pose proof (R r) as Rr.
    destruct (lookup r st) as [first|] eqn:E.
    + inversion T; subst. destruct (lookup r g) as [n0|] eqn:G; simpl in Rr; [|discriminate].
      inversion Rr; subst first. split.
      * replace (base c n0 + 2 * eager_timeout c r - now) with (base c n0 + eager_timeout c r + eager_timeout c r - now) by lia. exact L.
      * intros _ r0. rewrite lookup_ghost_upd. rewrite R. destruct (lookup r0 g) eqn:G0; auto.
        destruct (Z.eqb_spec r r0); auto. subst. congruence.
    + destruct (lookup r g) as [n0|] eqn:G; simpl in Rr; [discriminate|].
      assert (D : (match duty_start c with Some s => s + eager_timeout c r | None => now + eager_timeout c r end)
                  = base c now + eager_timeout c r).
      { unfold base. destruct (duty_start c); reflexivity. }
      rewrite D in T. inversion T; subst. split; auto.
      intros _ r0. rewrite lookup_cons, lookup_ghost_upd, R.
      destruct (Z.eqb_spec r r0).
      * subst. rewrite G. reflexivity.
      * destruct (lookup r0 g); reflexivity.
  - inversion T; subst. split; auto. intro; discriminate.
Qed.

Lemma run_monitor_from : forall c ls st g st',
  rel c st g -> run c st ls = Some st' -> monitor_from c g ls = true.
Proof.
  induction ls as [|[r now dur fire until] t IH]; intros st g st' R H; cbn [monitor_from]; auto.
  cbn [run] in H. destruct (step c st (LReq r now dur fire until)) as [st1|] eqn:S; [|discriminate].
  destruct (step_rel _ _ _ _ _ _ _ _ _ R S) as [L R1]. rewrite L. cbn [andb]. eapply IH; eauto.
Qed.

Lemma rel_init : forall c, rel c init [].
Proof. intros c _ r. reflexivity. Qed.

Theorem run_monitor : forall c ls st, run c init ls = Some st -> monitor c ls = true.
Proof. intros. eapply run_monitor_from; eauto using rel_init. Qed.

(* the monitor, read at one position of the trace *)
Lemma monitor_from_at : forall c pre g r now dur fire until post,
  monitor_from c g (pre ++ LReq r now dur fire until :: post) = true ->
  lab_ok (spec_dur c (ghost_after g pre) r now) (LReq r now dur fire until) = true.
Proof.
  induction pre as [|[r' n' d' f' u'] t IH]; intros; simpl in *.
  - apply andb_true_iff in H. tauto.
  - apply andb_true_iff in H. destruct H. eapply IH; eauto.
Qed.

Lemma lab_ok_inv : forall d r now dur fire until,
  lab_ok d (LReq r now dur fire until) = true -> dur = d /\ fire = expected_fire now dur until.
Proof.
  intros. unfold lab_ok in H. apply andb_true_iff in H. destruct H as [H1 H2].
  apply Z.eqb_eq in H1. subst. split; auto.
  destruct fire, (expected_fire now d until); simpl in H2; try discriminate; auto.
  apply Z.eqb_eq in H2. congruence.
Qed.

(* ------------------------------------------------------------------------------------------- *)
(* (2) Prop readings, every call history *)

Definition ext (c : cfg) : Z := if prop_on c then ProposalRoundExtra else 0.

Lemma eager_timeout_eq : forall c r, eager_timeout c r = r * sec + ext c.
Proof. intros. unfold eager_timeout, ext. destruct (prop_on c); consts; lia. Qed.

Lemma ext_range : forall c, 0 <= ext c < sec.
Proof. intros. unfold ext. destruct (prop_on c); consts; lia. Qed.

Lemma ext_cases : forall c, ext c = 0 \/ ext c = 500 * ms.
Proof. intros. unfold ext. destruct (prop_on c); consts; auto. Qed.

(* first and doubled deadline of round r for a duty starting at [start] *)
Definition D1 (c : cfg) (start r : Z) : Z := start + eager_timeout c r.
Definition D2 (c : cfg) (start r : Z) : Z := start + 2 * eager_timeout c r.

Lemma D1_eq : forall c s r, D1 c s r = s + r * sec + ext c.
Proof. intros. unfold D1. rewrite eager_timeout_eq. lia. Qed.
Lemma D2_eq : forall c s r, D2 c s r = s + 2 * r * sec + 2 * ext c.
Proof. intros. unfold D2. rewrite eager_timeout_eq. lia. Qed.

(* Default timer, genesis known: the deadline of EVERY request of EVERY call history is
   start + timeout(r) for the first request of round r and start + 2*timeout(r) for all later ones;
   it does not depend on any clock reading; and the channel fires at max(now, deadline). *)
Theorem eager_deadline_absolute : forall c start ls st,
  c_kind c = KEager -> duty_start c = Some start ->
  run c init ls = Some st ->
  forall pre r now dur fire until post, ls = pre ++ LReq r now dur fire until :: post ->
  now + dur = (if requested r pre then D2 c start r else D1 c start r) /\
  fire = expected_fire now dur until.
Proof.
  intros c start ls st K DS H pre r now dur fire until post E. subst ls.
  apply run_monitor in H. unfold monitor in H. apply monitor_from_at in H.
  apply lab_ok_inv in H. destruct H as [Hd Hf]. split; auto.
  unfold spec_dur in Hd. rewrite K in Hd. rewrite lookup_ghost_after in Hd. cbn [lookup] in Hd.
  rewrite first_now_requested. unfold base in Hd. rewrite DS in Hd. unfold D1, D2.
  destruct (first_now r pre); lia.
Qed.

(* eager timer built WITHOUT genesis (tests only; production always passes genesis): deadlines are
   relative to the instant of the first request of the round. *)
Theorem eager_deadline_relative : forall c ls st,
  c_kind c = KEager -> duty_start c = None ->
  run c init ls = Some st ->
  forall pre r now dur fire until post, ls = pre ++ LReq r now dur fire until :: post ->
  now + dur = match first_now r pre with
              | None => now + eager_timeout c r
              | Some n0 => n0 + 2 * eager_timeout c r
              end.
Proof.
  intros c ls st K DS H pre r now dur fire until post E. subst ls.
  apply run_monitor in H. unfold monitor in H. apply monitor_from_at in H.
  apply lab_ok_inv in H. destruct H as [Hd _].
  unfold spec_dur in Hd. rewrite K in Hd. rewrite lookup_ghost_after in Hd. cbn [lookup] in Hd.
  unfold base in Hd. rewrite DS in Hd. destruct (first_now r pre); lia.
Qed.

(* same duty, same chain timing, same flag => same deadlines on all processes, whatever their
   call histories and clocks *)
Theorem eager_deadlines_agree : forall c1 c2 ls1 ls2 st1 st2 start,
  c_kind c1 = KEager -> c_kind c2 = KEager ->
  c_dtype c1 = c_dtype c2 -> c_slot c1 = c_slot c2 -> c_genesis c1 = c_genesis c2 ->
  c_slotdur c1 = c_slotdur c2 -> c_proposal c1 = c_proposal c2 ->
  duty_start c1 = Some start ->
  run c1 init ls1 = Some st1 -> run c2 init ls2 = Some st2 ->
  forall r pre1 now1 dur1 fire1 until1 post1 pre2 now2 dur2 fire2 until2 post2,
  ls1 = pre1 ++ LReq r now1 dur1 fire1 until1 :: post1 ->
  ls2 = pre2 ++ LReq r now2 dur2 fire2 until2 :: post2 ->
  requested r pre1 = requested r pre2 ->
  now1 + dur1 = now2 + dur2.
Proof.
  intros c1 c2 ls1 ls2 st1 st2 start K1 K2 Edt Esl Eg Esd Ep DS1 R1 R2
         r pre1 now1 dur1 fire1 until1 post1 pre2 now2 dur2 fire2 until2 post2 E1 E2 Q.
  assert (DS2 : duty_start c2 = Some start).
  { unfold duty_start in *. rewrite <- Eg, <- Esd, <- Esl, <- Edt. exact DS1. }
  destruct (eager_deadline_absolute _ _ _ _ K1 DS1 R1 _ _ _ _ _ _ _ E1) as [A1 _].
  destruct (eager_deadline_absolute _ _ _ _ K2 DS2 R2 _ _ _ _ _ _ _ E2) as [A2 _].
  rewrite A1, A2, Q. unfold D1, D2, eager_timeout, prop_on. rewrite Edt, Ep. reflexivity.
Qed.

Theorem inc_duration : forall c ls st,
  c_kind c = KInc -> run c init ls = Some st ->
  forall pre r now dur fire until post, ls = pre ++ LReq r now dur fire until :: post ->
  dur = (if prop_on c && (r =? 1) then 1500 * ms else 750 * ms + r * (250 * ms)) /\
  fire = expected_fire now dur until.
Proof.
  intros c ls st K H pre r now dur fire until post E. subst ls.
  apply run_monitor in H. unfold monitor in H. apply monitor_from_at in H.
  apply lab_ok_inv in H. destruct H as [Hd Hf]. split; auto.
  unfold spec_dur in Hd. rewrite K in Hd. subst dur. unfold inc_timeout.
  destruct (prop_on c && (r =? 1)) eqn:B; [|consts; lia].
  apply andb_true_iff in B. destruct B as [_ B]. apply Z.eqb_eq in B. subst. reflexivity.
Qed.

Theorem linear_duration : forall c ls st,
  c_kind c = KLinear -> run c init ls = Some st ->
  forall pre r now dur fire until post, ls = pre ++ LReq r now dur fire until :: post ->
  dur = (if r =? 1 then (if prop_on c then 1500 * ms else 1000 * ms) else r * (200 * ms)) /\
  fire = expected_fire now dur until.
Proof.
  intros c ls st K H pre r now dur fire until post E. subst ls.
  apply run_monitor in H. unfold monitor in H. apply monitor_from_at in H.
  apply lab_ok_inv in H. destruct H as [Hd Hf]. split; auto.
  unfold spec_dur in Hd. rewrite K in Hd. subst dur. unfold lin_timeout.
  destruct (Z.eqb_spec r 1).
  - subst. destruct (prop_on c); reflexivity.
  - rewrite andb_false_r. consts. lia.
Qed.

(* positivity where the code guarantees it, and the clamp *)
Lemma inc_timeout_pos : forall c r, 1 <= r -> 0 < inc_timeout c r.
Proof. intros. unfold inc_timeout. destruct (prop_on c && (r =? 1)); consts; lia. Qed.

Lemma lin_timeout_pos : forall c r, 1 <= r -> 0 < lin_timeout c r.
Proof.
  intros. unfold lin_timeout. destruct (prop_on c && (r =? 1)); [consts; lia|].
  destruct (Z.eqb_spec r 1); consts; lia.
Qed.

Lemma eager_timeout_pos : forall c r, 1 <= r -> 0 < eager_timeout c r.
Proof. intros. rewrite eager_timeout_eq. pose proof (ext_range c). consts. lia. Qed.

Lemma fire_time_clamp : forall now deadline, fire_time now (deadline - now) = Z.max now deadline.
Proof. intros. unfold fire_time. lia. Qed.

Lemma fire_time_ge : forall now d, now <= fire_time now d.
Proof. intros. unfold fire_time. lia. Qed.

Lemma fire_time_pos : forall now d, 0 <= d -> fire_time now d = now + d.
Proof. intros. unfold fire_time. lia. Qed.

(* ------------------------------------------------------------------------------------------- *)
(* (3) arithmetic of the eager timer *)

(* an un-doubled round r occupies [D1 (r-1), D1 r) = [start+(r-1)s+e, start+r*s+e): one second *)
Lemma eager_round_length : forall c s r, D1 c s r - D1 c s (r - 1) = sec.
Proof. intros. rewrite !D1_eq. lia. Qed.

Lemma eager_occupancy_formula : forall c s r,
  D1 c s (r - 1) = s + (r - 1) * sec + ext c /\ D1 c s r = s + r * sec + ext c.
Proof. intros. rewrite !D1_eq. lia. Qed.

Lemma D1_mono : forall c s r r', r < r' -> D1 c s r < D1 c s r'.
Proof. intros. rewrite !D1_eq. consts. lia. Qed.
Lemma D2_mono : forall c s r r', r < r' -> D2 c s r < D2 c s r'.
Proof. intros. rewrite !D2_eq. consts. lia. Qed.
Lemma D1_lt_D2 : forall c s r, 1 <= r -> D1 c s r < D2 c s r.
Proof. intros. unfold D1, D2. pose proof (eager_timeout_pos c r H). lia. Qed.
Lemma D1_le_D2 : forall c s r, 0 <= r -> D1 c s r <= D2 c s r.
Proof. intros. rewrite D1_eq, D2_eq. pose proof (ext_range c). consts. lia. Qed.

(* the exact relation between a doubled round r and the first deadlines of later rounds *)
Lemma D1_vs_D2 : forall c s r r', D1 c s r' <= D2 c s r <-> r' <= 2 * r.
Proof. intros. rewrite D1_eq, D2_eq. pose proof (ext_range c). consts. lia. Qed.

Lemma eager_expired_after_double : forall c s r j, j <= 2 * r -> D1 c s j <= D2 c s r.
Proof. intros. apply D1_vs_D2. assumption. Qed.

Lemma eager_realign_interval : forall c s r,
  D1 c s (2 * r) <= D2 c s r < D1 c s (2 * r + 1) /\ D1 c s (2 * r + 1) - D2 c s r = sec - ext c.
Proof. intros. rewrite !D1_eq, D2_eq. pose proof (ext_range c). consts. lia. Qed.

(* the round an un-doubled process is in at instant t: the unique k with D1 (k-1) <= t < D1 k *)
Definition undoubled_round_at (c : cfg) (s t : Z) : Z := (t - s - ext c) / sec + 1.

Lemma undoubled_round_at_spec : forall c s t k,
  D1 c s (k - 1) <= t < D1 c s k <-> undoubled_round_at c s t = k.
Proof.
  intros. rewrite !D1_eq. unfold undoubled_round_at.
  assert (P : 0 < sec) by (consts; lia).
  pose proof (Z.div_mod (t - s - ext c) sec ltac:(lia)) as DM.
  pose proof (Z.mod_pos_bound (t - s - ext c) sec P) as MB.
  split; intro H.
  - assert ((t - s - ext c) / sec = k - 1); [|lia].
    symmetry. apply (Z.div_unique_pos _ _ _ (t - s - ext c - sec * (k - 1))); lia.
  - nia.
Qed.

Lemma realign_round : forall c s r, undoubled_round_at c s (D2 c s r) = 2 * r + 1.
Proof.
  intros. apply undoubled_round_at_spec. replace (2 * r + 1 - 1) with (2 * r) by lia.
  apply eager_realign_interval.
Qed.

(* states of the eager timer with a known duty start: every stored deadline is D1 *)
Definition wf (c : cfg) (start : Z) (st : tstate) : Prop :=
  forall r d, lookup r st = Some d -> d = D1 c start r.

Lemma wf_init : forall c s, wf c s init.
Proof. intros c s r d H. discriminate. Qed.

Lemma tstep_eager : forall c start st r now,
  c_kind c = KEager -> duty_start c = Some start -> wf c start st ->
  tstep c st r now =
  match lookup r st with
  | Some _ => (st, D2 c start r - now)
  | None => ((r, D1 c start r) :: st, D1 c start r - now)
  end /\ wf c start (fst (tstep c st r now)).
Proof.
  intros c start st r now K DS W. unfold tstep. rewrite K, DS.
  destruct (lookup r st) as [first|] eqn:E.
  - split; auto. rewrite (W _ _ E). unfold D1, D2. f_equal. lia.
  - split; auto. simpl. intros r0 d H. rewrite lookup_cons in H.
    destruct (Z.eqb_spec r r0); [subst; inversion H; reflexivity | eauto].
Qed.

Lemma run_wf : forall c start ls st st',
  c_kind c = KEager -> duty_start c = Some start -> wf c start st -> run c st ls = Some st' -> wf c start st'.
Proof.
  induction ls as [|[r now dur fire until] t IH]; intros st st' K DS W H; cbn [run] in H.
  - inversion H; subst; auto.
  - unfold step in H. destruct (tstep c st r now) as [st1 d] eqn:T.
    destruct (lab_ok d (LReq r now dur fire until)); [|discriminate].
    pose proof (tstep_eager c start st r now K DS W) as [_ W1]. rewrite T in W1. simpl in W1.
    eapply IH; eauto.
Qed.


(* collected statements *)
Lemma eager_deadline_formulas : forall c s r r',
  D1 c s r = s + r * sec + ext c /\ D2 c s r = s + 2 * r * sec + 2 * ext c /\
  (ext c = 0 \/ ext c = 500 * ms) /\
  D1 c s r - D1 c s (r - 1) = sec /\
  (r < r' -> D1 c s r < D1 c s r' /\ D2 c s r < D2 c s r') /\
  (1 <= r -> D1 c s r < D2 c s r) /\
  (D1 c s r' <= D2 c s r <-> r' <= 2 * r).
Proof.
  intros; repeat split; auto using D1_eq, D2_eq, ext_cases, eager_round_length, D1_mono, D2_mono, D1_lt_D2; apply D1_vs_D2; assumption.
Qed.

Lemma clamp_facts : forall now deadline,
  fire_time now (deadline - now) = Z.max now deadline /\ (0 < deadline - now <-> now < deadline).
Proof. intros; split; [apply fire_time_clamp | lia]. Qed.

Lemma timeouts_positive : forall c r, 1 <= r ->
  0 < inc_timeout c r /\ 0 < lin_timeout c r /\ 0 < eager_timeout c r.
Proof. intros; auto using inc_timeout_pos, lin_timeout_pos, eager_timeout_pos. Qed.

Lemma reachable_wf : forall c start ls st,
  c_kind c = KEager -> duty_start c = Some start -> run c init ls = Some st -> wf c start st.
Proof. intros c start ls st K DS H. exact (run_wf c start ls init st K DS (wf_init c start) H). Qed.

(* ---- timer-driven walk, eager timer ---- *)
Section EagerWalk.
Variable c : cfg.
Variable start : Z.
Hypothesis K : c_kind c = KEager.
Hypothesis DS : duty_start c = Some start.

Definition fresh_from (r : Z) (st : tstate) : Prop := forall j, r <= j -> lookup j st = None.

Lemma round_step_undoubled : forall q st r t,
  wf c start st -> lookup r st = None -> q r = None ->
  round_step c q st r t = ((r, D1 c start r) :: st, Z.max t (D1 c start r)).
Proof.
  intros q st r t W F Q. unfold round_step.
  destruct (tstep_eager c start st r t K DS W) as [T _]. rewrite F in T. rewrite T, Q.
  rewrite fire_time_clamp. reflexivity.
Qed.

Lemma round_step_doubled : forall q st r t tq,
  wf c start st -> lookup r st = None -> q r = Some tq -> 0 <= r ->
  round_step c q st r t = ((r, D1 c start r) :: st, Z.max t (D2 c start r)).
Proof.
  intros q st r t tq W F Q R. unfold round_step.
  destruct (tstep_eager c start st r t K DS W) as [T W1]. rewrite F in T. rewrite T in W1 |- *. rewrite Q.
  simpl in W1. rewrite fire_time_clamp.
  set (t2 := Z.max t (Z.min tq (Z.max t (D1 c start r)))).
  destruct (tstep_eager c start _ r t2 K DS W1) as [T2 _].
  rewrite lookup_cons, Z.eqb_refl in T2. rewrite T2. rewrite fire_time_clamp.
  f_equal. pose proof (D1_le_D2 c start r R). subst t2. lia.
Qed.

Lemma wf_cons : forall st r, wf c start st -> wf c start ((r, D1 c start r) :: st).
Proof.
  intros st r W r0 d H. rewrite lookup_cons in H.
  destruct (Z.eqb_spec r r0); [subst; inversion H; reflexivity | eauto].
Qed.

Lemma fresh_cons : forall st r, fresh_from r st -> fresh_from (r + 1) ((r, D1 c start r) :: st).
Proof.
  intros st r F j Hj. rewrite lookup_cons. destruct (Z.eqb_spec r j); [lia|]. apply F. lia.
Qed.

(* n rounds without a second request: the process enters round r+n at max t (D1 (r+n-1)) *)
Lemma walk_undoubled : forall q n st r t,
  wf c start st -> fresh_from r st -> (forall j, r <= j -> q j = None) ->
  exists st', walk c q n st r t =
              (st', r + Z.of_nat n, match n with O => t | S _ => Z.max t (D1 c start (r + Z.of_nat n - 1)) end)
              /\ wf c start st' /\ fresh_from (r + Z.of_nat n) st'.
Proof.
  induction n as [|n IH]; intros st r t W F Q.
  - exists st. simpl. rewrite Z.add_0_r. auto.
  - cbn [walk]. rewrite round_step_undoubled by (auto; apply F || apply Q; lia).
    destruct (IH ((r, D1 c start r) :: st) (r + 1) (Z.max t (D1 c start r))) as [st' [E [W' F']]].
    + apply wf_cons; auto.
    + apply fresh_cons; auto.
    + intros. apply Q. lia.
    + exists st'. rewrite E. replace (r + 1 + Z.of_nat n) with (r + Z.of_nat (S n)) in * by lia.
      split; [|auto]. f_equal. destruct n.
      * replace (r + Z.of_nat 1 - 1) with r by lia. reflexivity.
      * assert (D1 c start r < D1 c start (r + Z.of_nat (S (S n)) - 1)) by (apply D1_mono; lia). lia.
Qed.

(* Un-doubled occupancy: started in round r no later than its first deadline, a process that never
   sees a proposal enters round r+n exactly at D1 (r+n-1) = start + (r+n-1)*1s + e. *)
Lemma eager_undoubled_occupancy : forall n st r t,
  wf c start st -> fresh_from r st -> t <= D1 c start r ->
  exists st', walk c no_pp (S n) st r t = (st', r + Z.of_nat (S n), D1 c start (r + Z.of_nat n)).
Proof.
  intros n st r t W F T.
  destruct (walk_undoubled no_pp (S n) st r t W F ltac:(reflexivity)) as [st' [E _]].
  exists st'. rewrite E. f_equal.
  replace (r + Z.of_nat (S n) - 1) with (r + Z.of_nat n) by lia.
  assert (D1 c start r <= D1 c start (r + Z.of_nat n)).
  { destruct n; [replace (r + Z.of_nat 0) with r by lia; lia|]. apply Z.lt_le_incl, D1_mono. lia. }
  lia.
Qed.

(* Re-alignment.  A process enters round r = k >= 1 no later than D2 r, its timer for r is requested
   a second time (the proposal arrived): it holds round r until D2 r = start + 2r*1s + 2e, is then
   driven through rounds r+1 .. 2r by deadlines that have already expired (the clock does not
   advance), and enters round 2r+1 at that same instant D2 r -- the round in which a process that
   never doubled is at D2 r.  Both then hold the same deadline D1 (2r+1), sec - e away. *)
Lemma eager_realign : forall q k st t tq r,
  r = Z.of_nat k ->
  (1 <= k)%nat -> wf c start st -> fresh_from r st -> t <= D2 c start r ->
  q r = Some tq -> (forall j, r < j -> q j = None) ->
  exists st' st'',
    walk c q (S k) st r t = (st', 2 * r + 1, D2 c start r) /\
    walk c no_pp (S k) st r t = (st'', 2 * r + 1, Z.max t (D1 c start (2 * r))) /\
    Z.max t (D1 c start (2 * r)) <= D2 c start r < D1 c start (2 * r + 1) /\
    undoubled_round_at c start (D2 c start r) = 2 * r + 1 /\
    tstep c st' (2 * r + 1) (D2 c start r)
      = ((2 * r + 1, D1 c start (2 * r + 1)) :: st', sec - ext c) /\ 0 < sec - ext c /\
    (forall j, r < j <= 2 * r -> D1 c start j <= D2 c start r).
Proof.
  intros q k st t tq r Er Hk W F T Q Qn.
  assert (R0 : 0 <= r) by lia.
  assert (E1 : walk c q (S k) st r t
               = walk c q k ((r, D1 c start r) :: st) (r + 1) (Z.max t (D2 c start r))).
  { cbn [walk]. rewrite (round_step_doubled q st r t tq W (F r ltac:(lia)) Q R0). reflexivity. }
  destruct (walk_undoubled q k ((r, D1 c start r) :: st) (r + 1) (Z.max t (D2 c start r)))
    as [st' [E [W' F']]].
  { apply wf_cons; auto. } { apply fresh_cons; auto. } { intros. apply Qn. lia. }
  destruct (walk_undoubled no_pp (S k) st r t W F ltac:(reflexivity)) as [st'' [E2 _]].
  exists st', st''.
  pose proof (eager_realign_interval c start r) as [[I1 I2] I3].
  assert (M : Z.max t (D2 c start r) = D2 c start r) by lia.
  assert (A1 : r + 1 + Z.of_nat k = 2 * r + 1) by lia.
  assert (A2 : r + Z.of_nat (S k) = 2 * r + 1) by lia.
  rewrite E1, E, E2. rewrite A1 in *. rewrite A2.
  replace (2 * r + 1 - 1) with (2 * r) by lia.
  split; [|split; [|split; [|split; [|split; [|split]]]]].
  - f_equal. destruct k; [lia|]. lia.
  - reflexivity.
  - lia.
  - apply realign_round.
  - destruct (tstep_eager c start st' (2 * r + 1) (D2 c start r) K DS W') as [TS _].
    rewrite (F' (2 * r + 1) ltac:(lia)) in TS. rewrite TS. f_equal. lia.
  - pose proof (ext_range c). lia.
  - intros j Hj. apply D1_vs_D2. lia.
Qed.

(* one round, any behaviour: it is left no later than max t (D2 r) *)
Lemma round_step_eager_bound : forall q st r t,
  wf c start st -> 0 <= r ->
  let '(st', t') := round_step c q st r t in wf c start st' /\ t <= t' <= Z.max t (D2 c start r).
Proof.
  intros q st r t W R. unfold round_step.
  destruct (tstep_eager c start st r t K DS W) as [T W1].
  pose proof (D1_le_D2 c start r R) as LE.
  destruct (tstep c st r t) as [st1 d1] eqn:T1. simpl in W1.
  assert (B1 : t <= fire_time t d1 <= Z.max t (D2 c start r)).
  { destruct (lookup r st); inversion T; subst; rewrite fire_time_clamp; lia. }
  destruct (q r) as [tq|].
  - set (t2 := Z.max t (Z.min tq (fire_time t d1))).
    destruct (tstep_eager c start st1 r t2 K DS W1) as [T2 W2].
    destruct (tstep c st1 r t2) as [st2 d2] eqn:T2'. simpl in W2. split; auto.
    assert (t <= t2 <= fire_time t d1) by (subst t2; lia).
    destruct (lookup r st1); inversion T2; subst d2; rewrite fire_time_clamp; lia.
  - split; auto.
Qed.

Lemma walk_eager_bound : forall q n st r t,
  wf c start st -> 0 <= r ->
  let '(st', r', t') := walk c q (S n) st r t in
  wf c start st' /\ r' = r + Z.of_nat (S n) /\ t <= t' <= Z.max t (D2 c start (r + Z.of_nat n)).
Proof.
  induction n as [|n IH]; intros st r t W R.
  - cbn [walk]. pose proof (round_step_eager_bound q st r t W R) as B.
    destruct (round_step c q st r t) as [st' t']. replace (r + Z.of_nat 0) with r by lia.
    destruct B as [W' B]. split; [exact W'|]. split; [lia | exact B].
  - cbn [walk]. pose proof (round_step_eager_bound q st r t W R) as B.
    destruct (round_step c q st r t) as [st1 t1]. destruct B as [W1 B1].
    specialize (IH st1 (r + 1) t1 W1 ltac:(lia)). cbn [walk] in IH.
    destruct (round_step c q st1 (r + 1) t1) as [st2 t2].
    destruct (walk c q n st2 (r + 1 + 1) t2) as [[st' r'] t'].
    destruct IH as [W' [ER B]]. split; auto. split; [lia|].
    replace (r + 1 + Z.of_nat n) with (r + Z.of_nat (S n)) in B by lia.
    assert (D2 c start r < D2 c start (r + Z.of_nat (S n))) by (apply D2_mono; lia). lia.
Qed.

(* rotation bound, default timer: a timer-driven process that starts the instance at t is in round
   f+2 (all of rounds 1..f+1, i.e. f+1 different leaders, are over) no later than
   start + 2(f+1)*1s + 2e <= start + 2(f+1)*T1, T1 = timeout of round 1, whatever rounds were
   doubled; exactly at start + (f+1)*1s + e when none was. *)
Lemma rotation_time_bound_eager : forall q f st t,
  wf c start st ->
  let T1 := eager_timeout c 1 in
  let '(_, r', t') := walk c q (S f) st 1 t in
  r' = Z.of_nat f + 2 /\
  t' <= Z.max t (start + 2 * (Z.of_nat f + 1) * sec + 2 * ext c) /\
  t' <= Z.max t (start + 2 * (Z.of_nat f + 1) * T1).
Proof.
  intros q f st t W T1. pose proof (walk_eager_bound q f st 1 t W ltac:(lia)) as B.
  destruct (walk c q (S f) st 1 t) as [[st' r'] t']. destruct B as [_ [ER B]].
  rewrite D2_eq in B. subst T1. rewrite eager_timeout_eq. pose proof (ext_range c).
  split; [lia|]. split; [lia|]. nia.
Qed.

Lemma rotation_time_exact_eager_undoubled : forall f t,
  exists st', walk c no_pp (S f) init 1 t =
              (st', Z.of_nat f + 2, Z.max t (start + (Z.of_nat f + 1) * sec + ext c)).
Proof.
  intros f t.
  destruct (walk_undoubled no_pp (S f) init 1 t (wf_init c start) ltac:(intros j _; reflexivity) ltac:(reflexivity))
    as [st' [E _]].
  exists st'. rewrite E. f_equal; [f_equal; lia|]. rewrite D1_eq. f_equal. lia.
Qed.
End EagerWalk.

(* ------------------------------------------------------------------------------------------- *)
(* (4) relative timers (increasing, linear): timer-driven walk *)

Definition rel_timeout (c : cfg) (r : Z) : Z :=
  match c_kind c with KInc => inc_timeout c r | KLinear => lin_timeout c r | KEager => eager_timeout c r end.

Fixpoint sum_to (c : cfg) (r : Z) (n : nat) : Z :=
  match n with O => 0 | S n' => rel_timeout c r + sum_to c (r + 1) n' end.

Lemma rel_timeout_pos : forall c r, 1 <= r -> 0 < rel_timeout c r.
Proof.
  intros. unfold rel_timeout. destruct (c_kind c); auto using inc_timeout_pos, lin_timeout_pos, eager_timeout_pos.
Qed.

Lemma tstep_rel : forall c st r now, c_kind c <> KEager -> tstep c st r now = (st, rel_timeout c r).
Proof. intros. unfold tstep, rel_timeout. destruct (c_kind c); congruence. Qed.

(* a round lasts its timeout, or -- when the proposal arrives and the timer is restarted -- up to
   twice its timeout *)
Lemma round_step_rel : forall c q st r t,
  c_kind c <> KEager -> 1 <= r ->
  let '(st', t') := round_step c q st r t in
  st' = st /\ t + rel_timeout c r <= t' <= t + 2 * rel_timeout c r /\ (q r = None -> t' = t + rel_timeout c r).
Proof.
  intros c q st r t K R. unfold round_step. rewrite tstep_rel by auto.
  pose proof (rel_timeout_pos c r R) as P.
  destruct (q r) as [tq|].
  - rewrite tstep_rel by auto. split; auto. unfold fire_time. split; [lia | discriminate].
  - split; auto. unfold fire_time. split; [lia|]. intros _. lia.
Qed.

Lemma walk_rel : forall c q n st r t,
  c_kind c <> KEager -> 1 <= r ->
  let '(st', r', t') := walk c q n st r t in
  r' = r + Z.of_nat n /\ t + sum_to c r n <= t' <= t + 2 * sum_to c r n /\
  ((forall j, q j = None) -> t' = t + sum_to c r n).
Proof.
  induction n as [|n IH]; intros st r t K R.
  - simpl. split; [lia|]. split; [lia|]. intros; lia.
  - cbn [walk sum_to]. pose proof (round_step_rel c q st r t K R) as B.
    destruct (round_step c q st r t) as [st1 t1]. destruct B as [_ [B1 B2]].
    specialize (IH st1 (r + 1) t1 K ltac:(lia)).
    destruct (walk c q n st1 (r + 1) t1) as [[st' r'] t']. destruct IH as [ER [B3 B4]].
    split; [lia|]. split; [lia|]. intros Q. rewrite (B4 Q), (B2 (Q r)). lia.
Qed.

(* closed forms of the sums from round 1 *)
Lemma sum_inc_from : forall c n r, c_kind c = KInc -> 2 <= r ->
  sum_to c r n = Z.of_nat n * (750 * ms) + (250 * ms) * (Z.of_nat n * r) + (125 * ms) * (Z.of_nat n * (Z.of_nat n - 1)).
Proof.
  induction n as [|n IH]; intros r K R; [simpl; lia|].
  cbn [sum_to]. rewrite IH by (auto; lia). unfold rel_timeout. rewrite K. unfold inc_timeout.
  destruct (Z.eqb_spec r 1); [lia|]. rewrite andb_false_r. consts. nia.
Qed.

Definition pextra (c : cfg) : Z := if prop_on c then 500 * ms else 0.

Lemma inc_sum_closed : forall c k, c_kind c = KInc ->
  sum_to c 1 (S k) = pextra c + (Z.of_nat k + 1) * (750 * ms) + (125 * ms) * ((Z.of_nat k + 1) * (Z.of_nat k + 2)).
Proof.
  intros c k K. cbn [sum_to]. replace (1 + 1) with 2 by lia. rewrite sum_inc_from by (auto; lia).
  unfold rel_timeout. rewrite K. unfold inc_timeout, pextra. rewrite andb_true_r.
  destruct (prop_on c); consts; nia.
Qed.

Lemma sum_lin_from : forall c n r, c_kind c = KLinear -> 2 <= r ->
  sum_to c r n = (200 * ms) * (Z.of_nat n * r) + (100 * ms) * (Z.of_nat n * (Z.of_nat n - 1)).
Proof.
  induction n as [|n IH]; intros r K R; [simpl; lia|].
  cbn [sum_to]. rewrite IH by (auto; lia). unfold rel_timeout. rewrite K. unfold lin_timeout.
  destruct (Z.eqb_spec r 1); [lia|]. rewrite andb_false_r. consts. nia.
Qed.

Lemma lin_sum_closed : forall c k, c_kind c = KLinear ->
  sum_to c 1 (S k) = pextra c + 1000 * ms + (100 * ms) * (Z.of_nat k * (Z.of_nat k + 3)).
Proof.
  intros c k K. cbn [sum_to]. replace (1 + 1) with 2 by lia. rewrite sum_lin_from by (auto; lia).
  unfold rel_timeout. rewrite K. unfold lin_timeout, pextra. rewrite andb_true_r.
  change (1 =? 1) with true. destruct (prop_on c); cbv iota; consts; nia.
Qed.

(* rotation bound, increasing timer: round f+2 is entered no later than t + 2*S, exactly at t + S
   when no round was restarted, S = e1 + (f+1)*750ms + 125ms*(f+1)(f+2) <= (f+1)*T1 + 125ms*f(f+1) *)
Lemma rotation_time_bound_inc : forall c q f st t,
  c_kind c = KInc ->
  let T1 := inc_timeout c 1 in
  let Sm := pextra c + (Z.of_nat f + 1) * (750 * ms) + (125 * ms) * ((Z.of_nat f + 1) * (Z.of_nat f + 2)) in
  let '(_, r', t') := walk c q (Datatypes.S f) st 1 t in
  r' = Z.of_nat f + 2 /\ t + Sm <= t' <= t + 2 * Sm /\ ((forall j, q j = None) -> t' = t + Sm) /\
  Sm <= (Z.of_nat f + 1) * T1 + (125 * ms) * (Z.of_nat f * (Z.of_nat f + 1)).
Proof.
  intros c q f st t K T1 Sm.
  pose proof (walk_rel c q (Datatypes.S f) st 1 t ltac:(congruence) ltac:(lia)) as B.
  destruct (walk c q (Datatypes.S f) st 1 t) as [[st' r'] t'].
  rewrite (inc_sum_closed c f K) in B. fold Sm in B. destruct B as [ER [B1 B2]].
  split; [lia|]. split; [exact B1|]. split; [exact B2|].
  subst Sm T1. unfold inc_timeout, pextra. rewrite andb_true_r. destruct (prop_on c); consts; nia.
Qed.

(* rotation bound, linear timer: S = e1 + 1s + 100ms*f(f+3) <= (f+1)*T1 + 100ms*f(f+1) *)
Lemma rotation_time_bound_linear : forall c q f st t,
  c_kind c = KLinear ->
  let T1 := lin_timeout c 1 in
  let Sm := pextra c + 1000 * ms + (100 * ms) * (Z.of_nat f * (Z.of_nat f + 3)) in
  let '(_, r', t') := walk c q (Datatypes.S f) st 1 t in
  r' = Z.of_nat f + 2 /\ t + Sm <= t' <= t + 2 * Sm /\ ((forall j, q j = None) -> t' = t + Sm) /\
  Sm <= (Z.of_nat f + 1) * T1 + (100 * ms) * (Z.of_nat f * (Z.of_nat f + 1)).
Proof.
  intros c q f st t K T1 Sm.
  pose proof (walk_rel c q (Datatypes.S f) st 1 t ltac:(congruence) ltac:(lia)) as B.
  destruct (walk c q (Datatypes.S f) st 1 t) as [[st' r'] t'].
  rewrite (lin_sum_closed c f K) in B. fold Sm in B. destruct B as [ER [B1 B2]].
  split; [lia|]. split; [exact B1|]. split; [exact B2|].
  subst Sm T1. unfold lin_timeout, pextra. rewrite andb_true_r. change (1 =? 1) with true.
  destruct (prop_on c); cbv iota; consts; nia.
Qed.

(* ------------------------------------------------------------------------------------------- *)
(* selection of the timer (GetRoundTimerFunc) *)

Lemma default_is_eager : forall dtype, select_kind default_flags dtype = KEager.
Proof. reflexivity. Qed.

Lemma select_kind_cases : forall fl dt,
  select_kind fl dt =
  if f_linear fl && (dt =? DutyProposer) then KLinear else if f_eager fl then KEager else KInc.
Proof. intros [l e p] dt. unfold select_kind. simpl. destruct l, (dt =? DutyProposer), e; reflexivity. Qed.

(* ------------------------------------------------------------------------------------------- *)
(* non-vacuity and refutations (vm_compute witnesses) *)

(* TestDoubleEagerLinearRoundTimer's history (no genesis): 1s, again 1s after it fired; round 2
   requested at 2s (deadline 4s), again at 3.5s: doubled deadline 6s *)
Definition ex_cfg_nogen : cfg := mkCfg KEager 0 0 None 0 true.
Definition ex_trace_nogen : list label :=
  [ LReq 1 0 (1000 * ms) (Some (1000 * ms)) (1000 * ms);
    LReq 1 (1000 * ms) (1000 * ms) (Some (2000 * ms)) (2000 * ms);
    LReq 2 (2000 * ms) (2000 * ms) None (3500 * ms);
    LReq 2 (3500 * ms) (2500 * ms) (Some (6000 * ms)) (6000 * ms) ].

Example ex_nogen_accepted : (exists st, run ex_cfg_nogen init ex_trace_nogen = Some st) /\ monitor ex_cfg_nogen ex_trace_nogen = true.
Proof. split; [eexists|]; vm_compute; reflexivity. Qed.

(* default configuration: attester duty of slot 7, genesis 0, 12 s slots => start = 88 s.
   Round 3 doubled at 90.2 s (deadline 94 s), a third request still 94 s, then rounds 4,5,6 already
   expired (negative durations, fire at once), round 7 fires at 95 s. *)
Definition ex_cfg_gen : cfg := mkCfg KEager DutyAttester 7 (Some 0) (12 * sec) true.
Definition ex_trace_gen : list label :=
  [ LReq 3 (90000 * ms) (1000 * ms) None (90200 * ms);
    LReq 3 (90200 * ms) (3800 * ms) None (90300 * ms);
    LReq 3 (90300 * ms) (3700 * ms) (Some (94000 * ms)) (94000 * ms);
    LReq 4 (94000 * ms) (-2000 * ms) (Some (94000 * ms)) (94000 * ms);
    LReq 5 (94000 * ms) (-1000 * ms) (Some (94000 * ms)) (94000 * ms);
    LReq 6 (94000 * ms) 0 (Some (94000 * ms)) (94000 * ms);
    LReq 7 (94000 * ms) (1000 * ms) (Some (95000 * ms)) (96000 * ms) ].

Example ex_gen_accepted : (exists st, run ex_cfg_gen init ex_trace_gen = Some st) /\ monitor ex_cfg_gen ex_trace_gen = true
  /\ duty_start ex_cfg_gen = Some (88 * sec).
Proof. split; [eexists|split]; vm_compute; reflexivity. Qed.

Example ex_walk_realign :
  (let '(_, r, t) := walk ex_cfg_gen (fun r => if r =? 3 then Some (90200 * ms) else None) 4 init 3 (90000 * ms) in (r, t)) = (7, 94 * sec) /\
  (let '(_, r, t) := walk ex_cfg_gen no_pp 4 init 3 (90000 * ms) in (r, t)) = (7, 94 * sec).
Proof. split; vm_compute; reflexivity. Qed.

(* the monitor is not vacuous: a doubled deadline computed from the request instant is rejected *)
Example ex_monitor_rejects :
  monitor ex_cfg_gen [ LReq 3 (90000 * ms) (1000 * ms) None (90200 * ms);
                       LReq 3 (90200 * ms) (3000 * ms) None (90300 * ms) ] = false.
Proof. vm_compute; reflexivity. Qed.

(* Without genesis the eager timer's deadlines are NOT a function of the duty: two processes whose
   first request for round 1 is 300 ms apart hold deadlines 300 ms apart. *)
Lemma eager_nogenesis_not_absolute :
  exists ls1 ls2 st1 st2 now1 now2 d1 d2 f1 f2 u1 u2,
    run ex_cfg_nogen init ls1 = Some st1 /\ run ex_cfg_nogen init ls2 = Some st2 /\
    ls1 = [LReq 1 now1 d1 f1 u1] /\ ls2 = [LReq 1 now2 d2 f2 u2] /\ now1 + d1 <> now2 + d2.
Proof.
  exists [LReq 1 0 (1000 * ms) None 0], [LReq 1 (300 * ms) (1000 * ms) None (300 * ms)].
  do 2 eexists. exists 0, (300 * ms), (1000 * ms), (1000 * ms), None, None, 0, (300 * ms).
  repeat split; try (vm_compute; reflexivity). vm_compute. discriminate.
Qed.
