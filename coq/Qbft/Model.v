(* Executable model of ONE process of core/qbft.Run (file /repo/core/qbft/qbft.go).

   [fstep p s event oracle : option (state * list output)] is the algorithm as a deterministic
   function, written next to the Go text; the oracle carries the choices Go's map iteration makes
   during that event.  The labelled transition system [step p s label : option state] reads the
   oracle off the label (every choice an event makes is visible in that event's callbacks), runs
   [fstep] and accepts iff the produced callbacks equal the observed ones.  A label is one event
   injected into the process together with the callbacks observed until the process is quiescent
   again (Broadcast, Decide, NewTimer, stopTimer, LogUponRule, LogRoundChange, LogUnjust, return
   of Run).  Correspondence with the Go code is trace inclusion: the label sequence recorded from
   the real qbft.Run must be accepted by [run].

   Go's nondeterminism is map iteration only (flatten iterates the per-source buffer map;
   getPrepareQuorums, getFPlus1RoundChanges iterate maps).  It decides (a) which message represents a
   source when a source has several matching messages, (b) the order of justification lists,
   (c) which f+1 sources getFPlus1RoundChanges picks, (d) which candidate getJustifiedQrc returns.
   The model never fixes an order: where the Go result is observable in the label, the label's value
   is CHECKED for admissibility ([pick_ok], [adm_qrc], [fplus1_ok]); where it is stored without being
   observed (preparedJustification, ppjCache) the state keeps the data needed to check it when it
   is observed later ([prepJ] = all candidates, [PQrc] = snapshot).  The admissible sets are
   over-approximations of what some map order can produce (they coincide when every source has one
   matching message, which is the case for honest sources); every theorem quantifies over all of them.

   Messages are two-level: a [bmsg] (type, source, round, value, pr, pv) and a [msg] = [bmsg] plus a
   list of [bmsg] (nested justifications make Go panic "bug: nested justifications"; the wrapper
   cannot build them).  Value 0 is Go's zero value.  Rounds/process ids are [nat] (int64 in Go).

   Not modelled: invalid message types (the wrapper rejects them before Run sees them), a failing
   Transport.Broadcast, context cancellation, the value-source plumbing of Compare (only its verdict
   [cmp] matters to Run), LogRoundChange's message list.

   No proofs in this file. *)
From Coq Require Import List NArith Arith Bool.
From Charon Require Import Common.Quorum.
Import ListNotations.

(* ------------------------------------------------------------------------------------------ *)
(* Messages                                                                                     *)

Inductive mtype := PrePrepare | Prepare | Commit | RoundChange | Decided.

Definition mtype_eqb (a b : mtype) : bool :=
  match a, b with
  | PrePrepare, PrePrepare | Prepare, Prepare | Commit, Commit
  | RoundChange, RoundChange | Decided, Decided => true
  | _, _ => false
  end.

Record bmsg := mk { ty : mtype; src : nat; rnd : nat; val : N; pr : nat; pv : N }.
Arguments mk _ _%nat _%nat _%N _%nat _%N.

Definition beq (a b : bmsg) : bool :=
  mtype_eqb (ty a) (ty b) && (src a =? src b) && (rnd a =? rnd b) && N.eqb (val a) (val b)
  && (pr a =? pr b) && N.eqb (pv a) (pv b).

Record msg := mkm { main : bmsg; just : list bmsg }.

Fixpoint list_beq (a b : list bmsg) : bool :=
  match a, b with
  | [], [] => true
  | x :: a', y :: b' => beq x y && list_beq a' b'
  | _, _ => false
  end.

Definition meq (a b : msg) : bool := beq (main a) (main b) && list_beq (just a) (just b).

(* UponRule of the Go code, same order. *)
Inductive rule := Nothing | JustPrePrepare | QPrepares | QCommits | UnjustQRC | FPlus1RC | QRC
                | JustDecided | RoundTimeout.

Definition rule_eqb (a b : rule) : bool :=
  match a, b with
  | Nothing, Nothing | JustPrePrepare, JustPrePrepare | QPrepares, QPrepares | QCommits, QCommits
  | UnjustQRC, UnjustQRC | FPlus1RC, FPlus1RC | QRC, QRC | JustDecided, JustDecided
  | RoundTimeout, RoundTimeout => true
  | _, _ => false
  end.

(* Outcome of Definition.Compare as seen by Run: nil / errCompare / round timer fired first. *)
Inductive cmp := CmpOk | CmpFail | CmpTimeout.

Inductive exitwhy :=
| ExitZeroInput    (* "zero input value not supported" *)
| ExitBug.         (* recovered panic "bug: ..." (only "justification cache must be nil" is reachable) *)

Definition exitwhy_eqb (a b : exitwhy) : bool :=
  match a, b with ExitZeroInput, ExitZeroInput | ExitBug, ExitBug => true | _, _ => false end.

Inductive output :=
| Bcast (b : bmsg) (j : list bmsg)          (* Transport.Broadcast(typ, source, round, value, pr, pv, justification) *)
| Decide (v : N) (r : nat) (qc : list bmsg) (* Definition.Decide(value, round, qcommit); qcommit stripped to bmsgs *)
| NewTimer (r : nat)                        (* Definition.NewTimer(round) *)
| StopTimer                                 (* the stop function returned by NewTimer *)
| Unjust (m : msg)                          (* Definition.LogUnjust(msg) *)
| Upon (r : rule)                           (* Definition.LogUponRule(..., rule) *)
| RoundChg (from to : nat) (r : rule)       (* Definition.LogRoundChange(round, newRound, rule, _) *)
| Exit (why : exitwhy).                     (* Run returned a non-context error *)

Definition output_eqb (a b : output) : bool :=
  match a, b with
  | Bcast x j, Bcast y k => beq x y && list_beq j k
  | Decide v r q, Decide w t u => N.eqb v w && (r =? t) && list_beq q u
  | NewTimer r, NewTimer t => r =? t
  | StopTimer, StopTimer => true
  | Unjust m, Unjust n => meq m n
  | Upon r, Upon t => rule_eqb r t
  | RoundChg a1 b1 r, RoundChg a2 b2 t => (a1 =? a2) && (b1 =? b2) && rule_eqb r t
  | Exit x, Exit y => exitwhy_eqb x y
  | _, _ => false
  end.

Fixpoint outs_eqb (a b : list output) : bool :=
  match a, b with
  | [], [] => true
  | x :: a', y :: b' => output_eqb x y && outs_eqb a' b'
  | _, _ => false
  end.

(* One injected event and everything the process did until quiescent. *)
Inductive label :=
| LStart (outs : list output)                     (* Run called (inputValue not yet available) *)
| LInput (v : N) (outs : list output)             (* a value arrived on inputValueCh *)
| LRecv (m : msg) (c : cmp) (outs : list output)  (* a message arrived on Transport.Receive; c = verdict Compare
                                                     gives if it is consulted (UponJustifiedPrePrepare only) *)
| LTimeout (outs : list output).                  (* the current round timer fired *)

Definition label_outs (l : label) : list output :=
  match l with LStart o | LInput _ o | LRecv _ _ o | LTimeout o => o end.

(* ------------------------------------------------------------------------------------------ *)
(* Parameters and state                                                                        *)

Record params := { nodes : nat; fifo : nat; leader : nat -> nat (* round -> process *); self : nat }.

Definition qn (p : params) : nat := quorum (nodes p).
Definition fn (p : params) : nat := faulty (nodes p).
Definition is_leader (p : params) (r who : nat) : bool := leader p r =? who.

(* Round-robin leader of the wrapper: (slot + dutyType + round) mod nodes; off = slot + dutyType. *)
Definition lead_rr (off n : nat) : nat -> nat := fun r => (off + r) mod n.

(* ppjCache.  Go distinguishes nil (unset) from a non-nil slice (possibly empty). *)
Inductive ppjc :=
| PNone                                   (* nil *)
| PEmpty                                  (* the empty, non-nil justification cached at start (round 1 leader) *)
| PQrc (all : list bmsg) (c : nat).       (* justification returned by getJustifiedQrc on the flattened buffer
                                             [all] for the current round while compareFailureRound was [c];
                                             not yet observed *)

Definition maxDecidedResends : nat := 16.

Record state := mkst {
  round : nat;                         (* round *)
  input : N;                           (* inputValue; 0 = not received yet *)
  ppj : ppjc;                          (* ppjCache *)
  prepR : nat; prepV : N;              (* preparedRound, preparedValue *)
  prepJ : list bmsg;                   (* preparedJustification, as the list of ALL candidates it was picked from *)
  cfr : nat;                           (* compareFailureRound *)
  qcommit : list bmsg; qcommitV : N;   (* qCommit (non-empty = decided), qCommitValue *)
  buffer : list (nat * list msg);      (* buffer: source -> FIFO *)
  dedup : list (rule * nat);           (* dedupRules *)
  resends : list (nat * (nat * nat));  (* decidedResends: source -> (Round, Count) *)
  timer : option nat;                  (* round the running timer was created for; None = timerChan nil *)
  started : bool;
  dead : bool                          (* Run has returned *)
}.

Definition init : state :=
  mkst 1 0%N PNone 0 0%N [] 0 [] 0%N [] [] [] None false false.

(* ------------------------------------------------------------------------------------------ *)
(* Lists keyed by source                                                                       *)

Fixpoint memn (x : nat) (l : list nat) : bool :=
  match l with [] => false | y :: r => (y =? x) || memn x r end.

Fixpoint nodupn (l : list nat) : bool :=
  match l with [] => true | x :: r => negb (memn x r) && nodupn r end.

(* distinct elements, first occurrences kept *)
Fixpoint dedupn (l : list nat) : list nat :=
  match l with [] => [] | x :: r => x :: filter (fun y => negb (y =? x)) (dedupn r) end.

Definition memb (b : bmsg) (l : list bmsg) : bool := existsb (beq b) l.

Fixpoint dedupb (l : list bmsg) : list bmsg :=
  match l with [] => [] | x :: r => x :: filter (fun y => negb (beq y x)) (dedupb r) end.

(* number of distinct sources having a message satisfying f *)
Definition nsrc (f : bmsg -> bool) (all : list bmsg) : nat := length (dedupn (map src (filter f all))).

(* [J] may be the result of Go's filterMsgs-style "one message per source among those satisfying f"
   over [all] under some iteration order: distinct sources, every element is a matching message of
   [all], and every source that has a matching message is represented. *)
Definition pick_ok (f : bmsg -> bool) (all J : list bmsg) : bool :=
  nodupn (map src J) && forallb (fun b => f b && memb b all) J && (length J =? nsrc f all).

(* Go's filterMsgs on a list whose order is known (a message's own justification): first per source. *)
Fixpoint uniq_first (seen : list nat) (l : list bmsg) : list bmsg :=
  match l with
  | [] => []
  | b :: r => if memn (src b) seen then uniq_first seen r else b :: uniq_first (src b :: seen) r
  end.

Definition is_ty (t : mtype) (b : bmsg) : bool := mtype_eqb (ty b) t.
Definition f_trv (t : mtype) (r : nat) (v : N) (b : bmsg) : bool := is_ty t b && (rnd b =? r) && N.eqb (val b) v.
Definition f_rc (r : nat) (b : bmsg) : bool := is_ty RoundChange b && (rnd b =? r).
Definition f_rc_null (r : nat) (b : bmsg) : bool := f_rc r b && (pr b =? 0) && N.eqb (pv b) 0.
Definition f_rc_above (r : nat) (b : bmsg) : bool := is_ty RoundChange b && (r <? rnd b).

(* ------------------------------------------------------------------------------------------ *)
(* Buffer                                                                                       *)

(* flatten: every buffered message followed by its justification (in some source order). *)
Definition flat_msgs (ms : list msg) : list bmsg := flat_map (fun m => main m :: just m) ms.
Definition flat (buf : list (nat * list msg)) : list bmsg := flat_map (fun e => flat_msgs (snd e)) buf.

Definition lastn {A} (k : nat) (l : list A) : list A := skipn (length l - k) l.

(* bufferMsg: append to the source's FIFO and keep the last FIFOLimit entries. *)
Fixpoint buffer_add (k : nat) (buf : list (nat * list msg)) (m : msg) : list (nat * list msg) :=
  match buf with
  | [] => [(src (main m), lastn k [m])]
  | (s, q) :: r => if s =? src (main m) then (s, lastn k (q ++ [m])) :: r else (s, q) :: buffer_add k r m
  end.

(* ------------------------------------------------------------------------------------------ *)
(* Justification predicates: isJustified...                                                     *)

(* getSingleJustifiedPrPv: the single (pr, pv) of the PREPAREs in msgs and whether they form a quorum
   from distinct sources; any duplicate source or disagreement gives (0, 0, false). *)
Definition single (q : nat) (msgs : list bmsg) : nat * N * bool :=
  let ps := filter (is_ty Prepare) msgs in
  match ps with
  | [] => (0, 0%N, q <=? 0)
  | p0 :: _ =>
      if nodupn (map src ps) && forallb (fun b => (rnd b =? rnd p0) && N.eqb (val b) (val p0)) ps
      then (rnd p0, val p0, q <=? length ps)
      else (0, 0%N, false)
  end.

(* containsJustifiedQrc: Some pv = (pv, true); None = (_, false). *)
Definition contains_jqrc (q : nat) (j : list bmsg) (r : nat) : option N :=
  let qrc := uniq_first [] (filter (f_rc r) j) in
  if length qrc <? q then None
  else if forallb (fun b => (pr b =? 0) && N.eqb (pv b) 0) qrc then Some 0%N
  else match single q j with
       | (spr, spv, true) =>
           if forallb (fun b => pr b <=? spr) qrc
              && existsb (fun b => (pr b =? spr) && N.eqb (pv b) spv) qrc
           then Some spv else None
       | _ => None
       end.

Definition justified_preprepare (p : params) (m : msg) (c : nat) : bool :=
  let b := main m in
  is_leader p (rnd b) (src b)
  && negb (N.eqb (val b) 0)
  && ((rnd b =? 1) || (rnd b =? c + 1)
      || match contains_jqrc (qn p) (just m) (rnd b) with
         | None => false
         | Some x => N.eqb x 0 || N.eqb (val b) x
         end).

Definition justified_roundchange (p : params) (m : msg) : bool :=
  let b := main m in
  match just m with
  | [] => (pr b =? 0) && N.eqb (pv b) 0
  | ps => (qn p <=? length ps) && nodupn (map src ps)
          && forallb (fun x => is_ty Prepare x && (rnd x =? pr b) && N.eqb (val x) (pv b)) ps
  end.

Definition justified_decided (p : params) (m : msg) : bool :=
  qn p <=? nsrc (f_trv Commit (rnd (main m)) (val (main m))) (just m).

(* isJustified(d, instance, msg, compareFailureRound) *)
Definition justified (p : params) (m : msg) (c : nat) : bool :=
  match ty (main m) with
  | PrePrepare => justified_preprepare p m c
  | Prepare | Commit => true
  | RoundChange => justified_roundchange p m
  | Decided => justified_decided p m
  end.

(* ------------------------------------------------------------------------------------------ *)
(* getJustifiedQrc / getFPlus1RoundChanges as admissibility checks                             *)

Definition nullQ (p : params) (all : list bmsg) (r : nat) : bool := qn p <=? nsrc (f_rc_null r) all.

(* (round, value) keys of the PREPAREs in all that come from a quorum of distinct sources:
   the candidates of getPrepareQuorums. *)
Fixpoint dedupk (l : list (nat * N)) : list (nat * N) :=
  match l with
  | [] => []
  | (a, b) :: r => (a, b) :: filter (fun y => negb ((fst y =? a) && N.eqb (snd y) b)) (dedupk r)
  end.

Definition prep_keys (p : params) (all : list bmsg) : list (nat * N) :=
  filter (fun k => qn p <=? nsrc (f_trv Prepare (fst k) (snd k)) all)
         (dedupk (map (fun b => (rnd b, val b)) (filter (is_ty Prepare) all))).

Definition rc_srcs (all : list bmsg) (r : nat) : list nat := dedupn (map src (filter (f_rc r) all)).
Definition src_rcs (all : list bmsg) (r s : nat) : list bmsg := filter (fun b => f_rc r b && (src b =? s)) all.

(* Some choice of one ROUND-CHANGE(r) per source makes candidate k succeed in getJustifiedQrc. *)
Definition may_pass (p : params) (all : list bmsg) (r : nat) (k : nat * N) : bool :=
  (qn p <=? length (filter (fun s => existsb (fun b => pr b <=? fst k) (src_rcs all r s)) (rc_srcs all r)))
  && existsb (fun b => f_rc r b && (pr b =? fst k) && N.eqb (pv b) (snd k)) all.

(* Every choice makes candidate k succeed. *)
Definition must_pass (p : params) (all : list bmsg) (r : nat) (k : nat * N) : bool :=
  (qn p <=? length (filter (fun s => forallb (fun b => pr b <=? fst k) (src_rcs all r s)) (rc_srcs all r)))
  && existsb (fun s => forallb (fun b => (pr b =? fst k) && N.eqb (pv b) (snd k)) (src_rcs all r s)) (rc_srcs all r).

(* getJustifiedQrc may return ok / may return !ok, under some map order. *)
Definition may_ok (p : params) (all : list bmsg) (r : nat) : bool :=
  nullQ p all r || existsb (may_pass p all r) (prep_keys p all).
Definition may_fail (p : params) (all : list bmsg) (r : nat) : bool :=
  negb (nullQ p all r) && negb (existsb (must_pass p all r) (prep_keys p all)).

(* J may be the slice returned by getJustifiedQrc(all, r) with ok = true. *)
Definition adm_qrc (p : params) (all : list bmsg) (r : nat) (J : list bmsg) : bool :=
  if nullQ p all r then pick_ok (f_rc_null r) all J
  else
    let Jrc := filter (is_ty RoundChange) J in
    let Jp := filter (is_ty Prepare) J in
    list_beq J (Jrc ++ Jp)      (* append(qrc, prepares...) *)
    && match Jp with
       | [] => false
       | p0 :: _ =>
           let kr := rnd p0 in let kv := val p0 in
           pick_ok (f_trv Prepare kr kv) all Jp && (qn p <=? length Jp)
           && nodupn (map src Jrc)
           && forallb (fun b => f_rc r b && memb b all && (pr b <=? kr)) Jrc
           && (qn p <=? length Jrc)
           && existsb (fun b => (pr b =? kr) && N.eqb (pv b) kv) Jrc
           (* a source left out had its representative skipped because of a higher prepared round *)
           && forallb (fun s => memn s (map src Jrc) || existsb (fun b => kr <? pr b) (src_rcs all r s)) (rc_srcs all r)
       end.

(* Leader's choice in UponQuorumRoundChanges: the own-input branch is possible for some admissible J. *)
Definition may_own (p : params) (all : list bmsg) (r c : nat) : bool :=
  nullQ p all r || existsb (fun k => may_pass p all r k && (fst k =? c)) (prep_keys p all).

(* own-input branch is taken for justification J: !(ok && compareFailureRound != pr) *)
Definition own_branch (p : params) (J : list bmsg) (c : nat) : bool :=
  match single (qn p) J with
  | (spr, _, true) => spr =? c
  | _ => true
  end.

(* new may be nextMinRound of an f+1 set chosen by getFPlus1RoundChanges: some source has a
   ROUND-CHANGE of round new > cur, and at least f other sources have one of round >= new. *)
Definition fplus1_ok (p : params) (all : list bmsg) (cur new : nat) : bool :=
  (cur <? new)
  && existsb (fun b => is_ty RoundChange b && (rnd b =? new)
                && (fn p <=? length (filter (fun s => negb (s =? src b))
                                       (dedupn (map src (filter (fun x => is_ty RoundChange x && (new <=? rnd x)) all))))))
             all.

(* ------------------------------------------------------------------------------------------ *)
(* classify: the rules the Go code may return for msg m (already buffered) under some map order *)

Definition rules_of (p : params) (s : state) (m : msg) : list rule :=
  let b := main m in
  let all := flat (buffer s) in
  match ty b with
  | Decided => [JustDecided]
  | PrePrepare => if rnd b <? round s then [Nothing] else [JustPrePrepare]
  | Prepare =>
      if negb (rnd b =? round s) then [Nothing]
      else if qn p <=? nsrc (f_trv Prepare (rnd b) (val b)) all then [QPrepares] else [Nothing]
  | Commit =>
      if negb (rnd b =? round s) then [Nothing]
      else if qn p <=? nsrc (f_trv Commit (rnd b) (val b)) all then [QCommits] else [Nothing]
  | RoundChange =>
      if rnd b <? round s then [Nothing]
      else if round s <? rnd b then
        (if fn p + 1 <=? nsrc (f_rc_above (round s)) all then [FPlus1RC] else [Nothing])
      else if nsrc (f_rc (rnd b)) all <? qn p then [Nothing]
      else (if may_ok p all (rnd b) then [if is_leader p (rnd b) (self p) then QRC else Nothing] else [])
           ++ (if may_fail p all (rnd b) then [UnjustQRC] else [])
  end.

(* ------------------------------------------------------------------------------------------ *)
(* State updates                                                                               *)

Definition set_round (s : state) (r : nat) : state :=
  mkst r (input s) PNone (prepR s) (prepV s) (prepJ s) (cfr s) (qcommit s) (qcommitV s) (buffer s)
       [] (resends s) (timer s) (started s) (dead s).

(* changeRound: no-op when the round is unchanged; else log, set round, clear dedup and ppjCache. *)
Definition change_round (s : state) (nr : nat) (rl : rule) : state * list output :=
  if round s =? nr then (s, []) else (set_round s nr, [RoundChg (round s) nr rl]).

Definition set_buffer (s : state) (b : list (nat * list msg)) : state :=
  mkst (round s) (input s) (ppj s) (prepR s) (prepV s) (prepJ s) (cfr s) (qcommit s) (qcommitV s) b
       (dedup s) (resends s) (timer s) (started s) (dead s).
Definition set_dedup (s : state) (d : list (rule * nat)) : state :=
  mkst (round s) (input s) (ppj s) (prepR s) (prepV s) (prepJ s) (cfr s) (qcommit s) (qcommitV s) (buffer s)
       d (resends s) (timer s) (started s) (dead s).
Definition set_timer (s : state) (t : option nat) : state :=
  mkst (round s) (input s) (ppj s) (prepR s) (prepV s) (prepJ s) (cfr s) (qcommit s) (qcommitV s) (buffer s)
       (dedup s) (resends s) t (started s) (dead s).
Definition set_cfr (s : state) (c : nat) : state :=
  mkst (round s) (input s) (ppj s) (prepR s) (prepV s) (prepJ s) c (qcommit s) (qcommitV s) (buffer s)
       (dedup s) (resends s) (timer s) (started s) (dead s).
Definition set_ppj (s : state) (x : ppjc) : state :=
  mkst (round s) (input s) x (prepR s) (prepV s) (prepJ s) (cfr s) (qcommit s) (qcommitV s) (buffer s)
       (dedup s) (resends s) (timer s) (started s) (dead s).
Definition set_input (s : state) (v : N) : state :=
  mkst (round s) v (ppj s) (prepR s) (prepV s) (prepJ s) (cfr s) (qcommit s) (qcommitV s) (buffer s)
       (dedup s) (resends s) (timer s) (started s) (dead s).
Definition set_prepared (s : state) (r : nat) (v : N) (j : list bmsg) : state :=
  mkst (round s) (input s) (ppj s) r v j (cfr s) (qcommit s) (qcommitV s) (buffer s)
       (dedup s) (resends s) (timer s) (started s) (dead s).
Definition set_decided (s : state) (qc : list bmsg) (v : N) : state :=
  mkst (round s) (input s) (ppj s) (prepR s) (prepV s) (prepJ s) (cfr s) qc v (buffer s)
       (dedup s) (resends s) None (started s) (dead s).
Definition set_resends (s : state) (x : list (nat * (nat * nat))) : state :=
  mkst (round s) (input s) (ppj s) (prepR s) (prepV s) (prepJ s) (cfr s) (qcommit s) (qcommitV s) (buffer s)
       (dedup s) x (timer s) (started s) (dead s).
Definition set_started (s : state) : state :=
  mkst (round s) (input s) (ppj s) (prepR s) (prepV s) (prepJ s) (cfr s) (qcommit s) (qcommitV s) (buffer s)
       (dedup s) (resends s) (timer s) true (dead s).
Definition set_dead (s : state) : state :=
  mkst (round s) (input s) (ppj s) (prepR s) (prepV s) (prepJ s) (cfr s) (qcommit s) (qcommitV s) (buffer s)
       (dedup s) (resends s) (timer s) (started s) true.

Definition is_dup (s : state) (rl : rule) (r : nat) : bool :=
  existsb (fun k => rule_eqb (fst k) rl && (snd k =? r)) (dedup s).
Definition mark (s : state) (rl : rule) (r : nat) : state :=
  if is_dup s rl r then s else set_dedup s ((rl, r) :: dedup s).

Definition decided (s : state) : bool := match qcommit s with [] => false | _ => true end.

Fixpoint resend_get (l : list (nat * (nat * nat))) (who : nat) : nat * nat :=
  match l with [] => (0, 0) | (k, v) :: r => if k =? who then v else resend_get r who end.
Fixpoint resend_set (l : list (nat * (nat * nat))) (who : nat) (v : nat * nat) : list (nat * (nat * nat)) :=
  match l with
  | [] => [(who, v)]
  | (k, w) :: r => if k =? who then (k, v) :: r else (k, w) :: resend_set r who v
  end.

(* allowDecidedResend *)
Definition allow_resend (s : state) (who r : nat) : bool :=
  let '(lastr, cnt) := resend_get (resends s) who in
  negb (r <=? lastr) && negb (maxDecidedResends <=? cnt).

(* ------------------------------------------------------------------------------------------ *)
(* Events, oracle                                                                              *)

Inductive event := EStart | EInput (v : N) | ERecv (m : msg) (c : cmp) | ETimeout.

Definition event_of (l : label) : event :=
  match l with
  | LStart _ => EStart | LInput v _ => EInput v | LRecv m c _ => ERecv m c | LTimeout _ => ETimeout
  end.

(* The choices Go's map iteration makes during one event.  Every component is visible in the
   callbacks of that event ([oracle_of]); components an event does not use are ignored. *)
Record oracle := mko {
  o_rule : rule;          (* the rule classify returned and the dedup let through (Nothing = none / duplicate) *)
  o_just : list bmsg;     (* the justification slice handed to Broadcast / Decide by this event *)
  o_round : nat           (* nextMinRound of the f+1 set picked by getFPlus1RoundChanges *)
}.

Fixpoint last_out (l : list output) : option output :=
  match l with [] => None | [o] => Some o | _ :: r => last_out r end.

Fixpoint first_roundchg (l : list output) : nat :=
  match l with [] => 0 | RoundChg _ nr _ :: _ => nr | _ :: r => first_roundchg r end.

Definition oracle_of (outs : list output) : oracle :=
  mko (match outs with Upon r :: _ => r | _ => Nothing end)
      (match last_out outs with Some (Bcast _ J) => J | Some (Decide _ _ J) => J | _ => [] end)
      (first_roundchg outs).

(* ------------------------------------------------------------------------------------------ *)
(* The algorithm: a deterministic function of (state, event, oracle); None = the oracle's     *)
(* choice is not one the Go code can make in this state (or the event is not enabled)          *)

(* broadcastRoundChange() in state s with justification slice J picked from preparedJustification *)
Definition rc_out (p : params) (s : state) (J : list bmsg) : output :=
  Bcast (mk RoundChange (self p) (round s) 0 (prepR s) (prepV s)) J.

Definition prep_pick_ok (s : state) (J : list bmsg) : bool :=
  pick_ok (f_trv Prepare (prepR s) (prepV s)) (prepJ s) J.

(* Algorithm 3:1  changeRound(round+1, UponRoundTimeout); stopTimer(); NewTimer(round); broadcastRoundChange() *)
Definition timeout_body (p : params) (s : state) (J : list bmsg) : option (state * list output) :=
  if prep_pick_ok s J then
    let nr := round s + 1 in
    let s1 := set_timer (set_round s nr) (Some nr) in
    Some (s1, [RoundChg (round s) nr RoundTimeout; StopTimer; NewTimer nr; rc_out p s1 J])
  else None.

(* The switch over the upon-rule in the main loop; returns the callbacks after LogUponRule.
   [s] already has the message buffered and the rule recorded in dedupRules. *)
Definition apply_rule (p : params) (s : state) (m : msg) (c : cmp) (rl : rule) (o : oracle)
  : option (state * list output) :=
  let b := main m in
  let all := flat (buffer s) in
  match rl with
  | JustPrePrepare =>                                   (* Algorithm 2:1 *)
      let '(s1, pre) := change_round s (rnd b) rl in
      let s2 := set_timer (mark s1 rl (rnd b)) (Some (rnd b)) in   (* re-record after the wipe; new timer *)
      let hd := pre ++ [StopTimer; NewTimer (rnd b)] in
      match c with
      | CmpOk => Some (s2, hd ++ [Bcast (mk Prepare (self p) (rnd b) (val b) 0 0) []])
      | CmpFail => Some (set_cfr s2 (rnd b), hd)
      | CmpTimeout =>
          match timeout_body p s2 (o_just o) with
          | Some (s3, outs) => Some (s3, hd ++ outs)
          | None => None
          end
      end
  | QPrepares =>                                        (* Algorithm 2:4 *)
      Some (set_prepared s (round s) (val b) (dedupb (filter (f_trv Prepare (rnd b) (val b)) all)),
            [Bcast (mk Commit (self p) (round s) (val b) 0 0) []])
  | QCommits =>                                         (* Algorithm 2:8 *)
      let '(s1, pre) := change_round s (rnd b) rl in
      let J := o_just o in
      if pick_ok (f_trv Commit (rnd b) (val b)) all J
      then Some (set_decided s1 J (val b), pre ++ [StopTimer; Decide (val b) (rnd b) J])
      else None
  | JustDecided =>
      let '(s1, pre) := change_round s (rnd b) rl in
      Some (set_decided s1 (just m) (val b), pre ++ [StopTimer; Decide (val b) (rnd b) (just m)])
  | FPlus1RC =>                                         (* Algorithm 3:5 *)
      let nr := o_round o in
      let s1 := set_timer (set_round s nr) (Some nr) in
      if fplus1_ok p all (round s) nr && prep_pick_ok s1 (o_just o)
      then Some (s1, [RoundChg (round s) nr FPlus1RC; StopTimer; NewTimer nr; rc_out p s1 (o_just o)])
      else None
  | QRC =>                                              (* Algorithm 3:11 *)
      let J := o_just o in
      if adm_qrc p all (rnd b) J then
        match single (qn p) J with
        | (spr, spv, ok) =>
            if ok && negb (cfr s =? spr)
            then Some (s, [Bcast (mk PrePrepare (self p) (round s) spv 0 0) J])
            else (* broadcastOwnPrePrepare(J) *)
              match ppj s with
              | PNone => if N.eqb (input s) 0 then Some (set_ppj s (PQrc all (cfr s)), [])
                         else Some (s, [Bcast (mk PrePrepare (self p) (round s) (input s) 0 0) J])
              | _ => Some (set_dead s, [Exit ExitBug])   (* panic("bug: justification cache must be nil") *)
              end
        end
      else
        (* J was not handed to any callback: only the own-input branch without an input value
           (justification cached) or with a non-nil cache (panic) leaves it unobserved *)
        match J with
        | [] =>
            if may_own p all (rnd b) (cfr s) then
              match ppj s with
              | PNone => if N.eqb (input s) 0 then Some (set_ppj s (PQrc all (cfr s)), []) else None
              | _ => Some (set_dead s, [Exit ExitBug])
              end
            else None
        | _ => None
        end
  | UnjustQRC => Some (s, [])
  | Nothing | RoundTimeout => None
  end.

Definition fstep (p : params) (s : state) (e : event) (o : oracle) : option (state * list output) :=
  match e with
  | EStart =>
      if started s || dead s then None else
      (* Algorithm 1:11: a round-1 leader calls broadcastOwnPrePrepare([]) which, having no input value
         yet, caches the empty (non-nil) justification; then NewTimer(1) *)
      Some (set_timer (set_started (if is_leader p 1 (self p) then set_ppj s PEmpty else s)) (Some 1), [NewTimer 1])
  | EInput v =>
      if negb (started s) || dead s || negb (N.eqb (input s) 0) then None else
      if N.eqb v 0 then Some (set_dead s, [Exit ExitZeroInput]) else
      let s1 := set_input s v in
      match ppj s with
      | PNone => Some (s1, [])
      | PEmpty => Some (s1, [Bcast (mk PrePrepare (self p) (round s) v 0 0) []])
      | PQrc all c =>
          if adm_qrc p all (round s) (o_just o) && own_branch p (o_just o) c
          then Some (s1, [Bcast (mk PrePrepare (self p) (round s) v 0 0) (o_just o)])
          else None
      end
  | ETimeout =>
      if negb (started s) || dead s then None else
      match timer s with
      | None => None
      | Some _ => timeout_body p s (o_just o)
      end
  | ERecv m c =>
      if negb (started s) || dead s then None else
      let b := main m in
      if decided s then
        (* len(qCommit) > 0: answer a foreign ROUND-CHANGE with DECIDED, rate limited (Algorithm 3:17) *)
        if negb (src b =? self p) && is_ty RoundChange b && allow_resend s (src b) (rnd b) then
          Some (set_resends s (resend_set (resends s) (src b) (rnd b, snd (resend_get (resends s) (src b)) + 1)),
                [Bcast (mk Decided (self p) (round s) (qcommitV s) 0 0) (qcommit s)])
        else Some (s, [])
      else if negb (justified p m (cfr s)) then Some (s, [Unjust m])
      else
        let s1 := set_buffer s (buffer_add (fifo p) (buffer s) m) in
        let rs := rules_of p s1 m in
        let rl := o_rule o in
        if rule_eqb rl Nothing then
          (* no rule, or a rule already executed since the last round change *)
          if existsb (fun r => rule_eqb r Nothing || is_dup s1 r (rnd b)) rs then Some (s1, []) else None
        else if existsb (rule_eqb rl) rs && negb (is_dup s1 rl (rnd b)) then
          match apply_rule p (mark s1 rl (rnd b)) m c rl o with
          | Some (s', outs) => Some (s', Upon rl :: outs)
          | None => None
          end
        else None
  end.

(* ------------------------------------------------------------------------------------------ *)
(* The labelled transition system: a label is accepted iff the algorithm, run with the choices *)
(* read off the label, produces exactly the label's callbacks.                                 *)

Definition step (p : params) (s : state) (l : label) : option state :=
  match fstep p s (event_of l) (oracle_of (label_outs l)) with
  | Some (s', outs) => if outs_eqb outs (label_outs l) then Some s' else None
  | None => None
  end.

Fixpoint run (p : params) (s : state) (ls : list label) : option state :=
  match ls with
  | [] => Some s
  | l :: r => match step p s l with Some s' => run p s' r | None => None end
  end.
