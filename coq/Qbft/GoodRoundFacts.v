(* Proofs for the termination half of C04 (see GoodRound.v for the system and the statements). *)
From Coq Require Import List NArith Arith Bool Lia.
From Charon Require Import Common.Quorum Qbft.Model Qbft.ModelFacts Qbft.GoodRound.
Import ListNotations.
Set Warnings "-unused-intro-pattern".

(* ------------------------------------------------------------------------------------------ *)
(* One-level case analysis of "receive m, Compare ok"                                          *)

Definition s1_of (p : params) (s : state) (m : msg) : state :=
  set_buffer s (buffer_add (fifo p) (buffer s) m).

Inductive outcome (p : params) (s : state) (m : msg) : state -> list output -> Prop :=
| O_dec0 : decided s = true -> outcome p s m s []
| O_dec1 : forall rs, decided s = true -> ty (main m) = RoundChange ->
    outcome p s m (set_resends s rs) [Bcast (mk Decided (self p) (round s) (qcommitV s) 0 0) (qcommit s)]
| O_unjust : decided s = false -> justified p m (cfr s) = false -> outcome p s m s [Unjust m]
| O_none : decided s = false -> justified p m (cfr s) = true ->
    existsb (fun rl => rule_eqb rl Nothing || is_dup (s1_of p s m) rl (rnd (main m)))
            (rules_of p (s1_of p s m) m) = true ->
    outcome p s m (s1_of p s m) []
| O_fire : forall rl o s' outs, decided s = false -> justified p m (cfr s) = true ->
    existsb (rule_eqb rl) (rules_of p (s1_of p s m) m) = true ->
    is_dup (s1_of p s m) rl (rnd (main m)) = false ->
    apply_rule p (mark (s1_of p s m) rl (rnd (main m))) m CmpOk rl o = Some (s', outs) ->
    outcome p s m s' (Upon rl :: outs).

Lemma fstep_outcome : forall p s m o s' outs,
  fstep p s (ERecv m CmpOk) o = Some (s', outs) ->
  started s = true /\ dead s = false /\ outcome p s m s' outs.
Proof.
  intros p s m o s' outs H. unfold fstep in H.
  destruct (negb (started s) || dead s) eqn:E0; [discriminate|].
  apply orb_false_iff in E0. destruct E0 as [E0 E0']. apply negb_false_iff in E0.
  split; [assumption|]. split; [assumption|].
  destruct (decided s) eqn:Ed.
  - destruct (negb (src (main m) =? self p) && is_ty RoundChange (main m) && allow_resend s (src (main m)) (rnd (main m))) eqn:E1;
      inversion H; subst; clear H.
    + apply andb_true_iff in E1. destruct E1 as [E1 _]. apply andb_true_iff in E1. destruct E1 as [_ E1].
      apply O_dec1; [assumption | apply mtype_eqb_eq; exact E1].
    + apply O_dec0. assumption.
  - destruct (negb (justified p m (cfr s))) eqn:Ej.
    + inversion H; subst. apply O_unjust; [assumption | apply negb_true_iff; assumption].
    + apply negb_false_iff in Ej. fold (s1_of p s m) in H.
      destruct (rule_eqb (o_rule o) Nothing) eqn:En.
      * destruct (existsb _ _) eqn:Ex in H; [|discriminate]. inversion H; subst. apply O_none; assumption.
      * destruct (existsb (rule_eqb (o_rule o)) (rules_of p (s1_of p s m) m)) eqn:Ex; [|discriminate].
        destruct (is_dup (s1_of p s m) (o_rule o) (rnd (main m))) eqn:Edup; [discriminate|]. simpl in H.
        destruct (apply_rule _ _ _ _ _ _) as [[s2 outs2]|] eqn:Ea; [|discriminate].
        inversion H; subst. eapply O_fire; eassumption.
Qed.

(* a delivery whose classification either lacks QRC or finds it already executed does not log QRC *)
Lemma no_qrc_out : forall p s m o s' outs,
  fstep p s (ERecv m CmpOk) o = Some (s', outs) ->
  (existsb (rule_eqb QRC) (rules_of p (s1_of p s m) m) = true -> is_dup s QRC (rnd (main m)) = true) ->
  forall outs', outs <> Upon QRC :: outs'.
Proof.
  intros p s m o s' outs H Hq outs' E. apply fstep_outcome in H. destruct H as [_ [_ H]].
  destruct H as [Hd|rs Hd Ht|Hd Hj|Hd Hj Hex|rl o' s'' outs'' Hd Hj Hex Hdup Ha]; try discriminate.
  inversion E; subst. specialize (Hq Hex). unfold s1_of in Hdup. unfold is_dup in *. simpl in Hdup. congruence.
Qed.

(* ------------------------------------------------------------------------------------------ *)
(* dedup                                                                                       *)

Lemma rule_eqb_refl : forall a, rule_eqb a a = true.
Proof. destruct a; reflexivity. Qed.

Lemma rule_eqb_sym : forall a b, rule_eqb a b = rule_eqb b a.
Proof. destruct a, b; reflexivity. Qed.

Lemma is_dup_mark : forall s rl k rl' k',
  is_dup (mark s rl k) rl' k' = (rule_eqb rl rl' && (k =? k')) || is_dup s rl' k'.
Proof.
  intros s rl k rl' k'. unfold mark. destruct (is_dup s rl k) eqn:E.
  - destruct (rule_eqb rl rl' && (k =? k')) eqn:E2; [|reflexivity].
    apply andb_true_iff in E2. destruct E2 as [E2 E3]. apply rule_eqb_eq in E2. apply Nat.eqb_eq in E3. subst.
    rewrite E. reflexivity.
  - unfold is_dup. simpl. reflexivity.
Qed.

Lemma is_dup_s1 : forall p s m rl k, is_dup (s1_of p s m) rl k = is_dup s rl k.
Proof. reflexivity. Qed.

(* ------------------------------------------------------------------------------------------ *)
(* The rules that can fire in a stable round (message round = current round), Compare ok       *)

Lemma fire_jpp : forall p s2 m o s' outs, rnd (main m) = round s2 ->
  apply_rule p s2 m CmpOk JustPrePrepare o = Some (s', outs) ->
  s' = set_timer (mark s2 JustPrePrepare (round s2)) (Some (round s2))
  /\ outs = [StopTimer; NewTimer (round s2); Bcast (mk Prepare (self p) (round s2) (val (main m)) 0 0) []].
Proof.
  intros p s2 m o s' outs Hr H. unfold apply_rule, change_round in H. rewrite Hr, Nat.eqb_refl in H.
  inversion H; subst. split; reflexivity.
Qed.

Lemma fire_qp : forall p s2 m o s' outs,
  apply_rule p s2 m CmpOk QPrepares o = Some (s', outs) ->
  s' = set_prepared s2 (round s2) (val (main m))
         (dedupb (filter (f_trv Prepare (rnd (main m)) (val (main m))) (flat (buffer s2))))
  /\ outs = [Bcast (mk Commit (self p) (round s2) (val (main m)) 0 0) []].
Proof. intros p s2 m o s' outs H. simpl in H. inversion H; subst. split; reflexivity. Qed.

Lemma fire_qc : forall p s2 m o s' outs, rnd (main m) = round s2 ->
  apply_rule p s2 m CmpOk QCommits o = Some (s', outs) ->
  pick_ok (f_trv Commit (rnd (main m)) (val (main m))) (flat (buffer s2)) (o_just o) = true
  /\ s' = set_decided s2 (o_just o) (val (main m))
  /\ outs = [StopTimer; Decide (val (main m)) (round s2) (o_just o)].
Proof.
  intros p s2 m o s' outs Hr H. unfold apply_rule, change_round in H.
  rewrite <- Hr in H at 1. rewrite Nat.eqb_refl in H.
  destruct (pick_ok _ _ _) eqn:E; [|discriminate]. inversion H; subst. rewrite Hr. auto.
Qed.

Lemma fire_jd : forall p s2 m o s' outs, rnd (main m) = round s2 ->
  apply_rule p s2 m CmpOk JustDecided o = Some (s', outs) ->
  s' = set_decided s2 (just m) (val (main m))
  /\ outs = [StopTimer; Decide (val (main m)) (round s2) (just m)].
Proof.
  intros p s2 m o s' outs Hr H. unfold apply_rule, change_round in H. rewrite Hr, Nat.eqb_refl in H.
  inversion H; subst. auto.
Qed.

Lemma fire_urc : forall p s2 m o s' outs,
  apply_rule p s2 m CmpOk UnjustQRC o = Some (s', outs) -> s' = s2 /\ outs = [].
Proof. intros p s2 m o s' outs H. simpl in H. inversion H; auto. Qed.

(* ------------------------------------------------------------------------------------------ *)
(* Buffer: no eviction below the FIFO limit                                                    *)

Lemma lastn_all : forall {A} k (l : list A), length l <= k -> lastn k l = l.
Proof. intros A k l H. unfold lastn. replace (length l - k) with 0 by lia. reflexivity. Qed.

Lemma flat_bufmsgs : forall buf, flat buf = flat_msgs (bufmsgs buf).
Proof.
  induction buf as [|[s q] buf IH]; [reflexivity|].
  change (flat ((s, q) :: buf)) with (flat_msgs q ++ flat buf).
  change (bufmsgs ((s, q) :: buf)) with (q ++ bufmsgs buf).
  rewrite IH. unfold flat_msgs. rewrite flat_map_app. reflexivity.
Qed.

Lemma flat_msgs_in : forall ms b, In b (flat_msgs ms) <-> exists m, In m ms /\ (main m = b \/ In b (just m)).
Proof.
  intros ms b. unfold flat_msgs. rewrite in_flat_map. split; intros [m [H1 H2]]; exists m; (split; [assumption|]).
  - destruct H2 as [H2|H2]; auto.
  - simpl. tauto.
Qed.

Lemma buffer_add_keep : forall k buf m, qlen buf (src (main m)) < k ->
  forall x, In x (bufmsgs (buffer_add k buf m)) <-> In x (bufmsgs buf) \/ x = m.
Proof.
  intros k buf m. induction buf as [|[s q] buf IH]; intros Hq x.
  - simpl. rewrite lastn_all by (simpl; lia). simpl. intuition.
  - simpl in *. destruct (s =? src (main m)) eqn:E.
    + unfold bufmsgs. simpl. rewrite lastn_all by (rewrite app_length; simpl; lia).
      rewrite !in_app_iff. simpl. fold (bufmsgs buf). intuition.
    + unfold bufmsgs. simpl. fold (bufmsgs buf) (bufmsgs (buffer_add k buf m)). rewrite !in_app_iff, IH by assumption. tauto.
Qed.

Lemma lastn_length_le : forall {A} k (l : list A), length (lastn k l) <= length l.
Proof. intros A k l. unfold lastn. rewrite skipn_length. lia. Qed.

Lemma qlen_buffer_add : forall k buf m s,
  qlen (buffer_add k buf m) s <= qlen buf s + (if from_src s m then 1 else 0).
Proof.
  intros k buf m s. unfold from_src. induction buf as [|[s0 q] buf IH]; simpl.
  - destruct (src (main m) =? s) eqn:E; [|lia].
    pose proof (lastn_length_le k [m]). simpl in *. lia.
  - destruct (s0 =? src (main m)) eqn:E; simpl.
    + apply Nat.eqb_eq in E. subst s0. destruct (src (main m) =? s) eqn:E2; [|lia].
      pose proof (lastn_length_le k (q ++ [m])). rewrite app_length in H. simpl in H. lia.
    + destruct (s0 =? s); [lia | exact IH].
Qed.

Lemma In_skipn_gr : forall {A} k (l : list A) x, In x (skipn k l) -> In x l.
Proof. induction k; intros l x H; [exact H|]. destruct l; [exact H|]. right. apply IHk. exact H. Qed.

Lemma bufmsgs_flat_main : forall buf m, In m (bufmsgs buf) -> In (main m) (flat buf).
Proof. intros buf m H. rewrite flat_bufmsgs. apply flat_msgs_in. exists m. auto. Qed.

Lemma flat_s1 : forall p s m b, In b (flat (buffer (s1_of p s m))) -> In b (flat (buffer s)) \/ main m = b \/ In b (just m).
Proof.
  intros p s m b. simpl. generalize (fifo p). intros k. induction (buffer s) as [|[s0 q] buf IH]; simpl.
  - unfold flat. simpl. rewrite app_nil_r. intro H. apply flat_msgs_in in H. destruct H as [x [H1 H2]].
    unfold lastn in H1. apply In_skipn_gr in H1. destruct H1 as [H1|[]]. subst. tauto.
  - destruct (s0 =? src (main m)); unfold flat; simpl; rewrite !in_app_iff.
    + intros [H|H]; [|tauto]. apply flat_msgs_in in H. destruct H as [x [H1 H2]].
      unfold lastn in H1. apply In_skipn_gr in H1. apply in_app_or in H1. destruct H1 as [H1|[H1|[]]].
      * left. left. apply flat_msgs_in. eauto.
      * subst. tauto.
    + intros [H|H]; [tauto|]. apply IH in H. tauto.
Qed.

(* ------------------------------------------------------------------------------------------ *)
(* Counting distinct sources                                                                   *)

Lemma nsrc_sub : forall f l1 l2, (forall b, In b l1 -> f b = true -> In b l2) -> nsrc f l1 <= nsrc f l2.
Proof.
  intros f l1 l2 H. unfold nsrc. apply dedupn_length_incl.
  intros x Hx. apply in_map_iff in Hx. destruct Hx as [b [E Hb]]. apply filter_In in Hb. destruct Hb as [Hb Hf].
  apply in_map_iff. exists b. split; [assumption|]. apply filter_In. split; [apply H|]; assumption.
Qed.

Lemma nsrc_snoc_false : forall f l b, f b = false -> nsrc f (l ++ [b]) = nsrc f l.
Proof. intros f l b H. unfold nsrc. rewrite filter_app. simpl. rewrite H, app_nil_r. reflexivity. Qed.

Lemma f_trv_inv : forall t k v b, f_trv t k v b = true <-> ty b = t /\ rnd b = k /\ val b = v.
Proof.
  intros t k v b. unfold f_trv, is_ty. rewrite !andb_true_iff, mtype_eqb_eq, Nat.eqb_eq, N.eqb_eq. tauto.
Qed.

(* ------------------------------------------------------------------------------------------ *)
(* Per-process invariant relative to the pool                                                  *)

Section Inv.
Variables (n fifo_ : nat) (ld : nat -> nat) (R : list nat) (r : nat).
Hypothesis Hn : 1 <= n.
Notation pp := (pp n fifo_ ld).
Notation carrier := (carrier ld r).
Notation pc := (pc r).
Notation q := (quorum n).

Record proc_ok (P : list msg) (i : nat) (s : state) : Prop := mkpr {
  pr_round : round s = r;
  pr_started : started s = true;
  pr_dead : dead s = false;
  pr_jpp : is_dup s JustPrePrepare r = true -> exists x, In (mkm (mk Prepare i r x 0 0) []) P;
  pr_qp : is_dup s QPrepares r = true -> exists x, In (mkm (mk Commit i r x 0 0) []) P;
  pr_qc : decided s = false -> is_dup s QCommits r = false;
  pr_jd : decided s = false -> forall k, is_dup s JustDecided k = false;
  pr_buf : forall b, In b (flat (buffer s)) -> pc b -> has_main P b;
  pr_dec : decided s = true -> exists x, q <= nsrc (f_trv Commit r x) (map main P);
  pr_decv : decided s = true -> exists m, In m P /\ carrier (main m) = true /\ val (main m) = qcommitV s;
  pr_qcm : forall b, In b (qcommit s) -> pc b -> has_main P b
}.

Lemma has_main_mono : forall P P' b, incl P P' -> has_main P b -> has_main P' b.
Proof. intros P P' b H [m [H1 H2]]. exists m. auto. Qed.

Lemma start_proc_ok : forall P i s, start_ok r P i s -> proc_ok P i s.
Proof.
  intros P i s [H1 H2 H3 H4 H5 H6 H7 H8 H9]. unfold decided in H4.
  destruct (qcommit s) eqn:E; [|discriminate].
  constructor; auto; unfold decided; rewrite ?E; try discriminate. intros b [].
Qed.

Lemma proc_ok_mono : forall P P' i s, incl P P' -> proc_ok P i s -> proc_ok P' i s.
Proof.
  intros P P' i s Hi [H1 H2 H3 H4 H5 H6 H7 H8 H9 H10 H11]. constructor; auto.
  - intro H. destruct (H4 H) as [x Hx]. exists x. auto.
  - intro H. destruct (H5 H) as [x Hx]. exists x. auto.
  - intros b Hb Hp. eapply has_main_mono; eauto.
  - intro H. destruct (H9 H) as [x Hx]. exists x. etransitivity; [exact Hx|].
    apply nsrc_incl. apply incl_map. assumption.
  - intro H. destruct (H10 H) as [m [Hm1 Hm2]]. exists m. auto.
  - intros b Hb Hp. eapply has_main_mono; eauto.
Qed.

(* setters that touch none of the fields the invariant looks at *)
Lemma proc_ok_timer : forall P i s t, proc_ok P i s -> proc_ok P i (set_timer s t).
Proof. intros P i s t [H1 H2 H3 H4 H5 H6 H7 H8 H9 H10 H11]. constructor; auto. Qed.
Lemma proc_ok_resends : forall P i s t, proc_ok P i s -> proc_ok P i (set_resends s t).
Proof. intros P i s t [H1 H2 H3 H4 H5 H6 H7 H8 H9 H10 H11]. constructor; auto. Qed.
Lemma proc_ok_prepared : forall P i s a b c, proc_ok P i s -> proc_ok P i (set_prepared s a b c).
Proof. intros P i s a b c [H1 H2 H3 H4 H5 H6 H7 H8 H9 H10 H11]. constructor; auto. Qed.

Lemma proc_ok_s1 : forall P i s m, pool_ok ld r P -> In m P -> proc_ok P i s -> proc_ok P i (s1_of (pp i) s m).
Proof.
  intros P i s m Hp Hm [H1 H2 H3 H4 H5 H6 H7 H8 H9 H10 H11]. constructor; auto.
  intros b Hb Hpc. apply flat_s1 in Hb. destruct Hb as [Hb|[Hb|Hb]].
  - auto.
  - exists m. auto.
  - eapply po_nest; eauto.
Qed.

Lemma proc_ok_mark : forall P i s rl k,
  (rl = JustPrePrepare -> k = r -> exists x, In (mkm (mk Prepare i r x 0 0) []) P) ->
  (rl = QPrepares -> k = r -> exists x, In (mkm (mk Commit i r x 0 0) []) P) ->
  (rl = QCommits -> decided s = true) -> (rl = JustDecided -> decided s = true) ->
  proc_ok P i s -> proc_ok P i (mark s rl k).
Proof.
  intros P i s rl k A1 A2 A3 A4 [H1 H2 H3 H4 H5 H6 H7 H8 H9 H10 H11].
  constructor; autorewrite with st; auto.
  - rewrite is_dup_mark. intro H. apply orb_true_iff in H. destruct H as [H|H]; [|auto].
    apply andb_true_iff in H. destruct H as [Ha Hb]. apply rule_eqb_eq in Ha. apply Nat.eqb_eq in Hb. auto.
  - rewrite is_dup_mark. intro H. apply orb_true_iff in H. destruct H as [H|H]; [|auto].
    apply andb_true_iff in H. destruct H as [Ha Hb]. apply rule_eqb_eq in Ha. apply Nat.eqb_eq in Hb. auto.
  - intro Hd. rewrite is_dup_mark. rewrite (H6 Hd), orb_false_r.
    destruct (rule_eqb rl QCommits) eqn:E; [|reflexivity]. apply rule_eqb_eq in E. rewrite (A3 E) in Hd. discriminate.
  - intros Hd k'. rewrite is_dup_mark. rewrite (H7 Hd), orb_false_r.
    destruct (rule_eqb rl JustDecided) eqn:E; [|reflexivity]. apply rule_eqb_eq in E. rewrite (A4 E) in Hd. discriminate.
Qed.


Lemma is_dup_set_decided' : forall s a b rl k, is_dup (set_decided s a b) rl k = is_dup s rl k.
Proof. reflexivity. Qed.

Lemma proc_ok_decide : forall P i s rl k J v,
  rl = QCommits \/ rl = JustDecided -> J <> [] ->
  (exists x, q <= nsrc (f_trv Commit r x) (map main P)) ->
  (exists m, In m P /\ carrier (main m) = true /\ val (main m) = v) ->
  (forall b, In b J -> pc b -> has_main P b) ->
  proc_ok P i s -> proc_ok P i (set_decided (mark s rl k) J v).
Proof.
  intros P i s rl k J v Hrl HJ A1 A2 A3 [H1 H2 H3 H4 H5 H6 H7 H8 H9 H10 H11].
  assert (Hd : decided (set_decided (mark s rl k) J v) = true) by (unfold decided; simpl; destruct J; congruence).
  constructor; try (rewrite Hd; try discriminate); rewrite ?is_dup_set_decided', ?is_dup_mark.
  - simpl. autorewrite with st. auto.
  - simpl. autorewrite with st. auto.
  - simpl. autorewrite with st. auto.
  - destruct Hrl; subst rl; simpl; auto.
  - destruct Hrl; subst rl; simpl; auto.
  - simpl. autorewrite with st. auto.
  - auto.
  - auto.
  - simpl. auto.
Qed.


Lemma pool_ok_add : forall P m',
  pool_ok ld r P -> rnd (main m') <= r -> (ty (main m') = Decided -> rnd (main m') = r) ->
  (carrier (main m') = true -> exists m0, In m0 P /\ carrier (main m0) = true /\ val (main m0) = val (main m')) ->
  (forall b, In b (just m') -> pc b -> has_main P b) ->
  pool_ok ld r (P ++ [m']).
Proof.
  intros P m' [H1 H2 H3 H4] A1 A2 A3 A4. constructor.
  - intros m Hm. apply in_app_or in Hm. destruct Hm as [Hm|[Hm|[]]]; subst; auto.
  - intros m Hm. apply in_app_or in Hm. destruct Hm as [Hm|[Hm|[]]]; subst; auto.
  - intros m1 m2 Hm1 Hm2 C1 C2. apply in_app_or in Hm1. apply in_app_or in Hm2.
    destruct Hm1 as [Hm1|[Hm1|[]]]; destruct Hm2 as [Hm2|[Hm2|[]]]; subst; auto.
    + destruct (A3 C2) as [m0 [B1 [B2 B3]]]. rewrite <- B3. auto.
    + destruct (A3 C1) as [m0 [B1 [B2 B3]]]. rewrite <- B3. auto.
  - intros m b Hm Hb Hp. apply in_app_or in Hm. destruct Hm as [Hm|[Hm|[]]]; subst.
    + eapply has_main_mono; [|eapply H4; eauto]. apply incl_appl, incl_refl.
    + eapply has_main_mono; [|eapply A4; eauto]. apply incl_appl, incl_refl.
Qed.


Definition step_post (P : list msg) (i : nat) (s s' : state) (outs : list output) : Prop :=
  proc_ok (P ++ bcasts outs) i s' /\ pool_ok ld r (P ++ bcasts outs)
  /\ (forall x k, In (i, x, k) (decides i outs) ->
        k = r /\ exists m', In m' P /\ carrier (main m') = true /\ val (main m') = x)
  /\ (decided s = false -> decided s' = true -> exists x k, In (i, x, k) (decides i outs)).

Lemma post_quiet : forall P i s s', pool_ok ld r P -> proc_ok P i s' -> decided s' = decided s ->
  forall outs, bcasts outs = [] -> decides i outs = [] -> step_post P i s s' outs.
Proof.
  intros P i s s' Hp Hs Hd outs E1 E2. unfold step_post. rewrite E1, E2, app_nil_r.
  split; [assumption|]. split; [assumption|]. split.
  - intros x k [].
  - intros H1 H2. rewrite Hd, H1 in H2. discriminate.
Qed.

Lemma post_dec1 : forall P i s rs, pool_ok ld r P -> proc_ok P i s -> decided s = true ->
  step_post P i s (set_resends s rs) [Bcast (mk Decided (self (pp i)) (round s) (qcommitV s) 0 0) (qcommit s)].
Proof.
  intros P i s rs Hp Hs Hd. unfold step_post. simpl bcasts. simpl decides.
  split; [|split; [|split]].
  - apply proc_ok_resends. eapply proc_ok_mono; [|exact Hs]. apply incl_appl, incl_refl.
  - apply pool_ok_add; simpl; auto.
    + rewrite (pr_round _ _ _ Hs). lia.
    + intros _. apply (pr_round _ _ _ Hs).
    + intros _. exact (pr_decv _ _ _ Hs Hd).
    + apply (pr_qcm _ _ _ Hs).
  - intros x k [].
  - intros. congruence.
Qed.


Lemma justified_pp_carrier : forall i m c, ty (main m) = PrePrepare -> rnd (main m) = r ->
  justified (pp i) m c = true -> carrier (main m) = true.
Proof.
  intros i m c Ht Hr Hj. unfold justified in Hj. rewrite Ht in Hj. unfold justified_preprepare in Hj.
  apply andb_true_iff in Hj. destruct Hj as [Hj _]. apply andb_true_iff in Hj. destruct Hj as [Hj _].
  unfold is_leader in Hj. simpl in Hj. unfold GoodRound.carrier. rewrite Ht, Hr, Nat.eqb_refl. simpl.
  rewrite Hr in Hj. rewrite Nat.eqb_sym. exact Hj.
Qed.

Lemma post_jpp : forall P i s m, pool_ok ld r P -> In m P -> proc_ok P i s -> decided s = false ->
  justified (pp i) m (cfr s) = true -> ty (main m) = PrePrepare -> round s <= rnd (main m) ->
  let s2 := mark (s1_of (pp i) s m) JustPrePrepare (rnd (main m)) in
  step_post P i s (set_timer (mark s2 JustPrePrepare (round s2)) (Some (round s2)))
    (Upon JustPrePrepare :: [StopTimer; NewTimer (round s2); Bcast (mk Prepare (self (pp i)) (round s2) (val (main m)) 0 0) []]).
Proof.
  intros P i s m Hp Hm Hs Hd Hj Ht Hr s2.
  assert (Er : rnd (main m) = r) by (pose proof (po_rnd _ _ _ Hp m Hm); rewrite (pr_round _ _ _ Hs) in Hr; lia).
  assert (Er2 : round s2 = r) by (unfold s2; autorewrite with st; simpl; apply (pr_round _ _ _ Hs)).
  rewrite Er2. unfold s2. rewrite Er. clear s2 Er2.
  unfold step_post. simpl bcasts. simpl decides.
  set (m' := mkm (mk Prepare i r (val (main m)) 0 0) []).
  assert (Hp' : pool_ok ld r (P ++ [m'])).
  { apply pool_ok_add; simpl; auto; try discriminate.
    - intros _. exists m. split; [assumption|]. split; [|reflexivity]. eapply justified_pp_carrier; eauto.
    - intros b []. }
  assert (Hex : exists x, In (mkm (mk Prepare i r x 0 0) []) (P ++ [m'])).
  { exists (val (main m)). apply in_or_app. right. left. reflexivity. }
  split; [|split; [exact Hp'|split]].
  - apply proc_ok_timer. apply proc_ok_mark; try discriminate; auto.
    apply proc_ok_mark; try discriminate; auto.
    apply proc_ok_s1; [exact Hp' | apply in_or_app; auto |].
    eapply proc_ok_mono; [|exact Hs]. apply incl_appl, incl_refl.
  - intros x k [].
  - simpl. unfold decided. simpl. autorewrite with st. simpl. fold (decided s). congruence.
Qed.


Lemma post_qp : forall P i s m J, pool_ok ld r P -> In m P -> proc_ok P i s -> decided s = false ->
  ty (main m) = Prepare -> rnd (main m) = round s ->
  let s2 := mark (s1_of (pp i) s m) QPrepares (rnd (main m)) in
  step_post P i s (set_prepared s2 (round s2) (val (main m)) J)
    (Upon QPrepares :: [Bcast (mk Commit (self (pp i)) (round s2) (val (main m)) 0 0) []]).
Proof.
  intros P i s m J Hp Hm Hs Hd Ht Hr s2.
  assert (Er : rnd (main m) = r) by (rewrite Hr; apply (pr_round _ _ _ Hs)).
  assert (Er2 : round s2 = r) by (unfold s2; autorewrite with st; simpl; apply (pr_round _ _ _ Hs)).
  rewrite Er2. unfold s2. rewrite Er. clear s2 Er2.
  unfold step_post. simpl bcasts. simpl decides.
  set (m' := mkm (mk Commit i r (val (main m)) 0 0) []).
  assert (Hp' : pool_ok ld r (P ++ [m'])).
  { apply pool_ok_add; simpl; auto; try discriminate.
    - intros _. exists m. split; [assumption|]. split; [|reflexivity].
      unfold GoodRound.carrier. rewrite Ht, Er. apply Nat.eqb_refl.
    - intros b []. }
  assert (Hex : exists x, In (mkm (mk Commit i r x 0 0) []) (P ++ [m'])).
  { exists (val (main m)). apply in_or_app. right. left. reflexivity. }
  split; [|split; [exact Hp'|split]].
  - apply proc_ok_prepared. apply proc_ok_mark; try discriminate; auto.
    apply proc_ok_s1; [exact Hp' | apply in_or_app; auto |].
    eapply proc_ok_mono; [|exact Hs]. apply incl_appl, incl_refl.
  - intros x k [].
  - simpl. unfold decided. simpl. autorewrite with st. simpl. fold (decided s). congruence.
Qed.


Lemma has_main_in : forall P b, has_main P b -> In b (map main P).
Proof. intros P b [m [H1 H2]]. subst. apply in_map. assumption. Qed.

Lemma post_qc : forall P i s m J, pool_ok ld r P -> In m P -> proc_ok P i s -> decided s = false ->
  ty (main m) = Commit -> rnd (main m) = round s ->
  q <= nsrc (f_trv Commit (rnd (main m)) (val (main m))) (flat (buffer (s1_of (pp i) s m))) ->
  let s2 := mark (s1_of (pp i) s m) QCommits (rnd (main m)) in
  pick_ok (f_trv Commit (rnd (main m)) (val (main m))) (flat (buffer s2)) J = true ->
  step_post P i s (set_decided s2 J (val (main m)))
    (Upon QCommits :: [StopTimer; Decide (val (main m)) (round s2) J]).
Proof.
  intros P i s m J Hp Hm Hs Hd Ht Hr Hq s2 Hpick.
  assert (Er : rnd (main m) = r) by (rewrite Hr; apply (pr_round _ _ _ Hs)).
  assert (Er2 : round s2 = r) by (unfold s2; autorewrite with st; simpl; apply (pr_round _ _ _ Hs)).
  rewrite Er2. unfold s2 in *. rewrite Er in *. clear s2 Er2. autorewrite with st in Hpick.
  pose proof (proc_ok_s1 P i s m Hp Hm Hs) as Hs1.
  apply pick_ok_spec in Hpick. destruct Hpick as [K1 [K2 [K3 K4]]].
  pose proof (quorum_pos n Hn) as Hq1.
  assert (Hcar : carrier (main m) = true) by (unfold GoodRound.carrier; rewrite Ht, Er; apply Nat.eqb_refl).
  unfold step_post. simpl bcasts. simpl decides. rewrite app_nil_r.
  split; [|split; [exact Hp|split]].
  - apply proc_ok_decide; auto.
    + intro E. subst J. change (length (@nil bmsg)) with 0 in K4. rewrite <- K4 in Hq. lia.
    + exists (val (main m)). etransitivity; [exact Hq|]. apply nsrc_sub. intros b Hb Hf.
      apply has_main_in. apply (pr_buf _ _ _ Hs1 b Hb). apply f_trv_inv in Hf. unfold GoodRound.pc. intuition.
    + exists m. auto.
    + intros b Hb Hpc. apply (pr_buf _ _ _ Hs1 b); auto.
  - intros x k [E|[]]. inversion E; subst. split; [reflexivity|]. exists m. auto.
  - intros _ _. exists (val (main m)), r. left. reflexivity.
Qed.


Lemma post_jd : forall P i s m, pool_ok ld r P -> In m P -> proc_ok P i s -> decided s = false ->
  ty (main m) = Decided -> justified (pp i) m (cfr s) = true ->
  let s2 := mark (s1_of (pp i) s m) JustDecided (rnd (main m)) in
  step_post P i s (set_decided s2 (just m) (val (main m)))
    (Upon JustDecided :: [StopTimer; Decide (val (main m)) (round s2) (just m)]).
Proof.
  intros P i s m Hp Hm Hs Hd Ht Hj s2.
  assert (Er : rnd (main m) = r) by (apply (po_dec _ _ _ Hp m Hm Ht)).
  assert (Er2 : round s2 = r) by (unfold s2; autorewrite with st; simpl; apply (pr_round _ _ _ Hs)).
  rewrite Er2. unfold s2 in *. rewrite Er in *. clear s2 Er2.
  pose proof (proc_ok_s1 P i s m Hp Hm Hs) as Hs1.
  unfold justified in Hj. rewrite Ht in Hj. unfold justified_decided in Hj. apply Nat.leb_le in Hj.
  simpl in Hj. rewrite Er in Hj.
  pose proof (quorum_pos n Hn) as Hq1.
  assert (Hcar : carrier (main m) = true) by (unfold GoodRound.carrier; rewrite Ht; reflexivity).
  unfold step_post. simpl bcasts. simpl decides. rewrite app_nil_r.
  split; [|split; [exact Hp|split]].
  - apply proc_ok_decide; auto.
    + intro E. rewrite E in Hj. unfold nsrc in Hj. simpl in Hj. unfold qn in Hj. simpl in Hj. lia.
    + exists (val (main m)). etransitivity; [exact Hj|]. apply nsrc_sub. intros b Hb Hf.
      apply has_main_in. apply (po_nest _ _ _ Hp m b Hm Hb). apply f_trv_inv in Hf. unfold GoodRound.pc. intuition.
    + exists m. auto.
    + intros b Hb Hpc. apply (po_nest _ _ _ Hp m b Hm Hb Hpc).
  - intros x k [E|[]]. inversion E; subst. split; [reflexivity|]. exists m. auto.
  - intros _ _. exists (val (main m)), r. left. reflexivity.
Qed.


Lemma proc_step : forall P i s m o s' outs, pool_ok ld r P -> In m P -> proc_ok P i s ->
  fstep (pp i) s (ERecv m CmpOk) o = Some (s', outs) ->
  (forall outs', outs <> Upon QRC :: outs') ->
  step_post P i s s' outs.
Proof.
  intros P i s m o s' outs Hp Hm Hs H Hnq.
  apply fstep_outcome in H. destruct H as [_ [_ H]].
  pose proof (pr_round _ _ _ Hs) as Hround. pose proof (po_rnd _ _ _ Hp m Hm) as Hle.
  destruct H as [Hd|rs Hd Ht|Hd Hj|Hd Hj Hex|rl o' s'' outs' Hd Hj Hex Hdup Ha].
  - apply post_quiet; auto.
  - apply post_dec1; auto.
  - apply post_quiet; auto.
  - apply post_quiet; auto. apply proc_ok_s1; auto.
  - pose proof (rules_of_inv _ _ _ _ Hex) as Hr.
    destruct rl; simpl in Hr; try (simpl in Ha; discriminate).
    + destruct Hr as [Ht Hr]. simpl in Hr.
      apply fire_jpp in Ha; [|autorewrite with st; simpl; lia]. destruct Ha as [-> ->].
      apply post_jpp; auto.
    + destruct Hr as [Ht [Hr _]]. simpl in Hr. apply fire_qp in Ha. destruct Ha as [-> ->]. apply post_qp; auto.
    + destruct Hr as [Ht [Hr Hq]]. simpl in Hr.
      apply fire_qc in Ha; [|autorewrite with st; simpl; lia]. destruct Ha as [Hpick [-> ->]].
      apply post_qc; auto.
    + apply fire_urc in Ha. destruct Ha as [-> ->]. apply post_quiet; auto.
      * apply proc_ok_mark; try discriminate. apply proc_ok_s1; auto.
      * unfold decided. autorewrite with st. reflexivity.
    + destruct Hr as [_ Hr]. simpl in Hr. lia.
    + exfalso. eapply Hnq. reflexivity.
    + pose proof (po_dec _ _ _ Hp m Hm Hr) as Er.
      apply fire_jd in Ha; [|autorewrite with st; simpl; lia]. destruct Ha as [-> ->].
      apply post_jd; auto.
Qed.


(* ------------------------------------------------------------------------------------------ *)
(* classify is forced in a stable round                                                        *)

Lemma rules_of_pp : forall p s m, ty (main m) = PrePrepare -> rnd (main m) = round s ->
  rules_of p s m = [JustPrePrepare].
Proof. intros p s m Ht Hr. unfold rules_of. rewrite Ht, Hr, Nat.ltb_irrefl. reflexivity. Qed.

Lemma rules_of_prep : forall p s m, ty (main m) = Prepare -> rnd (main m) = round s ->
  qn p <= nsrc (f_trv Prepare (rnd (main m)) (val (main m))) (flat (buffer s)) ->
  rules_of p s m = [QPrepares].
Proof.
  intros p s m Ht Hr Hq. unfold rules_of. rewrite Ht. rewrite <- Hr at 1. rewrite Nat.eqb_refl. simpl.
  apply Nat.leb_le in Hq. rewrite Hq. reflexivity.
Qed.

Lemma rules_of_commit : forall p s m, ty (main m) = Commit -> rnd (main m) = round s ->
  qn p <= nsrc (f_trv Commit (rnd (main m)) (val (main m))) (flat (buffer s)) ->
  rules_of p s m = [QCommits].
Proof.
  intros p s m Ht Hr Hq. unfold rules_of. rewrite Ht. rewrite <- Hr at 1. rewrite Nat.eqb_refl. simpl.
  apply Nat.leb_le in Hq. rewrite Hq. reflexivity.
Qed.


(* ------------------------------------------------------------------------------------------ *)
(* Per-process invariant relative to what has been delivered in the window: received => done   *)

Record seen_ok (i : nat) (s0 s : state) (S : list msg) : Prop := mkse {
  se_q : forall k, qlen (buffer s) k <= qlen (buffer s0) k + length (filter (from_src k) S);
  se_buf : decided s = false -> forall m, In m S -> justified (pp i) m (cfr s) = true -> In m (bufmsgs (buffer s));
  se_jpp : decided s = false -> forall m, In m S -> ty (main m) = PrePrepare -> rnd (main m) = r ->
           justified (pp i) m (cfr s) = true -> is_dup s JustPrePrepare r = true;
  se_qp : decided s = false -> forall x, q <= nsrc (f_trv Prepare r x) (map main S) -> is_dup s QPrepares r = true;
  se_qc : forall x, q <= nsrc (f_trv Commit r x) (map main S) -> decided s = true
}.

Lemma filter_snoc_len : forall {A} (f : A -> bool) l x,
  length (filter f (l ++ [x])) = length (filter f l) + (if f x then 1 else 0).
Proof. intros. rewrite filter_app, app_length. simpl. destruct (f x); reflexivity. Qed.

Lemma seen_decided : forall i s0 s s' S m, decided s' = true ->
  (forall k, qlen (buffer s') k <= qlen (buffer s) k + (if from_src k m then 1 else 0)) ->
  seen_ok i s0 s S -> seen_ok i s0 s' (S ++ [m]).
Proof.
  intros i s0 s s' S m Hd Hq [H1 H2 H3 H4 H5]. constructor; try (rewrite Hd; discriminate); auto.
  intro k. rewrite filter_snoc_len. specialize (Hq k). specialize (H1 k). lia.
Qed.

Lemma seen_unjust : forall i s0 s S m, decided s = false -> justified (pp i) m (cfr s) = false ->
  seen_ok i s0 s S -> seen_ok i s0 s (S ++ [m]).
Proof.
  intros i s0 s S m Hd Hj [H1 H2 H3 H4 H5].
  assert (Hty : forall t k x, t = Prepare \/ t = Commit -> f_trv t k x (main m) = false).
  { intros t k x Ht. destruct (f_trv t k x (main m)) eqn:E; [|reflexivity]. apply f_trv_inv in E.
    destruct E as [E _]. unfold justified in Hj. rewrite E in Hj. destruct Ht; subst t; discriminate. }
  constructor.
  - intro k. rewrite filter_snoc_len. specialize (H1 k). lia.
  - intros _ m' Hm' Hj'. apply in_app_or in Hm'. destruct Hm' as [Hm'|[Hm'|[]]]; [auto | subst; congruence].
  - intros _ m' Hm' Ht Hr Hj'. apply in_app_or in Hm'. destruct Hm' as [Hm'|[Hm'|[]]]; [eauto | subst; congruence].
  - intros _ x. rewrite map_app. simpl map. rewrite nsrc_snoc_false by (apply Hty; auto). intro Hx. exact (H4 Hd x Hx).
  - intros x. rewrite map_app. simpl map. rewrite nsrc_snoc_false by (apply Hty; auto). intro Hx. exact (H5 x Hx).
Qed.


Lemma pc_justified : forall p m c, ty (main m) = Prepare \/ ty (main m) = Commit -> justified p m c = true.
Proof. intros p m c [H|H]; unfold justified; rewrite H; reflexivity. Qed.

Lemma seen_buffered : forall i s0 s s' S m,
  seen_ok i s0 s S -> decided s = false -> justified (pp i) m (cfr s) = true ->
  qlen (buffer s) (src (main m)) < fifo_ ->
  buffer s' = buffer (s1_of (pp i) s m) -> cfr s' = cfr s ->
  (forall rl k, is_dup s rl k = true -> is_dup s' rl k = true) ->
  (ty (main m) = PrePrepare -> rnd (main m) = r -> is_dup s' JustPrePrepare r = true) ->
  (ty (main m) = Prepare -> rnd (main m) = r ->
     q <= nsrc (f_trv Prepare r (val (main m))) (flat (buffer s')) -> is_dup s' QPrepares r = true) ->
  (ty (main m) = Commit -> rnd (main m) = r ->
     q <= nsrc (f_trv Commit r (val (main m))) (flat (buffer s')) -> decided s' = true) ->
  seen_ok i s0 s' (S ++ [m]).
Proof.
  intros i s0 s s' S m [H1 H2 H3 H4 H5] Hd Hj Hlen Hbuf Hcfr Hmono C1 C2 C3.
  assert (Hsub : forall m', In m' (S ++ [m]) -> justified (pp i) m' (cfr s) = true -> In m' (bufmsgs (buffer s'))).
  { intros m' Hm' Hj'. rewrite Hbuf. simpl. apply buffer_add_keep; [exact Hlen|].
    apply in_app_or in Hm'. destruct Hm' as [Hm'|[Hm'|[]]]; [left; auto | right; auto]. }
  assert (Hcount : forall t x, t = Prepare \/ t = Commit ->
            nsrc (f_trv t r x) (map main (S ++ [m])) <= nsrc (f_trv t r x) (flat (buffer s'))).
  { intros t x Ht. apply nsrc_sub. intros b Hb Hf. apply in_map_iff in Hb. destruct Hb as [m' [E Hm']]. subst b.
    apply bufmsgs_flat_main. apply Hsub; [assumption|]. apply pc_justified. apply f_trv_inv in Hf.
    destruct Hf as [Hf _]. rewrite Hf. exact Ht. }
  constructor.
  - intro k. rewrite Hbuf, filter_snoc_len. simpl.
    pose proof (qlen_buffer_add fifo_ (buffer s) m k). specialize (H1 k). lia.
  - intros _ m' Hm' Hj'. rewrite Hcfr in Hj'. auto.
  - intros _ m' Hm' Ht Hr Hj'. rewrite Hcfr in Hj'. apply in_app_or in Hm'. destruct Hm' as [Hm'|[Hm'|[]]].
    + apply Hmono. eapply H3; eauto.
    + subst m'. auto.
  - intros _ x Hx. destruct (f_trv Prepare r x (main m)) eqn:E.
    + apply f_trv_inv in E. destruct E as [E1 [E2 E3]]. subst x. apply C2; auto.
      etransitivity; [exact Hx|]. apply Hcount. auto.
    + rewrite map_app in Hx. simpl map in Hx. rewrite nsrc_snoc_false in Hx by exact E. apply Hmono. eapply H4; eauto.
  - intros x Hx. destruct (f_trv Commit r x (main m)) eqn:E.
    + apply f_trv_inv in E. destruct E as [E1 [E2 E3]]. subst x. apply C3; auto.
      etransitivity; [exact Hx|]. apply Hcount. auto.
    + rewrite map_app in Hx. simpl map in Hx. rewrite nsrc_snoc_false in Hx by exact E.
      rewrite (H5 x Hx) in Hd. discriminate.
Qed.


Lemma is_dup_set_timer' : forall s t rl k, is_dup (set_timer s t) rl k = is_dup s rl k.
Proof. reflexivity. Qed.
Lemma is_dup_set_prepared' : forall s a b c rl k, is_dup (set_prepared s a b c) rl k = is_dup s rl k.
Proof. reflexivity. Qed.
Ltac dupsimp := rewrite ?is_dup_set_timer', ?is_dup_set_prepared', ?is_dup_set_decided', ?is_dup_mark, ?is_dup_s1.

Lemma seen_step_none : forall P i s0 s S m, pool_ok ld r P -> In m P -> proc_ok P i s -> seen_ok i s0 s S ->
  decided s = false -> justified (pp i) m (cfr s) = true ->
  existsb (fun rl => rule_eqb rl Nothing || is_dup (s1_of (pp i) s m) rl (rnd (main m)))
          (rules_of (pp i) (s1_of (pp i) s m) m) = true ->
  qlen (buffer s) (src (main m)) < fifo_ ->
  seen_ok i s0 (s1_of (pp i) s m) (S ++ [m]).
Proof.
  intros P i s0 s S m Hp Hm Hs Hse Hd Hj Hex Hlen.
  pose proof (pr_round _ _ _ Hs) as Hround.
  eapply seen_buffered; eauto.
  - intros Ht Hr. rewrite rules_of_pp in Hex by (simpl; congruence). simpl in Hex.
    rewrite orb_false_r in Hex. rewrite Hr in Hex. exact Hex.
  - intros Ht Hr Hq. rewrite rules_of_prep in Hex by (simpl; try rewrite Hr; auto; congruence). simpl in Hex.
    rewrite orb_false_r in Hex. rewrite Hr in Hex. exact Hex.
  - intros Ht Hr Hq. rewrite rules_of_commit in Hex by (simpl; try rewrite Hr; auto; congruence). simpl in Hex.
    rewrite orb_false_r in Hex. rewrite Hr in Hex. rewrite is_dup_s1 in Hex.
    rewrite (pr_qc _ _ _ Hs Hd) in Hex. discriminate.
Qed.


Ltac fld := simpl; repeat (progress (autorewrite with st; simpl)).

Lemma seen_step : forall P i s0 s S m o s' outs,
  pool_ok ld r P -> In m P -> proc_ok P i s -> seen_ok i s0 s S ->
  fstep (pp i) s (ERecv m CmpOk) o = Some (s', outs) ->
  (forall outs', outs <> Upon QRC :: outs') ->
  qlen (buffer s0) (src (main m)) + length (filter (from_src (src (main m))) (S ++ [m])) <= fifo_ ->
  seen_ok i s0 s' (S ++ [m]).
Proof.
  intros P i s0 s S m o s' outs Hp Hm Hs Hse H Hnq Hfifo.
  assert (Hlen : qlen (buffer s) (src (main m)) < fifo_).
  { pose proof (se_q _ _ _ _ Hse (src (main m))) as Hq. rewrite filter_snoc_len in Hfifo.
    unfold from_src at 2 in Hfifo. rewrite Nat.eqb_refl in Hfifo. lia. }
  apply fstep_outcome in H. destruct H as [_ [_ H]].
  pose proof (pr_round _ _ _ Hs) as Hround. pose proof (po_rnd _ _ _ Hp m Hm) as Hle.
  destruct H as [Hd|rs Hd Ht|Hd Hj|Hd Hj Hex|rl o' s'' outs' Hd Hj Hex Hdup Ha].
  - eapply seen_decided; eauto. intro k. lia.
  - eapply seen_decided; eauto. intro k. simpl. lia.
  - apply seen_unjust; auto.
  - eapply seen_step_none; eauto.
  - pose proof (rules_of_inv _ _ _ _ Hex) as Hr.
    destruct rl; simpl in Hr; try (simpl in Ha; discriminate).
    + destruct Hr as [Ht Hr]. simpl in Hr.
      apply fire_jpp in Ha; [|autorewrite with st; simpl; lia]. destruct Ha as [-> _].
      eapply seen_buffered; eauto; fld; auto; try congruence.
      * intros rl k Hk. dupsimp. rewrite Hk, !orb_true_r. reflexivity.
      * intros _ Hr'. dupsimp. fld. rewrite Hround, !Nat.eqb_refl. reflexivity.
    + destruct Hr as [Ht [Hr _]]. simpl in Hr. apply fire_qp in Ha. destruct Ha as [-> _].
      eapply seen_buffered; eauto; fld; auto; try congruence.
      * intros rl k Hk. dupsimp. rewrite Hk, !orb_true_r. reflexivity.
      * intros _ Hr' _. dupsimp. rewrite Hr', !Nat.eqb_refl. reflexivity.
    + destruct Hr as [Ht [Hr Hq]]. simpl in Hr.
      apply fire_qc in Ha; [|autorewrite with st; simpl; lia]. destruct Ha as [Hpick [-> _]].
      apply pick_ok_spec in Hpick. destruct Hpick as [_ [_ [_ K4]]]. autorewrite with st in K4.
      pose proof (quorum_pos n Hn) as Hq1. unfold qn in Hq. simpl nodes in Hq.
      eapply seen_decided; eauto.
      * unfold decided. simpl. destruct (o_just o'); [simpl in K4; lia | reflexivity].
      * intro k. fld. apply qlen_buffer_add.
    + destruct Hr as [Ht Hr]. apply fire_urc in Ha. destruct Ha as [-> _].
      eapply seen_buffered; eauto; fld; auto; try congruence.
      intros rl k Hk. dupsimp. rewrite Hk, !orb_true_r. reflexivity.
    + destruct Hr as [_ Hr]. simpl in Hr. lia.
    + exfalso. eapply Hnq. reflexivity.
    + apply fire_jd in Ha; [|autorewrite with st; simpl; pose proof (po_dec _ _ _ Hp m Hm Hr); lia].
      destruct Ha as [-> _].
      pose proof (quorum_pos n Hn) as Hq1.
      unfold justified in Hj. rewrite Hr in Hj. unfold justified_decided in Hj. apply Nat.leb_le in Hj.
      unfold qn in Hj. simpl nodes in Hj.
      eapply seen_decided; eauto.
      * unfold decided. simpl. destruct (just m); [unfold nsrc in Hj; simpl in Hj; lia | reflexivity].
      * intro k. fld. apply qlen_buffer_add.
Qed.


Lemma proc_step_types : forall P i s m o s' outs, pool_ok ld r P -> In m P -> proc_ok P i s ->
  fstep (pp i) s (ERecv m CmpOk) o = Some (s', outs) ->
  (forall outs', outs <> Upon QRC :: outs') ->
  forall m', In m' (bcasts outs) -> ty (main m') = Prepare \/ ty (main m') = Commit \/ ty (main m') = Decided.
Proof.
  intros P i s m o s' outs Hp Hm Hs H Hnq.
  apply fstep_outcome in H. destruct H as [_ [_ H]].
  pose proof (pr_round _ _ _ Hs) as Hround. pose proof (po_rnd _ _ _ Hp m Hm) as Hle.
  destruct H as [Hd|rs Hd Ht|Hd Hj|Hd Hj Hex|rl o' s'' outs' Hd Hj Hex Hdup Ha].
  - intros m' [].
  - intros m' [E|[]]. subst. simpl. auto.
  - intros m' [].
  - intros m' [].
  - pose proof (rules_of_inv _ _ _ _ Hex) as Hr.
    destruct rl; simpl in Hr; try (simpl in Ha; discriminate).
    + destruct Hr as [Ht Hr]. simpl in Hr.
      apply fire_jpp in Ha; [|autorewrite with st; simpl; lia]. destruct Ha as [_ ->].
      intros m' [E|[]]. subst. simpl. auto.
    + apply fire_qp in Ha. destruct Ha as [_ ->]. intros m' [E|[]]. subst. simpl. auto.
    + destruct Hr as [Ht [Hr Hq]]. simpl in Hr.
      apply fire_qc in Ha; [|autorewrite with st; simpl; lia]. destruct Ha as [_ [_ ->]]. intros m' [].
    + apply fire_urc in Ha. destruct Ha as [_ ->]. intros m' [].
    + destruct Hr as [_ Hr]. simpl in Hr. lia.
    + exfalso. eapply Hnq. reflexivity.
    + apply fire_jd in Ha; [|autorewrite with st; simpl; pose proof (po_dec _ _ _ Hp m Hm Hr); lia].
      destruct Ha as [_ ->]. intros m' [].
Qed.


(* ------------------------------------------------------------------------------------------ *)
(* Global invariant                                                                            *)

Record ginv (g0 g : gcfg) : Prop := mkgi {
  gi_pool : pool_ok ld r (pool g);
  gi_proc : forall i, In i R -> proc_ok (pool g) i (gst g i);
  gi_seen : forall i, In i R -> seen_ok i (gst g0 i) (gst g i) (seen g i);
  gi_decs : forall i x k, In (i, x, k) (gdecs g) ->
            k = r /\ exists m, In m (pool g) /\ carrier (main m) = true /\ val (main m) = x;
  gi_decd : forall i, In i R -> decided (gst g i) = true -> exists x k, In (i, x, k) (gdecs g)
}.

Lemma upd_same : forall {A} (f : nat -> A) i x, upd f i x i = x.
Proof. intros. unfold upd. rewrite Nat.eqb_refl. reflexivity. Qed.
Lemma upd_other : forall {A} (f : nat -> A) i x j, j <> i -> upd f i x j = f j.
Proof. intros. unfold upd. apply Nat.eqb_neq in H. rewrite H. reflexivity. Qed.

Lemma decides_src : forall i outs j x k, In (j, x, k) (decides i outs) -> j = i.
Proof.
  intros i outs j x k. induction outs as [|o outs IH]; simpl; [tauto|].
  destruct o; auto. intros [H|H]; [inversion H; reflexivity | auto].
Qed.

Lemma ginv_deliver : forall g0 g i m o s' outs,
  ginv g0 g -> (forall j, In j R -> decided (gst g0 j) = false) ->
  In i R -> In m (pool g) ->
  fstep (pp i) (gst g i) (ERecv m CmpOk) o = Some (s', outs) ->
  (forall outs', outs <> Upon QRC :: outs') ->
  qlen (buffer (gst g0 i)) (src (main m)) + length (filter (from_src (src (main m))) (seen g i ++ [m])) <= fifo_ ->
  ginv g0 (mkg (upd (gst g) i s') (pool g ++ bcasts outs) (upd (seen g) i (seen g i ++ [m])) (gdecs g ++ decides i outs)).
Proof.
  intros g0 g i m o s' outs [G1 G2 G3 G4 G5] Hund Hi Hm H Hnq Hfifo.
  pose proof (proc_step _ _ _ _ _ _ _ G1 Hm (G2 i Hi) H Hnq) as [P1 [P2 [P3 P4]]].
  pose proof (seen_step _ _ _ _ _ _ _ _ _ G1 Hm (G2 i Hi) (G3 i Hi) H Hnq Hfifo) as S1.
  constructor; simpl.
  - exact P2.
  - intros j Hj. destruct (Nat.eq_dec j i) as [->|Hne].
    + rewrite upd_same. exact P1.
    + rewrite upd_other by assumption. eapply proc_ok_mono; [|apply G2; assumption]. apply incl_appl, incl_refl.
  - intros j Hj. destruct (Nat.eq_dec j i) as [->|Hne].
    + rewrite !upd_same. exact S1.
    + rewrite !upd_other by assumption. apply G3. assumption.
  - intros j x k Hin. apply in_app_or in Hin. destruct Hin as [Hin|Hin].
    + destruct (G4 j x k Hin) as [E [m0 [M1 M2]]]. split; [exact E|]. exists m0. split; [apply in_or_app; auto | exact M2].
    + pose proof (decides_src _ _ _ _ _ Hin). subst j.
      destruct (P3 x k Hin) as [E [m0 [M1 M2]]]. split; [exact E|]. exists m0. split; [apply in_or_app; auto | exact M2].
  - intros j Hj Hd. destruct (Nat.eq_dec j i) as [->|Hne].
    + rewrite upd_same in Hd. destruct (decided (gst g i)) eqn:Hdi.
      * destruct (G5 i Hi Hdi) as [x [k Hx]]. exists x, k. apply in_or_app. auto.
      * destruct (P4 eq_refl Hd) as [x [k Hx]]. exists x, k. apply in_or_app. auto.
    + rewrite upd_other in Hd by assumption. destruct (G5 j Hj Hd) as [x [k Hx]]. exists x, k. apply in_or_app. auto.
Qed.


(* ------------------------------------------------------------------------------------------ *)
(* Counting: one matching message per member of R is a quorum                                  *)

Lemma nsrc_covers : forall (f : bmsg -> bool) (L : list bmsg) (X : list nat),
  NoDup X -> (forall j, In j X -> exists b, In b L /\ f b = true /\ src b = j) -> length X <= nsrc f L.
Proof.
  intros f L X Hnd H. unfold nsrc. apply NoDup_incl_length; [assumption|].
  intros j Hj. apply dedupn_In. destruct (H j Hj) as [b [B1 [B2 B3]]]. subst j.
  apply in_map. apply filter_In. auto.
Qed.

Lemma seen_covers_pool : forall g i, delivered_all R g -> In i R -> incl (map main (pool g)) (map main (seen g i)).
Proof. intros g i Hdel Hi. apply incl_map. intros m Hm. apply Hdel; assumption. Qed.


Lemma all_decided : forall g0 g ml,
  ginv g0 g -> delivered_all R g -> NoDup R -> q <= length R ->
  In ml (pool g) -> ty (main ml) = PrePrepare -> rnd (main ml) = r ->
  (forall i, In i R -> justified (pp i) ml (cfr (gst g i)) = true) ->
  forall i, In i R -> decided (gst g i) = true.
Proof.
  intros g0 g ml [G1 G2 G3 G4 G5] Hdel Hnd Hq Hml Hty Hrd Hjust i Hi.
  destruct (existsb (fun j => decided (gst g j)) R) eqn:E.
  - (* somebody decided: a quorum of COMMITs is in the pool, i has received it *)
    apply existsb_exists in E. destruct E as [j [Hj Hdj]].
    destruct (pr_dec _ _ _ (G2 j Hj) Hdj) as [x Hx].
    apply (se_qc _ _ _ _ (G3 i Hi) x). etransitivity; [exact Hx|]. apply nsrc_incl. apply seen_covers_pool; assumption.
  - (* nobody decided *)
    assert (Hund : forall j, In j R -> decided (gst g j) = false).
    { intros j Hj. destruct (decided (gst g j)) eqn:Ed; [|reflexivity].
      assert (existsb (fun j => decided (gst g j)) R = true) by (apply existsb_exists; eauto). congruence. }
    pose proof (justified_pp_carrier i ml _ Hty Hrd (Hjust i Hi)) as Hcar.
    set (v := val (main ml)).
    (* every member has sent PREPARE(r, v) *)
    assert (Hprep : forall j, In j R -> In (mk Prepare j r v 0 0) (map main (pool g))).
    { intros j Hj.
      assert (Hdup : is_dup (gst g j) JustPrePrepare r = true).
      { apply (se_jpp _ _ _ _ (G3 j Hj) (Hund j Hj) ml); auto. }
      destruct (pr_jpp _ _ _ (G2 j Hj) Hdup) as [x Hx].
      assert (x = v). { symmetry. apply (po_val _ _ _ G1 ml _ Hml Hx Hcar). simpl. unfold GoodRound.carrier. simpl. apply Nat.eqb_refl. }
      subst x. apply in_map_iff. eexists. split; [|exact Hx]. reflexivity. }
    assert (Hpq : q <= nsrc (f_trv Prepare r v) (map main (pool g))).
    { etransitivity; [exact Hq|]. apply nsrc_covers; [assumption|]. intros j Hj.
      exists (mk Prepare j r v 0 0). split; [auto|]. split; [|reflexivity]. apply f_trv_inv. auto. }
    (* hence everybody has sent COMMIT(r, v) *)
    assert (Hcom : forall j, In j R -> In (mk Commit j r v 0 0) (map main (pool g))).
    { intros j Hj.
      assert (Hdup : is_dup (gst g j) QPrepares r = true).
      { apply (se_qp _ _ _ _ (G3 j Hj) (Hund j Hj) v). etransitivity; [exact Hpq|].
        apply nsrc_incl. apply seen_covers_pool; assumption. }
      destruct (pr_qp _ _ _ (G2 j Hj) Hdup) as [x Hx].
      assert (x = v). { symmetry. apply (po_val _ _ _ G1 ml _ Hml Hx Hcar). simpl. unfold GoodRound.carrier. simpl. apply Nat.eqb_refl. }
      subst x. apply in_map_iff. eexists. split; [|exact Hx]. reflexivity. }
    apply (se_qc _ _ _ _ (G3 i Hi) v). etransitivity; [exact Hq|].
    etransitivity; [|apply nsrc_incl; apply seen_covers_pool; eassumption].
    apply nsrc_covers; [assumption|]. intros j Hj.
    exists (mk Commit j r v 0 0). split; [auto|]. split; [|reflexivity]. apply f_trv_inv. auto.
Qed.


(* ------------------------------------------------------------------------------------------ *)
(* Round 1 (and any round in which no ROUND-CHANGE of the round is around): no QRC rule        *)

Definition norc (g : gcfg) : Prop := forall m, In m (pool g) -> ty (main m) = RoundChange -> rnd (main m) <> r.

Lemma norc_noqrc : forall g i m, norc g -> In m (pool g) -> round (gst g i) = r ->
  existsb (rule_eqb QRC) (rules_of (pp i) (s1_of (pp i) (gst g i) m) m) = false.
Proof.
  intros g i m Hn' Hm Hr. destruct (existsb _ _) eqn:E; [|reflexivity].
  apply rules_of_inv in E. simpl in E. destruct E as [E1 [E2 _]]. exfalso. apply (Hn' m Hm E1). congruence.
Qed.

Lemma fifo_ok_step : forall g0 g1 g2, gstep n fifo_ ld R g1 g2 -> fifo_ok fifo_ R g0 g2 -> fifo_ok fifo_ R g0 g1.
Proof.
  intros g0 g1 g2 Hs Hf i s Hi. specialize (Hf i s Hi). destruct Hs as [g i' m o s' outs Hi' Hm H]. simpl in Hf.
  destruct (Nat.eq_dec i i') as [->|Hne].
  - rewrite upd_same in Hf. rewrite filter_snoc_len in Hf. lia.
  - rewrite upd_other in Hf by assumption. exact Hf.
Qed.

Lemma ginv_steps_norc : forall g0 g, gsteps n fifo_ ld R g0 g -> fifo_ok fifo_ R g0 g ->
  ginv g0 g0 -> norc g0 -> (forall j, In j R -> decided (gst g0 j) = false) ->
  ginv g0 g /\ norc g /\ incl (pool g0) (pool g).
Proof.
  intros g0 g Hs. induction Hs as [g|g0 g1 g2 Hs IH Hst]; intros Hf Hinv Hnorc Hund.
  - split; [assumption|]. split; [assumption | apply incl_refl].
  - pose proof (fifo_ok_step _ _ _ Hst Hf) as Hf1.
    destruct (IH Hf1 Hinv Hnorc Hund) as [I1 [I2 I3]].
    destruct Hst as [g i m o s' outs Hi Hm H].
    assert (Hnq : forall outs', outs <> Upon QRC :: outs').
    { eapply no_qrc_out; [exact H|]. intro Hx. rewrite norc_noqrc in Hx; auto; [discriminate|].
      apply (pr_round _ _ _ (gi_proc _ _ I1 i Hi)). }
    split; [|split].
    + eapply ginv_deliver; eauto.
      specialize (Hf i (src (main m)) Hi). simpl in Hf. rewrite upd_same in Hf. exact Hf.
    + intros m' Hm' Ht. simpl in Hm'. apply in_app_or in Hm'. destruct Hm' as [Hm'|Hm']; [apply I2; assumption|].
      pose proof (proc_step_types _ _ _ _ _ _ _ (gi_pool _ _ I1) Hm (gi_proc _ _ I1 i Hi) H Hnq m' Hm') as Hty.
      rewrite Ht in Hty. destruct Hty as [Hty|[Hty|Hty]]; discriminate.
    + simpl. apply incl_appl. exact I3.
Qed.


Lemma seen_ok_nil : forall i s, seen_ok i s s [].
Proof.
  intros i s. pose proof (quorum_pos n Hn) as Hq1. constructor; simpl.
  - intro k. lia.
  - intros _ m [].
  - intros _ m [].
  - intros _ x Hx. unfold nsrc in Hx. simpl in Hx. lia.
  - intros x Hx. unfold nsrc in Hx. simpl in Hx. lia.
Qed.

Lemma ginv_start : forall g0, pool_ok ld r (pool g0) ->
  (forall i, In i R -> start_ok r (pool g0) i (gst g0 i)) ->
  (forall i, In i R -> seen g0 i = []) -> gdecs g0 = [] -> ginv g0 g0.
Proof.
  intros g0 Hp Hst Hseen Hdecs. constructor.
  - exact Hp.
  - intros i Hi. apply start_proc_ok. auto.
  - intros i Hi. rewrite (Hseen i Hi). apply seen_ok_nil.
  - intros i x k Hin. rewrite Hdecs in Hin. destruct Hin.
  - intros i Hi Hd. rewrite (so_undecided _ _ _ _ (Hst i Hi)) in Hd. discriminate.
Qed.

Theorem good_round_norc : forall g0 g ml,
  NoDup R -> q <= length R ->
  pool_ok ld r (pool g0) -> norc g0 ->
  (forall i, In i R -> start_ok r (pool g0) i (gst g0 i)) ->
  (forall i, In i R -> seen g0 i = []) -> gdecs g0 = [] ->
  In ml (pool g0) -> ty (main ml) = PrePrepare -> rnd (main ml) = r ->
  (forall i c, justified (pp i) ml c = true) ->
  gsteps n fifo_ ld R g0 g -> delivered_all R g -> fifo_ok fifo_ R g0 g ->
  (forall i, In i R -> exists k, In (i, val (main ml), k) (gdecs g))
  /\ (forall i x k, In (i, x, k) (gdecs g) -> x = val (main ml) /\ k = r).
Proof.
  intros g0 g ml Hnd Hq Hp Hnorc Hst Hseen Hdecs Hml Hty Hrd Hjust Hsteps Hdel Hfifo.
  pose proof (ginv_start g0 Hp Hst Hseen Hdecs) as Hinv0.
  assert (Hund : forall j, In j R -> decided (gst g0 j) = false) by (intros j Hj; apply (so_undecided _ _ _ _ (Hst j Hj))).
  destruct (ginv_steps_norc g0 g Hsteps Hfifo Hinv0 Hnorc Hund) as [Hinv [_ Hincl]].
  assert (Hvals : forall i x k, In (i, x, k) (gdecs g) -> x = val (main ml) /\ k = r).
  { intros i x k Hin. destruct (gi_decs _ _ Hinv i x k Hin) as [E [m0 [M1 [M2 M3]]]]. split; [|exact E].
    rewrite <- M3. apply (po_val _ _ _ (gi_pool _ _ Hinv)); auto.
    apply (justified_pp_carrier 0 ml 0 Hty Hrd (Hjust 0 0)). }
  split; [|exact Hvals].
  intros i Hi.
  assert (Hd : decided (gst g i) = true).
  { eapply all_decided; eauto. }
  destruct (gi_decd _ _ Hinv i Hi Hd) as [x [k Hx]]. destruct (Hvals i x k Hx) as [-> _]. exists k. exact Hx.
Qed.

End Inv.

(* ------------------------------------------------------------------------------------------ *)
(* Round 1                                                                                     *)

Theorem good_round_decides_r1 : forall n fifo_ ld R g0 g v J,
  1 <= n -> NoDup R -> quorum n <= length R ->
  pool_ok ld 1 (pool g0) -> norc 1 g0 ->
  (forall i, In i R -> start_ok 1 (pool g0) i (gst g0 i)) ->
  (forall i, In i R -> seen g0 i = []) -> gdecs g0 = [] ->
  In (mkm (mk PrePrepare (ld 1) 1 v 0 0) J) (pool g0) -> v <> 0%N ->
  gsteps n fifo_ ld R g0 g -> delivered_all R g -> fifo_ok fifo_ R g0 g ->
  (forall i, In i R -> exists k, In (i, v, k) (gdecs g))
  /\ (forall i x k, In (i, x, k) (gdecs g) -> x = v /\ k = 1).
Proof.
  intros n fifo_ ld R g0 g v J Hn Hnd Hq Hp Hnorc Hst Hseen Hdecs Hml Hv Hsteps Hdel Hfifo.
  apply (good_round_norc n fifo_ ld R 1 Hn g0 g (mkm (mk PrePrepare (ld 1) 1 v 0 0) J)); auto.
  intros i c. unfold justified, justified_preprepare, is_leader. simpl. rewrite Nat.eqb_refl. simpl.
  destruct (N.eqb v 0) eqn:E; [apply N.eqb_eq in E; contradiction | reflexivity].
Qed.

(* ------------------------------------------------------------------------------------------ *)
(* The two reachable-state facts used in [start_ok] are invariants of [run] from [init]        *)

Lemma idp_buffer : forall s t rl r, is_dup (set_buffer s t) rl r = is_dup s rl r. Proof. reflexivity. Qed.
Lemma idp_cfr : forall s t rl r, is_dup (set_cfr s t) rl r = is_dup s rl r. Proof. reflexivity. Qed.
Lemma idp_ppj : forall s t rl r, is_dup (set_ppj s t) rl r = is_dup s rl r. Proof. reflexivity. Qed.
Lemma idp_input : forall s t rl r, is_dup (set_input s t) rl r = is_dup s rl r. Proof. reflexivity. Qed.
Lemma idp_resends : forall s t rl r, is_dup (set_resends s t) rl r = is_dup s rl r. Proof. reflexivity. Qed.
Lemma idp_started : forall s rl r, is_dup (set_started s) rl r = is_dup s rl r. Proof. reflexivity. Qed.
Lemma idp_dead : forall s rl r, is_dup (set_dead s) rl r = is_dup s rl r. Proof. reflexivity. Qed.
Lemma idp_round : forall s x rl r, is_dup (set_round s x) rl r = false. Proof. reflexivity. Qed.
Ltac idp := rewrite ?is_dup_set_timer', ?is_dup_set_prepared', ?is_dup_set_decided', ?idp_buffer, ?idp_cfr, ?idp_ppj,
  ?idp_input, ?idp_resends, ?idp_started, ?idp_dead, ?idp_round, ?is_dup_mark.
Ltac undec Hd := unfold decided in Hd; simpl in Hd; autorewrite with st in Hd; simpl in Hd;
  try match type of Hd with context[qcommit ?x] => fold (decided x) in Hd end.

Definition dedup_fact (s : state) : Prop :=
  decided s = false -> forall k, is_dup s QCommits k = false /\ is_dup s JustDecided k = false.

Lemma dedup_fact_fstep : forall p s e o s' outs, 1 <= nodes p ->
  dedup_fact s -> fstep p s e o = Some (s', outs) -> dedup_fact s'.
Proof.
  intros p s e o s' outs Hn Hs H. pose proof (quorum_pos (nodes p) Hn) as Hq. fold (qn p) in Hq.
  unfold dedup_fact in *. destruct e.
  - crush_fstep H; intros Hd k; undec Hd; repeat idp; auto.
  - crush_fstep H; intros Hd k; undec Hd; repeat idp; auto.
  - crush_fstep H; try rule_facts; intros Hd k; undec Hd; repeat idp; simpl; auto.
    all: try (destruct (Hs Hd k) as [A B]; rewrite ?A, ?B; simpl; auto).
    all: try congruence.
    + exfalso. destruct Hr as [_ [_ Hr]]. apply pick_ok_spec in Heqb4. destruct Heqb4 as [_ [_ [_ K]]].
      autorewrite with st in K. simpl in K. destruct (o_just o); [simpl in K; lia | discriminate].
    + exfalso. apply negb_false_iff in Heqb1. unfold justified in Heqb1. rewrite Hr in Heqb1.
      unfold justified_decided in Heqb1. apply Nat.leb_le in Heqb1.
      destruct (just m); [unfold nsrc in Heqb1; simpl in Heqb1; lia | discriminate].
  - crush_fstep H; intros Hd k; undec Hd; repeat idp; auto.
Qed.

Lemma dedup_fact_init : dedup_fact init.
Proof. intros _ k. split; reflexivity. Qed.

Theorem run_dedup_fact : forall p ls s, 1 <= nodes p -> run p init ls = Some s -> dedup_fact s.
Proof.
  intros p ls s Hn H. eapply (run_invariant p dedup_fact); [|apply dedup_fact_init|exact H].
  intros. eapply dedup_fact_fstep; eassumption.
Qed.


(* the justification cache *)
Definition cache_fact (s : state) : Prop :=
  (started s = false -> round s = 1) /\
  match ppj s with PNone => True | PEmpty => round s = 1 | PQrc _ _ => is_dup s QRC (round s) = true end.

Lemma cache_fact_fstep : forall p s e o s' outs, cache_fact s -> fstep p s e o = Some (s', outs) -> cache_fact s'.
Proof.
  intros p s e o s' outs [Hs0 Hs] H. unfold cache_fact in *. destruct e.
  - crush_fstep H; simpl; (split; [discriminate|]); auto.
    all: apply orb_false_iff in Heqb; destruct Heqb as [Hb _]; auto.
  - crush_fstep H; simpl; autorewrite with st; simpl; (split; [intro Hx; apply orb_false_iff in Heqb; destruct Heqb as [Hb _]; apply orb_false_iff in Hb; destruct Hb as [Hb _]; apply negb_false_iff in Hb; congruence|]); auto.
    all: try (match goal with E : ppj _ = _ |- _ => rewrite E in *; simpl; auto end).
  - assert (Hst : started s = true).
    { unfold fstep in H. destruct (negb (started s) || dead s) eqn:E; [discriminate|].
      apply orb_false_iff in E. destruct E as [E _]. apply negb_false_iff in E. exact E. }
    crush_fstep H; try rule_facts; simpl; autorewrite with st; simpl; (split; [intro; congruence|]); auto.
    all: try (destruct (ppj s); repeat idp; auto; fail).
    all: try (match goal with E : ppj _ = _ |- _ => rewrite E in *; simpl; auto end).
    all: try (destruct Hr as [_ [Hr1 _]]; try destruct (ppj s) eqn:?; repeat idp; rewrite ?Hr1, ?Nat.eqb_refl; simpl; auto;
              rewrite ?Hs, ?orb_true_r; auto; fail).
  - crush_fstep H; simpl; autorewrite with st; simpl; auto.
    split; [|exact I]. intro Hx. apply orb_false_iff in Heqb. destruct Heqb as [Hb _]. apply negb_false_iff in Hb. congruence.
Qed.

Lemma cache_fact_init : cache_fact init.
Proof. split; [reflexivity | exact I]. Qed.

(* reachable-state fact behind [leader_ok]: before the QRC rule of a round r > 1 has run, the
   justification cache is empty *)
Theorem run_cache_empty : forall p ls s, run p init ls = Some s ->
  1 < round s -> is_dup s QRC (round s) = false -> ppj s = PNone.
Proof.
  intros p ls s H Hr Hd.
  assert (Hc : cache_fact s).
  { eapply (run_invariant p cache_fact); [|apply cache_fact_init|exact H]. intros. eapply cache_fact_fstep; eassumption. }
  destruct Hc as [_ Hc]. destruct (ppj s); [reflexivity | lia | congruence].
Qed.

