(* C02, negative result: agreement does not survive compare verdicts that depend on more than (member, value). *)
From Coq Require Import List NArith Arith Bool Lia.
From Charon Require Import Common.Quorum Qbft.Model Qbft.Monitor Qbft.Card Qbft.Net Qbft.NetInv Qbft.NetExamples.
Import ListNotations.

Lemma exref_run : exists nt, nrun exref_cfg net_init exref_trace = Some nt.
Proof.
  pose proof exref_accepted as H. unfold nrun_ok in H.
  destruct (nrun exref_cfg net_init exref_trace) as [nt|]; [exists nt; reflexivity | discriminate].
Qed.

Theorem agreement_refuted_if_compare_arbitrary :
  exists c tr nt, wf_cfg c /\ nrun c net_init tr = Some nt /\ nreach c nt tr
    /\ exists i v r j v' r', In (i, v, r) (trace_decides tr) /\ In (j, v', r') (trace_decides tr)
                             /\ good c i /\ good c j /\ v <> v'.
Proof.
  destruct exref_run as [nt Hnt].
  exists exref_cfg, exref_trace, nt. split; [|split; [exact Hnt | split; [exact (nrun_sound _ _ _ Hnt)|]]].
  - split; [simpl; lia|]. destruct exref_wf as [H1 H2]. simpl c_n. rewrite H1, H2. lia.
  - exists 0, 7%N, 1, 1, 8%N, 3. rewrite exref_decides.
    split; [left; reflexivity|]. split; [right; left; reflexivity|].
    split; [split; [simpl; lia | reflexivity]|]. split; [split; [simpl; lia | reflexivity]|]. discriminate.
Qed.
