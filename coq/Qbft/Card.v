(* Counting lemmas for quorum arguments: duplicate-free lists of process ids below n. *)
From Coq Require Import List Arith Bool Lia.
Import ListNotations.

Definition below (n : nat) (l : list nat) : Prop := forall x, In x l -> x < n.

Lemma NoDup_below_length : forall n l, NoDup l -> below n l -> length l <= n.
Proof.
  intros n l Hnd Hb. rewrite <- (seq_length n 0). apply NoDup_incl_length; [assumption|].
  intros x Hx. apply in_seq. specialize (Hb x Hx). lia.
Qed.

(* partition of a list by a boolean predicate *)
Lemma filter_length_split : forall {A} (f : A -> bool) l,
  length l = length (filter f l) + length (filter (fun x => negb (f x)) l).
Proof.
  intros A f l. induction l as [|x l IH]; simpl; [reflexivity|]. destruct (f x); simpl; lia.
Qed.

Lemma NoDup_filter' : forall {A} (f : A -> bool) l, NoDup l -> NoDup (filter f l).
Proof.
  intros A f l H. induction H; simpl; [constructor|].
  destruct (f x); [constructor|]; auto. rewrite filter_In. tauto.
Qed.

Fixpoint mem (x : nat) (l : list nat) : bool :=
  match l with [] => false | y :: r => (y =? x) || mem x r end.

Lemma mem_In : forall x l, mem x l = true <-> In x l.
Proof.
  induction l as [|y l IH]; simpl; [split; [discriminate | tauto]|].
  rewrite orb_true_iff, Nat.eqb_eq, IH. tauto.
Qed.

Lemma NoDup_app_intro : forall {A} (a b : list A), NoDup a -> NoDup b -> (forall x, In x a -> ~ In x b) -> NoDup (a ++ b).
Proof.
  intros A a b Ha Hb Hd. induction Ha as [|x a Hx Ha IH]; simpl; [assumption|].
  constructor.
  - intro Hin. apply in_app_or in Hin. destruct Hin as [Hin|Hin]; [contradiction|]. apply (Hd x); [left; reflexivity | assumption].
  - apply IH. intros y Hy. apply Hd. right. assumption.
Qed.

(* |A n B| >= |A| + |B| - n *)
Lemma inter_length : forall n A B, NoDup A -> NoDup B -> below n A -> below n B ->
  length A + length B <= n + length (filter (fun x => mem x A) B).
Proof.
  intros n A B HA HB HbA HbB.
  pose proof (filter_length_split (fun x => mem x A) B) as Hs.
  assert (Hu : length (A ++ filter (fun x => negb (mem x A)) B) <= n).
  { apply NoDup_below_length.
    - apply NoDup_app_intro; [assumption | apply NoDup_filter'; assumption|].
      intros x Hx Hx'. apply filter_In in Hx'. destruct Hx' as [_ Hx']. apply negb_true_iff in Hx'.
      apply mem_In in Hx. congruence.
    - intros x Hx. apply in_app_or in Hx. destruct Hx as [Hx|Hx]; [auto|]. apply filter_In in Hx. apply HbB. tauto. }
  rewrite app_length in Hu. lia.
Qed.

(* at most f of the ids below n are not honest: a duplicate-free list of ids below n has at least |l| - f honest members *)
Definition byz_count (n : nat) (honest : nat -> bool) : nat := length (filter (fun x => negb (honest x)) (seq 0 n)).

Lemma honest_part_length : forall n honest l, NoDup l -> below n l ->
  length l <= length (filter honest l) + byz_count n honest.
Proof.
  intros n honest l Hnd Hb. rewrite (filter_length_split honest l) at 1.
  apply Nat.add_le_mono_l. unfold byz_count.
  apply NoDup_incl_length; [apply NoDup_filter'; assumption|].
  intros x Hx. apply filter_In in Hx. apply filter_In. split; [|tauto]. apply in_seq. specialize (Hb x (proj1 Hx)). lia.
Qed.

(* Two duplicate-free id lists A, B below n with |A| + (|B| - byz) > n share an honest member. *)
Lemma inter_honest : forall n honest A B, NoDup A -> NoDup B -> below n A -> below n B ->
  n + byz_count n honest < length A + length B ->
  exists x, In x A /\ In x B /\ honest x = true.
Proof.
  intros n honest A B HA HB HbA HbB Hlen.
  set (Bh := filter honest B).
  assert (HBh : NoDup Bh) by (apply NoDup_filter'; assumption).
  assert (HbBh : below n Bh) by (intros x Hx; apply filter_In in Hx; apply HbB; tauto).
  pose proof (honest_part_length n honest B HB HbB) as H1. fold Bh in H1.
  pose proof (inter_length n A Bh HA HBh HbA HbBh) as H2.
  destruct (filter (fun x => mem x A) Bh) as [|x r] eqn:E; [simpl in H2; lia|].
  assert (Hx : In x (filter (fun x => mem x A) Bh)) by (rewrite E; left; reflexivity).
  apply filter_In in Hx. destruct Hx as [Hx1 Hx2]. apply mem_In in Hx2. apply filter_In in Hx1.
  exists x. tauto.
Qed.

(* A duplicate-free id list below n longer than the number of Byzantine ids has an honest member. *)
Lemma has_honest : forall n honest A, NoDup A -> below n A -> byz_count n honest < length A ->
  exists x, In x A /\ honest x = true.
Proof.
  intros n honest A HA Hb Hlen. pose proof (honest_part_length n honest A HA Hb) as H.
  destruct (filter honest A) as [|x r] eqn:E; [simpl in H; lia|].
  assert (Hx : In x (filter honest A)) by (rewrite E; left; reflexivity). apply filter_In in Hx. exists x. tauto.
Qed.
