(* Executable replay of crash-only executions ([crun], sound for [creach]) and the vm_compute
   witnesses that go with Qbft/GoodRoundNet.v:
   - a reachable state to which good_round_decides_from_net applies (non-vacuity);
   - counter-executions showing that the two residual assumptions do not follow from reachability:
     a stopped member outside R in a higher round ([outsider_ahead_breaks_pool_ok]) and, in Net.v
     proper (nreach), re-assembled justifications ([cross_assembly_breaks_buf_fresh]). *)
From Coq Require Import List NArith Arith Bool Lia.
From Charon Require Import Common.Quorum Qbft.Model Qbft.Monitor Qbft.ModelFacts Qbft.Justified
  Qbft.GoodRound Qbft.GoodRoundFacts Qbft.GoodRoundQrc Qbft.GoodRoundEx
  Qbft.Inv Qbft.Card Qbft.Net Qbft.NetInv Qbft.Agreement Qbft.NeverUnjust Qbft.GoodRoundNet.
Import ListNotations.

(* ------------------------------------------------------------------------------------------ *)
(* Executable crash-only replay                                                                *)

Definition as_sent_b (tr0 : list (nat * label)) (l : label) : bool :=
  match l with LRecv m _ _ => existsb (meq m) (sentm tr0) | _ => true end.

Fixpoint crun (c : cfg) (nt : net) (tr0 tr : list (nat * label)) : option net :=
  match tr with
  | [] => Some nt
  | (i, l) :: rest =>
      if label_nofail l && as_sent_b tr0 l then
        match nrun c nt [(i, l)] with
        | Some nt' => crun c nt' (tr0 ++ [(i, l)]) rest
        | None => None
        end
      else None
  end.

Lemma nrun1_nstep : forall c nt i l nt', nrun c nt [(i, l)] = Some nt' -> nstep c nt i l nt'.
Proof.
  intros c nt i l nt' H. simpl in H.
  destruct ((i <? c_n c) && c_honest c i && recv_ok c nt l) eqn:E; [|discriminate].
  destruct (step (Net.pp c i) (nst nt i) l) as [s'|] eqn:Es; [|discriminate]. inversion H; subst nt'.
  rewrite !andb_true_iff in E. destruct E as [[E1 E2] E3]. apply Nat.ltb_lt in E1.
  apply NStep; [split; assumption | exact Es |].
  intros m cm outs Hl. subst l. simpl in E3. unfold msg_deliv_b in E3. apply andb_true_iff in E3.
  destruct E3 as [E3 E4]. split; [apply deliv_b_sound; exact E3|]. intros b Hb. rewrite forallb_forall in E4.
  apply deliv_b_sound. auto.
Qed.

Lemma crun_creach : forall c tr nt nt' tr0, creach c nt tr0 -> crun c nt tr0 tr = Some nt' -> creach c nt' (tr0 ++ tr).
Proof.
  intros c. induction tr as [|[i l] tr IH]; cbn [crun]; intros nt nt' tr0 Hr H.
  - inversion H; subst. rewrite app_nil_r. exact Hr.
  - destruct (label_nofail l && as_sent_b tr0 l) eqn:E; [|discriminate].
    destruct (nrun c nt [(i, l)]) as [nt1|] eqn:E1; [|discriminate].
    apply andb_true_iff in E. destruct E as [Ea Eb].
    replace (tr0 ++ (i, l) :: tr) with ((tr0 ++ [(i, l)]) ++ tr) by (rewrite <- app_assoc; reflexivity).
    apply (IH nt1 nt' _); [|exact H]. eapply CRS; eauto.
    + apply nrun1_nstep. exact E1.
    + intros m cm outs El. subst l. simpl in Eb. apply existsb_exists in Eb. destruct Eb as [m' [M1 M2]].
      apply meq_eq in M2. subst. exact M1.
Qed.

Theorem crun_sound : forall c tr nt, crun c net_init [] tr = Some nt -> creach c nt tr.
Proof. intros c tr nt H. exact (crun_creach c tr net_init nt [] (CR0 c) H). Qed.

(* ------------------------------------------------------------------------------------------ *)
(* Building global traces from a schedule of (member, event, choice of map order)              *)

Definition mk_label (e : event) (outs : list output) : label :=
  match e with
  | EStart => LStart outs | EInput v => LInput v outs | ERecv m cm => LRecv m cm outs | ETimeout => LTimeout outs
  end.

Fixpoint build (c : cfg) (st : nat -> state) (sched : list (nat * event * oracle)) : list (nat * label) :=
  match sched with
  | [] => []
  | (i, e, o) :: rest =>
      match fstep (Net.pp c i) (st i) e o with
      | Some (s', outs) => (i, mk_label e outs) :: build c (Net.upd st i s') rest
      | None => []
      end
  end.

Definition c4 : cfg := mkcfg 4 64 ld4 (fun _ => true).

Lemma c4_wf : wf_cfg c4.
Proof. split; [simpl; lia | vm_compute; lia]. Qed.

Lemma c4_allhon : allhon c4.
Proof. intros k _. reflexivity. Qed.

(* members 0..2 start, member 3 never does; the round-1 leader (1) gets its input 7 *)
Definition sched_r1 : list (nat * event * oracle) :=
  [(0, EStart, o0); (2, EStart, o0); (1, EStart, o0); (1, EInput 7, o0)].
Definition tr_r1 : list (nat * label) := build c4 (fun _ => init) sched_r1.
Definition nt_r1 : net := match crun c4 net_init [] tr_r1 with Some nt => nt | None => net_init end.

Example r1_reachable : crun c4 net_init [] tr_r1 = Some nt_r1 /\ sentm tr_r1 = [pp1].
Proof. vm_compute. split; reflexivity. Qed.

Definition gn1_end : gcfg :=
  match gexec 4 64 ld4 R4 (g_of nt_r1 tr_r1) sched1 with Some g => g | None => g_of nt_r1 tr_r1 end.

Example gn1_run : gexec 4 64 ld4 R4 (g_of nt_r1 tr_r1) sched1 = Some gn1_end
  /\ gdecs gn1_end = [(0, 7%N, 1); (1, 7%N, 1); (2, 7%N, 1)].
Proof. vm_compute. split; reflexivity. Qed.

(* good_round_decides_from_net applies to this reachable state: only state facts are checked *)
Example from_net_applies_round1 :
  exists v, (forall i, In i R4 -> exists k, In (i, v, k) (gdecs gn1_end))
            /\ (forall i x k, In (i, x, k) (gdecs gn1_end) -> x = v /\ k = 1).
Proof.
  apply (good_round_decides_from_net c4 nt_r1 tr_r1 R4 1 gn1_end c4_wf c4_allhon).
  - apply crun_sound. exact (proj1 r1_reachable).
  - repeat constructor; simpl; intuition discriminate.
  - vm_compute. lia.
  - intros i Hi. pattern i. apply in_R4; [| | |exact Hi]; simpl; lia.
  - vm_compute. auto.
  - intros i Hi. pattern i. apply in_R4; [| | |exact Hi]; vm_compute; auto.
  - intros j Hj. simpl in Hj. do 4 (destruct j as [|j]; [vm_compute; split; [reflexivity | lia]|]). lia.
  - left. split; [reflexivity|]. exists pp1. split; [rewrite (proj2 r1_reachable); left; reflexivity | split; reflexivity].
  - apply (gexec_sound 4 64 ld4 R4 sched1). exact (proj1 gn1_run).
  - apply delivered_all_b_sound. vm_compute. reflexivity.
  - apply fifo_ok_coarse. intros i Hi. pattern i. apply in_R4; [| | |exact Hi]; vm_compute; lia.
Qed.

(* round 2 after a timeout of everybody (the round-1 leader never got its input); leader of round 2 = 2 *)
Definition sched_r2 : list (nat * event * oracle) :=
  [(0, EStart, o0); (1, EStart, o0); (2, EStart, o0); (2, EInput 9, o0);
   (0, ETimeout, o0); (1, ETimeout, o0); (2, ETimeout, o0)].
Definition tr_r2 : list (nat * label) := build c4 (fun _ => init) sched_r2.
Definition nt_r2 : net := match crun c4 net_init [] tr_r2 with Some nt => nt | None => net_init end.

Example r2_reachable : crun c4 net_init [] tr_r2 = Some nt_r2 /\ sentm tr_r2 = [rc2 0; rc2 1; rc2 2].
Proof. vm_compute. split; reflexivity. Qed.

Definition gn2_end : gcfg :=
  match gexec 4 64 ld4 R4 (g_of nt_r2 tr_r2) sched2 with Some g => g | None => g_of nt_r2 tr_r2 end.

Example gn2_run : gexec 4 64 ld4 R4 (g_of nt_r2 tr_r2) sched2 = Some gn2_end
  /\ gdecs gn2_end = [(0, 9%N, 2); (1, 9%N, 2); (2, 9%N, 2)].
Proof. vm_compute. split; reflexivity. Qed.

Example from_net_applies_round2 :
  exists v, (forall i, In i R4 -> exists k, In (i, v, k) (gdecs gn2_end))
            /\ (forall i x k, In (i, x, k) (gdecs gn2_end) -> x = v /\ k = 2).
Proof.
  apply (good_round_decides_from_net c4 nt_r2 tr_r2 R4 2 gn2_end c4_wf c4_allhon).
  - apply crun_sound. exact (proj1 r2_reachable).
  - repeat constructor; simpl; intuition discriminate.
  - vm_compute. lia.
  - intros i Hi. pattern i. apply in_R4; [| | |exact Hi]; simpl; lia.
  - vm_compute. auto.
  - intros i Hi. pattern i. apply in_R4; [| | |exact Hi]; vm_compute; auto.
  - intros j Hj. simpl in Hj. do 4 (destruct j as [|j]; [vm_compute; split; [reflexivity | lia]|]). lia.
  - right. split; [vm_compute; discriminate|]. rewrite (proj2 r2_reachable).
    intros i Hi. pattern i. apply in_R4; [| | |exact Hi].
    + exists (rc2 0). simpl. auto.
    + exists (rc2 1). simpl. auto.
    + exists (rc2 2). simpl. auto 6.
  - apply (gexec_sound 4 64 ld4 R4 sched2). exact (proj1 gn2_run).
  - apply delivered_all_b_sound. vm_compute. reflexivity.
  - apply fifo_ok_coarse. intros i Hi. pattern i. apply in_R4; [| | |exact Hi]; vm_compute; lia.
Qed.

(* ------------------------------------------------------------------------------------------ *)
(* Residual assumption 1 (members outside R are not beyond round r) does not follow from          *)
(* reachability: member 3 starts, times out alone (ROUND-CHANGE(2)) and stops; 0..2 are in round  *)
(* 1 with the leader's PRE-PREPARE broadcast.  Crash-only reachable, every other premise of       *)
(* good_round_decides_from_net holds, but the pool holds a message of round 2: pool_ok fails.     *)

Definition sched_ahead : list (nat * event * oracle) :=
  [(3, EStart, o0); (3, ETimeout, o0); (0, EStart, o0); (1, EStart, o0); (2, EStart, o0); (1, EInput 7, o0)].
Definition tr_ahead : list (nat * label) := build c4 (fun _ => init) sched_ahead.
Definition nt_ahead : net := match crun c4 net_init [] tr_ahead with Some nt => nt | None => net_init end.

Example outsider_ahead_breaks_pool_ok :
  creach c4 nt_ahead tr_ahead
  /\ (forall i, In i R4 -> round (nst nt_ahead i) = 1 /\ started (nst nt_ahead i) = true /\ dead (nst nt_ahead i) = false)
  /\ (forall j, j < 4 -> decided (nst nt_ahead j) = false)
  /\ In pp1 (sentm tr_ahead)
  /\ round (nst nt_ahead 3) = 2
  /\ ~ pool_ok ld4 1 (sentm tr_ahead).
Proof.
  split; [apply crun_sound; vm_compute; reflexivity|].
  split; [intros i Hi; pattern i; apply in_R4; [| | |exact Hi]; vm_compute; auto|].
  split; [intros j Hj; do 4 (destruct j as [|j]; [vm_compute; reflexivity|]); lia|].
  split; [vm_compute; auto|]. split; [vm_compute; reflexivity|].
  intros [H _ _ _]. specialize (H (mkm (mk RoundChange 3 2 0 0 0) [])). simpl in H.
  assert (2 <= 1); [apply H; vm_compute; auto | lia].
Qed.

(* ------------------------------------------------------------------------------------------ *)
(* Residual assumption 2 (messages are delivered with the justification they were sent with):     *)
(* Net.v lets the network re-assemble justifications out of honest parts.  Here every member is   *)
(* honest, the execution is in [nreach] without Compare failures, but the round-2 leader receives  *)
(* a PREPARE(1) of member 0 "justified" by member 0's ROUND-CHANGE(2): the leader's buffer then    *)
(* quotes a ROUND-CHANGE(2) without its own justification -- [buf_fresh] fails; [crun] (crash-only *)
(* delivery) refuses the trace.                                                                   *)

Definition forged : msg := mkm (mk Prepare 0 1 7 0 0) [mk RoundChange 0 2 0 0 0].

Definition sched_cross : list (nat * event * oracle) :=
  [(0, EStart, o0); (1, EStart, o0); (2, EStart, o0); (2, EInput 9, o0); (1, EInput 7, o0);
   (0, ERecv pp1 CmpOk, mko JustPrePrepare [] 0);
   (0, ETimeout, o0); (1, ETimeout, o0); (2, ETimeout, o0);
   (2, ERecv forged CmpOk, o0)].
Definition tr_cross : list (nat * label) := build c4 (fun _ => init) sched_cross.
Definition nt_cross : net := match nrun c4 net_init tr_cross with Some nt => nt | None => net_init end.

Example cross_assembly_breaks_buf_fresh :
  nreach c4 nt_cross tr_cross /\ trace_nofail tr_cross
  /\ length tr_cross = 10
  /\ round (nst nt_cross 2) = 2 /\ is_dup (nst nt_cross 2) QRC 2 = false
  /\ ~ buf_fresh 4 64 ld4 2 (sentm tr_cross) (nst nt_cross 2)
  /\ crun c4 net_init [] tr_cross = None.
Proof.
  split; [apply nrun_sound; vm_compute; reflexivity|].
  split; [intros i l Hin; vm_compute in Hin; repeat (destruct Hin as [Hin|Hin]; [inversion Hin; reflexivity|]); destruct Hin|].
  split; [vm_compute; reflexivity|]. split; [vm_compute; reflexivity|]. split; [vm_compute; reflexivity|].
  split; [|vm_compute; reflexivity].
  intros [_ H _]. specialize (H forged (mk RoundChange 0 2 0 0 0)).
  assert (f_rc 2 (mk RoundChange 0 2 0 0 0) = false); [apply H; vm_compute; auto | discriminate].
Qed.
