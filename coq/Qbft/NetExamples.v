(* Non-vacuity for the network semantics: a global execution recorded from four real core/qbft.Run processes
   (harness/qbft, cluster-timely: one member crashed, a round change, then decisions) is a trace of Qbft/Net.v
   ([nrun] accepts it with every member honest), Compare never fails in it, and several members decide. *)
From Coq Require Import List NArith Arith Bool.
From Charon Require Import Common.Quorum Qbft.Model Qbft.Monitor Qbft.Net.
Import ListNotations.

Definition exnet_cfg : cfg := mkcfg 4 100 (lead_rr 2 4) (fun _ => true).
Definition exnet_trace : list (nat * label) := [
  (0, LStart [NewTimer 1]);
  (0, LInput 10%N []);
  (2, LStart [NewTimer 1]);
  (2, LInput 12%N []);
  (1, LStart [NewTimer 1]);
  (1, LInput 11%N []);
  (2, LTimeout [RoundChg 1 2 RoundTimeout; StopTimer; NewTimer 2; Bcast (mk RoundChange 2 2 0 0 0) []]);
  (1, LTimeout [RoundChg 1 2 RoundTimeout; StopTimer; NewTimer 2; Bcast (mk RoundChange 1 2 0 0 0) []]);
  (0, LTimeout [RoundChg 1 2 RoundTimeout; StopTimer; NewTimer 2; Bcast (mk RoundChange 0 2 0 0 0) []]);
  (1, LRecv (mkm (mk RoundChange 0 2 0 0 0) []) CmpOk []);
  (1, LRecv (mkm (mk RoundChange 1 2 0 0 0) []) CmpOk []);
  (0, LRecv (mkm (mk RoundChange 2 2 0 0 0) []) CmpOk []);
  (2, LRecv (mkm (mk RoundChange 1 2 0 0 0) []) CmpOk []);
  (2, LRecv (mkm (mk RoundChange 2 2 0 0 0) []) CmpOk []);
  (1, LRecv (mkm (mk RoundChange 2 2 0 0 0) []) CmpOk []);
  (0, LRecv (mkm (mk RoundChange 1 2 0 0 0) []) CmpOk []);
  (0, LRecv (mkm (mk RoundChange 0 2 0 0 0) []) CmpOk [Upon QRC; Bcast (mk PrePrepare 0 2 10 0 0) [(mk RoundChange 1 2 0 0 0); (mk RoundChange 0 2 0 0 0); (mk RoundChange 2 2 0 0 0)]]);
  (2, LRecv (mkm (mk RoundChange 0 2 0 0 0) []) CmpOk []);
  (2, LRecv (mkm (mk PrePrepare 0 2 10 0 0) [(mk RoundChange 1 2 0 0 0); (mk RoundChange 0 2 0 0 0); (mk RoundChange 2 2 0 0 0)]) CmpOk [Upon JustPrePrepare; StopTimer; NewTimer 2; Bcast (mk Prepare 2 2 10 0 0) []]);
  (0, LRecv (mkm (mk PrePrepare 0 2 10 0 0) [(mk RoundChange 1 2 0 0 0); (mk RoundChange 0 2 0 0 0); (mk RoundChange 2 2 0 0 0)]) CmpOk [Upon JustPrePrepare; StopTimer; NewTimer 2; Bcast (mk Prepare 0 2 10 0 0) []]);
  (1, LRecv (mkm (mk Prepare 0 2 10 0 0) []) CmpOk []);
  (0, LRecv (mkm (mk Prepare 0 2 10 0 0) []) CmpOk []);
  (1, LRecv (mkm (mk PrePrepare 0 2 10 0 0) [(mk RoundChange 1 2 0 0 0); (mk RoundChange 0 2 0 0 0); (mk RoundChange 2 2 0 0 0)]) CmpOk [Upon JustPrePrepare; StopTimer; NewTimer 2; Bcast (mk Prepare 1 2 10 0 0) []]);
  (0, LRecv (mkm (mk Prepare 1 2 10 0 0) []) CmpOk []);
  (1, LRecv (mkm (mk Prepare 1 2 10 0 0) []) CmpOk []);
  (2, LRecv (mkm (mk Prepare 0 2 10 0 0) []) CmpOk []);
  (1, LRecv (mkm (mk Prepare 2 2 10 0 0) []) CmpOk [Upon QPrepares; Bcast (mk Commit 1 2 10 0 0) []]);
  (2, LRecv (mkm (mk Commit 1 2 10 0 0) []) CmpOk []);
  (2, LRecv (mkm (mk Prepare 1 2 10 0 0) []) CmpOk []);
  (1, LRecv (mkm (mk Commit 1 2 10 0 0) []) CmpOk []);
  (2, LRecv (mkm (mk Prepare 2 2 10 0 0) []) CmpOk [Upon QPrepares; Bcast (mk Commit 2 2 10 0 0) []]);
  (0, LRecv (mkm (mk Commit 2 2 10 0 0) []) CmpOk []);
  (1, LRecv (mkm (mk Commit 2 2 10 0 0) []) CmpOk []);
  (2, LRecv (mkm (mk Commit 2 2 10 0 0) []) CmpOk []);
  (0, LRecv (mkm (mk Prepare 2 2 10 0 0) []) CmpOk [Upon QPrepares; Bcast (mk Commit 0 2 10 0 0) []]);
  (0, LRecv (mkm (mk Commit 0 2 10 0 0) []) CmpOk []);
  (1, LRecv (mkm (mk Commit 0 2 10 0 0) []) CmpOk [Upon QCommits; StopTimer; Decide 10%N 2 [(mk Commit 0 2 10 0 0); (mk Commit 1 2 10 0 0); (mk Commit 2 2 10 0 0)]]);
  (0, LRecv (mkm (mk Commit 1 2 10 0 0) []) CmpOk [Upon QCommits; StopTimer; Decide 10%N 2 [(mk Commit 2 2 10 0 0); (mk Commit 1 2 10 0 0); (mk Commit 0 2 10 0 0)]]);
  (2, LRecv (mkm (mk Commit 0 2 10 0 0) []) CmpOk [Upon QCommits; StopTimer; Decide 10%N 2 [(mk Commit 1 2 10 0 0); (mk Commit 2 2 10 0 0); (mk Commit 0 2 10 0 0)]]) ].

Definition nrun_ok (c : cfg) (tr : list (nat * label)) : bool := match nrun c net_init tr with Some _ => true | None => false end.

Example exnet_accepted : nrun_ok exnet_cfg exnet_trace = true.
Proof. vm_compute. reflexivity. Qed.
Example exnet_nofail : forallb (fun e => label_nofail (snd e)) exnet_trace = true.
Proof. vm_compute. reflexivity. Qed.
Example exnet_decides : map (fun d => fst d) (trace_decides exnet_trace) = [(1, 10%N); (0, 10%N); (2, 10%N)].
Proof. vm_compute. reflexivity. Qed.
