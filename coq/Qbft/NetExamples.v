(* Non-vacuity for the network semantics: a global execution recorded from four real core/qbft.Run processes
   (harness/qbft, cluster-timely: one member crashed, a round change, then decisions) is a trace of Qbft/Net.v
   ([nrun] accepts it with every member honest), Compare never fails in it, and several members decide. *)
From Coq Require Import List NArith Arith Bool.
From Charon Require Import Common.Quorum Qbft.Model Qbft.Monitor Qbft.Net.
Import ListNotations.

Definition exnet_cfg : cfg := mkcfg 4 100 (lead_rr 2 4) (fun _ => true).
Definition exnet_trace : list (nat * label) := [
  (0, LStart [NewTimer 1]);
  (0, LInput 10%N []);
  (2, LStart [NewTimer 1]);
  (2, LInput 12%N []);
  (1, LStart [NewTimer 1]);
  (1, LInput 11%N []);
  (2, LTimeout [RoundChg 1 2 RoundTimeout; StopTimer; NewTimer 2; Bcast (mk RoundChange 2 2 0 0 0) []]);
  (1, LTimeout [RoundChg 1 2 RoundTimeout; StopTimer; NewTimer 2; Bcast (mk RoundChange 1 2 0 0 0) []]);
  (0, LTimeout [RoundChg 1 2 RoundTimeout; StopTimer; NewTimer 2; Bcast (mk RoundChange 0 2 0 0 0) []]);
  (1, LRecv (mkm (mk RoundChange 0 2 0 0 0) []) CmpOk []);
  (1, LRecv (mkm (mk RoundChange 1 2 0 0 0) []) CmpOk []);
  (0, LRecv (mkm (mk RoundChange 2 2 0 0 0) []) CmpOk []);
  (2, LRecv (mkm (mk RoundChange 1 2 0 0 0) []) CmpOk []);
  (2, LRecv (mkm (mk RoundChange 2 2 0 0 0) []) CmpOk []);
  (1, LRecv (mkm (mk RoundChange 2 2 0 0 0) []) CmpOk []);
  (0, LRecv (mkm (mk RoundChange 1 2 0 0 0) []) CmpOk []);
  (0, LRecv (mkm (mk RoundChange 0 2 0 0 0) []) CmpOk [Upon QRC; Bcast (mk PrePrepare 0 2 10 0 0) [(mk RoundChange 1 2 0 0 0); (mk RoundChange 0 2 0 0 0); (mk RoundChange 2 2 0 0 0)]]);
  (2, LRecv (mkm (mk RoundChange 0 2 0 0 0) []) CmpOk []);
  (2, LRecv (mkm (mk PrePrepare 0 2 10 0 0) [(mk RoundChange 1 2 0 0 0); (mk RoundChange 0 2 0 0 0); (mk RoundChange 2 2 0 0 0)]) CmpOk [Upon JustPrePrepare; StopTimer; NewTimer 2; Bcast (mk Prepare 2 2 10 0 0) []]);
  (0, LRecv (mkm (mk PrePrepare 0 2 10 0 0) [(mk RoundChange 1 2 0 0 0); (mk RoundChange 0 2 0 0 0); (mk RoundChange 2 2 0 0 0)]) CmpOk [Upon JustPrePrepare; StopTimer; NewTimer 2; Bcast (mk Prepare 0 2 10 0 0) []]);
  (1, LRecv (mkm (mk Prepare 0 2 10 0 0) []) CmpOk []);
  (0, LRecv (mkm (mk Prepare 0 2 10 0 0) []) CmpOk []);
  (1, LRecv (mkm (mk PrePrepare 0 2 10 0 0) [(mk RoundChange 1 2 0 0 0); (mk RoundChange 0 2 0 0 0); (mk RoundChange 2 2 0 0 0)]) CmpOk [Upon JustPrePrepare; StopTimer; NewTimer 2; Bcast (mk Prepare 1 2 10 0 0) []]);
  (0, LRecv (mkm (mk Prepare 1 2 10 0 0) []) CmpOk []);
  (1, LRecv (mkm (mk Prepare 1 2 10 0 0) []) CmpOk []);
  (2, LRecv (mkm (mk Prepare 0 2 10 0 0) []) CmpOk []);
  (1, LRecv (mkm (mk Prepare 2 2 10 0 0) []) CmpOk [Upon QPrepares; Bcast (mk Commit 1 2 10 0 0) []]);
  (2, LRecv (mkm (mk Commit 1 2 10 0 0) []) CmpOk []);
  (2, LRecv (mkm (mk Prepare 1 2 10 0 0) []) CmpOk []);
  (1, LRecv (mkm (mk Commit 1 2 10 0 0) []) CmpOk []);
  (2, LRecv (mkm (mk Prepare 2 2 10 0 0) []) CmpOk [Upon QPrepares; Bcast (mk Commit 2 2 10 0 0) []]);
  (0, LRecv (mkm (mk Commit 2 2 10 0 0) []) CmpOk []);
  (1, LRecv (mkm (mk Commit 2 2 10 0 0) []) CmpOk []);
  (2, LRecv (mkm (mk Commit 2 2 10 0 0) []) CmpOk []);
  (0, LRecv (mkm (mk Prepare 2 2 10 0 0) []) CmpOk [Upon QPrepares; Bcast (mk Commit 0 2 10 0 0) []]);
  (0, LRecv (mkm (mk Commit 0 2 10 0 0) []) CmpOk []);
  (1, LRecv (mkm (mk Commit 0 2 10 0 0) []) CmpOk [Upon QCommits; StopTimer; Decide 10%N 2 [(mk Commit 0 2 10 0 0); (mk Commit 1 2 10 0 0); (mk Commit 2 2 10 0 0)]]);
  (0, LRecv (mkm (mk Commit 1 2 10 0 0) []) CmpOk [Upon QCommits; StopTimer; Decide 10%N 2 [(mk Commit 2 2 10 0 0); (mk Commit 1 2 10 0 0); (mk Commit 0 2 10 0 0)]]);
  (2, LRecv (mkm (mk Commit 0 2 10 0 0) []) CmpOk [Upon QCommits; StopTimer; Decide 10%N 2 [(mk Commit 1 2 10 0 0); (mk Commit 2 2 10 0 0); (mk Commit 0 2 10 0 0)]]) ].

Definition nrun_ok (c : cfg) (tr : list (nat * label)) : bool := match nrun c net_init tr with Some _ => true | None => false end.

Example exnet_accepted : nrun_ok exnet_cfg exnet_trace = true.
Proof. vm_compute. reflexivity. Qed.
Example exnet_nofail : forallb (fun e => label_nofail (snd e)) exnet_trace = true.
Proof. vm_compute. reflexivity. Qed.
Example exnet_decides : map (fun d => fst d) (trace_decides exnet_trace) = [(1, 10%N); (0, 10%N); (2, 10%N)].
Proof. vm_compute. reflexivity. Qed.

(* The documented NEGATIVE result of C02, recorded from the real core/qbft.Run (harness/qbft TestRefute): n = 4, member 2
   Byzantine (leader of round 3), honest members 0 (leader of round 1), 1 (leader of round 2), 3.  Definition.Compare
   answers CmpOk to member 1 for value 7 in round 1 and CmpFail for the same value 7 in round 2 -- not a function of
   (process, value).  Through the compareFailureRound+1 shortcut of isJustifiedPrePrepare the Byzantine leader of round 3
   gets its unjustified PRE-PREPARE(3, 8) accepted: member 0 decides 7 in round 1, member 1 decides 8 in round 3. *)
Definition exref_cfg : cfg := mkcfg 4 100 (lead_rr 3 4) (fun i => negb (i =? 2)).
Definition exref_trace : list (nat * label) := [
  (0, LStart [NewTimer 1]);
  (1, LStart [NewTimer 1]);
  (3, LStart [NewTimer 1]);
  (0, LInput 7%N [Bcast (mk PrePrepare 0 1 7 0 0) []]);
  (1, LInput 8%N []);
  (3, LInput 8%N []);
  (0, LRecv (mkm (mk PrePrepare 0 1 7 0 0) []) CmpOk [Upon JustPrePrepare; StopTimer; NewTimer 1; Bcast (mk Prepare 0 1 7 0 0) []]);
  (1, LRecv (mkm (mk PrePrepare 0 1 7 0 0) []) CmpOk [Upon JustPrePrepare; StopTimer; NewTimer 1; Bcast (mk Prepare 1 1 7 0 0) []]);
  (3, LRecv (mkm (mk PrePrepare 0 1 7 0 0) []) CmpFail [Upon JustPrePrepare; StopTimer; NewTimer 1]);
  (0, LRecv (mkm (mk Prepare 0 1 7 0 0) []) CmpOk []);
  (0, LRecv (mkm (mk Prepare 1 1 7 0 0) []) CmpOk []);
  (1, LRecv (mkm (mk Prepare 0 1 7 0 0) []) CmpOk []);
  (1, LRecv (mkm (mk Prepare 1 1 7 0 0) []) CmpOk []);
  (0, LRecv (mkm (mk Prepare 2 1 7 0 0) []) CmpOk [Upon QPrepares; Bcast (mk Commit 0 1 7 0 0) []]);
  (1, LRecv (mkm (mk Prepare 2 1 7 0 0) []) CmpOk [Upon QPrepares; Bcast (mk Commit 1 1 7 0 0) []]);
  (0, LRecv (mkm (mk Commit 0 1 7 0 0) []) CmpOk []);
  (0, LRecv (mkm (mk Commit 1 1 7 0 0) []) CmpOk []);
  (0, LRecv (mkm (mk Commit 2 1 7 0 0) []) CmpOk [Upon QCommits; StopTimer; Decide 7%N 1 [(mk Commit 0 1 7 0 0); (mk Commit 1 1 7 0 0); (mk Commit 2 1 7 0 0)]]);
  (1, LRecv (mkm (mk Commit 0 1 7 0 0) []) CmpOk []);
  (1, LRecv (mkm (mk Commit 1 1 7 0 0) []) CmpOk []);
  (1, LTimeout [RoundChg 1 2 RoundTimeout; StopTimer; NewTimer 2; Bcast (mk RoundChange 1 2 0 1 7) [(mk Prepare 0 1 7 0 0); (mk Prepare 1 1 7 0 0); (mk Prepare 2 1 7 0 0)]]);
  (3, LTimeout [RoundChg 1 2 RoundTimeout; StopTimer; NewTimer 2; Bcast (mk RoundChange 3 2 0 0 0) []]);
  (1, LRecv (mkm (mk RoundChange 1 2 0 1 7) [(mk Prepare 0 1 7 0 0); (mk Prepare 1 1 7 0 0); (mk Prepare 2 1 7 0 0)]) CmpOk []);
  (1, LRecv (mkm (mk RoundChange 3 2 0 0 0) []) CmpOk []);
  (1, LRecv (mkm (mk RoundChange 2 2 0 0 0) []) CmpOk [Upon QRC; Bcast (mk PrePrepare 1 2 7 0 0) [(mk RoundChange 1 2 0 1 7); (mk RoundChange 2 2 0 0 0); (mk RoundChange 3 2 0 0 0); (mk Prepare 0 1 7 0 0); (mk Prepare 1 1 7 0 0); (mk Prepare 2 1 7 0 0)]]);
  (1, LRecv (mkm (mk PrePrepare 1 2 7 0 0) [(mk RoundChange 1 2 0 1 7); (mk RoundChange 2 2 0 0 0); (mk RoundChange 3 2 0 0 0); (mk Prepare 0 1 7 0 0); (mk Prepare 1 1 7 0 0); (mk Prepare 2 1 7 0 0)]) CmpFail [Upon JustPrePrepare; StopTimer; NewTimer 2]);
  (3, LRecv (mkm (mk PrePrepare 1 2 7 0 0) [(mk RoundChange 1 2 0 1 7); (mk RoundChange 2 2 0 0 0); (mk RoundChange 3 2 0 0 0); (mk Prepare 0 1 7 0 0); (mk Prepare 1 1 7 0 0); (mk Prepare 2 1 7 0 0)]) CmpFail [Upon JustPrePrepare; StopTimer; NewTimer 2]);
  (1, LRecv (mkm (mk PrePrepare 2 3 8 0 0) []) CmpOk [Upon JustPrePrepare; RoundChg 2 3 JustPrePrepare; StopTimer; NewTimer 3; Bcast (mk Prepare 1 3 8 0 0) []]);
  (3, LRecv (mkm (mk PrePrepare 2 3 8 0 0) []) CmpOk [Upon JustPrePrepare; RoundChg 2 3 JustPrePrepare; StopTimer; NewTimer 3; Bcast (mk Prepare 3 3 8 0 0) []]);
  (1, LRecv (mkm (mk Prepare 1 3 8 0 0) []) CmpOk []);
  (1, LRecv (mkm (mk Prepare 3 3 8 0 0) []) CmpOk []);
  (3, LRecv (mkm (mk Prepare 1 3 8 0 0) []) CmpOk []);
  (3, LRecv (mkm (mk Prepare 3 3 8 0 0) []) CmpOk []);
  (1, LRecv (mkm (mk Prepare 2 3 8 0 0) []) CmpOk [Upon QPrepares; Bcast (mk Commit 1 3 8 0 0) []]);
  (3, LRecv (mkm (mk Prepare 2 3 8 0 0) []) CmpOk [Upon QPrepares; Bcast (mk Commit 3 3 8 0 0) []]);
  (1, LRecv (mkm (mk Commit 1 3 8 0 0) []) CmpOk []);
  (1, LRecv (mkm (mk Commit 3 3 8 0 0) []) CmpOk []);
  (1, LRecv (mkm (mk Commit 2 3 8 0 0) []) CmpOk [Upon QCommits; StopTimer; Decide 8%N 3 [(mk Commit 1 3 8 0 0); (mk Commit 2 3 8 0 0); (mk Commit 3 3 8 0 0)]]) ].

Example exref_wf : Card.byz_count 4 (c_honest exref_cfg) = 1 /\ faulty 4 = 1.
Proof. vm_compute. split; reflexivity. Qed.
Example exref_accepted : nrun_ok exref_cfg exref_trace = true.
Proof. vm_compute. reflexivity. Qed.
Example exref_decides : trace_decides exref_trace = [(0, 7%N, 1); (1, 8%N, 3)].
Proof. vm_compute. reflexivity. Qed.
(* the only compare failures: member 3 on value 7 (twice) and member 1 on value 7, which it had accepted before *)
Example exref_fails : flat_map (fun e => match snd e with LRecv m CmpFail _ => [(fst e, rnd (main m), val (main m))] | _ => [] end) exref_trace
                      = [(3, 1, 7%N); (1, 2, 7%N); (3, 2, 7%N)].
Proof. vm_compute. reflexivity. Qed.
