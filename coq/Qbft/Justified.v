(* C04, safety half, single-process part: what the model broadcasts is accepted by the model's own
   isJustified checks.
     - every ROUND-CHANGE broadcast satisfies isJustifiedRoundChange (any receiver with the same node count);
     - every DECIDED re-broadcast satisfies isJustifiedDecided;
     - every justification getJustifiedQrc may return (for every map order: [adm_qrc]) satisfies
       containsJustifiedQrc, the check made by the receiver of the PRE-PREPARE that carries it;
     - every PRE-PREPARE broadcast comes from the leader of its round and carries either nothing (round 1)
       or such a justification.
   The network-level statement (honest_never_unjust) is built on these in stage 2. *)
From Coq Require Import List NArith Arith Bool Lia.
From Charon Require Import Common.Quorum Qbft.Model Qbft.Monitor Qbft.ModelFacts.
Import ListNotations.
Set Warnings "-unused-intro-pattern".


Definition same_nodes (p p' : params) : Prop := nodes p' = nodes p.

Lemma prep_pick_justified : forall p p' s J x r,
  same_nodes p p' -> 1 <= nodes p ->
  (prepJ s = [] /\ prepR s = 0 /\ prepV s = 0%N \/ qn p <= nsrc (f_prep s) (prepJ s)) ->
  prep_pick_ok s J = true ->
  justified_roundchange p' (mkm (mk RoundChange x r 0 (prepR s) (prepV s)) J) = true.
Proof.
  intros p p' s J x r Hsame Hn Hi Hp.
  pose proof (quorum_pos (nodes p) Hn) as Hq. fold (qn p) in Hq.
  assert (Eq : qn p' = qn p) by (unfold qn; rewrite Hsame; reflexivity).
  unfold prep_pick_ok in Hp. unfold justified_roundchange. cbn [just main pr pv].
  destruct Hi as [[H1 [H2 H3]]|Hi].
  - rewrite H1 in Hp. apply pick_ok_nil in Hp. subst J. rewrite H2, H3. reflexivity.
  - pose proof (pick_ok_spec _ _ _ Hp) as [Hnd [Hf [_ Hlen]]].
    unfold f_prep in Hi. rewrite <- Hlen in Hi.
    destruct J as [|b0 J']; [simpl in Hi; lia|].
    rewrite Eq. apply andb_true_iff. split; [apply andb_true_iff; split|].
    + apply Nat.leb_le. exact Hi.
    + exact Hnd.
    + exact Hf.
Qed.

(* One step: every ROUND-CHANGE and DECIDED broadcast is justified for every receiver. *)
Lemma fstep_bcast_justified : forall p s e o s' outs, 1 <= nodes p -> inv p s ->
  fstep p s e o = Some (s', outs) ->
  forall b J, In (Bcast b J) outs ->
  forall p' c, same_nodes p p' ->
    (ty b = RoundChange \/ ty b = Decided) -> justified p' (mkm b J) c = true.
Proof.
  intros p s e o s' outs Hn Hi H b J Hin p' c Hsame Hty.
  destruct Hi as [I1 I2 I3 I4 I5 I6 I7].
  assert (Eq : qn p' = qn p) by (unfold qn; rewrite Hsame; reflexivity).
  destruct e; crush_fstep H; simpl in Hin.
  all: repeat (destruct Hin as [Hin|Hin]; [try discriminate Hin|]); try contradiction.
  all: try (apply in_app_or in Hin; destruct Hin as [Hin|Hin]; simpl in Hin).
  all: repeat (destruct Hin as [Hin|Hin]; [try discriminate Hin|]); try contradiction.
  all: try (inversion Hin; subst b J; clear Hin; simpl in Hty; destruct Hty as [Hty|Hty]; try discriminate Hty).
  all: unfold justified; simpl.
  all: try (eapply prep_pick_justified; try eassumption; st; try assumption).
  all: try (unfold justified_decided; simpl; rewrite Eq; apply Nat.leb_le; apply I3; reflexivity).
  all: try (match goal with E : _ && prep_pick_ok _ _ = true |- _ => apply andb_true_iff in E; destruct E as [_ E] end).
  all: unfold prep_pick_ok in *; st; try assumption.
Qed.

(* filterMsgs-style helpers on lists whose elements are known to (not) satisfy the filter *)
Lemma forallb_impl : forall {A} (f g : A -> bool) l, (forall x, f x = true -> g x = true) -> forallb f l = true -> forallb g l = true.
Proof.
  intros A f g l H Hf. apply forallb_forall. intros x Hx. apply H. rewrite forallb_forall in Hf. auto.
Qed.

Lemma filter_filter_same : forall {A} (f : A -> bool) l, forallb f (filter f l) = true.
Proof. intros A f l. apply forallb_forall. intros x Hx. apply filter_In in Hx. tauto. Qed.

Lemma is_ty_excl : forall t t' b, is_ty t b = true -> t <> t' -> is_ty t' b = false.
Proof.
  intros t t' b H Hne. unfold is_ty in *. apply mtype_eqb_eq in H.
  destruct (mtype_eqb (ty b) t') eqn:E; [apply mtype_eqb_eq in E; congruence | reflexivity].
Qed.

(* getJustifiedQrc => containsJustifiedQrc, for every map order: whatever justification the leader's
   getJustifiedQrc may return, the receiver's containsJustifiedQrc accepts it. *)
Lemma adm_qrc_contains : forall p all r J, 1 <= qn p -> adm_qrc p all r J = true ->
  exists x, contains_jqrc (qn p) J r = Some x
            /\ (x = 0%N \/ exists spr, single (qn p) J = (spr, x, true)).
Proof.
  intros p all r J Hq H. unfold adm_qrc in H.
  destruct (nullQ p all r) eqn:Enull.
  - (* J1: quorum of null round changes *)
    pose proof (pick_ok_spec _ _ _ H) as [Hnd [Hf [_ Hlen]]].
    unfold nullQ in Enull. apply Nat.leb_le in Enull. rewrite <- Hlen in Enull.
    exists 0%N. split; [|left; reflexivity]. unfold contains_jqrc.
    assert (Hrc : forallb (f_rc r) J = true).
    { eapply forallb_impl; [|exact Hf]. intros x Hx. unfold f_rc_null in Hx. rewrite !andb_true_iff in Hx. tauto. }
    rewrite (filter_all _ _ Hrc).
    rewrite uniq_first_nodup; [|apply nodupn_NoDup; exact Hnd | intros; tauto].
    destruct (length J <? qn p) eqn:El; [apply Nat.ltb_lt in El; lia|].
    assert (Hz : forallb (fun b => (pr b =? 0) && N.eqb (pv b) 0) J = true).
    { eapply forallb_impl; [|exact Hf]. intros x Hx. unfold f_rc_null in Hx. rewrite !andb_true_iff in Hx.
      apply andb_true_iff. tauto. }
    rewrite Hz. reflexivity.
  - (* J2 *)
    set (Jrc := filter (is_ty RoundChange) J) in *. set (Jp := filter (is_ty Prepare) J) in *.
    apply andb_true_iff in H. destruct H as [HJ H]. apply list_beq_eq in HJ.
    destruct Jp as [|p0 Jp'] eqn:EJp; [discriminate|].
    rewrite !andb_true_iff in H. destruct H as [[[[[[Hpick Hqp] Hnd] Hall] Hqrc] Hex] _].
    pose proof (pick_ok_spec _ _ _ Hpick) as [Hndp [Hfp [_ _]]].
    apply Nat.leb_le in Hqp. apply Nat.leb_le in Hqrc.
    assert (HrcJrc : forallb (f_rc r) Jrc = true).
    { eapply forallb_impl; [|exact Hall]. intros x Hx. rewrite !andb_true_iff in Hx. tauto. }
    assert (HprJrc : forallb (fun b => pr b <=? rnd p0) Jrc = true).
    { eapply forallb_impl; [|exact Hall]. intros x Hx. rewrite !andb_true_iff in Hx. tauto. }
    assert (HtyJp : forallb (is_ty Prepare) (p0 :: Jp') = true) by (rewrite <- EJp; apply filter_filter_same).
    assert (HtyJrc : forallb (is_ty RoundChange) Jrc = true) by apply filter_filter_same.
    assert (F1 : filter (f_rc r) J = Jrc).
    { rewrite HJ at 1. rewrite filter_app, (filter_all _ _ HrcJrc), filter_none, app_nil_r; [reflexivity|].
      eapply forallb_impl; [|exact HtyJp]. intros x Hx. unfold f_rc. rewrite (is_ty_excl Prepare RoundChange x Hx); [reflexivity | discriminate]. }
    assert (F2 : filter (is_ty Prepare) J = p0 :: Jp') by exact EJp.
    exists (if forallb (fun b => (pr b =? 0) && N.eqb (pv b) 0) Jrc then 0%N else val p0).
    unfold contains_jqrc. rewrite F1.
    rewrite uniq_first_nodup; [|apply nodupn_NoDup; exact Hnd | intros; tauto].
    destruct (length Jrc <? qn p) eqn:El; [apply Nat.ltb_lt in El; lia|].
    assert (Hs : single (qn p) J = (rnd p0, val p0, true)).
    { unfold single. rewrite F2. rewrite Hndp.
      assert (Hsame : forallb (fun b => (rnd b =? rnd p0) && N.eqb (val b) (val p0)) (p0 :: Jp') = true).
      { eapply forallb_impl; [|exact Hfp]. intros x Hx. unfold f_trv in Hx. rewrite !andb_true_iff in Hx.
        apply andb_true_iff. tauto. }
      rewrite Hsame. simpl andb. cbv iota. assert (Hl : (qn p <=? length (p0 :: Jp')) = true) by (apply Nat.leb_le; exact Hqp).
      rewrite Hl. reflexivity. }
    destruct (forallb (fun b => (pr b =? 0) && N.eqb (pv b) 0) Jrc) eqn:Ez.
    + split; [reflexivity | left; reflexivity].
    + rewrite Hs. rewrite HprJrc, Hex. simpl. split; [reflexivity | right; eexists; reflexivity].
Qed.


(* Every PRE-PREPARE the process broadcasts is sent by the leader of its (current) round and carries
   either the empty justification in round 1 or a justification containsJustifiedQrc accepts. *)
Lemma fstep_preprepare_shape : forall p s e o s' outs, 1 <= nodes p -> inv p s ->
  fstep p s e o = Some (s', outs) ->
  forall b J, In (Bcast b J) outs -> ty b = PrePrepare ->
  src b = self p /\ rnd b = round s /\ is_leader p (rnd b) (self p) = true
  /\ ((rnd b = 1 /\ J = []) \/ exists x, contains_jqrc (qn p) J (rnd b) = Some x).
Proof.
  intros p s e o s' outs Hn Hi H b J Hin Hty.
  pose proof (quorum_pos (nodes p) Hn) as Hq. fold (qn p) in Hq.
  destruct Hi as [I1 I2 I3 I4 I5 I6 I7].
  destruct e; crush_fstep H; simpl in Hin.
  all: try rule_facts.
  all: repeat (destruct Hin as [Hin|Hin]; [try discriminate Hin|]); try contradiction.
  all: try (apply in_app_or in Hin; destruct Hin as [Hin|Hin]; simpl in Hin).
  all: repeat (destruct Hin as [Hin|Hin]; [try discriminate Hin|]); try contradiction.
  all: try (inversion Hin; subst b J; clear Hin; simpl in Hty; try discriminate Hty).
  all: st.
  all: try (destruct I5 as [I5a I5b]; rewrite I5a in *; repeat split; auto; fail).
  all: try (apply andb_true_iff in Heqb2; destruct Heqb2 as [Hadm _];
            destruct (adm_qrc_contains _ _ _ _ Hq Hadm) as [x [Hx _]];
            repeat split; auto; right; exists x; exact Hx).
  all: destruct Hr as [_ [Hr1 Hr2]]; rewrite Hr1 in *;
       match goal with E : adm_qrc _ _ _ _ = true |- _ => destruct (adm_qrc_contains _ _ _ _ Hq E) as [x [Hx _]] end;
       repeat split; auto; right; exists x; exact Hx.
Qed.

(* ---- lifted to every accepted label sequence ---- *)

Lemma run_label_step : forall p ls s s', 1 <= nodes p -> inv p s -> run p s ls = Some s' ->
  forall l, In l ls -> exists s0 s1 o, inv p s0 /\ fstep p s0 (event_of l) o = Some (s1, label_outs l).
Proof.
  intros p. induction ls as [|l0 ls IH]; simpl; intros s s' Hn Hi H l Hin; [contradiction|].
  destruct (step p s l0) as [s1|] eqn:E; [|discriminate].
  apply step_fstep in E.
  destruct Hin as [Hin|Hin].
  - subst l0. exists s, s1, (oracle_of (label_outs l)). split; assumption.
  - eapply IH; [assumption | eapply inv_fstep; eassumption | eassumption | assumption].
Qed.

Theorem run_bcast_justified : forall p ls s, 1 <= nodes p -> run p init ls = Some s ->
  forall l b J, In l ls -> In (Bcast b J) (label_outs l) -> (ty b = RoundChange \/ ty b = Decided) ->
  forall p' c, same_nodes p p' -> justified p' (mkm b J) c = true.
Proof.
  intros p ls s Hn H l b J Hl Hb Hty p' c Hs.
  destruct (run_label_step p ls init s Hn (inv_init p) H l Hl) as [s0 [s1 [o [Hi Hf]]]].
  eapply fstep_bcast_justified; eassumption.
Qed.

Theorem run_preprepare_shape : forall p ls s, 1 <= nodes p -> run p init ls = Some s ->
  forall l b J, In l ls -> In (Bcast b J) (label_outs l) -> ty b = PrePrepare ->
  src b = self p /\ is_leader p (rnd b) (self p) = true
  /\ ((rnd b = 1 /\ J = []) \/ exists x, contains_jqrc (qn p) J (rnd b) = Some x).
Proof.
  intros p ls s Hn H l b J Hl Hb Hty.
  destruct (run_label_step p ls init s Hn (inv_init p) H l Hl) as [s0 [s1 [o [Hi Hf]]]].
  destruct (fstep_preprepare_shape p s0 _ o s1 _ Hn Hi Hf b J Hb Hty) as [A [_ [B C]]]. auto.
Qed.

(* Every PREPARE the process broadcasts is for a non-zero value (it answers a PRE-PREPARE that passed
   isJustifiedPrePrepare), and every PRE-PREPARE proposing the process's own input is non-zero. *)
Lemma fstep_prepare_nonzero : forall p s e o s' outs,
  fstep p s e o = Some (s', outs) ->
  forall b J, In (Bcast b J) outs -> ty b = Prepare -> val b <> 0%N.
Proof.
  intros p s e o s' outs H b J Hin Hty.
  destruct e; crush_fstep H; simpl in Hin.
  all: try rule_facts.
  all: repeat (destruct Hin as [Hin|Hin]; [try discriminate Hin|]); try contradiction.
  all: try (apply in_app_or in Hin; destruct Hin as [Hin|Hin]; simpl in Hin).
  all: repeat (destruct Hin as [Hin|Hin]; [try discriminate Hin|]); try contradiction.
  all: try (inversion Hin; subst b J; clear Hin; simpl in Hty; try discriminate Hty).
  all: simpl.
  all: match goal with E : negb (justified _ _ _) = false |- _ => apply negb_false_iff in E; unfold justified in E end.
  all: destruct Hr as [Hr1 _]; rewrite Hr1 in *.
  all: match goal with E : justified_preprepare _ _ _ = true |- _ =>
         unfold justified_preprepare in E; rewrite !andb_true_iff in E; destruct E as [[_ E] _];
         apply negb_true_iff, N.eqb_neq in E; exact E end.
Qed.

Theorem run_prepare_nonzero : forall p ls s, run p init ls = Some s ->
  forall l b J, In l ls -> In (Bcast b J) (label_outs l) -> ty b = Prepare -> val b <> 0%N.
Proof.
  intros p ls. generalize init. induction ls as [|l0 ls IH]; simpl; intros s0 s H l b J Hl Hb Hty; [contradiction|].
  destruct (step p s0 l0) as [s1|] eqn:E; [|discriminate].
  destruct Hl as [Hl|Hl].
  - subst l0. apply step_fstep in E. eapply fstep_prepare_nonzero; eassumption.
  - eapply IH; eassumption.
Qed.

(* PREPARE and COMMIT need no justification: isJustified is constantly true on them. *)
Lemma prepare_commit_justified : forall p' b J c, (ty b = Prepare \/ ty b = Commit) -> justified p' (mkm b J) c = true.
Proof. intros p' b J c [H|H]; unfold justified; simpl; rewrite H; reflexivity. Qed.
