(* Examples for Qbft/MsgLimits.v: non-vacuity on a recorded execution of the real qbft.Run, and the reason for the
   receive-side hypothesis (a DECIDED re-broadcasts the justification it was received with). *)
From Coq Require Import List NArith Arith Bool Lia.
From Charon Require Import Common.Quorum Qbft.Model Qbft.Monitor Qbft.Net Qbft.NetExamples Qbft.CmpExamples Qbft.MsgLimits.
Import ListNotations.

(* the recorded execution excmp_trace (n = 4): every received message has <= 8 parts; the leader of round 2 broadcasts a
   PRE-PREPARE with 6 justification parts (3 ROUND-CHANGE + 3 PREPARE) naming one value; nothing exceeds the limits *)
Example exlim_recv : recv_limited_b 4 excmp_trace = true.
Proof. vm_compute. reflexivity. Qed.
Example exlim_none_over : bcast_over 4 excmp_trace = [].
Proof. vm_compute. reflexivity. Qed.
Example exlim_sizes :
  flat_map (fun e => flat_map (fun o => match o with
                                        | Bcast b J => match J with [] => [] | _ => [(ty b, length J, length (msg_values b J))] end
                                        | _ => [] end) (label_outs (snd e))) excmp_trace
  = [(RoundChange, 3, 1); (PrePrepare, 6, 1); (Decided, 3, 1)].
Proof. vm_compute. reflexivity. Qed.

(* Without the receive-side check the first clause fails: a member that is handed a DECIDED carrying 9 COMMIT parts (three
   sources, each three times; n = 4, limit 8) decides and later answers a ROUND-CHANGE with a DECIDED carrying those 9 parts. *)
Definition exover_p : params := {| nodes := 4; fifo := 100; leader := lead_rr 0 4; self := 0 |}.
Definition exover_J : list bmsg :=
  [mk Commit 1 1 7 0 0; mk Commit 2 1 7 0 0; mk Commit 3 1 7 0 0; mk Commit 1 1 7 0 0; mk Commit 2 1 7 0 0; mk Commit 3 1 7 0 0;
   mk Commit 1 1 7 0 0; mk Commit 2 1 7 0 0; mk Commit 3 1 7 0 0].
Definition exover_ls : list label := [
  LStart [NewTimer 1];
  LRecv (mkm (mk Decided 1 1 7 0 0) exover_J) CmpOk [Upon JustDecided; StopTimer; Decide 7%N 1 exover_J];
  LRecv (mkm (mk RoundChange 2 2 0 0 0) []) CmpOk [Bcast (mk Decided 0 1 7 0 0) exover_J] ].

Example exover_accepted : match run exover_p init exover_ls with Some _ => true | None => false end = true.
Proof. vm_compute. reflexivity. Qed.

Theorem limits_refuted_without_receive_check :
  exists p ls s, run p init ls = Some s
    /\ (forall l m cm outs, In l ls -> l = LRecv m cm outs -> src (main m) < nodes p /\ forall y, In y (just m) -> src y < nodes p)
    /\ exists l b J, In l ls /\ In (Bcast b J) (label_outs l) /\ 2 * nodes p < length J.
Proof.
  pose proof exover_accepted as H. destruct (run exover_p init exover_ls) as [s|] eqn:E; [|discriminate].
  exists exover_p, exover_ls, s. split; [exact E|]. split.
  - intros l m cm outs Hin Hl. subst l. simpl in Hin.
    destruct Hin as [Hin|[Hin|[Hin|[]]]]; try discriminate; inversion Hin; subst; simpl; (split; [lia|]);
      intros y Hy; simpl in Hy; repeat (destruct Hy as [Hy|Hy]; [subst y; simpl; lia|]); contradiction.
  - exists (LRecv (mkm (mk RoundChange 2 2 0 0 0) []) CmpOk [Bcast (mk Decided 0 1 7 0 0) exover_J]), (mk Decided 0 1 7 0 0), exover_J.
    split; [right; right; left; reflexivity|]. split; [left; reflexivity | simpl; lia].
Qed.
