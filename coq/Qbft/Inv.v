(* Single-process invariants of the QBFT model that the agreement argument uses, stated about the state together
   with the log of the process's own broadcasts (main parts, in order). *)
From Coq Require Import List NArith Arith Bool Lia.
From Charon Require Import Common.Quorum Qbft.Model Qbft.Monitor Qbft.ModelFacts.
Import ListNotations.
Set Warnings "-unused-intro-pattern".

(* main parts of the Broadcast callbacks, in order *)
Fixpoint bc_mains (outs : list output) : list bmsg :=
  match outs with
  | [] => []
  | Bcast b _ :: r => b :: bc_mains r
  | _ :: r => bc_mains r
  end.

Lemma bc_mains_app : forall a b, bc_mains (a ++ b) = bc_mains a ++ bc_mains b.
Proof. induction a as [|o a IH]; simpl; intros; [reflexivity|]. destruct o; simpl; rewrite IH; reflexivity. Qed.

Lemma is_dup_mark_same : forall s rl r, is_dup (mark s rl r) rl r = true.
Proof.
  intros. unfold mark. destruct (is_dup s rl r) eqn:E; [assumption|].
  unfold is_dup. simpl. assert (H : rule_eqb rl rl = true) by (apply rule_eqb_eq; reflexivity).
  rewrite H, Nat.eqb_refl. reflexivity.
Qed.

Lemma is_dup_mark_mono : forall s rl r rl' r', is_dup s rl' r' = true -> is_dup (mark s rl r) rl' r' = true.
Proof.
  intros. unfold mark. destruct (is_dup s rl r); [assumption|]. unfold is_dup in *. simpl. rewrite H. apply orb_true_r.
Qed.


Lemma is_dup_set_timer : forall s t rl r, is_dup (set_timer s t) rl r = is_dup s rl r. Proof. reflexivity. Qed.
Lemma is_dup_set_cfr : forall s t rl r, is_dup (set_cfr s t) rl r = is_dup s rl r. Proof. reflexivity. Qed.
Lemma is_dup_set_buffer : forall s t rl r, is_dup (set_buffer s t) rl r = is_dup s rl r. Proof. reflexivity. Qed.
Lemma is_dup_set_ppj : forall s t rl r, is_dup (set_ppj s t) rl r = is_dup s rl r. Proof. reflexivity. Qed.
Lemma is_dup_set_input : forall s t rl r, is_dup (set_input s t) rl r = is_dup s rl r. Proof. reflexivity. Qed.
Lemma is_dup_set_prepared : forall s a b c rl r, is_dup (set_prepared s a b c) rl r = is_dup s rl r. Proof. reflexivity. Qed.
Lemma is_dup_set_decided : forall s a b rl r, is_dup (set_decided s a b) rl r = is_dup s rl r. Proof. reflexivity. Qed.
Lemma is_dup_set_resends : forall s a rl r, is_dup (set_resends s a) rl r = is_dup s rl r. Proof. reflexivity. Qed.
Lemma is_dup_set_dead : forall s rl r, is_dup (set_dead s) rl r = is_dup s rl r. Proof. reflexivity. Qed.
Lemma is_dup_set_started : forall s rl r, is_dup (set_started s) rl r = is_dup s rl r. Proof. reflexivity. Qed.
Global Hint Rewrite is_dup_set_timer is_dup_set_cfr is_dup_set_buffer is_dup_set_ppj is_dup_set_input is_dup_set_prepared
  is_dup_set_decided is_dup_set_resends is_dup_set_dead is_dup_set_started : st.
Global Hint Resolve is_dup_mark_same is_dup_mark_mono : core.

Ltac rule_facts2 :=
  match goal with E : existsb (rule_eqb ?rl) (rules_of ?p ?s ?m) && negb (is_dup _ _ _) = true |- _ =>
    let Hr := fresh "Hr" in let Hnd := fresh "Hnd" in
    apply andb_true_iff in E; destruct E as [Hr Hnd]; apply rules_of_inv in Hr; simpl in Hr;
    apply negb_true_iff in Hnd end.
Ltac eqb_conv :=
  repeat match goal with
  | H : (_ =? _) = true |- _ => apply Nat.eqb_eq in H
  | H : (_ =? _) = false |- _ => apply Nat.eqb_neq in H
  end.

Lemma fplus1_ok_lt : forall p all cur new, fplus1_ok p all cur new = true -> cur < new.
Proof. intros p all cur new H. unfold fplus1_ok in H. apply andb_true_iff in H. destruct H as [H _]. apply Nat.ltb_lt. exact H. Qed.

Ltac prep_facts :=
  repeat match goal with
  | H : _ /\ _ |- _ => destruct H
  | H : fplus1_ok _ _ _ _ && _ = true |- _ =>
      let H1 := fresh "Hfp" in apply andb_true_iff in H; destruct H as [H1 H]; apply fplus1_ok_lt in H1
  end.

Lemma justified_decided_nonempty : forall p m c, 1 <= nodes p -> justified p m c = true -> ty (main m) = Decided -> just m <> [].
Proof.
  intros p m c Hn H Hty E. unfold justified in H. rewrite Hty in H. unfold justified_decided in H. rewrite E in H.
  pose proof (quorum_pos (nodes p) Hn) as Hq. fold (qn p) in Hq. apply Nat.leb_le in H. unfold nsrc in H. simpl in H. lia.
Qed.

Lemma is_dup_set_round : forall s r rl r', is_dup (set_round s r) rl r' = false.
Proof. reflexivity. Qed.

(* What one step does to the components the agreement argument looks at. *)
Definition effects (p : params) (s s' : state) (outs : list output) : Prop :=
  length (bc_mains outs) <= 1 /\
  (forall b, In b (bc_mains outs) -> src b = self p) /\
  (decided s = true -> decided s' = true /\ prepR s' = prepR s /\ prepV s' = prepV s /\ round s' = round s /\
        forall b, In b (bc_mains outs) -> ty b = Decided \/ ty b = PrePrepare) /\
  (decided s' = false -> round s <= round s') /\
  (decided s' = false -> round s' = round s -> forall rl r, is_dup s rl r = true -> is_dup s' rl r = true) /\
  (forall b, In b (bc_mains outs) -> ty b = Prepare ->
       decided s = false /\ rnd b = round s' /\ is_dup s' JustPrePrepare (rnd b) = true
       /\ (round s < round s' \/ is_dup s JustPrePrepare (rnd b) = false)) /\
  (forall b, In b (bc_mains outs) -> ty b = Commit ->
       decided s = false /\ rnd b = round s /\ round s' = round s /\ is_dup s' QPrepares (rnd b) = true
       /\ is_dup s QPrepares (rnd b) = false /\ prepR s' = rnd b /\ prepV s' = val b) /\
  (forall b, In b (bc_mains outs) -> ty b = RoundChange ->
       decided s = false /\ rnd b = round s' /\ round s < round s' /\ pr b = prepR s /\ pv b = prepV s) /\
  ((exists b, In b (bc_mains outs) /\ ty b = Commit) \/ (prepR s' = prepR s /\ prepV s' = prepV s)) /\
  (decided s = false -> decided s' = true -> bc_mains outs = []) /\
  (decided s' = false -> 1 <= round s -> 1 <= round s').

Ltac split_in :=
  repeat match goal with
  | H : In _ (_ ++ _) |- _ => apply in_app_or in H; destruct H as [H|H]
  | H : In _ (_ :: _) |- _ => destruct H as [H|H]; [subst|]
  | H : In _ [] |- _ => contradiction H
  | H : _ \/ False |- _ => destruct H as [H|[]]
  end.

Ltac fin := intros; split_in; subst; simpl in *; try discriminate; try congruence; try lia; try (autorewrite with st in *; simpl in *; eauto 6; try lia).

Lemma fstep_effects : forall p s e o s' outs, 1 <= nodes p -> inv p s -> fstep p s e o = Some (s', outs) -> effects p s s' outs.
Proof.
  intros p s e o s' outs Hn Hinv H. unfold effects. pose proof (i_timer p s Hinv) as Itimer. clear Hinv.
  destruct e.
  - crush_fstep H; simpl; repeat split; st; fin.
  - crush_fstep H; simpl; repeat split; st; fin.
  - crush_fstep H; try rule_facts2; eqb_conv; prep_facts; rewrite ?bc_mains_app; simpl; repeat split; st; fin.
    all: try (exfalso; apply negb_false_iff in Heqb1;
              apply (justified_decided_nonempty p m (cfr s) Hn Heqb1 Hr); destruct (just m); [reflexivity | discriminate]).
  - crush_fstep H; rewrite ?bc_mains_app; simpl.
    destruct (decided s) eqn:Hd; [specialize (Itimer eq_refl); congruence|].
    repeat split; st; fin.
Qed.

Record linv (p : params) (s : state) (log : list bmsg) : Prop := mklinv {
  l_src : forall b, In b log -> src b = self p;
  l_round1 : decided s = false -> 1 <= round s;
  l_prep : forall b, In b log -> ty b = Prepare -> decided s = false ->
           rnd b < round s \/ (rnd b = round s /\ is_dup s JustPrePrepare (rnd b) = true);
  l_prep_uniq : forall b b', In b log -> In b' log -> ty b = Prepare -> ty b' = Prepare -> rnd b = rnd b' -> val b = val b';
  l_commit : forall b, In b log -> ty b = Commit -> decided s = false ->
           rnd b < round s \/ (rnd b = round s /\ is_dup s QPrepares (rnd b) = true);
  l_commit_uniq : forall b b', In b log -> In b' log -> ty b = Commit -> ty b' = Commit -> rnd b = rnd b' -> val b = val b';
  l_commit_lock : forall b, In b log -> ty b = Commit -> rnd b <= prepR s /\ (rnd b = prepR s -> val b = prepV s);
  l_prepR_le : decided s = false -> prepR s <= round s;
  l_rc : forall b, In b log -> ty b = RoundChange -> decided s = false -> rnd b <= round s;
  l_rc_lock : forall c b, In c log -> In b log -> ty c = Commit -> ty b = RoundChange -> rnd c < rnd b ->
              rnd c <= pr b /\ (rnd c = pr b -> val c = pv b);
  l_commit_pos : forall b, In b log -> ty b = Commit -> 1 <= rnd b;
  l_prep_pos : forall b, In b log -> ty b = Prepare -> 1 <= rnd b
}.

Lemma linv_init : forall p, linv p init [].
Proof. intro p. constructor; simpl; intros; try contradiction; try lia. Qed.

Lemma linv_effects : forall p s s' outs log, linv p s log -> effects p s s' outs -> linv p s' (log ++ bc_mains outs).
Proof.
  intros p s s' outs log [L1 L2 L3 L4 L5 L6 L7 L8 L9 L10 L11 L12] E.
  destruct E as [E1 [E2 [E3 [E4 [E5 [E6 [E7 [E8 [E9 [E10 E11]]]]]]]]]].
  set (B := bc_mains outs) in *.
  assert (HB : B = [] \/ exists x, B = [x]).
  { destruct B as [|x [|y B']]; [left; reflexivity | right; exists x; reflexivity | simpl in E1; lia]. }
  destruct (decided s) eqn:Hd.
  - (* already decided *)
    destruct (E3 eq_refl) as [Hd' [Hpr [Hpv [Hrd Hty]]]].
    assert (Hnp : forall b, In b B -> ty b <> Prepare /\ ty b <> Commit /\ ty b <> RoundChange).
    { intros b Hb. destruct (Hty b Hb) as [T|T]; rewrite T; repeat split; discriminate. }
    constructor; intros; try (rewrite Hd' in *; discriminate).
    + apply in_app_or in H. destruct H; auto.
    + apply in_app_or in H, H0. destruct H as [H|H]; [|destruct (Hnp b H); tauto].
      destruct H0 as [H0|H0]; [|destruct (Hnp b' H0); tauto]. eauto.
    + apply in_app_or in H, H0. destruct H as [H|H]; [|destruct (Hnp b H); tauto].
      destruct H0 as [H0|H0]; [|destruct (Hnp b' H0); tauto]. eauto.
    + apply in_app_or in H. destruct H as [H|H]; [|destruct (Hnp b H); tauto]. rewrite Hpr, Hpv. auto.
    + apply in_app_or in H, H0. destruct H as [H|H]; [|destruct (Hnp c H); tauto].
      destruct H0 as [H0|H0]; [|destruct (Hnp b H0); tauto]. eauto.
    + apply in_app_or in H. destruct H as [H|H]; [|destruct (Hnp b H); tauto]. eauto.
    + apply in_app_or in H. destruct H as [H|H]; [|destruct (Hnp b H); tauto]. eauto.
  - destruct (decided s') eqn:Hd'.
    + (* this step decides: nothing is broadcast *)
      rewrite (E10 eq_refl eq_refl) in *. rewrite app_nil_r.
      destruct E9 as [[b [Hb _]]|[Hpr Hpv]]; [contradiction|].
      constructor; intros; try congruence; eauto. all: rewrite ?Hpr, ?Hpv; auto.
    + (* ordinary step before the decision *)
      specialize (E4 eq_refl). specialize (E5 eq_refl). specialize (E11 eq_refl (L2 eq_refl)).
      specialize (L8 eq_refl).
      constructor; intros; auto.
      * apply in_app_or in H. destruct H; auto.
      * apply in_app_or in H. destruct H as [H|H].
        -- destruct (L3 b H H0 eq_refl) as [Hlt|[Heq Hdup]]; [left; lia|].
           destruct (Nat.eq_dec (round s') (round s)) as [Er|Er]; [right; split; [lia | apply E5; auto] | left; lia].
        -- destruct (E6 b H H0) as [_ [Hr [Hdup _]]]. right. auto.
      * apply in_app_or in H, H0. destruct H as [H|H]; destruct H0 as [H0|H0].
        -- eauto.
        -- exfalso. destruct (E6 b' H0 H2) as [_ [Hr [_ Hor]]].
           destruct (L3 b H H1 eq_refl) as [Hlt|[Heq Hdup]]; [lia|].
           destruct Hor as [Hor|Hor]; [lia|]. rewrite <- H3 in Hor. congruence.
        -- exfalso. destruct (E6 b H H1) as [_ [Hr [_ Hor]]].
           destruct (L3 b' H0 H2 eq_refl) as [Hlt|[Heq Hdup]]; [lia|].
           destruct Hor as [Hor|Hor]; [lia|]. rewrite H3 in Hor. congruence.
        -- destruct HB as [HB|[x HB]]; rewrite HB in *; [contradiction|].
           destruct H as [H|[]], H0 as [H0|[]]. congruence.
      * apply in_app_or in H. destruct H as [H|H].
        -- destruct (L5 b H H0 eq_refl) as [Hlt|[Heq Hdup]]; [left; lia|].
           destruct (Nat.eq_dec (round s') (round s)) as [Er|Er]; [right; split; [lia | apply E5; auto] | left; lia].
        -- destruct (E7 b H H0) as [_ [Hr [Hr' [Hdup _]]]]. right. split; [lia | assumption].
      * apply in_app_or in H, H0. destruct H as [H|H]; destruct H0 as [H0|H0].
        -- eauto.
        -- exfalso. destruct (E7 b' H0 H2) as [_ [Hr [_ [_ [Hnd _]]]]].
           destruct (L5 b H H1 eq_refl) as [Hlt|[Heq Hdup]]; [lia|]. rewrite <- H3 in Hnd. congruence.
        -- exfalso. destruct (E7 b H H1) as [_ [Hr [_ [_ [Hnd _]]]]].
           destruct (L5 b' H0 H2 eq_refl) as [Hlt|[Heq Hdup]]; [lia|]. rewrite H3 in Hnd. congruence.
        -- destruct HB as [HB|[x HB]]; rewrite HB in *; [contradiction|].
           destruct H as [H|[]], H0 as [H0|[]]. congruence.
      * apply in_app_or in H. destruct H as [H|H].
        -- destruct (L7 b H H0) as [Hle Heq].
           destruct E9 as [[c [Hc Hcty]]|[Hpr Hpv]]; [|rewrite Hpr, Hpv; auto].
           destruct (E7 c Hc Hcty) as [_ [Hr [_ [_ [Hnd [Hpr Hpv]]]]]].
           destruct (L5 b H H0 eq_refl) as [Hlt|[Heq' Hdup]].
           ++ split; [lia|]. intro. lia.
           ++ exfalso. rewrite Heq', <- Hr in Hdup. congruence.
        -- destruct (E7 b H H0) as [_ [_ [_ [_ [_ [Hpr Hpv]]]]]]. split; [lia | auto].
      * destruct E9 as [[c [Hc Hcty]]|[Hpr Hpv]]; [|lia].
        destruct (E7 c Hc Hcty) as [_ [Hr [Hr' [_ [_ [Hpr _]]]]]]. lia.
      * apply in_app_or in H. destruct H as [H|H].
        -- specialize (L9 b H H0 eq_refl). lia.
        -- destruct (E8 b H H0) as [_ [Hr _]]. lia.
      * apply in_app_or in H, H0. destruct H as [H|H]; destruct H0 as [H0|H0].
        -- eauto.
        -- destruct (E8 b H0 H2) as [_ [_ [_ [Hpr Hpv]]]]. rewrite Hpr, Hpv. apply L7; assumption.
        -- exfalso. destruct (E7 c H H1) as [_ [Hr _]]. specialize (L9 b H0 H2 eq_refl). lia.
        -- exfalso. destruct HB as [HB|[x HB]]; rewrite HB in *; [contradiction|].
           destruct H as [H|[]], H0 as [H0|[]]. congruence.
      * apply in_app_or in H. destruct H as [H|H]; [eauto|].
        destruct (E7 b H H0) as [_ [Hr _]]. specialize (L2 eq_refl). lia.
      * apply in_app_or in H. destruct H as [H|H]; [eauto|].
        destruct (E6 b H H0) as [_ [Hr _]]. lia.
Qed.

Lemma linv_fstep : forall p s e o s' outs log, 1 <= nodes p -> inv p s -> linv p s log ->
  fstep p s e o = Some (s', outs) -> linv p s' (log ++ bc_mains outs).
Proof. intros. eapply linv_effects; [eassumption | eapply fstep_effects; eassumption]. Qed.

(* the log of a label sequence: main parts of all Broadcast callbacks, in order *)
Definition log_of (ls : list label) : list bmsg := flat_map (fun l => bc_mains (label_outs l)) ls.

Lemma run_linv_from : forall p ls s s' log, 1 <= nodes p -> inv p s -> linv p s log -> run p s ls = Some s' ->
  linv p s' (log ++ log_of ls).
Proof.
  intros p. induction ls as [|l ls IH]; simpl; intros s s' log Hn Hi Hl H.
  - inversion H; subst. rewrite app_nil_r. assumption.
  - destruct (step p s l) as [s1|] eqn:E; [|discriminate]. apply step_fstep in E.
    rewrite app_assoc. eapply IH; [assumption | eapply inv_fstep; eassumption | eapply linv_fstep; eassumption | assumption].
Qed.

Theorem run_linv : forall p ls s, 1 <= nodes p -> run p init ls = Some s -> linv p s (log_of ls).
Proof. intros p ls s Hn H. exact (run_linv_from p ls init s [] Hn (inv_init p) (linv_init p) H). Qed.

(* Readings: over every label sequence of the model *)
Theorem one_prepare_per_round : forall p ls s, 1 <= nodes p -> run p init ls = Some s ->
  forall b b', In b (log_of ls) -> In b' (log_of ls) -> ty b = Prepare -> ty b' = Prepare -> rnd b = rnd b' -> val b = val b'.
Proof. intros p ls s Hn H. exact (l_prep_uniq p s _ (run_linv p ls s Hn H)). Qed.

Theorem one_commit_per_round : forall p ls s, 1 <= nodes p -> run p init ls = Some s ->
  forall b b', In b (log_of ls) -> In b' (log_of ls) -> ty b = Commit -> ty b' = Commit -> rnd b = rnd b' -> val b = val b'.
Proof. intros p ls s Hn H. exact (l_commit_uniq p s _ (run_linv p ls s Hn H)). Qed.

(* A ROUND-CHANGE for a round above one the process committed in carries a prepared round at least that round,
   and the committed value if it is exactly that round. *)
Theorem round_change_carries_lock : forall p ls s, 1 <= nodes p -> run p init ls = Some s ->
  forall c b, In c (log_of ls) -> In b (log_of ls) -> ty c = Commit -> ty b = RoundChange -> rnd c < rnd b ->
  rnd c <= pr b /\ (rnd c = pr b -> val c = pv b).
Proof. intros p ls s Hn H. exact (l_rc_lock p s _ (run_linv p ls s Hn H)). Qed.

Theorem own_broadcasts_signed_self : forall p ls s, 1 <= nodes p -> run p init ls = Some s ->
  forall b, In b (log_of ls) -> src b = self p.
Proof. intros p ls s Hn H. exact (l_src p s _ (run_linv p ls s Hn H)). Qed.

(* ------------------------------------------------------------------------------------------ *)
(* Provenance: what is in the buffer / prepared justification / qcommit came in messages         *)

(* parts of the message an event delivers *)
Definition ev_parts (e : event) : list bmsg := match e with ERecv m _ => main m :: just m | _ => [] end.
Definition ev_cmpfail (e : event) : bool := match e with ERecv _ CmpFail => true | _ => false end.

Lemma In_skipn : forall {A} k (l : list A) x, In x (skipn k l) -> In x l.
Proof.
  intros A k. induction k as [|k IH]; intros l x H; [exact H|].
  destruct l as [|y l]; [exact H|]. right. apply IH. exact H.
Qed.

Lemma flat_msgs_In : forall ms b, In b (flat_msgs ms) <-> exists m, In m ms /\ (main m = b \/ In b (just m)).
Proof.
  intros ms b. unfold flat_msgs. rewrite in_flat_map. split; intros [m [Hm Hb]]; exists m; (split; [assumption|]); simpl in *; tauto.
Qed.

Lemma flat_msgs_lastn : forall k ms b, In b (flat_msgs (lastn k ms)) -> In b (flat_msgs ms).
Proof.
  intros k ms b H. apply flat_msgs_In in H. destruct H as [m [Hm Hb]]. apply flat_msgs_In. exists m. split; [|assumption].
  unfold lastn in Hm. eapply In_skipn. eassumption.
Qed.

Lemma flat_buffer_add : forall k buf m b, In b (flat (buffer_add k buf m)) -> In b (flat buf) \/ main m = b \/ In b (just m).
Proof.
  intros k buf m b. induction buf as [|[s0 q0] buf IH]; simpl; intro H.
  - unfold flat in H. simpl in H. rewrite app_nil_r in H. apply flat_msgs_lastn in H. simpl in H. rewrite app_nil_r in H. tauto.
  - destruct (s0 =? src (main m)).
    + unfold flat in H |- *. simpl in H |- *. apply in_app_or in H. destruct H as [H|H].
      * apply flat_msgs_lastn in H. unfold flat_msgs in H. rewrite flat_map_app in H. apply in_app_or in H.
        destruct H as [H|H]; [left; apply in_or_app; left; exact H|]. simpl in H. rewrite app_nil_r in H. tauto.
      * left. apply in_or_app. right. exact H.
    + unfold flat in H |- *. simpl in H |- *. apply in_app_or in H. destruct H as [H|H].
      * left. apply in_or_app. left. exact H.
      * destruct (IH H) as [H1|H1]; [left; apply in_or_app; right; exact H1 | right; exact H1].
Qed.

Lemma fstep_provenance : forall p s e o s' outs, fstep p s e o = Some (s', outs) ->
  (forall b, In b (flat (buffer s')) -> In b (flat (buffer s)) \/ In b (ev_parts e)) /\
  (forall b, In b (prepJ s') -> In b (prepJ s) \/ In b (flat (buffer s'))) /\
  (forall b, In b (qcommit s') -> In b (qcommit s) \/ In b (flat (buffer s')) \/ In b (ev_parts e)) /\
  (ev_cmpfail e = false -> cfr s' = cfr s).
Proof.
  intros p s e o s' outs H.
  destruct e; crush_fstep H; simpl; repeat split; st; intros; auto; try discriminate.
  all: try (match goal with Hb : In _ (flat (buffer_add _ _ _)) |- _ => apply flat_buffer_add in Hb; tauto end).
  all: try (right; apply (proj1 (dedupb_In _ _)) in H; apply filter_In in H; tauto).
  all: try (right; left; match goal with E : pick_ok _ _ _ = true |- _ => apply pick_ok_spec in E; destruct E as [_ [_ [E _]]]; apply E; assumption end).
Qed.

(* where PREPARE and COMMIT broadcasts come from *)
Lemma fstep_origins : forall p s e o s' outs, fstep p s e o = Some (s', outs) ->
  forall b, In b (bc_mains outs) ->
  (ty b = Prepare -> exists m c, e = ERecv m c /\ ty (main m) = PrePrepare /\ rnd b = rnd (main m)
                       /\ val b = val (main m) /\ justified p m (cfr s) = true) /\
  (ty b = Commit -> qn p <= nsrc (f_trv Prepare (rnd b) (val b)) (flat (buffer s'))).
Proof.
  intros p s e o s' outs H b Hb.
  destruct e; crush_fstep H; try rule_facts2; prep_facts; rewrite ?bc_mains_app in Hb; simpl in Hb; split_in; subst; simpl;
    (split; intro Hty; try discriminate Hty).
  all: st; try contradiction.
  all: try (apply negb_false_iff in Heqb2; exists m, CmpOk; auto 10; fail).
  all: rewrite <- H0; exact H1.
Qed.

(* every part of a justification getJustifiedQrc may return is in the flattened buffer it was computed from *)
Lemma adm_qrc_sub : forall p all r J, adm_qrc p all r J = true -> forall y, In y J -> In y all.
Proof.
  intros p all r J H y Hy. unfold adm_qrc in H. destruct (nullQ p all r).
  - apply pick_ok_spec in H. destruct H as [_ [_ [H _]]]. auto.
  - apply andb_true_iff in H. destruct H as [HJ H]. apply list_beq_eq in HJ.
    destruct (filter (is_ty Prepare) J) as [|p0 Jp'] eqn:EJp; [discriminate|].
    rewrite !andb_true_iff in H. destruct H as [[[[[[Hpick _] _] Hall] _] _] _].
    rewrite HJ in Hy. apply in_app_or in Hy. destruct Hy as [Hy|Hy].
    + rewrite forallb_forall in Hall. specialize (Hall y Hy). rewrite !andb_true_iff in Hall. apply memb_In. tauto.
    + apply pick_ok_spec in Hpick. destruct Hpick as [_ [_ [Hp _]]]. auto.
Qed.

(* a successful getSingleJustifiedPrPv names the value of some PREPARE of the list *)
Lemma single_true_witness : forall q J spr spv, 1 <= q -> single q J = (spr, spv, true) ->
  exists y, In y J /\ ty y = Prepare /\ rnd y = spr /\ val y = spv.
Proof.
  intros q J spr spv Hq H. unfold single in H.
  remember (filter (is_ty Prepare) J) as P eqn:EP. destruct P as [|p0 P'].
  - inversion H. apply Nat.leb_le in H3. lia.
  - destruct (nodupn (map src (p0 :: P')) && forallb (fun b => (rnd b =? rnd p0) && N.eqb (val b) (val p0)) (p0 :: P')); [|discriminate].
    inversion H; subst. assert (Hin : In p0 (filter (is_ty Prepare) J)) by (rewrite <- EP; left; reflexivity).
    apply filter_In in Hin. destruct Hin as [H1 H2]. apply mtype_eqb_eq in H2. exists p0. auto.
Qed.

Ltac bool_facts :=
  repeat match goal with
  | H : _ || _ = false |- _ => apply orb_false_iff in H; destruct H
  | H : _ && _ = true |- _ => apply andb_true_iff in H; destruct H
  | H : negb _ = false |- _ => apply negb_false_iff in H
  | H : negb _ = true |- _ => apply negb_true_iff in H
  | H : N.eqb _ _ = true |- _ => apply N.eqb_eq in H
  | H : N.eqb _ _ = false |- _ => apply N.eqb_neq in H
  end.

(* where PRE-PREPARE broadcasts take their value from; the input value never changes once set *)
Lemma fstep_pp_origin : forall p s e o s' outs, 1 <= nodes p -> fstep p s e o = Some (s', outs) ->
  (forall b, In b (bc_mains outs) -> ty b = PrePrepare ->
     (val b = input s' /\ input s' <> 0%N) \/
     (exists y, In y (flat (buffer s')) /\ ty y = Prepare /\ val y = val b)) /\
  (input s <> 0%N -> input s' = input s) /\
  (input s' <> input s -> e = EInput (input s')).
Proof.
  intros p s e o s' outs Hn H.
  pose proof (quorum_pos (nodes p) Hn) as Hq. fold (qn p) in Hq.
  destruct e; crush_fstep H; try rule_facts2; prep_facts; bool_facts; rewrite ?bc_mains_app; simpl; (split; [|split]); st; intros; split_in; subst;
    simpl in *; try discriminate; try contradiction; try congruence; auto.
  all: right; destruct (single_true_witness _ _ _ _ Hq Heqp0) as [y [Y1 [Y2 [Y3 Y4]]]]; exists y;
       (split; [eapply adm_qrc_sub; eassumption | auto]).
Qed.
