(* Single-process invariants of the QBFT model that the agreement argument uses, stated about the state together
   with the log of the process's own broadcasts (main parts, in order). *)
From Coq Require Import List NArith Arith Bool Lia.
From Charon Require Import Common.Quorum Qbft.Model Qbft.Monitor Qbft.ModelFacts.
Import ListNotations.
Set Warnings "-unused-intro-pattern".

(* main parts of the Broadcast callbacks, in order *)
Fixpoint bc_mains (outs : list output) : list bmsg :=
  match outs with
  | [] => []
  | Bcast b _ :: r => b :: bc_mains r
  | _ :: r => bc_mains r
  end.

Lemma bc_mains_app : forall a b, bc_mains (a ++ b) = bc_mains a ++ bc_mains b.
Proof. induction a as [|o a IH]; simpl; intros; [reflexivity|]. destruct o; simpl; rewrite IH; reflexivity. Qed.

Lemma is_dup_mark_same : forall s rl r, is_dup (mark s rl r) rl r = true.
Proof.
  intros. unfold mark. destruct (is_dup s rl r) eqn:E; [assumption|].
  unfold is_dup. simpl. assert (H : rule_eqb rl rl = true) by (apply rule_eqb_eq; reflexivity).
  rewrite H, Nat.eqb_refl. reflexivity.
Qed.

Lemma is_dup_mark_mono : forall s rl r rl' r', is_dup s rl' r' = true -> is_dup (mark s rl r) rl' r' = true.
Proof.
  intros. unfold mark. destruct (is_dup s rl r); [assumption|]. unfold is_dup in *. simpl. rewrite H. apply orb_true_r.
Qed.


Lemma is_dup_set_timer : forall s t rl r, is_dup (set_timer s t) rl r = is_dup s rl r. Proof. reflexivity. Qed.
Lemma is_dup_set_cfr : forall s t rl r, is_dup (set_cfr s t) rl r = is_dup s rl r. Proof. reflexivity. Qed.
Lemma is_dup_set_buffer : forall s t rl r, is_dup (set_buffer s t) rl r = is_dup s rl r. Proof. reflexivity. Qed.
Lemma is_dup_set_ppj : forall s t rl r, is_dup (set_ppj s t) rl r = is_dup s rl r. Proof. reflexivity. Qed.
Lemma is_dup_set_input : forall s t rl r, is_dup (set_input s t) rl r = is_dup s rl r. Proof. reflexivity. Qed.
Lemma is_dup_set_prepared : forall s a b c rl r, is_dup (set_prepared s a b c) rl r = is_dup s rl r. Proof. reflexivity. Qed.
Lemma is_dup_set_decided : forall s a b rl r, is_dup (set_decided s a b) rl r = is_dup s rl r. Proof. reflexivity. Qed.
Lemma is_dup_set_resends : forall s a rl r, is_dup (set_resends s a) rl r = is_dup s rl r. Proof. reflexivity. Qed.
Lemma is_dup_set_dead : forall s rl r, is_dup (set_dead s) rl r = is_dup s rl r. Proof. reflexivity. Qed.
Lemma is_dup_set_started : forall s rl r, is_dup (set_started s) rl r = is_dup s rl r. Proof. reflexivity. Qed.
Global Hint Rewrite is_dup_set_timer is_dup_set_cfr is_dup_set_buffer is_dup_set_ppj is_dup_set_input is_dup_set_prepared
  is_dup_set_decided is_dup_set_resends is_dup_set_dead is_dup_set_started : st.
Global Hint Resolve is_dup_mark_same is_dup_mark_mono : core.

Ltac rule_facts2 :=
  match goal with E : existsb (rule_eqb ?rl) (rules_of ?p ?s ?m) && negb (is_dup _ _ _) = true |- _ =>
    let Hr := fresh "Hr" in let Hnd := fresh "Hnd" in
    apply andb_true_iff in E; destruct E as [Hr Hnd]; apply rules_of_inv in Hr; simpl in Hr;
    apply negb_true_iff in Hnd end.
Ltac eqb_conv :=
  repeat match goal with
  | H : (_ =? _) = true |- _ => apply Nat.eqb_eq in H
  | H : (_ =? _) = false |- _ => apply Nat.eqb_neq in H
  end.

Lemma fplus1_ok_lt : forall p all cur new, fplus1_ok p all cur new = true -> cur < new.
Proof. intros p all cur new H. unfold fplus1_ok in H. apply andb_true_iff in H. destruct H as [H _]. apply Nat.ltb_lt. exact H. Qed.

Ltac prep_facts :=
  repeat match goal with
  | H : _ /\ _ |- _ => destruct H
  | H : fplus1_ok _ _ _ _ && _ = true |- _ =>
      let H1 := fresh "Hfp" in apply andb_true_iff in H; destruct H as [H1 H]; apply fplus1_ok_lt in H1
  end.

Lemma justified_decided_nonempty : forall p m c, 1 <= nodes p -> justified p m c = true -> ty (main m) = Decided -> just m <> [].
Proof.
  intros p m c Hn H Hty E. unfold justified in H. rewrite Hty in H. unfold justified_decided in H. rewrite E in H.
  pose proof (quorum_pos (nodes p) Hn) as Hq. fold (qn p) in Hq. apply Nat.leb_le in H. unfold nsrc in H. simpl in H. lia.
Qed.

Lemma is_dup_set_round : forall s r rl r', is_dup (set_round s r) rl r' = false.
Proof. reflexivity. Qed.

(* What one step does to the components the agreement argument looks at. *)
Definition effects (p : params) (s s' : state) (outs : list output) : Prop :=
  length (bc_mains outs) <= 1 /\
  (forall b, In b (bc_mains outs) -> src b = self p) /\
  (decided s = true -> decided s' = true /\ prepR s' = prepR s /\ prepV s' = prepV s /\ round s' = round s /\
        forall b, In b (bc_mains outs) -> ty b = Decided \/ ty b = PrePrepare) /\
  (decided s' = false -> round s <= round s') /\
  (decided s' = false -> round s' = round s -> forall rl r, is_dup s rl r = true -> is_dup s' rl r = true) /\
  (forall b, In b (bc_mains outs) -> ty b = Prepare ->
       decided s = false /\ rnd b = round s' /\ is_dup s' JustPrePrepare (rnd b) = true
       /\ (round s < round s' \/ is_dup s JustPrePrepare (rnd b) = false)) /\
  (forall b, In b (bc_mains outs) -> ty b = Commit ->
       decided s = false /\ rnd b = round s /\ round s' = round s /\ is_dup s' QPrepares (rnd b) = true
       /\ is_dup s QPrepares (rnd b) = false /\ prepR s' = rnd b /\ prepV s' = val b) /\
  (forall b, In b (bc_mains outs) -> ty b = RoundChange ->
       decided s = false /\ rnd b = round s' /\ round s < round s' /\ pr b = prepR s /\ pv b = prepV s) /\
  ((exists b, In b (bc_mains outs) /\ ty b = Commit) \/ (prepR s' = prepR s /\ prepV s' = prepV s)) /\
  (decided s = false -> decided s' = true -> bc_mains outs = []) /\
  (decided s' = false -> 1 <= round s -> 1 <= round s').

Ltac split_in :=
  repeat match goal with
  | H : In _ (_ ++ _) |- _ => apply in_app_or in H; destruct H as [H|H]
  | H : In _ (_ :: _) |- _ => destruct H as [H|H]; [subst|]
  | H : In _ [] |- _ => contradiction H
  | H : _ \/ False |- _ => destruct H as [H|[]]
  end.

Ltac fin := intros; split_in; subst; simpl in *; try discriminate; try congruence; try lia; try (autorewrite with st in *; simpl in *; eauto 6; try lia).

Lemma fstep_effects : forall p s e o s' outs, 1 <= nodes p -> inv p s -> fstep p s e o = Some (s', outs) -> effects p s s' outs.
Proof.
  intros p s e o s' outs Hn Hinv H. unfold effects. pose proof (i_timer p s Hinv) as Itimer. clear Hinv.
  destruct e.
  - crush_fstep H; simpl; repeat split; st; fin.
  - crush_fstep H; simpl; repeat split; st; fin.
  - crush_fstep H; try rule_facts2; eqb_conv; prep_facts; rewrite ?bc_mains_app; simpl; repeat split; st; fin.
    all: try (exfalso; apply negb_false_iff in Heqb1;
              apply (justified_decided_nonempty p m (cfr s) Hn Heqb1 Hr); destruct (just m); [reflexivity | discriminate]).
  - crush_fstep H; rewrite ?bc_mains_app; simpl.
    destruct (decided s) eqn:Hd; [specialize (Itimer eq_refl); congruence|].
    repeat split; st; fin.
Qed.

