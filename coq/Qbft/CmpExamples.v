(* Non-vacuity for C02 with compare failures, and the negative result for the weaker hypothesis.

   [excmp_trace] is recorded from four real core/qbft.Run processes (harness/qbft TestCmpFun, scenario cmpfun-shortcut):
   n = 4, member 2 Byzantine (leader of round 3), honest 0 (leader of round 1), 1 (leader of round 2), 3.  Member 3's
   comparison rejects value 7 (rounds 1 and 2: compareFailureRound = 1, then 2) and accepts 8; members 0 and 1 accept 7.
   The Byzantine leader's UNJUSTIFIED PRE-PREPARE(3, 8) is accepted by member 3 through the compareFailureRound+1
   shortcut (it broadcasts PREPARE(3, 8)) and refused by member 1 (LogUnjust).  All three honest members decide 7. *)
From Coq Require Import List NArith Arith Bool Lia.
From Charon Require Import Common.Quorum Qbft.Model Qbft.Monitor Qbft.Card Qbft.Net Qbft.NetInv Qbft.NetExamples
  Qbft.CmpInv Qbft.AgreementCmp.
Import ListNotations.

Definition excmp_cfg : cfg := mkcfg 4 100 (lead_rr 3 4) (fun i => negb (i =? 2)).
Definition excmp_trace : list (nat * label) := [
  (0, LStart [NewTimer 1]);
  (1, LStart [NewTimer 1]);
  (3, LStart [NewTimer 1]);
  (0, LInput 7%N [Bcast (mk PrePrepare 0 1 7 0 0) []]);
  (1, LInput 8%N []);
  (3, LInput 8%N []);
  (0, LRecv (mkm (mk PrePrepare 0 1 7 0 0) []) CmpOk [Upon JustPrePrepare; StopTimer; NewTimer 1; Bcast (mk Prepare 0 1 7 0 0) []]);
  (1, LRecv (mkm (mk PrePrepare 0 1 7 0 0) []) CmpOk [Upon JustPrePrepare; StopTimer; NewTimer 1; Bcast (mk Prepare 1 1 7 0 0) []]);
  (3, LRecv (mkm (mk PrePrepare 0 1 7 0 0) []) CmpFail [Upon JustPrePrepare; StopTimer; NewTimer 1]);
  (0, LRecv (mkm (mk Prepare 0 1 7 0 0) []) CmpOk []);
  (0, LRecv (mkm (mk Prepare 1 1 7 0 0) []) CmpOk []);
  (1, LRecv (mkm (mk Prepare 0 1 7 0 0) []) CmpOk []);
  (1, LRecv (mkm (mk Prepare 1 1 7 0 0) []) CmpOk []);
  (0, LRecv (mkm (mk Prepare 2 1 7 0 0) []) CmpOk [Upon QPrepares; Bcast (mk Commit 0 1 7 0 0) []]);
  (1, LRecv (mkm (mk Prepare 2 1 7 0 0) []) CmpOk [Upon QPrepares; Bcast (mk Commit 1 1 7 0 0) []]);
  (0, LRecv (mkm (mk Commit 0 1 7 0 0) []) CmpOk []);
  (0, LRecv (mkm (mk Commit 1 1 7 0 0) []) CmpOk []);
  (0, LRecv (mkm (mk Commit 2 1 7 0 0) []) CmpOk [Upon QCommits; StopTimer; Decide 7%N 1 [(mk Commit 2 1 7 0 0); (mk Commit 0 1 7 0 0); (mk Commit 1 1 7 0 0)]]);
  (1, LRecv (mkm (mk Commit 0 1 7 0 0) []) CmpOk []);
  (1, LRecv (mkm (mk Commit 1 1 7 0 0) []) CmpOk []);
  (1, LTimeout [RoundChg 1 2 RoundTimeout; StopTimer; NewTimer 2; Bcast (mk RoundChange 1 2 0 1 7) [(mk Prepare 0 1 7 0 0); (mk Prepare 1 1 7 0 0); (mk Prepare 2 1 7 0 0)]]);
  (3, LTimeout [RoundChg 1 2 RoundTimeout; StopTimer; NewTimer 2; Bcast (mk RoundChange 3 2 0 0 0) []]);
  (1, LRecv (mkm (mk RoundChange 1 2 0 1 7) [(mk Prepare 0 1 7 0 0); (mk Prepare 1 1 7 0 0); (mk Prepare 2 1 7 0 0)]) CmpOk []);
  (1, LRecv (mkm (mk RoundChange 3 2 0 0 0) []) CmpOk []);
  (1, LRecv (mkm (mk RoundChange 2 2 0 0 0) []) CmpOk [Upon QRC; Bcast (mk PrePrepare 1 2 7 0 0) [(mk RoundChange 1 2 0 1 7); (mk RoundChange 2 2 0 0 0); (mk RoundChange 3 2 0 0 0); (mk Prepare 0 1 7 0 0); (mk Prepare 1 1 7 0 0); (mk Prepare 2 1 7 0 0)]]);
  (1, LRecv (mkm (mk PrePrepare 1 2 7 0 0) [(mk RoundChange 1 2 0 1 7); (mk RoundChange 2 2 0 0 0); (mk RoundChange 3 2 0 0 0); (mk Prepare 0 1 7 0 0); (mk Prepare 1 1 7 0 0); (mk Prepare 2 1 7 0 0)]) CmpOk [Upon JustPrePrepare; StopTimer; NewTimer 2; Bcast (mk Prepare 1 2 7 0 0) []]);
  (3, LRecv (mkm (mk PrePrepare 1 2 7 0 0) [(mk RoundChange 1 2 0 1 7); (mk RoundChange 2 2 0 0 0); (mk RoundChange 3 2 0 0 0); (mk Prepare 0 1 7 0 0); (mk Prepare 1 1 7 0 0); (mk Prepare 2 1 7 0 0)]) CmpFail [Upon JustPrePrepare; StopTimer; NewTimer 2]);
  (3, LRecv (mkm (mk PrePrepare 2 3 8 0 0) []) CmpOk [Upon JustPrePrepare; RoundChg 2 3 JustPrePrepare; StopTimer; NewTimer 3; Bcast (mk Prepare 3 3 8 0 0) []]);
  (1, LRecv (mkm (mk PrePrepare 2 3 8 0 0) []) CmpOk [Unjust (mkm (mk PrePrepare 2 3 8 0 0) [])]);
  (0, LRecv (mkm (mk RoundChange 1 2 0 1 7) [(mk Prepare 0 1 7 0 0); (mk Prepare 1 1 7 0 0); (mk Prepare 2 1 7 0 0)]) CmpOk [Bcast (mk Decided 0 1 7 0 0) [(mk Commit 2 1 7 0 0); (mk Commit 0 1 7 0 0); (mk Commit 1 1 7 0 0)]]);
  (1, LRecv (mkm (mk Decided 0 1 7 0 0) [(mk Commit 2 1 7 0 0); (mk Commit 0 1 7 0 0); (mk Commit 1 1 7 0 0)]) CmpOk [Upon JustDecided; RoundChg 2 1 JustDecided; StopTimer; Decide 7%N 1 [(mk Commit 2 1 7 0 0); (mk Commit 0 1 7 0 0); (mk Commit 1 1 7 0 0)]]);
  (3, LRecv (mkm (mk Decided 0 1 7 0 0) [(mk Commit 2 1 7 0 0); (mk Commit 0 1 7 0 0); (mk Commit 1 1 7 0 0)]) CmpOk [Upon JustDecided; RoundChg 3 1 JustDecided; StopTimer; Decide 7%N 1 [(mk Commit 2 1 7 0 0); (mk Commit 0 1 7 0 0); (mk Commit 1 1 7 0 0)]]) ].

Example excmp_wf : Card.byz_count 4 (c_honest excmp_cfg) = 1 /\ faulty 4 = 1.
Proof. vm_compute. split; reflexivity. Qed.
Example excmp_accepted : nrun_ok excmp_cfg excmp_trace = true.
Proof. vm_compute. reflexivity. Qed.
Example excmp_consistent : trace_cmp_fun_b excmp_trace = true.
Proof. vm_compute. reflexivity. Qed.
(* the consulted comparisons: (member, round, value, verdict) *)
Example excmp_verdicts :
  flat_map (fun e => match snd e with
                     | LRecv m cm (Upon JustPrePrepare :: _) => [(fst e, rnd (main m), val (main m), cm)]
                     | _ => [] end) excmp_trace
  = [(0, 1, 7%N, CmpOk); (1, 1, 7%N, CmpOk); (3, 1, 7%N, CmpFail); (1, 2, 7%N, CmpOk); (3, 2, 7%N, CmpFail); (3, 3, 8%N, CmpOk)].
Proof. vm_compute. reflexivity. Qed.
(* member 3 accepts the unjustified round-3 proposal (empty justification, value 8 although 7 is locked) and prepares it *)
Example excmp_shortcut_used :
  In (3, LRecv (mkm (mk PrePrepare 2 3 8 0 0) []) CmpOk
          [Upon JustPrePrepare; RoundChg 2 3 JustPrePrepare; StopTimer; NewTimer 3; Bcast (mk Prepare 3 3 8 0 0) []]) excmp_trace.
Proof. vm_compute. tauto. Qed.
Example excmp_decides : trace_decides excmp_trace = [(0, 7%N, 1); (1, 7%N, 1); (3, 7%N, 1)].
Proof. vm_compute. reflexivity. Qed.

Theorem agreement_cmp_nonvacuous :
  exists cf c tr nt, wf_cfg c /\ nrun c net_init tr = Some nt /\ nreach c nt tr /\ trace_cmp_fun cf tr
    /\ (exists i r, failed tr i r) /\ 2 <= length (trace_decides tr).
Proof.
  pose proof excmp_accepted as H. unfold nrun_ok in H.
  destruct (nrun excmp_cfg net_init excmp_trace) as [nt|] eqn:E; [|discriminate].
  exists (cf_of excmp_trace), excmp_cfg, excmp_trace, nt.
  split; [split; [simpl; lia | destruct excmp_wf as [H1 H2]; simpl c_n; rewrite H1, H2; lia]|].
  split; [exact E|]. split; [exact (nrun_sound _ _ _ E)|].
  split; [exact (trace_cmp_fun_b_sound _ excmp_consistent)|]. split.
  - exists 3, 1. exists (mkm (mk PrePrepare 0 1 7 0 0) []), [StopTimer; NewTimer 1]. split; [|reflexivity].
    unfold excmp_trace. do 8 right. left. reflexivity.
  - rewrite excmp_decides. simpl. lia.
Qed.

(* ---- the weaker hypothesis "CmpFail at i on x only if cf i x" (CmpOk unrestricted) is NOT enough ---- *)

(* it holds of every trace for the relation read off the trace itself *)
Lemma cmpfail_only_cf_of : forall tr, trace_cmpfail_only (cf_of tr) tr.
Proof.
  intros tr i l x Hin Hc. unfold cf_of. apply existsb_exists. exists (i, l). split; [exact Hin|].
  simpl. rewrite Hc, Nat.eqb_refl, N.eqb_refl. reflexivity.
Qed.

(* the recorded execution of Refuted.v: member 1 accepts 7 in round 1 and rejects 7 in round 2 *)
Example exref_inconsistent : trace_cmp_fun_b exref_trace = false.
Proof. vm_compute. reflexivity. Qed.

Theorem agreement_refuted_if_cmpok_unrestricted :
  exists cf c tr nt, wf_cfg c /\ nrun c net_init tr = Some nt /\ nreach c nt tr /\ trace_cmpfail_only cf tr
    /\ exists i v r j v' r', In (i, v, r) (trace_decides tr) /\ In (j, v', r') (trace_decides tr)
                             /\ good c i /\ good c j /\ v <> v'.
Proof.
  pose proof exref_accepted as H. unfold nrun_ok in H.
  destruct (nrun exref_cfg net_init exref_trace) as [nt|] eqn:E; [|discriminate].
  exists (cf_of exref_trace), exref_cfg, exref_trace, nt.
  split; [split; [simpl; lia | destruct exref_wf as [H1 H2]; simpl c_n; rewrite H1, H2; lia]|].
  split; [exact E|]. split; [exact (nrun_sound _ _ _ E)|]. split; [apply cmpfail_only_cf_of|].
  exists 0, 7%N, 1, 1, 8%N, 3. rewrite exref_decides.
  split; [left; reflexivity|]. split; [right; left; reflexivity|].
  split; [split; [simpl; lia | reflexivity]|]. split; [split; [simpl; lia | reflexivity]|]. discriminate.
Qed.

Example excmp_has_failure : existsb (fun e => negb (label_nofail (snd e))) excmp_trace = true.
Proof. vm_compute. reflexivity. Qed.
