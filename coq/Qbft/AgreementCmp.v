(* C02 agreement for the network semantics Qbft/Net.v WITH compare failures, under the hypothesis that the verdict of a
   completed comparison is a function of (member, proposed value) ([trace_cmp_fun], CmpInv.v).

   Argument (DESIGN.md C02 (ii), made exact): let (r0, v) be locked (>= q - f honest COMMIT(r0, v)) and let P be the honest
   senders of PREPARE(r0, v) behind one of these commits (n + 1 <= q + |P|).  Claim: every PREPARE(r, x), r > r0, OF A MEMBER
   OF P has x = v.  A member of P that accepts a PRE-PREPARE(r, x) through the compareFailureRound+1 shortcut sits on a
   chain of failed comparisons c0 .. r-1: if c0 <= r0 the member's comparison failed in round r0, so it sent no
   PREPARE(r0, .) -- not in P; otherwise the bottom PRE-PREPARE(c0, y0), c0 > r0, was justified, hence y0 = v by the claim
   for earlier positions (every prepare quorum meets P), and the member's comparison rejects v -- but it sent PREPARE(r0, v),
   which needs the verdict "accept" on v.  Every later commit quorum rests on a prepare quorum, which meets P. *)
From Coq Require Import List NArith Arith Bool Lia.
From Charon Require Import Common.Quorum Qbft.Model Qbft.Monitor Qbft.ModelFacts Qbft.Inv Qbft.Card Qbft.Net Qbft.NetInv
  Qbft.Agreement Qbft.CmpInv.
Import ListNotations.
Set Warnings "-unused-intro-pattern".

Section AgreeCmp.
Variables (acc rej : nat -> N -> Prop) (c : cfg) (nt : net) (tr : list (nat * label)).
Hypothesis Hexcl : forall i x, acc i x -> rej i x -> False.
Hypothesis Hwf : wf_cfg c.
Hypothesis CI : cinv acc rej c nt tr.

Let n := c_n c.
Let q := qc c.
Let hon := c_honest c.
Let byz := byz_count n hon.

Lemma cq_pos : 1 <= q. Proof. exact (q_pos c Hwf). Qed.
Lemma cn_pos : 1 <= n. Proof. exact (n_pos c Hwf). Qed.
Lemma cbyz_le_f : byz <= faulty n. Proof. exact (byz_le_f c Hwf). Qed.
Lemma cbyz_lt_q : byz < q. Proof. exact (byz_lt_q c Hwf). Qed.
Lemma ctwo_q : n + byz < q + q. Proof. exact (two_q c Hwf). Qed.

Lemma csent_good : forall b, In b (sent nt) -> good c (src b).
Proof. exact (c_sent acc rej c nt tr CI). Qed.

Lemma csent_prepare_uniq : forall y1 y2, In y1 (sent nt) -> In y2 (sent nt) -> src y1 = src y2 ->
  ty y1 = Prepare -> ty y2 = Prepare -> rnd y1 = rnd y2 -> val y1 = val y2.
Proof.
  intros y1 y2 H1 H2 Hs T1 T2 Hr.
  pose proof (c_linv acc rej c nt tr CI (src y1) (csent_good y1 H1)) as L.
  apply (l_prep_uniq _ _ _ L y1 y2); auto using own_intro. rewrite Hs. apply own_intro. exact H2.
Qed.

Lemma csent_commit_uniq : forall y1 y2, In y1 (sent nt) -> In y2 (sent nt) -> src y1 = src y2 ->
  ty y1 = Commit -> ty y2 = Commit -> rnd y1 = rnd y2 -> val y1 = val y2.
Proof.
  intros y1 y2 H1 H2 Hs T1 T2 Hr.
  pose proof (c_linv acc rej c nt tr CI (src y1) (csent_good y1 H1)) as L.
  apply (l_commit_uniq _ _ _ L y1 y2); auto using own_intro. rewrite Hs. apply own_intro. exact H2.
Qed.

Lemma csent_prepare_facts : forall y, In y (sent nt) -> ty y = Prepare -> val y <> 0%N /\ acc (src y) (val y).
Proof.
  intros y H T. destruct (in_split y (sent nt) H) as [p1 [p2 Hs]].
  destruct (c_cprep acc rej c nt tr CI p1 y p2 Hs T) as [A [B _]]. auto.
Qed.

(* P: honest members that sent PREPARE(r0, v); together with any quorum they exceed n *)
Definition prepset (r0 : nat) (v : N) (P : list nat) : Prop :=
  NoDup P /\ below n P /\ n + 1 <= q + length P /\
  forall d, In d P -> good c d /\
    exists pm, In pm (sent nt) /\ src pm = d /\ ty pm = Prepare /\ rnd pm = r0 /\ val pm = v.

(* a duplicate-free list of at least q sources below n has a member in P *)
Lemma meets_prepset : forall r0 v P S, prepset r0 v P -> NoDup S -> below n S -> q <= length S ->
  exists h, In h P /\ In h S.
Proof.
  intros r0 v P S [P1 [P2 [P3 _]]] S1 S2 S3.
  pose proof (inter_length n S P S1 P1 S2 P2) as Hint.
  destruct (filter (fun z => mem z S) P) as [|h rest] eqn:Ed; [simpl in Hint; lia|].
  assert (Hh : In h (filter (fun z => mem z S) P)) by (rewrite Ed; left; reflexivity).
  apply filter_In in Hh. destruct Hh as [H1 H2]. apply mem_In in H2. exists h. auto.
Qed.

(* A justification for round r > r0 whose parts are deliverable from a prefix [pre] of [sent], in which every later-round
   PREPARE of a member of P is for v, justifies only v. *)
Lemma just_lock : forall r0 v Lk P pre, locked c nt r0 v Lk -> prepset r0 v P -> 1 <= r0 ->
  (forall y, In y pre -> In y (sent nt)) ->
  (forall y, In y pre -> ty y = Prepare -> r0 < rnd y -> In (src y) P -> val y = v) ->
  forall J r x, r0 < r -> (forall y, In y J -> deliv c pre y) -> contains_jqrc q J r = Some x -> x = v /\ x <> 0%N.
Proof.
  intros r0 v Lk P pre [HLnd [HLb [HLlen HLk]]] HP Hr0 Hpre_sent IH J r x Hr HJ Hc.
  pose proof cq_pos as Hq.
  destruct (contains_jqrc_spec q J r x Hq Hc) as [qrc [Q1 [Q2 [Q3 Q4]]]].
  (* a locker among the round-change quorum *)
  assert (HS1b : below n (map src qrc)).
  { intros z Hz. apply in_map_iff in Hz. destruct Hz as [y [Hy1 Hy2]]. subst z. destruct (Q3 y Hy2) as [Hy3 _]. exact (deliv_below _ _ _ (HJ y Hy3)). }
  pose proof (inter_length n (map src qrc) Lk Q2 HLnd HS1b HLb) as Hint. rewrite map_length in Hint.
  destruct (filter (fun z => mem z (map src qrc)) Lk) as [|d rest] eqn:Ed; [simpl in Hint; fold n q in HLlen; lia|].
  assert (Hd : In d (filter (fun z => mem z (map src qrc)) Lk)) by (rewrite Ed; left; reflexivity).
  apply filter_In in Hd. destruct Hd as [HdL HdS]. apply mem_In in HdS. apply in_map_iff in HdS. destruct HdS as [rc [Hrc1 Hrc2]].
  destruct (Q3 rc Hrc2) as [HrcJ [HrcT HrcR]].
  destruct (HLk d HdL) as [Hgd [cm [C1 [C2 [C3 [C4 C5]]]]]].
  assert (Hrc_pre : In rc pre) by (apply (deliv_honest_in c); [apply HJ; exact HrcJ | rewrite Hrc1; exact (proj2 Hgd)]).
  pose proof (c_linv acc rej c nt tr CI d Hgd) as Ld.
  assert (Hlock : rnd cm <= pr rc /\ (rnd cm = pr rc -> val cm = pv rc)).
  { apply (l_rc_lock _ _ _ Ld cm rc); auto.
    - rewrite <- C2. apply own_intro. exact C1.
    - rewrite <- Hrc1. apply own_intro. apply Hpre_sent. exact Hrc_pre.
    - rewrite C4, HrcR. exact Hr. }
  rewrite C4 in Hlock. destruct Hlock as [Hlk1 Hlk2].
  destruct Q4 as [[Hnull _]|[spr [Hsingle Hspr]]]; [destruct (Hnull rc Hrc2); lia|].
  assert (Hspr_ge : r0 <= spr) by (specialize (Hspr rc Hrc2); lia).
  destruct (single_true_spec q J spr x Hq Hsingle) as [PS [P1 [P2 P3]]].
  assert (HS2b : below n (map src PS)).
  { intros z Hz. apply in_map_iff in Hz. destruct Hz as [y [Hy1 Hy2]]. subst z. destruct (P1 y Hy2) as [Hy3 _]. exact (deliv_below _ _ _ (HJ y Hy3)). }
  (* a PREPARE(spr, x) of a member of P among the attached prepares *)
  destruct (meets_prepset r0 v P (map src PS) HP P2 HS2b) as [h [Hh1 Hh2]]; [rewrite map_length; exact P3|].
  destruct HP as [_ [_ [_ HPm]]]. destruct (HPm h Hh1) as [Hgh _].
  apply in_map_iff in Hh2. destruct Hh2 as [yh [Yh1 Yh2]]. destruct (P1 yh Yh2) as [YhJ [YhT [YhR YhV]]].
  assert (Yh_pre : In yh pre) by (apply (deliv_honest_in c); [apply HJ; exact YhJ | rewrite Yh1; exact (proj2 Hgh)]).
  assert (Hxnz : x <> 0%N) by (rewrite <- YhV; apply csent_prepare_facts; [apply Hpre_sent; exact Yh_pre | exact YhT]).
  split; [|exact Hxnz].
  destruct (Nat.eq_dec r0 spr) as [Heq|Hne].
  - (* the prepared round is the locked round: two prepare quorums of round r0 share an honest member *)
    destruct (c_ccommit acc rej c nt tr CI cm C1 C3) as [L [HL1 HL2]]. rewrite C4, C5 in HL2. fold q in HL2.
    destruct (nsrc_sources _ L q HL2) as [S3 [S3a [S3b S3c]]].
    assert (HS3b : below n S3).
    { intros z Hz. destruct (S3c z Hz) as [y [Hy1 [_ Hy3]]]. subst z. exact (deliv_below _ _ _ (HL1 y Hy1)). }
    destruct (inter_honest n hon (map src PS) S3 P2 S3a HS2b HS3b) as [h' [G1 [G2 G3]]];
      [rewrite map_length; pose proof ctwo_q; lia|].
    apply in_map_iff in G1. destruct G1 as [y2 [Y2a Y2b]]. destruct (P1 y2 Y2b) as [Y2J [Y2T [Y2R Y2V]]].
    destruct (S3c h' G2) as [y3 [Y3a [Y3b Y3c]]]. apply f_trv_spec in Y3b. destruct Y3b as [Y3T [Y3R Y3V]].
    assert (Y2s : In y2 (sent nt)) by (apply Hpre_sent; apply (deliv_honest_in c); [apply HJ; exact Y2J | rewrite Y2a; exact G3]).
    assert (Y3s : In y3 (sent nt)) by (apply (deliv_honest_in c); [apply HL1; exact Y3a | rewrite Y3c; exact G3]).
    rewrite <- Y2V, <- Y3V. apply csent_prepare_uniq; auto; congruence.
  - rewrite <- YhV. apply IH; auto; [lia | rewrite Yh1; exact Hh1].
Qed.

(* Once (r0, v) is locked, every PREPARE for a later round OF A MEMBER OF P is for v. *)
Lemma lock_prepares_cmp : forall r0 v Lk P, locked c nt r0 v Lk -> prepset r0 v P -> 1 <= r0 ->
  forall k pre b post, length pre = k -> sent nt = pre ++ b :: post -> ty b = Prepare -> r0 < rnd b -> In (src b) P ->
  val b = v.
Proof.
  intros r0 v Lk P HL HP Hr0.
  induction k as [k IH] using lt_wf_ind. intros pre b post Hk Hsent Hty Hr HbP.
  assert (Hpre_sent : forall y, In y pre -> In y (sent nt)) by (intros y Hy; rewrite Hsent; apply in_or_app; left; exact Hy).
  assert (IH' : forall y, In y pre -> ty y = Prepare -> r0 < rnd y -> In (src y) P -> val y = v).
  { intros y Hy T R Py. destruct (in_split y pre Hy) as [p1 [p2 Hp]].
    apply (IH (length p1)) with (pre := p1) (post := p2 ++ b :: post); auto.
    - rewrite <- Hk, Hp, app_length. simpl. lia.
    - rewrite Hsent, Hp, <- app_assoc. reflexivity. }
  destruct (c_cprep acc rej c nt tr CI pre b post Hsent Hty) as [Hv0 [Hcf [H1|[[J [x [HJ [Hc Hx]]]]|[cc [Hcc Hch]]]]]]; [lia| |].
  - fold q in Hc. destruct (just_lock r0 v Lk P pre HL HP Hr0 Hpre_sent IH' J (rnd b) x Hr HJ Hc) as [Hxv Hxnz].
    destruct Hx as [Hx|Hx]; [contradiction | congruence].
  - exfalso. destruct Hch as [c0 [K1 [K2 K3]]].
    destruct HP as [HP1 [HP2 [HP3 HPm]]]. destruct (HPm (src b) HbP) as [Hgb [pm [M1 [M2 [M3 [M4 M5]]]]]].
    destruct (le_lt_dec c0 r0) as [Hle|Hgt].
    + (* the member's comparison failed in round r0 itself *)
      assert (Hf : failed tr (src b) r0) by (apply K2; lia).
      destruct (c_failed acc rej c nt tr CI (src b) Hgb r0 Hf) as [F1 _].
      apply (F1 pm); auto. rewrite <- M2. apply own_intro. exact M1.
    + (* the bottom of the chain was justified above r0: it carried v, which the member's comparison rejects *)
      destruct K3 as [K3|[J [x [y0 [J1 [J2 [J3 [J4 J5]]]]]]]]; [lia|]. fold q in J2.
      destruct (just_lock r0 v Lk P pre HL (conj HP1 (conj HP2 (conj HP3 HPm))) Hr0 Hpre_sent IH' J c0 x Hgt J1 J2) as [Hxv Hxnz].
      destruct J3 as [J3|J3]; [contradiction|]. subst y0 x.
      destruct (csent_prepare_facts pm M1 M3) as [_ Hok]. rewrite M2, M5 in Hok. exact (Hexcl _ _ Hok J5).
Qed.

Lemma cdecided_quorum : forall i, good c i -> decided (nst nt i) = true ->
  exists S, NoDup S /\ below n S /\ q <= length S /\
    forall x, In x S -> hon x = true ->
      exists cm, In cm (sent nt) /\ src cm = x /\ ty cm = Commit /\ rnd cm = round (nst nt i) /\ val cm = qcommitV (nst nt i).
Proof.
  intros i Hg Hd.
  pose proof (i_qc _ _ (c_inv acc rej c nt tr CI i Hg) Hd) as Hq. change (qn (pp c i)) with q in Hq.
  destruct (nsrc_sources _ _ q Hq) as [S [S1 [S2 S3]]].
  exists S. split; [exact S1|]. split; [|split; [exact S2|]].
  - intros x Hx. destruct (S3 x Hx) as [y [Y1 [_ Y3]]]. subst x. exact (deliv_below _ _ _ (c_qcm acc rej c nt tr CI i Hg y Y1)).
  - intros x Hx Hh. destruct (S3 x Hx) as [y [Y1 [Y2 Y3]]]. apply f_trv_spec in Y2. destruct Y2 as [T [R V]].
    exists y. repeat split; auto. apply (deliv_honest_in c); [exact (c_qcm acc rej c nt tr CI i Hg y Y1) | rewrite Y3; exact Hh].
Qed.

Lemma honest_part_meets : forall S, NoDup S -> below n S -> q <= length S -> n + 1 <= q + length (filter hon S).
Proof.
  intros S S1 S2 S3. pose proof (honest_part_length n hon S S1 S2) as H1. fold byz in H1. pose proof ctwo_q. lia.
Qed.

Lemma cdecided_locks : forall i, good c i -> decided (nst nt i) = true ->
  exists Lk, locked c nt (round (nst nt i)) (qcommitV (nst nt i)) Lk.
Proof.
  intros i Hg Hd. destruct (cdecided_quorum i Hg Hd) as [S [S1 [S2 [S3 S4]]]].
  exists (filter hon S). unfold locked.
  assert (Hb : below n (filter hon S)) by (intros x Hx; apply filter_In in Hx; apply S2; tauto).
  split; [apply NoDup_filter'; exact S1|]. split; [exact Hb|]. split.
  - exact (honest_part_meets S S1 S2 S3).
  - intros d Hd'. apply filter_In in Hd'. destruct Hd' as [D1 D2]. split; [split; [apply S2; exact D1 | exact D2]|].
    exact (S4 d D1 D2).
Qed.

(* the honest senders of the PREPARE(r0, v) quorum behind a locker's COMMIT(r0, v) *)
Lemma locked_prepset : forall r0 v Lk, locked c nt r0 v Lk -> 1 <= r0 /\ exists P, prepset r0 v P.
Proof.
  intros r0 v Lk [HLnd [HLb [HLlen HLk]]].
  assert (Hqn : q <= n) by exact (quorum_le_n n cn_pos).
  destruct Lk as [|d Lk']; [simpl in HLlen; fold n q in HLlen; lia|].
  destruct (HLk d (or_introl eq_refl)) as [Hgd [cm [C1 [C2 [C3 [C4 C5]]]]]].
  split.
  - pose proof (c_linv acc rej c nt tr CI d Hgd) as L. rewrite <- C4. apply (l_commit_pos _ _ _ L cm); [|exact C3].
    rewrite <- C2. apply own_intro. exact C1.
  - destruct (c_ccommit acc rej c nt tr CI cm C1 C3) as [L [HL1 HL2]]. rewrite C4, C5 in HL2. fold q in HL2.
    destruct (nsrc_sources _ L q HL2) as [S [S1 [S2 S3]]].
    assert (Sb : below n S) by (intros x Hx; destruct (S3 x Hx) as [y [Y1 [_ Y3]]]; subst x; exact (deliv_below _ _ _ (HL1 y Y1))).
    exists (filter hon S). split; [apply NoDup_filter'; exact S1|]. split; [|split].
    + intros x Hx. apply filter_In in Hx. apply Sb. tauto.
    + exact (honest_part_meets S S1 Sb S2).
    + intros h Hh. apply filter_In in Hh. destruct Hh as [H1 H2]. split; [split; [apply Sb; exact H1 | exact H2]|].
      destruct (S3 h H1) as [y [Y1 [Y2 Y3]]]. apply f_trv_spec in Y2. destruct Y2 as [T [R V]].
      exists y. repeat split; auto. apply (deliv_honest_in c); [exact (HL1 y Y1) | rewrite Y3; exact H2].
Qed.

Lemma cagree_le : forall i j, good c i -> good c j -> decided (nst nt i) = true -> decided (nst nt j) = true ->
  round (nst nt i) <= round (nst nt j) -> qcommitV (nst nt i) = qcommitV (nst nt j).
Proof.
  intros i j Hgi Hgj Hdi Hdj Hle.
  destruct (cdecided_quorum i Hgi Hdi) as [Si [Si1 [Si2 [Si3 Si4]]]].
  destruct (cdecided_quorum j Hgj Hdj) as [Sj [Sj1 [Sj2 [Sj3 Sj4]]]].
  destruct (Nat.eq_dec (round (nst nt i)) (round (nst nt j))) as [Heq|Hne].
  - (* same round: the two commit quorums share an honest member, which commits once per round *)
    destruct (inter_honest n hon Si Sj Si1 Sj1 Si2 Sj2) as [h [H1 [H2 H3]]]; [pose proof ctwo_q; lia|].
    destruct (Si4 h H1 H3) as [ci [A1 [A2 [A3 [A4 A5]]]]]. destruct (Sj4 h H2 H3) as [cj [B1 [B2 [B3 [B4 B5]]]]].
    rewrite <- A5, <- B5. apply csent_commit_uniq; auto; congruence.
  - (* a later round: an honest member of the later commit quorum committed on a prepare quorum, which holds a
       PREPARE of a member of P; the lock of the earlier decision forces its value *)
    destruct (cdecided_locks i Hgi Hdi) as [Lk HLk].
    destruct (locked_prepset _ _ Lk HLk) as [Hr0 [P HP]].
    destruct (has_honest n hon Sj Sj1 Sj2) as [h [H1 H2]]; [pose proof cbyz_lt_q; lia|].
    destruct (Sj4 h H1 H2) as [cj [B1 [B2 [B3 [B4 B5]]]]].
    destruct (c_ccommit acc rej c nt tr CI cj B1 B3) as [L [L1 L2]]. fold q in L2.
    destruct (nsrc_sources _ L q L2) as [S [S1 [S2 S3]]].
    assert (Sb : below n S) by (intros x Hx; destruct (S3 x Hx) as [y [Y1 [_ Y3]]]; subst x; exact (deliv_below _ _ _ (L1 y Y1))).
    destruct (meets_prepset _ _ P S HP S1 Sb S2) as [h' [G1 G2]].
    assert (G3 : hon h' = true) by (destruct HP as [_ [_ [_ HPm]]]; destruct (HPm h' G1) as [[_ Hh] _]; exact Hh).
    destruct (S3 h' G2) as [y [Y1 [Y2 Y3]]]. apply f_trv_spec in Y2. destruct Y2 as [T [R V]].
    assert (Ys : In y (sent nt)) by (apply (deliv_honest_in c); [exact (L1 y Y1) | rewrite Y3; exact G3]).
    destruct (in_split y (sent nt) Ys) as [p1 [p2 Hs]].
    rewrite <- B5, <- V. symmetry.
    apply (lock_prepares_cmp _ _ Lk P HLk HP Hr0 (length p1) p1 y p2 eq_refl Hs T); [rewrite R, B4; lia | rewrite Y3; exact G1].
Qed.

Theorem agreement_states_cmp : forall i j, good c i -> good c j -> decided (nst nt i) = true -> decided (nst nt j) = true ->
  qcommitV (nst nt i) = qcommitV (nst nt j).
Proof.
  intros i j Hgi Hgj Hdi Hdj.
  destruct (Nat.le_ge_cases (round (nst nt i)) (round (nst nt j))) as [H|H].
  - apply cagree_le; assumption.
  - symmetry. apply cagree_le; assumption.
Qed.

End AgreeCmp.

(* ---- reachable states and traces ---- *)

Lemma trace_cmp_gen_snoc : forall acc rej tr i l, trace_cmp_gen acc rej (tr ++ [(i, l)]) -> trace_cmp_gen acc rej tr /\ label_cmp_gen acc rej i l.
Proof.
  intros acc rej tr i l H. split.
  - intros j l' Hin. apply H. apply in_or_app. left. exact Hin.
  - apply H. apply in_or_app. right. left. reflexivity.
Qed.

Lemma nreach_cinv : forall acc rej c nt tr, wf_cfg c -> nreach c nt tr -> trace_cmp_gen acc rej tr -> cinv acc rej c nt tr.
Proof.
  intros acc rej c nt tr Hwf H. induction H as [|nt tr i l nt' Hr IH Hs]; intro Hc.
  - apply cinv_init.
  - destruct (trace_cmp_gen_snoc acc rej tr i l Hc) as [Hc1 Hc2].
    eapply cinv_step; [exact Hwf | apply IH; exact Hc1 | exact Hs | exact Hc2].
Qed.

Lemma nreach_dec_inv_cmp : forall acc rej c nt tr, wf_cfg c -> nreach c nt tr -> trace_cmp_gen acc rej tr -> dec_inv c nt tr.
Proof.
  intros acc rej c nt tr Hwf H. induction H as [|nt tr i l nt' Hr IH Hs]; intro Hc.
  - intros i v r [].
  - destruct (trace_cmp_gen_snoc acc rej tr i l Hc) as [Hc1 Hc2].
    specialize (IH Hc1). pose proof (nreach_cinv acc rej c nt tr Hwf Hr Hc1) as NI.
    inversion Hs as [nt0 i0 l0 s' Hgood Hstep Hdel]; subst nt0 i0 l0.
    pose proof (step_fstep _ _ _ _ Hstep) as Hf.
    intros j v r Hin. rewrite trace_decides_app in Hin. apply in_app_or in Hin. simpl. destruct Hin as [Hin|Hin].
    + destruct (IH j v r Hin) as [Hg [Hd [Hv Hrd]]]. split; [exact Hg|].
      destruct (Nat.eq_dec j i) as [->|Hne].
      * rewrite upd_same. destruct (fstep_decided_persist _ _ _ _ _ _ (c_inv acc rej c nt tr NI i Hgood) Hf Hd) as [Hq [Hv' Hr']].
        unfold decided in *. rewrite Hq, Hv', Hr'. auto.
      * rewrite upd_other by assumption. auto.
    + unfold trace_decides in Hin. simpl in Hin. rewrite app_nil_r in Hin. apply in_map_iff in Hin.
      destruct Hin as [[[v0 r0] qcm] [He Hd]]. simpl in He. inversion He; subst j v r.
      unfold decides_of in Hd. apply in_flat_map in Hd. destruct Hd as [o [Ho1 Ho2]].
      destruct o; simpl in Ho2; try contradiction. destruct Ho2 as [Ho2|[]]. inversion Ho2; subst.
      destruct (fstep_decide_out _ _ _ _ _ _ Hf _ _ _ Ho1) as [_ [Hq [Hv Hrd]]].
      rewrite upd_same. split; [exact Hgood|]. split; [|auto].
      unfold decided. rewrite Hq.
      pose proof (c_inv acc rej c nt tr NI i Hgood) as Hinv.
      assert (Hnp : 1 <= nodes (pp c i)) by exact (proj1 Hwf).
      destruct qcm as [|x qcm']; [|reflexivity]. exfalso.
      pose proof (fstep_mon3 (pp c i) (nst nt i) l _ s' Hnp Hinv Hf) as [Hc' _].
      destruct (fstep_decide_out _ _ _ _ _ _ Hf _ _ _ Ho1) as [Hnd _].
      unfold check3, ghost_of in Hc'. simpl in Hc'. rewrite Hnd in Hc'.
      assert (Hdec : In (v0, r0, @nil bmsg) (decides_of (label_outs l))).
      { unfold decides_of. apply in_flat_map. exists (Decide v0 r0 []). split; [exact Ho1 | left; reflexivity]. }
      destruct (decides_of (label_outs l)) as [|[[v1 r1] q1] [|d2 rest]] eqn:Ed; try contradiction; try discriminate.
      destruct Hdec as [Hdec|[]]. inversion Hdec; subst. apply Nat.leb_le in Hc'. unfold nsrc in Hc'. simpl in Hc'.
      pose proof (quorum_pos (c_n c) (proj1 Hwf)). unfold qn in Hc'. simpl in Hc'. lia.
Qed.

(* Generic form: successful comparisons satisfy acc, failed ones rej, and no (member, value) satisfies both. *)
Theorem agreement_gen : forall (acc rej : nat -> N -> Prop) c nt tr, (forall i x, acc i x -> rej i x -> False) ->
  wf_cfg c -> nreach c nt tr -> trace_cmp_gen acc rej tr ->
  forall i v r j v' r', In (i, v, r) (trace_decides tr) -> In (j, v', r') (trace_decides tr) -> v = v'.
Proof.
  intros acc rej c nt tr Hex Hwf Hr Hc i v r j v' r' Hi Hj.
  pose proof (nreach_cinv acc rej c nt tr Hwf Hr Hc) as NI.
  pose proof (nreach_dec_inv_cmp acc rej c nt tr Hwf Hr Hc) as DI.
  destruct (DI i v r Hi) as [Hgi [Hdi [Hvi _]]]. destruct (DI j v' r' Hj) as [Hgj [Hdj [Hvj _]]].
  rewrite <- Hvi, <- Hvj. apply (agreement_states_cmp acc rej c nt tr Hex Hwf NI); assumption.
Qed.

(* C02 agreement with compare failures: if every completed comparison answers a fixed function cf of (member, value),
   any two Decide callbacks of honest members, anywhere in any execution of the network semantics, carry the same value. *)
Theorem agreement_cmp : forall cf c nt tr, wf_cfg c -> nreach c nt tr -> trace_cmp_fun cf tr ->
  forall i v r j v' r', In (i, v, r) (trace_decides tr) -> In (j, v', r') (trace_decides tr) -> v = v'.
Proof. intros cf c nt tr. exact (agreement_gen (acc_of cf) (rej_of cf) c nt tr (acc_rej_excl cf)). Qed.

(* the invariant for a verdict function *)
Definition cinvf (cf : nat -> N -> bool) : cfg -> net -> list (nat * label) -> Prop := cinv (acc_of cf) (rej_of cf).

Theorem agreement_states_cmpf : forall cf c nt tr, wf_cfg c -> cinvf cf c nt tr ->
  forall i j, good c i -> good c j -> decided (nst nt i) = true -> decided (nst nt j) = true ->
  qcommitV (nst nt i) = qcommitV (nst nt j).
Proof. intros cf c nt tr. exact (agreement_states_cmp (acc_of cf) (rej_of cf) c nt tr (acc_rej_excl cf)). Qed.

Theorem nreach_cinvf : forall cf c nt tr, wf_cfg c -> nreach c nt tr -> trace_cmp_fun cf tr -> cinvf cf c nt tr.
Proof. intros cf. exact (nreach_cinv (acc_of cf) (rej_of cf)). Qed.

(* ---- executable forms of the hypothesis ---- *)

(* the verdict function read off a trace: member i's comparison rejects x iff it failed on x somewhere in tr *)
Definition cf_of (tr : list (nat * label)) (i : nat) (x : N) : bool :=
  existsb (fun e => (fst e =? i) && match consulted (snd e) with Some (y, CmpFail) => N.eqb y x | _ => false end) tr.

(* no (member, value) with both a failed and a successful comparison *)
Definition trace_cmp_fun_b (tr : list (nat * label)) : bool :=
  forallb (fun e => match consulted (snd e) with Some (x, CmpOk) => negb (cf_of tr (fst e) x) | _ => true end) tr.

Lemma trace_cmp_fun_b_sound : forall tr, trace_cmp_fun_b tr = true -> trace_cmp_fun (cf_of tr) tr.
Proof.
  intros tr H i l Hin. unfold label_cmp_gen, acc_of, rej_of. destruct (consulted l) as [[x cm]|] eqn:Ec; [|exact I].
  destruct cm; [| |exact I].
  - unfold trace_cmp_fun_b in H. rewrite forallb_forall in H. specialize (H (i, l) Hin). simpl in H. rewrite Ec in H.
    apply negb_true_iff. exact H.
  - unfold cf_of. apply existsb_exists. exists (i, l). split; [exact Hin|]. simpl. rewrite Ec, Nat.eqb_refl, N.eqb_refl. reflexivity.
Qed.

(* executions without compare failures satisfy the hypothesis (verdict function: accept everything) *)
Lemma nofail_cmp_fun : forall tr, trace_nofail tr -> trace_cmp_fun (fun _ _ => false) tr.
Proof.
  intros tr H i l Hin. unfold label_cmp_gen, acc_of, rej_of. destruct (consulted l) as [[x cm]|] eqn:Ec; [|exact I].
  destruct cm; [reflexivity | | exact I].
  specialize (H i l Hin). destruct l as [o|v o|m cm o|o]; simpl in Ec; try discriminate.
  destruct o as [|[] o']; try discriminate. destruct r; try discriminate. inversion Ec; subst. simpl in H. discriminate.
Qed.

(* every global trace the executable replay accepts and whose comparisons are consistent *)
Theorem agreement_cmp_observed : forall c tr nt, wf_cfg c -> nrun c net_init tr = Some nt -> trace_cmp_fun_b tr = true ->
  forall i v r j v' r', In (i, v, r) (trace_decides tr) -> In (j, v', r') (trace_decides tr) -> v = v'.
Proof.
  intros c tr nt Hw Hr Hb. exact (agreement_cmp (cf_of tr) c nt tr Hw (nrun_sound c tr nt Hr) (trace_cmp_fun_b_sound tr Hb)).
Qed.

(* ---- readings of the invariant on reachable states ---- *)

(* a member whose comparison failed in round r never broadcasts a PREPARE for round r *)
Theorem failed_round_no_prepare : forall cf c nt tr, wf_cfg c -> nreach c nt tr -> trace_cmp_fun cf tr ->
  forall i r, good c i -> failed tr i r -> forall b, In b (sent nt) -> src b = i -> ty b = Prepare -> rnd b <> r.
Proof.
  intros cf c nt tr Hwf Hr Hc i r Hg Hf b Hb Hs Hty.
  destruct (c_failed _ _ c nt tr (nreach_cinvf cf c nt tr Hwf Hr Hc) i Hg r Hf) as [F _].
  apply (F b); [rewrite <- Hs; apply own_intro; exact Hb | exact Hty].
Qed.

(* an honest PREPARE carries a non-zero value that its sender's comparison accepts *)
Theorem prepare_value_accepted : forall cf c nt tr, wf_cfg c -> nreach c nt tr -> trace_cmp_fun cf tr ->
  forall b, In b (sent nt) -> ty b = Prepare -> val b <> 0%N /\ cf (src b) (val b) = false.
Proof.
  intros cf c nt tr Hwf Hr Hc b Hb Hty.
  exact (csent_prepare_facts _ _ c nt tr (nreach_cinvf cf c nt tr Hwf Hr Hc) b Hb Hty).
Qed.
