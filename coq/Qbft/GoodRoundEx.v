(* Non-vacuity of the good-round theorems: concrete n = 4 executions of the closed system (one
   process crashed) evaluated by vm_compute; they satisfy the hypotheses of the theorems and all
   three running processes reach Decide. *)
From Coq Require Import List NArith Arith Bool Lia.
From Charon Require Import Common.Quorum Qbft.Model Qbft.ModelFacts Qbft.GoodRound Qbft.GoodRoundFacts.
Import ListNotations.

(* ------------------------------------------------------------------------------------------ *)
(* Executable form of the closed system                                                        *)

Section Exec.
Variables (n fifo_ : nat) (ld : nat -> nat) (R : list nat).

(* candidate choices of Go's map order for one delivery, most specific first *)
Definition first_per_src (f : bmsg -> bool) (all : list bmsg) : list bmsg := uniq_first [] (filter f all).

Definition cands (s : state) (m : msg) : list oracle :=
  let all := flat (buffer_add fifo_ (buffer s) m) in
  let b := main m in
  [ mko JustPrePrepare [] 0; mko QPrepares [] 0;
    mko QCommits (first_per_src (f_trv Commit (rnd b) (val b)) all) 0;
    mko JustDecided [] 0;
    mko QRC (first_per_src (f_rc_null (rnd b)) all) 0;
    mko UnjustQRC [] 0; mko Nothing [] 0 ].

Fixpoint first_ok (i : nat) (s : state) (m : msg) (os : list oracle) : option (state * list output) :=
  match os with
  | [] => None
  | o :: r => match fstep (pp n fifo_ ld i) s (ERecv m CmpOk) o with Some x => Some x | None => first_ok i s m r end
  end.

(* schedule entry (i, k): deliver the k-th message of the pool to process i *)
Fixpoint gexec (g : gcfg) (sc : list (nat * nat)) : option gcfg :=
  match sc with
  | [] => Some g
  | (i, k) :: rest =>
      if memn i R then
        match nth_error (pool g) k with
        | Some m =>
            match first_ok i (gst g i) m (cands (gst g i) m) with
            | Some (s', outs) =>
                gexec (mkg (upd (gst g) i s') (pool g ++ bcasts outs)
                           (upd (seen g) i (seen g i ++ [m])) (gdecs g ++ decides i outs)) rest
            | None => None
            end
        | None => None
        end
      else None
  end.

Lemma first_ok_sound : forall i s m os x, first_ok i s m os = Some x ->
  exists o, fstep (pp n fifo_ ld i) s (ERecv m CmpOk) o = Some x.
Proof.
  intros i s m os x. induction os as [|o os IH]; cbn [first_ok]; [discriminate|].
  destruct (fstep (pp n fifo_ ld i) s (ERecv m CmpOk) o) eqn:E; [intro H; inversion H; subst; eauto | exact IH].
Qed.

Lemma gsteps_cons : forall g g1 g2, gstep n fifo_ ld R g g1 -> gsteps n fifo_ ld R g1 g2 -> gsteps n fifo_ ld R g g2.
Proof.
  intros g g1 g2 H1 H2. induction H2 as [g1|g1 g2 g3 H2 IH H3].
  - eapply GSS; [apply GS0 | exact H1].
  - eapply GSS; [apply IH; exact H1 | exact H3].
Qed.

Lemma gexec_sound : forall sc g g', gexec g sc = Some g' -> gsteps n fifo_ ld R g g'.
Proof.
  induction sc as [|[i k] sc IH]; cbn [gexec]; intros g g' H.
  - inversion H; subst. apply GS0.
  - destruct (memn i R) eqn:Ei; [|discriminate]. apply memn_In in Ei.
    destruct (nth_error (pool g) k) as [m|] eqn:Em; [|discriminate]. apply nth_error_In in Em.
    destruct (first_ok i (gst g i) m _) as [[s' outs]|] eqn:Ef; [|discriminate].
    apply first_ok_sound in Ef. destruct Ef as [o Ef].
    eapply gsteps_cons; [|apply IH; exact H]. econstructor; eassumption.
Qed.

End Exec.

(* ------------------------------------------------------------------------------------------ *)
(* n = 4, process 3 crashed, round-robin leader: round 1 is led by process 1                   *)

Definition ld4 : nat -> nat := lead_rr 0 4.
Definition R4 : list nat := [0; 1; 2].
Definition o0 : oracle := mko Nothing [] 0.

Definition after_start (i : nat) : state :=
  match fstep (pp 4 64 ld4 i) init EStart o0 with Some (s, _) => s | None => init end.
Definition leader_in (v : N) : state :=
  match fstep (pp 4 64 ld4 1) (after_start 1) (EInput v) o0 with Some (s, _) => s | None => init end.

Definition pp1 : msg := mkm (mk PrePrepare 1 1 7 0 0) [].

(* the leader's input has arrived, its PRE-PREPARE(1, 7) is in flight *)
Definition g1_0 : gcfg :=
  mkg (fun i => if i =? 1 then leader_in 7 else after_start i) [pp1] (fun _ => []) [].

Example leader_input_broadcasts :
  fstep (pp 4 64 ld4 1) (after_start 1) (EInput 7) o0
  = Some (leader_in 7, [Bcast (mk PrePrepare 1 1 7 0 0) []]).
Proof. vm_compute. reflexivity. Qed.

(* an interleaved delivery order with duplicates: pool indices 0 = PRE-PREPARE, then PREPAREs and
   COMMITs in the order they get broadcast *)
Definition sched1 : list (nat * nat) :=
  [(0,0); (0,1); (1,0); (2,0); (0,0); (2,1); (2,2); (2,3); (1,3); (1,2); (1,1); (2,4);
   (0,2); (0,3); (0,4); (1,4); (0,5); (1,5); (2,5); (0,6); (1,6); (2,6); (1,6)].

Definition delivered_all_b (R : list nat) (g : gcfg) : bool :=
  forallb (fun i => forallb (fun m => existsb (meq m) (seen g i)) (pool g)) R.

Lemma delivered_all_b_sound : forall R g, delivered_all_b R g = true -> delivered_all R g.
Proof.
  intros R g H i m Hi Hm. unfold delivered_all_b in H. rewrite forallb_forall in H. specialize (H i Hi).
  rewrite forallb_forall in H. specialize (H m Hm). apply existsb_exists in H. destruct H as [m' [H1 H2]].
  apply meq_eq in H2. subst. assumption.
Qed.

Lemma filter_length_le : forall {A} (f : A -> bool) l, length (filter f l) <= length l.
Proof. intros A f l. induction l as [|x l IH]; simpl; [lia|]. destruct (f x); simpl; lia. Qed.

(* fifo_ok from: empty initial buffers and at most fifo deliveries per process *)
Lemma fifo_ok_simple : forall fifo_ R g0 g,
  (forall i, In i R -> buffer (gst g0 i) = []) -> (forall i, In i R -> length (seen g i) <= fifo_) ->
  fifo_ok fifo_ R g0 g.
Proof.
  intros fifo_ R g0 g H1 H2 i s Hi. rewrite (H1 i Hi). simpl.
  pose proof (filter_length_le (from_src s) (seen g i)). specialize (H2 i Hi). lia.
Qed.

Definition g1_end : gcfg := match gexec 4 64 ld4 R4 g1_0 sched1 with Some g => g | None => g1_0 end.

Example ex1_run : gexec 4 64 ld4 R4 g1_0 sched1 = Some g1_end.
Proof. vm_compute. reflexivity. Qed.

Example ex1_decides : gdecs g1_end = [(0, 7%N, 1); (1, 7%N, 1); (2, 7%N, 1)] /\ delivered_all_b R4 g1_end = true.
Proof. vm_compute. split; reflexivity. Qed.

Lemma in_R4 : forall i (P : nat -> Prop), P 0 -> P 1 -> P 2 -> In i R4 -> P i.
Proof. intros i P H0 H1 H2 [<-|[<-|[<-|[]]]]; assumption. Qed.

Lemma ex1_pool_ok : pool_ok ld4 1 [pp1].
Proof.
  constructor.
  - intros m [<-|[]]. simpl. lia.
  - intros m [<-|[]]. discriminate.
  - intros m m' [<-|[]] [<-|[]] _ _. reflexivity.
  - intros m b [<-|[]] [].
Qed.

Lemma ex1_start_ok : forall i, In i R4 -> start_ok 1 [pp1] i (gst g1_0 i).
Proof.
  intros i Hi. pattern i. apply in_R4; [| | |exact Hi];
    (constructor; try (vm_compute; reflexivity); try (intros k; vm_compute; reflexivity);
     try (intros b Hb; vm_compute in Hb; destruct Hb); try (intro Hx; vm_compute in Hx; discriminate)).
Qed.

(* the hypotheses of good_round_decides_r1 are satisfiable and its conclusion is what we computed *)
Example ex1_theorem_applies :
  (forall i, In i R4 -> exists k, In (i, 7%N, k) (gdecs g1_end))
  /\ (forall i x k, In (i, x, k) (gdecs g1_end) -> x = 7%N /\ k = 1).
Proof.
  apply (good_round_decides_r1 4 64 ld4 R4 g1_0 g1_end 7%N []).
  - lia.
  - repeat constructor; simpl; intuition discriminate.
  - vm_compute. lia.
  - exact ex1_pool_ok.
  - intros m [<-|[]]. discriminate.
  - exact ex1_start_ok.
  - reflexivity.
  - reflexivity.
  - left. reflexivity.
  - discriminate.
  - apply (gexec_sound 4 64 ld4 R4 sched1). exact ex1_run.
  - apply delivered_all_b_sound. vm_compute. reflexivity.
  - apply fifo_ok_simple.
    + intros i Hi. pattern i. apply in_R4; [| | |exact Hi]; vm_compute; reflexivity.
    + intros i Hi. pattern i. apply in_R4; [| | |exact Hi]; vm_compute; lia.
Qed.
