(* Non-vacuity of the good-round theorems: concrete n = 4 executions of the closed system (one
   process crashed) evaluated by vm_compute; they satisfy the hypotheses of the theorems and all
   three running processes reach Decide. *)
From Coq Require Import List NArith Arith Bool Lia.
From Charon Require Import Common.Quorum Qbft.Model Qbft.ModelFacts Qbft.GoodRound Qbft.GoodRoundFacts Qbft.GoodRoundQrc.
Import ListNotations.

(* ------------------------------------------------------------------------------------------ *)
(* Executable form of the closed system                                                        *)

Section Exec.
Variables (n fifo_ : nat) (ld : nat -> nat) (R : list nat).

(* candidate choices of Go's map order for one delivery, most specific first *)
Definition first_per_src (f : bmsg -> bool) (all : list bmsg) : list bmsg := uniq_first [] (filter f all).

Definition cands (s : state) (m : msg) : list oracle :=
  let all := flat (buffer_add fifo_ (buffer s) m) in
  let b := main m in
  [ mko JustPrePrepare [] 0; mko QPrepares [] 0;
    mko QCommits (first_per_src (f_trv Commit (rnd b) (val b)) all) 0;
    mko JustDecided [] 0;
    mko QRC (first_per_src (f_rc_null (rnd b)) all) 0;
    (* a prepared value: ROUND-CHANGEs up to the highest prepared round + the PREPAREs of that key *)
    (let nn := filter (fun x => negb (is_null x)) (filter (f_rc (rnd b)) all) in
     let best := fold_left (fun acc x => if pr acc <? pr x then x else acc) nn (hd b nn) in
     mko QRC (first_per_src (fun x => f_rc (rnd b) x && (pr x <=? pr best)) all
              ++ first_per_src (f_trv Prepare (pr best) (pv best)) all) 0);
    mko UnjustQRC [] 0; mko Nothing [] 0 ].

Fixpoint first_ok (i : nat) (s : state) (m : msg) (os : list oracle) : option (state * list output) :=
  match os with
  | [] => None
  | o :: r => match fstep (pp n fifo_ ld i) s (ERecv m CmpOk) o with Some x => Some x | None => first_ok i s m r end
  end.

(* schedule entry (i, k): deliver the k-th message of the pool to process i *)
Fixpoint gexec (g : gcfg) (sc : list (nat * nat)) : option gcfg :=
  match sc with
  | [] => Some g
  | (i, k) :: rest =>
      if memn i R then
        match nth_error (pool g) k with
        | Some m =>
            match first_ok i (gst g i) m (cands (gst g i) m) with
            | Some (s', outs) =>
                gexec (mkg (upd (gst g) i s') (pool g ++ bcasts outs)
                           (upd (seen g) i (seen g i ++ [m])) (gdecs g ++ decides i outs)) rest
            | None => None
            end
        | None => None
        end
      else None
  end.

Lemma first_ok_sound : forall i s m os x, first_ok i s m os = Some x ->
  exists o, fstep (pp n fifo_ ld i) s (ERecv m CmpOk) o = Some x.
Proof.
  intros i s m os x. induction os as [|o os IH]; cbn [first_ok]; [discriminate|].
  destruct (fstep (pp n fifo_ ld i) s (ERecv m CmpOk) o) eqn:E; [intro H; inversion H; subst; eauto | exact IH].
Qed.

Lemma gsteps_cons : forall g g1 g2, gstep n fifo_ ld R g g1 -> gsteps n fifo_ ld R g1 g2 -> gsteps n fifo_ ld R g g2.
Proof.
  intros g g1 g2 H1 H2. induction H2 as [g1|g1 g2 g3 H2 IH H3].
  - eapply GSS; [apply GS0 | exact H1].
  - eapply GSS; [apply IH; exact H1 | exact H3].
Qed.

Lemma gexec_sound : forall sc g g', gexec g sc = Some g' -> gsteps n fifo_ ld R g g'.
Proof.
  induction sc as [|[i k] sc IH]; cbn [gexec]; intros g g' H.
  - inversion H; subst. apply GS0.
  - destruct (memn i R) eqn:Ei; [|discriminate]. apply memn_In in Ei.
    destruct (nth_error (pool g) k) as [m|] eqn:Em; [|discriminate]. apply nth_error_In in Em.
    destruct (first_ok i (gst g i) m _) as [[s' outs]|] eqn:Ef; [|discriminate].
    apply first_ok_sound in Ef. destruct Ef as [o Ef].
    eapply gsteps_cons; [|apply IH; exact H]. econstructor; eassumption.
Qed.

End Exec.

(* ------------------------------------------------------------------------------------------ *)
(* n = 4, process 3 crashed, round-robin leader: round 1 is led by process 1                   *)

Definition ld4 : nat -> nat := lead_rr 0 4.
Definition R4 : list nat := [0; 1; 2].
Definition o0 : oracle := mko Nothing [] 0.

Definition after_start (i : nat) : state :=
  match fstep (pp 4 64 ld4 i) init EStart o0 with Some (s, _) => s | None => init end.
Definition leader_in (v : N) : state :=
  match fstep (pp 4 64 ld4 1) (after_start 1) (EInput v) o0 with Some (s, _) => s | None => init end.

Definition pp1 : msg := mkm (mk PrePrepare 1 1 7 0 0) [].

(* the leader's input has arrived, its PRE-PREPARE(1, 7) is in flight *)
Definition g1_0 : gcfg :=
  mkg (fun i => if i =? 1 then leader_in 7 else after_start i) [pp1] (fun _ => []) [].

Example leader_input_broadcasts :
  fstep (pp 4 64 ld4 1) (after_start 1) (EInput 7) o0
  = Some (leader_in 7, [Bcast (mk PrePrepare 1 1 7 0 0) []]).
Proof. vm_compute. reflexivity. Qed.

(* an interleaved delivery order with duplicates: pool indices 0 = PRE-PREPARE, then PREPAREs and
   COMMITs in the order they get broadcast *)
Definition sched1 : list (nat * nat) :=
  [(0,0); (0,1); (1,0); (2,0); (0,0); (2,1); (2,2); (2,3); (1,3); (1,2); (1,1); (2,4);
   (0,2); (0,3); (0,4); (1,4); (0,5); (1,5); (2,5); (0,6); (1,6); (2,6); (1,6)].

Definition delivered_all_b (R : list nat) (g : gcfg) : bool :=
  forallb (fun i => forallb (fun m => existsb (meq m) (seen g i)) (pool g)) R.

Lemma delivered_all_b_sound : forall R g, delivered_all_b R g = true -> delivered_all R g.
Proof.
  intros R g H i m Hi Hm. unfold delivered_all_b in H. rewrite forallb_forall in H. specialize (H i Hi).
  rewrite forallb_forall in H. specialize (H m Hm). apply existsb_exists in H. destruct H as [m' [H1 H2]].
  apply meq_eq in H2. subst. assumption.
Qed.

Lemma filter_length_le : forall {A} (f : A -> bool) l, length (filter f l) <= length l.
Proof. intros A f l. induction l as [|x l IH]; simpl; [lia|]. destruct (f x); simpl; lia. Qed.

(* fifo_ok from: empty initial buffers and at most fifo deliveries per process *)
Lemma fifo_ok_simple : forall fifo_ R g0 g,
  (forall i, In i R -> buffer (gst g0 i) = []) -> (forall i, In i R -> length (seen g i) <= fifo_) ->
  fifo_ok fifo_ R g0 g.
Proof.
  intros fifo_ R g0 g H1 H2 i s Hi. rewrite (H1 i Hi). simpl.
  pose proof (filter_length_le (from_src s) (seen g i)). specialize (H2 i Hi). lia.
Qed.

Definition g1_end : gcfg := match gexec 4 64 ld4 R4 g1_0 sched1 with Some g => g | None => g1_0 end.

Example ex1_run : gexec 4 64 ld4 R4 g1_0 sched1 = Some g1_end.
Proof. vm_compute. reflexivity. Qed.

Example ex1_decides : gdecs g1_end = [(0, 7%N, 1); (1, 7%N, 1); (2, 7%N, 1)] /\ delivered_all_b R4 g1_end = true.
Proof. vm_compute. split; reflexivity. Qed.

Lemma in_R4 : forall i (P : nat -> Prop), P 0 -> P 1 -> P 2 -> In i R4 -> P i.
Proof. intros i P H0 H1 H2 [<-|[<-|[<-|[]]]]; assumption. Qed.

Lemma ex1_pool_ok : pool_ok ld4 1 [pp1].
Proof.
  constructor.
  - intros m [<-|[]]. simpl. lia.
  - intros m [<-|[]]. discriminate.
  - intros m m' [<-|[]] [<-|[]] _ _. reflexivity.
  - intros m b [<-|[]] [].
Qed.

Lemma ex1_start_ok : forall i, In i R4 -> start_ok 1 [pp1] i (gst g1_0 i).
Proof.
  intros i Hi. pattern i. apply in_R4; [| | |exact Hi];
    (constructor; try (vm_compute; reflexivity); try (intros k; vm_compute; reflexivity);
     try (intros b Hb; vm_compute in Hb; destruct Hb); try (intro Hx; vm_compute in Hx; discriminate)).
Qed.

(* the hypotheses of good_round_decides_r1 are satisfiable and its conclusion is what we computed *)
Example ex1_theorem_applies :
  (forall i, In i R4 -> exists k, In (i, 7%N, k) (gdecs g1_end))
  /\ (forall i x k, In (i, x, k) (gdecs g1_end) -> x = 7%N /\ k = 1).
Proof.
  apply (good_round_decides_r1 4 64 ld4 R4 g1_0 g1_end 7%N []).
  - lia.
  - repeat constructor; simpl; intuition discriminate.
  - vm_compute. lia.
  - exact ex1_pool_ok.
  - intros m [<-|[]]. discriminate.
  - exact ex1_start_ok.
  - reflexivity.
  - reflexivity.
  - left. reflexivity.
  - discriminate.
  - apply (gexec_sound 4 64 ld4 R4 sched1). exact ex1_run.
  - apply delivered_all_b_sound. vm_compute. reflexivity.
  - apply fifo_ok_simple.
    + intros i Hi. pattern i. apply in_R4; [| | |exact Hi]; vm_compute; reflexivity.
    + intros i Hi. pattern i. apply in_R4; [| | |exact Hi]; vm_compute; lia.
Qed.

(* ------------------------------------------------------------------------------------------ *)
(* Round 2 after a timeout: the round-1 leader (process 1) never got its input, every running   *)
(* process timed out and broadcast ROUND-CHANGE(2); the leader of round 2 is process 2 (input 9) *)

Definition run_evs (i : nat) (s : state) (evs : list event) : state :=
  fold_left (fun s e => match fstep (pp 4 64 ld4 i) s e o0 with Some (s', _) => s' | None => s end) evs s.

Definition st2 (i : nat) : state :=
  run_evs i init (if i =? 2 then [EStart; EInput 9; ETimeout] else [EStart; ETimeout]).

Definition rc2 (i : nat) : msg := mkm (mk RoundChange i 2 0 0 0) [].

Example timeout_broadcasts_rc :
  fstep (pp 4 64 ld4 0) (run_evs 0 init [EStart]) ETimeout o0
  = Some (st2 0, [RoundChg 1 2 RoundTimeout; StopTimer; NewTimer 2; Bcast (mk RoundChange 0 2 0 0 0) []]).
Proof. vm_compute. reflexivity. Qed.

Definition g2_0 : gcfg := mkg st2 [rc2 0; rc2 1; rc2 2] (fun _ => []) [].

(* pool: 0..2 = ROUND-CHANGEs, then the PRE-PREPARE(2) of process 2, PREPAREs, COMMITs *)
Definition sched2 : list (nat * nat) :=
  [(0,1); (2,0); (1,2); (2,2); (0,0); (2,1); (1,0); (1,1); (0,2); (2,2);
   (1,3); (0,3); (1,4); (2,3); (0,4); (0,5); (0,6); (1,5); (1,6); (2,4); (2,5); (2,6); (2,0);
   (0,7); (1,7); (2,7); (0,8); (1,8); (2,8); (0,9); (1,9); (2,9)].

Definition g2_end : gcfg := match gexec 4 64 ld4 R4 g2_0 sched2 with Some g => g | None => g2_0 end.

Example ex2_run : gexec 4 64 ld4 R4 g2_0 sched2 = Some g2_end.
Proof. vm_compute. reflexivity. Qed.

Example ex2_decides : gdecs g2_end = [(0, 9%N, 2); (1, 9%N, 2); (2, 9%N, 2)] /\ delivered_all_b R4 g2_end = true.
Proof. vm_compute. split; reflexivity. Qed.

Lemma in_pool2 : forall m (P : msg -> Prop), P (rc2 0) -> P (rc2 1) -> P (rc2 2) -> In m (pool g2_0) -> P m.
Proof. intros m P H0 H1 H2 [<-|[<-|[<-|[]]]]; assumption. Qed.

Lemma ex2_pool_ok : pool_ok ld4 2 (pool g2_0).
Proof.
  constructor.
  - intros m Hm. pattern m. apply in_pool2; [| | |exact Hm]; simpl; lia.
  - intros m Hm. pattern m. apply in_pool2; [| | |exact Hm]; discriminate.
  - intros m m' Hm Hm'. pattern m. apply in_pool2; [| | |exact Hm]; discriminate.
  - intros m b Hm. pattern m. apply in_pool2; [| | |exact Hm]; intros [].
Qed.

Lemma ex2_start_ok : forall i, In i R4 -> start_ok 2 (pool g2_0) i (gst g2_0 i).
Proof.
  intros i Hi. pattern i. apply in_R4; [| | |exact Hi];
    (constructor; try (vm_compute; reflexivity); try (intros k; vm_compute; reflexivity);
     try (intros b Hb; vm_compute in Hb; destruct Hb); try (intro Hx; vm_compute in Hx; discriminate)).
Qed.

Lemma ex2_pool_fresh : pool_fresh ld4 2 (pool g2_0).
Proof.
  constructor.
  - intros m Hm. pattern m. apply in_pool2; [| | |exact Hm]; reflexivity.
  - intros m b Hm. pattern m. apply in_pool2; [| | |exact Hm]; intros [<-|[]]; discriminate.
  - intros m b Hm. pattern m. apply in_pool2; [| | |exact Hm]; intros [].
  - intros m m' Hm Hm'. pattern m. apply in_pool2; [| | |exact Hm];
      pattern m'; apply in_pool2; [| | |exact Hm'| | | |exact Hm'| | | |exact Hm']; simpl; intros; auto; discriminate.
Qed.

Lemma ex2_leader_ok : leader_ok 4 64 ld4 2 (pool g2_0) (gst g2_0 (ld4 2)).
Proof.
  constructor.
  - vm_compute. discriminate.
  - vm_compute. reflexivity.
  - intros _. split; [vm_compute; reflexivity|]. split; [exact ex2_pool_fresh|].
    constructor.
    + intros b Hb. vm_compute in Hb. destruct Hb.
    + intros m b Hm. vm_compute in Hm. destruct Hm.
    + intros m Hm. vm_compute in Hm. destruct Hm.
  - intro Hx. vm_compute in Hx. discriminate.
Qed.

Lemma ex2_rcs : rcs_in_pool 4 64 ld4 2 R4 (pool g2_0).
Proof.
  intros i Hi. pattern i. apply in_R4; [| | |exact Hi].
  - exists (rc2 0). split; [left; reflexivity|]. repeat split; vm_compute; reflexivity.
  - exists (rc2 1). split; [right; left; reflexivity|]. repeat split; vm_compute; reflexivity.
  - exists (rc2 2). split; [right; right; left; reflexivity|]. repeat split; vm_compute; reflexivity.
Qed.

(* the hypotheses of good_round_qrc are satisfiable (round 2, leader = process 2) *)
Example ex2_theorem_applies :
  exists v, (forall i, In i R4 -> exists k, In (i, v, k) (gdecs g2_end))
            /\ (forall i x k, In (i, x, k) (gdecs g2_end) -> x = v /\ k = 2).
Proof.
  apply (good_round_qrc 4 64 ld4 R4 2 (ltac:(lia)) g2_0 g2_end).
  - repeat constructor; simpl; intuition discriminate.
  - vm_compute. lia.
  - vm_compute. auto.
  - exact ex2_pool_ok.
  - exact ex2_start_ok.
  - exact ex2_leader_ok.
  - exact ex2_rcs.
  - reflexivity.
  - reflexivity.
  - apply (gexec_sound 4 64 ld4 R4 sched2). exact ex2_run.
  - apply delivered_all_b_sound. vm_compute. reflexivity.
  - apply fifo_ok_simple.
    + intros i Hi. pattern i. apply in_R4; [| | |exact Hi]; vm_compute; reflexivity.
    + intros i Hi. pattern i. apply in_R4; [| | |exact Hi]; vm_compute; lia.
Qed.

(* ------------------------------------------------------------------------------------------ *)
(* Executable forms of the hypotheses (sound, used to discharge them by vm_compute)            *)

Section Checkers.
Variables (n fifo_ : nat) (ld : nat -> nat) (r : nat).

Definition pcb (b : bmsg) : bool := (rnd b =? r) && (is_ty Prepare b || is_ty Commit b).
Definition has_main_b (P : list msg) (b : bmsg) : bool := existsb (fun m => beq (main m) b) P.

Lemma pcb_spec : forall b, pc r b -> pcb b = true.
Proof.
  intros b [H1 H2]. unfold pcb, is_ty. rewrite H1, Nat.eqb_refl. destruct H2 as [->| ->]; reflexivity.
Qed.

Lemma has_main_b_sound : forall P b, has_main_b P b = true -> has_main P b.
Proof.
  intros P b H. apply existsb_exists in H. destruct H as [m [H1 H2]]. apply beq_eq in H2. exists m. auto.
Qed.

Definition nest_ok_b (P : list msg) (bs : list bmsg) : bool :=
  forallb (fun b => negb (pcb b) || has_main_b P b) bs.

Lemma nest_ok_b_sound : forall P bs, nest_ok_b P bs = true -> forall b, In b bs -> pc r b -> has_main P b.
Proof.
  intros P bs H b Hb Hp. unfold nest_ok_b in H. rewrite forallb_forall in H. specialize (H b Hb).
  rewrite (pcb_spec b Hp) in H. simpl in H. apply has_main_b_sound. exact H.
Qed.

Definition pool_ok_b (P : list msg) : bool :=
  forallb (fun m => (rnd (main m) <=? r) && (negb (is_ty Decided (main m)) || (rnd (main m) =? r))) P
  && forallb (fun m => forallb (fun m' => negb (carrier ld r (main m) && carrier ld r (main m'))
                                         || N.eqb (val (main m)) (val (main m'))) P) P
  && forallb (fun m => nest_ok_b P (just m)) P.

Lemma pool_ok_b_sound : forall P, pool_ok_b P = true -> pool_ok ld r P.
Proof.
  intros P H. unfold pool_ok_b in H. rewrite !andb_true_iff in H. destruct H as [[H1 H2] H3].
  rewrite forallb_forall in H1, H2, H3. constructor.
  - intros m Hm. specialize (H1 m Hm). apply andb_true_iff in H1. destruct H1 as [H1 _]. apply Nat.leb_le. exact H1.
  - intros m Hm Ht. specialize (H1 m Hm). apply andb_true_iff in H1. destruct H1 as [_ H1].
    unfold is_ty in H1. rewrite Ht in H1. simpl in H1. apply Nat.eqb_eq. exact H1.
  - intros m m' Hm Hm' C1 C2. specialize (H2 m Hm). rewrite forallb_forall in H2. specialize (H2 m' Hm').
    rewrite C1, C2 in H2. simpl in H2. apply N.eqb_eq. exact H2.
  - intros m b Hm Hb Hp. eapply nest_ok_b_sound; eauto.
Qed.

Definition start_ok_b (P : list msg) (i : nat) (s : state) : bool :=
  (round s =? r) && started s && negb (dead s) && negb (decided s)
  && (negb (is_dup s JustPrePrepare r)
      || existsb (fun m => is_ty Prepare (main m) && (src (main m) =? i) && (rnd (main m) =? r)
                           && (pr (main m) =? 0) && N.eqb (pv (main m)) 0
                           && match just m with [] => true | _ => false end) P)
  && (negb (is_dup s QPrepares r)
      || existsb (fun m => is_ty Commit (main m) && (src (main m) =? i) && (rnd (main m) =? r)
                           && (pr (main m) =? 0) && N.eqb (pv (main m)) 0
                           && match just m with [] => true | _ => false end) P)
  && negb (existsb (fun k => rule_eqb (fst k) QCommits && (snd k =? r)) (dedup s))
  && negb (existsb (fun k => rule_eqb (fst k) JustDecided) (dedup s))
  && nest_ok_b P (flat (buffer s)).

Lemma sent_b_sound : forall P t i, 
  existsb (fun m => is_ty t (main m) && (src (main m) =? i) && (rnd (main m) =? r)
                    && (pr (main m) =? 0) && N.eqb (pv (main m)) 0
                    && match just m with [] => true | _ => false end) P = true ->
  exists x, In (mkm (mk t i r x 0 0) []) P.
Proof.
  intros P t i H. apply existsb_exists in H. destruct H as [[[t0 s0 r0 v0 p0 w0] j] [H1 H2]]. simpl in H2.
  rewrite !andb_true_iff in H2. destruct H2 as [[[[[A B] C] D] E] F].
  apply mtype_eqb_eq in A. apply Nat.eqb_eq in B, C, D. apply N.eqb_eq in E. simpl in *. subst.
  destruct j; [|discriminate]. exists v0. exact H1.
Qed.

Lemma start_ok_b_sound : forall P i s, start_ok_b P i s = true -> start_ok r P i s.
Proof.
  intros P i s H. unfold start_ok_b in H. rewrite !andb_true_iff in H.
  destruct H as [[[[[[[[H1 H2] H3] H4] H5] H6] H7] H8] H9].
  apply Nat.eqb_eq in H1. apply negb_true_iff in H3, H4, H7, H8. constructor; auto.
  - intro Hd. rewrite Hd in H5. simpl in H5. apply sent_b_sound. exact H5.
  - intro Hd. rewrite Hd in H6. simpl in H6. apply sent_b_sound. exact H6.
  - intro k. unfold is_dup. apply not_true_is_false. intro E.
    apply existsb_exists in E. destruct E as [x [X1 X2]]. apply andb_true_iff in X2. destruct X2 as [X2 _].
    assert (existsb (fun k => rule_eqb (fst k) JustDecided) (dedup s) = true) by (apply existsb_exists; eauto).
    congruence.
  - intros b Hb Hp. eapply nest_ok_b_sound; eauto.
Qed.

Definition prep_wf (b : bmsg) : bool := negb (is_ty Prepare b) || ((1 <=? rnd b) && negb (N.eqb (val b) 0)).

Lemma prep_wf_sound : forall b, prep_wf b = true -> ty b = Prepare -> 1 <= rnd b /\ val b <> 0%N.
Proof.
  intros b H Ht. unfold prep_wf, is_ty in H. rewrite Ht in H. simpl in H. apply andb_true_iff in H.
  destruct H as [H1 H2]. apply negb_true_iff, N.eqb_neq in H2. split; [|exact H2].
  destruct (rnd b); [discriminate | lia].
Qed.

Definition pool_fresh_b (P : list msg) : bool :=
  forallb (fun m => negb (carrier ld r (main m))) P
  && forallb (fun m => forallb prep_wf (main m :: just m)) P
  && forallb (fun m => forallb (fun b => negb (f_rc r b)) (just m)) P
  && forallb (fun m => forallb (fun m' =>
        negb (f_rc r (main m) && f_rc r (main m') && (src (main m) =? src (main m')))
        || ((pr (main m) =? pr (main m')) && N.eqb (pv (main m)) (pv (main m')))) P) P.

Lemma pool_fresh_b_sound : forall P, pool_fresh_b P = true -> pool_fresh ld r P.
Proof.
  intros P H. unfold pool_fresh_b in H. rewrite !andb_true_iff in H. destruct H as [[[H1 H2] H3] H4].
  rewrite forallb_forall in H1, H2, H3, H4. constructor.
  - intros m Hm. apply negb_true_iff. auto.
  - intros m b Hm Hb Ht. specialize (H2 m Hm). rewrite forallb_forall in H2. apply prep_wf_sound; auto.
  - intros m b Hm Hb. specialize (H3 m Hm). rewrite forallb_forall in H3. apply negb_true_iff. auto.
  - intros m m' Hm Hm' F1 F2 Hs. specialize (H4 m Hm). rewrite forallb_forall in H4. specialize (H4 m' Hm').
    rewrite F1, F2, Hs, Nat.eqb_refl in H4. simpl in H4. apply andb_true_iff in H4. destruct H4 as [A B].
    apply Nat.eqb_eq in A. apply N.eqb_eq in B. auto.
Qed.

Definition buf_fresh_b (P : list msg) (s : state) : bool :=
  forallb prep_wf (flat (buffer s))
  && forallb (fun m => forallb (fun b => negb (f_rc r b)) (just m)) (bufmsgs (buffer s))
  && forallb (fun m => negb (f_rc r (main m))
                       || (justified_roundchange (pp n fifo_ ld (ld r)) m && has_main_b P (main m))) (bufmsgs (buffer s)).

Lemma buf_fresh_b_sound : forall P s, buf_fresh_b P s = true -> buf_fresh n fifo_ ld r P s.
Proof.
  intros P s H. unfold buf_fresh_b in H. rewrite !andb_true_iff in H. destruct H as [[H1 H2] H3].
  rewrite forallb_forall in H1, H2, H3. constructor.
  - intros b Hb Ht. apply prep_wf_sound; auto.
  - intros m b Hm Hb. specialize (H2 m Hm). rewrite forallb_forall in H2. apply negb_true_iff. auto.
  - intros m Hm Hf. specialize (H3 m Hm). rewrite Hf in H3. simpl in H3. apply andb_true_iff in H3.
    destruct H3 as [A B]. split; [exact A | apply has_main_b_sound; exact B].
Qed.

Definition leader_fresh_b (P : list msg) (s : state) : bool :=
  negb (N.eqb (input s) 0) && (cfr s =? 0) && negb (is_dup s QRC r)
  && match ppj s with PNone => true | _ => false end
  && pool_fresh_b P && buf_fresh_b P s.

Lemma leader_fresh_b_sound : forall P s, leader_fresh_b P s = true -> leader_ok n fifo_ ld r P s.
Proof.
  intros P s H. unfold leader_fresh_b in H. rewrite !andb_true_iff in H.
  destruct H as [[[[[H1 H2] H3] H4] H5] H6].
  apply negb_true_iff in H1, H3. apply N.eqb_neq in H1. apply Nat.eqb_eq in H2. constructor; auto.
  - intros _. split; [destruct (ppj s); try discriminate; reflexivity|].
    split; [apply pool_fresh_b_sound; exact H5 | apply buf_fresh_b_sound; exact H6].
  - intro Hx. congruence.
Qed.

Definition rcs_b (R : list nat) (P : list msg) : bool :=
  forallb (fun i => existsb (fun m => f_rc r (main m) && (src (main m) =? i)
                                      && justified_roundchange (pp n fifo_ ld (ld r)) m) P) R.

Lemma rcs_b_sound : forall R P, rcs_b R P = true -> rcs_in_pool n fifo_ ld r R P.
Proof.
  intros R P H i Hi. unfold rcs_b in H. rewrite forallb_forall in H. specialize (H i Hi).
  apply existsb_exists in H. destruct H as [m [M1 M2]]. rewrite !andb_true_iff in M2. destruct M2 as [[A B] C].
  apply Nat.eqb_eq in B. exists m. auto.
Qed.

End Checkers.

(* ------------------------------------------------------------------------------------------ *)
(* Round 2 re-proposing a prepared value, with stale round-1 messages still in the pool:       *)
(* in round 1 (leader 1, value 7) only process 0 got the three PREPAREs (it prepared 7 and sent  *)
(* COMMIT), then everybody timed out; ROUND-CHANGE(2) of process 0 carries (pr, pv) = (1, 7) and *)
(* its quorum of PREPAREs, the others are null; the leader of round 2 (process 2, own input 9)   *)
(* must propose 7.                                                                               *)

Definition leader_in2 : state := run_evs 2 (after_start 2) [EInput 9].

Definition g3_pre : gcfg :=
  mkg (fun i => if i =? 1 then leader_in 7 else if i =? 2 then leader_in2 else after_start i)
      [pp1] (fun _ => []) [].

(* PRE-PREPARE to everybody, the three PREPAREs to process 0 only, one PREPARE to process 1 *)
Definition sched3_round1 : list (nat * nat) := [(0,0); (1,0); (2,0); (0,1); (0,2); (0,3); (1,1)].

Definition g3_mid : gcfg := match gexec 4 64 ld4 R4 g3_pre sched3_round1 with Some g => g | None => g3_pre end.

Definition tmo_oracle (s : state) : oracle :=
  mko Nothing (first_per_src (f_trv Prepare (prepR s) (prepV s)) (prepJ s)) 0.

Definition tmo (i : nat) (s : state) : state * list output :=
  match fstep (pp 4 64 ld4 i) s ETimeout (tmo_oracle s) with Some x => x | None => (s, []) end.

Definition g3_0 : gcfg :=
  mkg (fun i => fst (tmo i (gst g3_mid i)))
      (pool g3_mid ++ flat_map (fun i => bcasts (snd (tmo i (gst g3_mid i)))) R4)
      (fun _ => []) [].

(* a shuffled delivery of everything in the pool (stale round-1 messages included), then the round *)
Definition sched3 : list (nat * nat) :=
  [(0,5); (2,2); (2,6); (1,7); (0,7); (1,6); (2,7); (2,5); (0,6); (2,3); (1,5); (2,0); (1,0); (0,0); 
   (1,1); (1,3); (0,3); (2,1); (0,2); (0,1); (2,4); (1,4); (0,4); (1,2); (0,8); (1,8); (2,8); (1,5); 
   (1,9); (2,9); (2,10); (1,11); (2,11); (0,11); (1,10); (0,9); (0,10); (2,13); (1,13); (0,14); 
   (0,12); (1,12); (0,13); (1,14); (2,12); (2,14)].

Lemma qlen_le_bufmsgs : forall buf s, qlen buf s <= length (bufmsgs buf).
Proof.
  induction buf as [|[k qq] buf IH]; intro s; simpl; [lia|]. unfold bufmsgs. simpl. rewrite app_length.
  fold (bufmsgs buf). specialize (IH s). destruct (k =? s); lia.
Qed.

(* fifo_ok from a coarse count: everything buffered at the start plus every delivery fits the FIFO *)
Lemma fifo_ok_coarse : forall fifo_ R g0 g,
  (forall i, In i R -> length (bufmsgs (buffer (gst g0 i))) + length (seen g i) <= fifo_) ->
  fifo_ok fifo_ R g0 g.
Proof.
  intros fifo_ R g0 g H i s Hi. specialize (H i Hi).
  pose proof (qlen_le_bufmsgs (buffer (gst g0 i)) s). pose proof (filter_length_le (from_src s) (seen g i)). lia.
Qed.

Definition g3_end : gcfg := match gexec 4 64 ld4 R4 g3_0 sched3 with Some g => g | None => g3_0 end.

Example ex3_run : gexec 4 64 ld4 R4 g3_0 sched3 = Some g3_end.
Proof. vm_compute. reflexivity. Qed.

(* the leader's own input is 9, it proposes the prepared value 7 and everybody decides 7 *)
Example ex3_decides :
  input (gst g3_0 2) = 9%N
  /\ gdecs g3_end = [(0, 7%N, 2); (1, 7%N, 2); (2, 7%N, 2)] /\ delivered_all_b R4 g3_end = true.
Proof. vm_compute. repeat split; reflexivity. Qed.

Example ex3_theorem_applies :
  exists v, (forall i, In i R4 -> exists k, In (i, v, k) (gdecs g3_end))
            /\ (forall i x k, In (i, x, k) (gdecs g3_end) -> x = v /\ k = 2).
Proof.
  apply (good_round_qrc 4 64 ld4 R4 2 (ltac:(lia)) g3_0 g3_end).
  - repeat constructor; simpl; intuition discriminate.
  - vm_compute. lia.
  - vm_compute. auto.
  - apply pool_ok_b_sound. vm_compute. reflexivity.
  - intros i Hi. apply start_ok_b_sound. pattern i. apply in_R4; [| | |exact Hi]; vm_compute; reflexivity.
  - apply leader_fresh_b_sound. vm_compute. reflexivity.
  - apply rcs_b_sound. vm_compute. reflexivity.
  - reflexivity.
  - reflexivity.
  - apply (gexec_sound 4 64 ld4 R4 sched3). exact ex3_run.
  - apply delivered_all_b_sound. vm_compute. reflexivity.
  - apply fifo_ok_coarse. intros i Hi. pattern i. apply in_R4; [| | |exact Hi]; vm_compute; lia.
Qed.

(* ------------------------------------------------------------------------------------------ *)
(* The FIFO hypothesis is needed: with FIFOLimit = 1 a duplicate of the leader's PRE-PREPARE     *)
(* evicts the leader's PREPARE from every buffer; every message has been delivered to everybody, *)
(* nobody ever sees a PREPARE quorum, nobody decides (same initial configuration as example 1).  *)

Definition sched_evict : list (nat * nat) :=
  [(0,0); (1,0); (2,0); (0,1); (0,2); (0,0); (0,3); (1,1); (1,2); (1,0); (1,3); (2,1); (2,2); (2,0); (2,3)].

Definition g_evict : gcfg := match gexec 4 1 ld4 R4 g1_0 sched_evict with Some g => g | None => g1_0 end.

Example fifo_bound_needed :
  gexec 4 1 ld4 R4 g1_0 sched_evict = Some g_evict
  /\ delivered_all_b R4 g_evict = true /\ gdecs g_evict = [] /\ length (pool g_evict) = 4.
Proof. vm_compute. repeat split; reflexivity. Qed.

(* ... as a statement about the closed system: good_round_decides without fifo_ok is false *)
Theorem good_round_without_fifo_refuted :
  exists g, gsteps 4 1 ld4 R4 g1_0 g /\ delivered_all R4 g /\ gdecs g = [].
Proof.
  exists g_evict. destruct fifo_bound_needed as [H1 [H2 [H3 _]]]. split; [|split].
  - apply (gexec_sound 4 1 ld4 R4 sched_evict). exact H1.
  - apply delivered_all_b_sound. exact H2.
  - exact H3.
Qed.
