(* Multi-process network semantics for QBFT (DESIGN.md, C02 "Net").

   A configuration fixes n, the FIFO limit, the leader function and which of the n members are honest.
   The global state is the local state (Qbft/Model.v) of every honest member plus the ORDERED, monotone
   list [sent] of the main parts honest members have broadcast (a main part stands for the signed message:
   signatures are symbolic, so a part with an honest source exists only if that member broadcast it).

   One kind of transition: an honest member takes one step of the single-process model ([step], i.e. the
   algorithm [fstep] for some choice of Go's map orders).  If the step receives a message, every part of it
   (main part and each justification part) must be DELIVERABLE: its source is a member (the wrapper rejects
   unknown peers) and it is either in [sent] or has a Byzantine source.  That is all an adversary is:
   Byzantine members may send anything under their own identities, at any time, to anybody, any number of
   times, and may combine any honest parts they have seen with their own into new messages (the association
   of a justification with a main part is not signed; the transport sender is ignored).  Delay, loss,
   reordering, duplication, replay, cross-assembly, equivocation, forged prepared-claims are all instances.
   Crashed, slow or late honest members are members that take no or few steps; timeouts and inputs are
   steps that are always enabled by the single-process model.

   Definitions only; invariants and theorems are in NetInv.v and Agreement.v. *)
From Coq Require Import List NArith Arith Bool.
From Charon Require Import Common.Quorum Qbft.Model Qbft.Monitor Qbft.Inv Qbft.Card.
Import ListNotations.

Record cfg := mkcfg { c_n : nat; c_fifo : nat; c_leader : nat -> nat; c_honest : nat -> bool }.

Definition pp (c : cfg) (i : nat) : params :=
  {| nodes := c_n c; fifo := c_fifo c; leader := c_leader c; self := i |}.

Definition qc (c : cfg) : nat := quorum (c_n c).

(* at least one member, at most f = floor((n-1)/3) of them Byzantine *)
Definition wf_cfg (c : cfg) : Prop := 1 <= c_n c /\ byz_count (c_n c) (c_honest c) <= faulty (c_n c).

(* an honest member *)
Definition good (c : cfg) (i : nat) : Prop := i < c_n c /\ c_honest c i = true.

Record net := mknet { nst : nat -> state; sent : list bmsg }.

Definition net_init : net := mknet (fun _ => init) [].

Definition upd (f : nat -> state) (i : nat) (s : state) : nat -> state := fun j => if j =? i then s else f j.

(* part b can be delivered given the honest broadcasts l made so far *)
Definition deliv (c : cfg) (l : list bmsg) (b : bmsg) : Prop :=
  src b < c_n c /\ (In b l \/ c_honest c (src b) = false).

Definition msg_deliv (c : cfg) (l : list bmsg) (m : msg) : Prop :=
  deliv c l (main m) /\ forall b, In b (just m) -> deliv c l b.

Inductive nstep (c : cfg) : net -> nat -> label -> net -> Prop :=
| NStep : forall nt i l s',
    good c i ->
    step (pp c i) (nst nt i) l = Some s' ->
    (forall m cm outs, l = LRecv m cm outs -> msg_deliv c (sent nt) m) ->
    nstep c nt i l (mknet (upd (nst nt) i s') (sent nt ++ bc_mains (label_outs l))).

(* reachable global states with the global trace that leads to them *)
Inductive nreach (c : cfg) : net -> list (nat * label) -> Prop :=
| NR0 : nreach c net_init []
| NRS : forall nt tr i l nt', nreach c nt tr -> nstep c nt i l nt' -> nreach c nt' (tr ++ [(i, l)]).

(* Definition.Compare never reports a mismatch (the default configuration: feature chain_split_halt off) *)
Definition label_nofail (l : label) : bool := match l with LRecv _ CmpFail _ => false | _ => true end.
Definition trace_nofail (tr : list (nat * label)) : Prop := forall i l, In (i, l) tr -> label_nofail l = true.

(* the main parts of member i in sent *)
Definition own (nt : net) (i : nat) : list bmsg := filter (fun b => src b =? i) (sent nt).

(* all Decide callbacks of a global trace: (member, value, round) *)
Definition trace_decides (tr : list (nat * label)) : list (nat * N * nat) :=
  flat_map (fun e => map (fun d => (fst e, fst (fst d), snd (fst d))) (decides_of (label_outs (snd e)))) tr.

(* ---- executable form: replay a global trace ---- *)

Definition deliv_b (c : cfg) (l : list bmsg) (b : bmsg) : bool :=
  (src b <? c_n c) && (memb b l || negb (c_honest c (src b))).

Definition msg_deliv_b (c : cfg) (l : list bmsg) (m : msg) : bool :=
  deliv_b c l (main m) && forallb (deliv_b c l) (just m).

Definition recv_ok (c : cfg) (nt : net) (l : label) : bool :=
  match l with LRecv m _ _ => msg_deliv_b c (sent nt) m | _ => true end.

Fixpoint nrun (c : cfg) (nt : net) (tr : list (nat * label)) : option net :=
  match tr with
  | [] => Some nt
  | (i, l) :: r =>
      if (i <? c_n c) && c_honest c i && recv_ok c nt l then
        match step (pp c i) (nst nt i) l with
        | Some s' => nrun c (mknet (upd (nst nt) i s') (sent nt ++ bc_mains (label_outs l))) r
        | None => None
        end
      else None
  end.

(* index of the first global step nrun refuses *)
Fixpoint nrun_first_reject (c : cfg) (nt : net) (tr : list (nat * label)) (k : nat) : option nat :=
  match tr with
  | [] => None
  | (i, l) :: r =>
      if (i <? c_n c) && c_honest c i && recv_ok c nt l then
        match step (pp c i) (nst nt i) l with
        | Some s' => nrun_first_reject c (mknet (upd (nst nt) i s') (sent nt ++ bc_mains (label_outs l))) r (S k)
        | None => Some k
        end
      else Some k
  end.
