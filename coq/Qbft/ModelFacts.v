(* Facts about the single-process QBFT model (Qbft/Model.v): reflection lemmas, list lemmas about
   the source-keyed helpers, the reachable-state invariant, and the single-process theorems used by
   Properties/C03.v and C04.v.  All statements quantify over ALL label sequences the model accepts
   (equivalently: over all events and all oracle choices of [fstep]). *)
From Coq Require Import List NArith Arith Bool Lia.
From Charon Require Import Common.Quorum Qbft.Model.
Import ListNotations.

(* ------------------------------------------------------------------------------------------ *)
(* Reflection of the boolean equalities                                                        *)

Lemma mtype_eqb_eq : forall a b, mtype_eqb a b = true <-> a = b.
Proof. destruct a, b; simpl; split; intro H; try reflexivity; discriminate. Qed.

Lemma rule_eqb_eq : forall a b, rule_eqb a b = true <-> a = b.
Proof. destruct a, b; simpl; split; intro H; try reflexivity; discriminate. Qed.

Lemma exitwhy_eqb_eq : forall a b, exitwhy_eqb a b = true <-> a = b.
Proof. destruct a, b; simpl; split; intro H; try reflexivity; discriminate. Qed.

Lemma beq_eq : forall a b, beq a b = true <-> a = b.
Proof.
  intros [t1 s1 r1 v1 p1 w1] [t2 s2 r2 v2 p2 w2]. unfold beq; simpl.
  rewrite !andb_true_iff, mtype_eqb_eq, !Nat.eqb_eq, !N.eqb_eq.
  split.
  - intros [[[[[-> ->] ->] ->] ->] ->]. reflexivity.
  - intro H. inversion H. auto 10.
Qed.

Lemma beq_refl : forall a, beq a a = true.
Proof. intro a. apply beq_eq. reflexivity. Qed.

Lemma list_beq_eq : forall a b, list_beq a b = true <-> a = b.
Proof.
  induction a as [|x a IH]; destruct b as [|y b]; simpl; split; intro H; try reflexivity; try discriminate.
  - apply andb_true_iff in H. destruct H as [H1 H2]. apply beq_eq in H1. apply IH in H2. congruence.
  - inversion H; subst. apply andb_true_iff. split; [apply beq_refl | apply IH; reflexivity].
Qed.

Lemma meq_eq : forall a b, meq a b = true <-> a = b.
Proof.
  intros [m1 j1] [m2 j2]. unfold meq; simpl. rewrite andb_true_iff, beq_eq, list_beq_eq.
  split; [intros [-> ->]; reflexivity | intro H; inversion H; auto].
Qed.

Lemma output_eqb_eq : forall x y, output_eqb x y = true <-> x = y.
Proof.
  intros x y. destruct x; destruct y; simpl; split; intro H; try discriminate; try reflexivity.
  - apply andb_true_iff in H. destruct H as [H1 H2]. apply beq_eq in H1. apply list_beq_eq in H2. congruence.
  - inversion H; subst. apply andb_true_iff. split; [apply beq_refl | apply list_beq_eq; reflexivity].
  - rewrite !andb_true_iff in H. destruct H as [[H1 H2] H3].
    apply N.eqb_eq in H1. apply Nat.eqb_eq in H2. apply list_beq_eq in H3. congruence.
  - inversion H; subst. rewrite !andb_true_iff. repeat split;
      [apply N.eqb_refl | apply Nat.eqb_refl | apply list_beq_eq; reflexivity].
  - apply Nat.eqb_eq in H. congruence.
  - inversion H; subst. apply Nat.eqb_refl.
  - apply meq_eq in H. congruence.
  - inversion H; subst. apply meq_eq. reflexivity.
  - apply rule_eqb_eq in H. congruence.
  - inversion H; subst. apply rule_eqb_eq. reflexivity.
  - rewrite !andb_true_iff in H. destruct H as [[H1 H2] H3].
    apply Nat.eqb_eq in H1. apply Nat.eqb_eq in H2. apply rule_eqb_eq in H3. congruence.
  - inversion H; subst. rewrite !andb_true_iff. repeat split;
      [apply Nat.eqb_refl | apply Nat.eqb_refl | apply rule_eqb_eq; reflexivity].
  - apply exitwhy_eqb_eq in H. congruence.
  - inversion H; subst. apply exitwhy_eqb_eq. reflexivity.
Qed.

Lemma outs_eqb_eq : forall a b, outs_eqb a b = true <-> a = b.
Proof.
  induction a as [|x a IH]; destruct b as [|y b]; simpl; split; intro H; try reflexivity; try discriminate.
  - apply andb_true_iff in H. destruct H as [H1 H2]. apply output_eqb_eq in H1. apply IH in H2. congruence.
  - inversion H; subst. apply andb_true_iff. split; [apply output_eqb_eq; reflexivity | apply IH; reflexivity].
Qed.

(* ------------------------------------------------------------------------------------------ *)
(* step / run in terms of fstep                                                                *)

Lemma step_fstep : forall p s l s',
  step p s l = Some s' ->
  fstep p s (event_of l) (oracle_of (label_outs l)) = Some (s', label_outs l).
Proof.
  intros p s l s' H. unfold step in H.
  destruct (fstep p s (event_of l) (oracle_of (label_outs l))) as [[s1 outs]|]; [|discriminate].
  destruct (outs_eqb outs (label_outs l)) eqn:E; [|discriminate].
  apply outs_eqb_eq in E. inversion H; subst. reflexivity.
Qed.

Lemma step_ex_oracle : forall p s l s',
  step p s l = Some s' -> exists o, fstep p s (event_of l) o = Some (s', label_outs l).
Proof. intros. eexists. apply step_fstep. eassumption. Qed.

(* A state predicate preserved by every fstep transition holds after every accepted run. *)
Lemma run_invariant : forall p (P : state -> Prop),
  (forall s e o s' outs, P s -> fstep p s e o = Some (s', outs) -> P s') ->
  forall ls s s', P s -> run p s ls = Some s' -> P s'.
Proof.
  intros p P Hstep. induction ls as [|l ls IH]; simpl; intros s s' Hs H.
  - inversion H; subst; assumption.
  - destruct (step p s l) as [s1|] eqn:E; [|discriminate].
    apply step_fstep in E. eapply IH; [|eassumption]. eapply Hstep; eassumption.
Qed.

(* ------------------------------------------------------------------------------------------ *)
(* Lists keyed by source                                                                       *)

Lemma memn_In : forall x l, memn x l = true <-> In x l.
Proof.
  induction l as [|y l IH]; simpl; [split; [discriminate | tauto]|].
  rewrite orb_true_iff, Nat.eqb_eq, IH. tauto.
Qed.

Lemma nodupn_NoDup : forall l, nodupn l = true <-> NoDup l.
Proof.
  induction l as [|x l IH]; simpl.
  - split; [constructor | reflexivity].
  - rewrite andb_true_iff, negb_true_iff, IH. split.
    + intros [H1 H2]. constructor; [|assumption]. rewrite <- memn_In. congruence.
    + intro H. inversion H; subst. split; [|assumption].
      destruct (memn x l) eqn:E; [|reflexivity]. apply memn_In in E. contradiction.
Qed.

Lemma dedupn_In : forall x l, In x (dedupn l) <-> In x l.
Proof.
  induction l as [|y l IH]; simpl; [tauto|].
  rewrite filter_In, IH, negb_true_iff, Nat.eqb_neq.
  destruct (Nat.eq_dec y x); [subst; tauto|]. split; [tauto|]. intros [H|H]; [contradiction | right; split; [assumption | congruence]].
Qed.

Lemma NoDup_filter : forall {A} (f : A -> bool) l, NoDup l -> NoDup (filter f l).
Proof.
  intros A f l H. induction H; simpl; [constructor|].
  destruct (f x); [constructor|]; auto. rewrite filter_In. tauto.
Qed.

Lemma dedupn_NoDup : forall l, NoDup (dedupn l).
Proof.
  induction l as [|x l IH]; simpl; [constructor|]. constructor.
  - rewrite filter_In, negb_true_iff, Nat.eqb_neq. tauto.
  - apply NoDup_filter. assumption.
Qed.

Lemma filter_all : forall {A} (f : A -> bool) l, forallb f l = true -> filter f l = l.
Proof.
  intros A f l. induction l as [|x l IH]; simpl; [reflexivity|].
  intro H. apply andb_true_iff in H. destruct H as [H1 H2]. rewrite H1, IH; auto.
Qed.

Lemma dedupn_nodup_id : forall l, NoDup l -> dedupn l = l.
Proof.
  intros l H. induction H as [|x l Hx Hl IH]; simpl; [reflexivity|]. rewrite IH. f_equal.
  apply filter_all.
  apply forallb_forall. intros y Hy. apply negb_true_iff, Nat.eqb_neq. congruence.
Qed.

(* the number of distinct elements depends only on the set of elements *)
Lemma dedupn_length_incl : forall l1 l2, incl l1 l2 -> length (dedupn l1) <= length (dedupn l2).
Proof.
  intros l1 l2 H. apply NoDup_incl_length; [apply dedupn_NoDup|].
  intros x Hx. apply (proj2 (dedupn_In x l2)). apply H. exact (proj1 (dedupn_In x l1) Hx).
Qed.

Lemma dedupn_length_same : forall l1 l2, incl l1 l2 -> incl l2 l1 -> length (dedupn l1) = length (dedupn l2).
Proof. intros. apply Nat.le_antisymm; apply dedupn_length_incl; assumption. Qed.

Lemma memb_In : forall b l, memb b l = true <-> In b l.
Proof.
  intros b l. unfold memb. rewrite existsb_exists. split.
  - intros [x [Hx E]]. apply beq_eq in E. subst. assumption.
  - intro H. exists b. split; [assumption | apply beq_refl].
Qed.

Lemma dedupb_In : forall x l, In x (dedupb l) <-> In x l.
Proof.
  induction l as [|y l IH]; simpl; [tauto|].
  rewrite filter_In, IH, negb_true_iff.
  destruct (beq x y) eqn:E.
  - apply beq_eq in E. subst. tauto.
  - split; [tauto|]. intros [H|H]; [subst; rewrite beq_refl in E; discriminate | right; split; [assumption | reflexivity]].
Qed.

Lemma filter_none : forall {A} (f : A -> bool) l, forallb (fun x => negb (f x)) l = true -> filter f l = [].
Proof.
  intros A f l. induction l as [|x l IH]; simpl; [reflexivity|].
  intro H. apply andb_true_iff in H. destruct H as [H1 H2]. apply negb_true_iff in H1. rewrite H1. auto.
Qed.

(* nsrc counts distinct sources; on a list with distinct sources all satisfying f it is the length *)
Lemma nsrc_self : forall f J, nodupn (map src J) = true -> forallb f J = true -> nsrc f J = length J.
Proof.
  intros f J H1 H2. unfold nsrc. rewrite filter_all by assumption.
  rewrite dedupn_nodup_id by (apply nodupn_NoDup; assumption). apply map_length.
Qed.

Lemma nsrc_incl : forall f l1 l2, incl l1 l2 -> nsrc f l1 <= nsrc f l2.
Proof.
  intros f l1 l2 H. unfold nsrc. apply dedupn_length_incl.
  intros x Hx. apply in_map_iff in Hx. destruct Hx as [b [E Hb]]. apply filter_In in Hb.
  apply in_map_iff. exists b. split; [assumption|]. apply filter_In. split; [apply H|]; tauto.
Qed.

Lemma nsrc_same : forall f l1 l2, incl l1 l2 -> incl l2 l1 -> nsrc f l1 = nsrc f l2.
Proof. intros. apply Nat.le_antisymm; apply nsrc_incl; assumption. Qed.

Lemma nsrc_dedupb_filter : forall f all, nsrc f (dedupb (filter f all)) = nsrc f all.
Proof.
  intros f all. unfold nsrc. apply dedupn_length_same; intros x Hx;
    apply in_map_iff in Hx; destruct Hx as [b [E Hb]]; apply in_map_iff; exists b; (split; [assumption|]).
  - apply (proj1 (filter_In _ _ _)) in Hb. destruct Hb as [Hb Hf].
    apply (proj1 (dedupb_In _ _)) in Hb. exact Hb.
  - assert (Hf : f b = true) by (apply (proj1 (filter_In _ _ _)) in Hb; tauto).
    apply (proj2 (filter_In _ _ _)). split; [|exact Hf].
    apply (proj2 (dedupb_In _ _)). exact Hb.
Qed.

Lemma nsrc_pos_nonempty : forall f l, 1 <= nsrc f l -> l <> [].
Proof. intros f l H E. subst. unfold nsrc in H. simpl in H. lia. Qed.

(* what pick_ok gives *)
Lemma pick_ok_spec : forall f all J, pick_ok f all J = true ->
  nodupn (map src J) = true /\ forallb f J = true /\ (forall b, In b J -> In b all) /\ length J = nsrc f all.
Proof.
  intros f all J H. unfold pick_ok in H. rewrite !andb_true_iff in H. destruct H as [[H1 H2] H3].
  apply Nat.eqb_eq in H3. split; [assumption|]. split; [|split; [|assumption]].
  - apply forallb_forall. intros b Hb. rewrite forallb_forall in H2. apply H2 in Hb. apply andb_true_iff in Hb. tauto.
  - intros b Hb. rewrite forallb_forall in H2. apply H2 in Hb. apply andb_true_iff in Hb. apply memb_In. tauto.
Qed.

Lemma pick_ok_nsrc : forall f all J, pick_ok f all J = true -> nsrc f J = nsrc f all.
Proof.
  intros f all J H. apply pick_ok_spec in H. destruct H as [H1 [H2 [_ H4]]].
  rewrite nsrc_self; assumption.
Qed.

Lemma pick_ok_nil : forall f J, pick_ok f [] J = true -> J = [].
Proof.
  intros f J H. apply pick_ok_spec in H. destruct H as [_ [_ [_ H]]]. unfold nsrc in H. simpl in H.
  destruct J; [reflexivity | discriminate].
Qed.

Lemma uniq_first_nodup : forall l seen, NoDup (map src l) -> (forall b, In b l -> ~ In (src b) seen) -> uniq_first seen l = l.
Proof.
  induction l as [|b l IH]; simpl; intros seen Hnd Hs; [reflexivity|].
  inversion Hnd; subst.
  destruct (memn (src b) seen) eqn:E.
  - apply memn_In in E. exfalso. eapply Hs; [left; reflexivity | assumption].
  - f_equal. apply IH; [assumption|]. intros x Hx [Hin|Hin].
    + apply H1. rewrite Hin. apply in_map. assumption.
    + eapply Hs; [right; eassumption | assumption].
Qed.

Lemma filter_app_types : forall A (f : A -> bool) l1 l2, filter f (l1 ++ l2) = filter f l1 ++ filter f l2.
Proof. intros. apply filter_app. Qed.
