(* Facts about the single-process QBFT model (Qbft/Model.v): reflection lemmas, list lemmas about
   the source-keyed helpers, the reachable-state invariant, and the single-process theorems used by
   Properties/C03.v and C04.v.  All statements quantify over ALL label sequences the model accepts
   (equivalently: over all events and all oracle choices of [fstep]). *)
From Coq Require Import List NArith Arith Bool Lia Sorted.
From Charon Require Import Common.Quorum Qbft.Model Qbft.Monitor.
Import ListNotations.
Set Warnings "-unused-intro-pattern".


(* ------------------------------------------------------------------------------------------ *)
(* Reflection of the boolean equalities                                                        *)

Lemma mtype_eqb_eq : forall a b, mtype_eqb a b = true <-> a = b.
Proof. destruct a, b; simpl; split; intro H; try reflexivity; discriminate. Qed.

Lemma rule_eqb_eq : forall a b, rule_eqb a b = true <-> a = b.
Proof. destruct a, b; simpl; split; intro H; try reflexivity; discriminate. Qed.

Lemma exitwhy_eqb_eq : forall a b, exitwhy_eqb a b = true <-> a = b.
Proof. destruct a, b; simpl; split; intro H; try reflexivity; discriminate. Qed.

Lemma beq_eq : forall a b, beq a b = true <-> a = b.
Proof.
  intros [t1 s1 r1 v1 p1 w1] [t2 s2 r2 v2 p2 w2]. unfold beq; simpl.
  rewrite !andb_true_iff, mtype_eqb_eq, !Nat.eqb_eq, !N.eqb_eq.
  split.
  - intros [[[[[-> ->] ->] ->] ->] ->]. reflexivity.
  - intro H. inversion H. auto 10.
Qed.

Lemma beq_refl : forall a, beq a a = true.
Proof. intro a. apply beq_eq. reflexivity. Qed.

Lemma list_beq_eq : forall a b, list_beq a b = true <-> a = b.
Proof.
  induction a as [|x a IH]; destruct b as [|y b]; simpl; split; intro H; try reflexivity; try discriminate.
  - apply andb_true_iff in H. destruct H as [H1 H2]. apply beq_eq in H1. apply IH in H2. congruence.
  - inversion H; subst. apply andb_true_iff. split; [apply beq_refl | apply IH; reflexivity].
Qed.

Lemma meq_eq : forall a b, meq a b = true <-> a = b.
Proof.
  intros [m1 j1] [m2 j2]. unfold meq; simpl. rewrite andb_true_iff, beq_eq, list_beq_eq.
  split; [intros [-> ->]; reflexivity | intro H; inversion H; auto].
Qed.

Lemma output_eqb_eq : forall x y, output_eqb x y = true <-> x = y.
Proof.
  intros x y. destruct x; destruct y; simpl; split; intro H; try discriminate; try reflexivity.
  - apply andb_true_iff in H. destruct H as [H1 H2]. apply beq_eq in H1. apply list_beq_eq in H2. congruence.
  - inversion H; subst. apply andb_true_iff. split; [apply beq_refl | apply list_beq_eq; reflexivity].
  - rewrite !andb_true_iff in H. destruct H as [[H1 H2] H3].
    apply N.eqb_eq in H1. apply Nat.eqb_eq in H2. apply list_beq_eq in H3. congruence.
  - inversion H; subst. rewrite !andb_true_iff. repeat split;
      [apply N.eqb_refl | apply Nat.eqb_refl | apply list_beq_eq; reflexivity].
  - apply Nat.eqb_eq in H. congruence.
  - inversion H; subst. apply Nat.eqb_refl.
  - apply meq_eq in H. congruence.
  - inversion H; subst. apply meq_eq. reflexivity.
  - apply rule_eqb_eq in H. congruence.
  - inversion H; subst. apply rule_eqb_eq. reflexivity.
  - rewrite !andb_true_iff in H. destruct H as [[H1 H2] H3].
    apply Nat.eqb_eq in H1. apply Nat.eqb_eq in H2. apply rule_eqb_eq in H3. congruence.
  - inversion H; subst. rewrite !andb_true_iff. repeat split;
      [apply Nat.eqb_refl | apply Nat.eqb_refl | apply rule_eqb_eq; reflexivity].
  - apply exitwhy_eqb_eq in H. congruence.
  - inversion H; subst. apply exitwhy_eqb_eq. reflexivity.
Qed.

Lemma outs_eqb_eq : forall a b, outs_eqb a b = true <-> a = b.
Proof.
  induction a as [|x a IH]; destruct b as [|y b]; simpl; split; intro H; try reflexivity; try discriminate.
  - apply andb_true_iff in H. destruct H as [H1 H2]. apply output_eqb_eq in H1. apply IH in H2. congruence.
  - inversion H; subst. apply andb_true_iff. split; [apply output_eqb_eq; reflexivity | apply IH; reflexivity].
Qed.

(* ------------------------------------------------------------------------------------------ *)
(* step / run in terms of fstep                                                                *)

Lemma step_fstep : forall p s l s',
  step p s l = Some s' ->
  fstep p s (event_of l) (oracle_of (label_outs l)) = Some (s', label_outs l).
Proof.
  intros p s l s' H. unfold step in H.
  destruct (fstep p s (event_of l) (oracle_of (label_outs l))) as [[s1 outs]|]; [|discriminate].
  destruct (outs_eqb outs (label_outs l)) eqn:E; [|discriminate].
  apply outs_eqb_eq in E. inversion H; subst. reflexivity.
Qed.

Lemma step_ex_oracle : forall p s l s',
  step p s l = Some s' -> exists o, fstep p s (event_of l) o = Some (s', label_outs l).
Proof. intros. eexists. apply step_fstep. eassumption. Qed.

(* A state predicate preserved by every fstep transition holds after every accepted run. *)
Lemma run_invariant : forall p (P : state -> Prop),
  (forall s e o s' outs, P s -> fstep p s e o = Some (s', outs) -> P s') ->
  forall ls s s', P s -> run p s ls = Some s' -> P s'.
Proof.
  intros p P Hstep. induction ls as [|l ls IH]; simpl; intros s s' Hs H.
  - inversion H; subst; assumption.
  - destruct (step p s l) as [s1|] eqn:E; [|discriminate].
    apply step_fstep in E. eapply IH; [|eassumption]. eapply Hstep; eassumption.
Qed.

(* ------------------------------------------------------------------------------------------ *)
(* Lists keyed by source                                                                       *)

Lemma memn_In : forall x l, memn x l = true <-> In x l.
Proof.
  induction l as [|y l IH]; simpl; [split; [discriminate | tauto]|].
  rewrite orb_true_iff, Nat.eqb_eq, IH. tauto.
Qed.

Lemma nodupn_NoDup : forall l, nodupn l = true <-> NoDup l.
Proof.
  induction l as [|x l IH]; simpl.
  - split; [constructor | reflexivity].
  - rewrite andb_true_iff, negb_true_iff, IH. split.
    + intros [H1 H2]. constructor; [|assumption]. rewrite <- memn_In. congruence.
    + intro H. inversion H; subst. split; [|assumption].
      destruct (memn x l) eqn:E; [|reflexivity]. apply memn_In in E. contradiction.
Qed.

Lemma dedupn_In : forall x l, In x (dedupn l) <-> In x l.
Proof.
  induction l as [|y l IH]; simpl; [tauto|].
  rewrite filter_In, IH, negb_true_iff, Nat.eqb_neq.
  destruct (Nat.eq_dec y x); [subst; tauto|]. split; [tauto|]. intros [H|H]; [contradiction | right; split; [assumption | congruence]].
Qed.

Lemma NoDup_filter : forall {A} (f : A -> bool) l, NoDup l -> NoDup (filter f l).
Proof.
  intros A f l H. induction H; simpl; [constructor|].
  destruct (f x); [constructor|]; auto. rewrite filter_In. tauto.
Qed.

Lemma dedupn_NoDup : forall l, NoDup (dedupn l).
Proof.
  induction l as [|x l IH]; simpl; [constructor|]. constructor.
  - rewrite filter_In, negb_true_iff, Nat.eqb_neq. tauto.
  - apply NoDup_filter. assumption.
Qed.

Lemma filter_all : forall {A} (f : A -> bool) l, forallb f l = true -> filter f l = l.
Proof.
  intros A f l. induction l as [|x l IH]; simpl; [reflexivity|].
  intro H. apply andb_true_iff in H. destruct H as [H1 H2]. rewrite H1, IH; auto.
Qed.

Lemma dedupn_nodup_id : forall l, NoDup l -> dedupn l = l.
Proof.
  intros l H. induction H as [|x l Hx Hl IH]; simpl; [reflexivity|]. rewrite IH. f_equal.
  apply filter_all.
  apply forallb_forall. intros y Hy. apply negb_true_iff, Nat.eqb_neq. congruence.
Qed.

(* the number of distinct elements depends only on the set of elements *)
Lemma dedupn_length_incl : forall l1 l2, incl l1 l2 -> length (dedupn l1) <= length (dedupn l2).
Proof.
  intros l1 l2 H. apply NoDup_incl_length; [apply dedupn_NoDup|].
  intros x Hx. apply (proj2 (dedupn_In x l2)). apply H. exact (proj1 (dedupn_In x l1) Hx).
Qed.

Lemma dedupn_length_same : forall l1 l2, incl l1 l2 -> incl l2 l1 -> length (dedupn l1) = length (dedupn l2).
Proof. intros. apply Nat.le_antisymm; apply dedupn_length_incl; assumption. Qed.

Lemma memb_In : forall b l, memb b l = true <-> In b l.
Proof.
  intros b l. unfold memb. rewrite existsb_exists. split.
  - intros [x [Hx E]]. apply beq_eq in E. subst. assumption.
  - intro H. exists b. split; [assumption | apply beq_refl].
Qed.

Lemma dedupb_In : forall x l, In x (dedupb l) <-> In x l.
Proof.
  induction l as [|y l IH]; simpl; [tauto|].
  rewrite filter_In, IH, negb_true_iff.
  destruct (beq x y) eqn:E.
  - apply beq_eq in E. subst. tauto.
  - split; [tauto|]. intros [H|H]; [subst; rewrite beq_refl in E; discriminate | right; split; [assumption | reflexivity]].
Qed.

Lemma filter_none : forall {A} (f : A -> bool) l, forallb (fun x => negb (f x)) l = true -> filter f l = [].
Proof.
  intros A f l. induction l as [|x l IH]; simpl; [reflexivity|].
  intro H. apply andb_true_iff in H. destruct H as [H1 H2]. apply negb_true_iff in H1. rewrite H1. auto.
Qed.

(* nsrc counts distinct sources; on a list with distinct sources all satisfying f it is the length *)
Lemma nsrc_self : forall f J, nodupn (map src J) = true -> forallb f J = true -> nsrc f J = length J.
Proof.
  intros f J H1 H2. unfold nsrc. rewrite filter_all by assumption.
  rewrite dedupn_nodup_id by (apply nodupn_NoDup; assumption). apply map_length.
Qed.

Lemma nsrc_incl : forall f l1 l2, incl l1 l2 -> nsrc f l1 <= nsrc f l2.
Proof.
  intros f l1 l2 H. unfold nsrc. apply dedupn_length_incl.
  intros x Hx. apply in_map_iff in Hx. destruct Hx as [b [E Hb]]. apply filter_In in Hb.
  apply in_map_iff. exists b. split; [assumption|]. apply filter_In. split; [apply H|]; tauto.
Qed.

Lemma nsrc_same : forall f l1 l2, incl l1 l2 -> incl l2 l1 -> nsrc f l1 = nsrc f l2.
Proof. intros. apply Nat.le_antisymm; apply nsrc_incl; assumption. Qed.

Lemma nsrc_dedupb_filter : forall f all, nsrc f (dedupb (filter f all)) = nsrc f all.
Proof.
  intros f all. unfold nsrc. apply dedupn_length_same; intros x Hx;
    apply in_map_iff in Hx; destruct Hx as [b [E Hb]]; apply in_map_iff; exists b; (split; [assumption|]).
  - apply (proj1 (filter_In _ _ _)) in Hb. destruct Hb as [Hb Hf].
    apply (proj1 (dedupb_In _ _)) in Hb. exact Hb.
  - assert (Hf : f b = true) by (apply (proj1 (filter_In _ _ _)) in Hb; tauto).
    apply (proj2 (filter_In _ _ _)). split; [|exact Hf].
    apply (proj2 (dedupb_In _ _)). exact Hb.
Qed.

Lemma nsrc_pos_nonempty : forall f l, 1 <= nsrc f l -> l <> [].
Proof. intros f l H E. subst. unfold nsrc in H. simpl in H. lia. Qed.

(* what pick_ok gives *)
Lemma pick_ok_spec : forall f all J, pick_ok f all J = true ->
  nodupn (map src J) = true /\ forallb f J = true /\ (forall b, In b J -> In b all) /\ length J = nsrc f all.
Proof.
  intros f all J H. unfold pick_ok in H. rewrite !andb_true_iff in H. destruct H as [[H1 H2] H3].
  apply Nat.eqb_eq in H3. split; [assumption|]. split; [|split; [|assumption]].
  - apply forallb_forall. intros b Hb. rewrite forallb_forall in H2. apply H2 in Hb. apply andb_true_iff in Hb. tauto.
  - intros b Hb. rewrite forallb_forall in H2. apply H2 in Hb. apply andb_true_iff in Hb. apply memb_In. tauto.
Qed.

Lemma pick_ok_nsrc : forall f all J, pick_ok f all J = true -> nsrc f J = nsrc f all.
Proof.
  intros f all J H. apply pick_ok_spec in H. destruct H as [H1 [H2 [_ H4]]].
  rewrite nsrc_self; assumption.
Qed.

Lemma pick_ok_nil : forall f J, pick_ok f [] J = true -> J = [].
Proof.
  intros f J H. apply pick_ok_spec in H. destruct H as [_ [_ [_ H]]]. unfold nsrc in H. simpl in H.
  destruct J; [reflexivity | discriminate].
Qed.

Lemma uniq_first_nodup : forall l seen, NoDup (map src l) -> (forall b, In b l -> ~ In (src b) seen) -> uniq_first seen l = l.
Proof.
  induction l as [|b l IH]; simpl; intros seen Hnd Hs; [reflexivity|].
  inversion Hnd; subst.
  destruct (memn (src b) seen) eqn:E.
  - apply memn_In in E. exfalso. eapply Hs; [left; reflexivity | assumption].
  - f_equal. apply IH; [assumption|]. intros x Hx [Hin|Hin].
    + apply H1. rewrite Hin. apply in_map. assumption.
    + eapply Hs; [right; eassumption | assumption].
Qed.

Lemma filter_app_types : forall A (f : A -> bool) l1 l2, filter f (l1 ++ l2) = filter f l1 ++ filter f l2.
Proof. intros. apply filter_app. Qed.

(* ------------------------------------------------------------------------------------------ *)
(* Case analysis of fstep                                                                      *)

Ltac destr_hyp H :=
  repeat match type of H with
  | context[match ?x with _ => _ end] => destruct x eqn:?; try discriminate H
  end.
Ltac inv_eqs :=
  repeat match goal with
  | E : Some _ = Some _ |- _ => inversion E; subst; clear E
  | E : (_, _) = (_, _) |- _ => inversion E; subst; clear E
  end.
Ltac crush_fstep H :=
  unfold fstep in H; destr_hyp H;
  repeat match goal with
  | E : apply_rule _ _ _ _ _ _ = Some _ |- _ => unfold apply_rule in E; destr_hyp E
  | E : timeout_body _ _ _ = Some _ |- _ => unfold timeout_body in E; destr_hyp E
  | E : change_round _ _ _ = (_, _) |- _ => unfold change_round in E; destr_hyp E
  end;
  inv_eqs.

(* mark only touches dedup *)
Lemma mark_round : forall s rl r, round (mark s rl r) = round s. Proof. intros; unfold mark; destruct (is_dup s rl r); reflexivity. Qed.
Lemma mark_input : forall s rl r, input (mark s rl r) = input s. Proof. intros; unfold mark; destruct (is_dup s rl r); reflexivity. Qed.
Lemma mark_ppj : forall s rl r, ppj (mark s rl r) = ppj s. Proof. intros; unfold mark; destruct (is_dup s rl r); reflexivity. Qed.
Lemma mark_prepR : forall s rl r, prepR (mark s rl r) = prepR s. Proof. intros; unfold mark; destruct (is_dup s rl r); reflexivity. Qed.
Lemma mark_prepV : forall s rl r, prepV (mark s rl r) = prepV s. Proof. intros; unfold mark; destruct (is_dup s rl r); reflexivity. Qed.
Lemma mark_prepJ : forall s rl r, prepJ (mark s rl r) = prepJ s. Proof. intros; unfold mark; destruct (is_dup s rl r); reflexivity. Qed.
Lemma mark_cfr : forall s rl r, cfr (mark s rl r) = cfr s. Proof. intros; unfold mark; destruct (is_dup s rl r); reflexivity. Qed.
Lemma mark_qcommit : forall s rl r, qcommit (mark s rl r) = qcommit s. Proof. intros; unfold mark; destruct (is_dup s rl r); reflexivity. Qed.
Lemma mark_qcommitV : forall s rl r, qcommitV (mark s rl r) = qcommitV s. Proof. intros; unfold mark; destruct (is_dup s rl r); reflexivity. Qed.
Lemma mark_buffer : forall s rl r, buffer (mark s rl r) = buffer s. Proof. intros; unfold mark; destruct (is_dup s rl r); reflexivity. Qed.
Lemma mark_resends : forall s rl r, resends (mark s rl r) = resends s. Proof. intros; unfold mark; destruct (is_dup s rl r); reflexivity. Qed.
Lemma mark_timer : forall s rl r, timer (mark s rl r) = timer s. Proof. intros; unfold mark; destruct (is_dup s rl r); reflexivity. Qed.
Lemma mark_started : forall s rl r, started (mark s rl r) = started s. Proof. intros; unfold mark; destruct (is_dup s rl r); reflexivity. Qed.
Lemma mark_dead : forall s rl r, dead (mark s rl r) = dead s. Proof. intros; unfold mark; destruct (is_dup s rl r); reflexivity. Qed.
Lemma mark_decided : forall s rl r, decided (mark s rl r) = decided s. Proof. intros; unfold decided; rewrite mark_qcommit; reflexivity. Qed.
Global Hint Rewrite mark_round mark_input mark_ppj mark_prepR mark_prepV mark_prepJ mark_cfr mark_qcommit mark_qcommitV
  mark_buffer mark_resends mark_timer mark_started mark_dead mark_decided : st.

Definition f_prep (s : state) : bmsg -> bool := f_trv Prepare (prepR s) (prepV s).
Ltac st := unfold decided, f_prep in *; simpl in *; repeat (progress (autorewrite with st in *; simpl in *)).

(* what membership of a rule in rules_of says *)
Lemma rules_of_inv : forall p s m rl, existsb (rule_eqb rl) (rules_of p s m) = true ->
  match rl with
  | JustPrePrepare => ty (main m) = PrePrepare /\ round s <= rnd (main m)
  | QPrepares => ty (main m) = Prepare /\ rnd (main m) = round s
                 /\ qn p <= nsrc (f_trv Prepare (rnd (main m)) (val (main m))) (flat (buffer s))
  | QCommits => ty (main m) = Commit /\ rnd (main m) = round s
                 /\ qn p <= nsrc (f_trv Commit (rnd (main m)) (val (main m))) (flat (buffer s))
  | JustDecided => ty (main m) = Decided
  | FPlus1RC => ty (main m) = RoundChange /\ round s < rnd (main m)
  | QRC => ty (main m) = RoundChange /\ rnd (main m) = round s /\ is_leader p (rnd (main m)) (self p) = true
  | UnjustQRC => ty (main m) = RoundChange /\ rnd (main m) = round s
  | Nothing => True
  | RoundTimeout => False
  end.
Proof.
  intros p s m rl H. unfold rules_of in H.
  destruct (ty (main m)) eqn:Ety.
  - destruct (rnd (main m) <? round s) eqn:E; simpl in H; rewrite orb_false_r in H; apply rule_eqb_eq in H; subst; auto.
    apply Nat.ltb_ge in E. auto.
  - destruct (negb (rnd (main m) =? round s)) eqn:E; [simpl in H; rewrite orb_false_r in H; apply rule_eqb_eq in H; subst; exact I|].
    apply negb_false_iff, Nat.eqb_eq in E.
    destruct (qn p <=? nsrc _ _) eqn:E2; simpl in H; rewrite orb_false_r in H; apply rule_eqb_eq in H; subst; auto.
    apply Nat.leb_le in E2. auto.
  - destruct (negb (rnd (main m) =? round s)) eqn:E; [simpl in H; rewrite orb_false_r in H; apply rule_eqb_eq in H; subst; exact I|].
    apply negb_false_iff, Nat.eqb_eq in E.
    destruct (qn p <=? nsrc _ _) eqn:E2; simpl in H; rewrite orb_false_r in H; apply rule_eqb_eq in H; subst; auto.
    apply Nat.leb_le in E2. auto.
  - destruct (rnd (main m) <? round s) eqn:E1; [simpl in H; rewrite orb_false_r in H; apply rule_eqb_eq in H; subst; exact I|].
    destruct (round s <? rnd (main m)) eqn:E2.
    + apply Nat.ltb_lt in E2.
      destruct (fn p + 1 <=? _); simpl in H; rewrite orb_false_r in H; apply rule_eqb_eq in H; subst; auto.
    + apply Nat.ltb_ge in E1. apply Nat.ltb_ge in E2. assert (Er : rnd (main m) = round s) by lia.
      destruct (nsrc _ _ <? qn p); [simpl in H; rewrite orb_false_r in H; apply rule_eqb_eq in H; subst; exact I|].
      rewrite existsb_app in H. apply orb_true_iff in H. destruct H as [H|H].
      * destruct (may_ok p _ _); [|discriminate]. simpl in H. rewrite orb_false_r in H. apply rule_eqb_eq in H.
        destruct (is_leader p (rnd (main m)) (self p)) eqn:El; subst; auto.
      * destruct (may_fail p _ _); [|discriminate]. simpl in H. rewrite orb_false_r in H. apply rule_eqb_eq in H. subst; auto.
  - simpl in H. rewrite orb_false_r in H. apply rule_eqb_eq in H. subst. reflexivity.
Qed.

(* ------------------------------------------------------------------------------------------ *)
(* Reachable-state invariant                                                                   *)

Record inv (p : params) (s : state) : Prop := mkinv {
  i_timer : decided s = true -> timer s = None;
  i_started : decided s = true -> started s = true;
  i_qc : decided s = true -> qn p <= nsrc (f_trv Commit (round s) (qcommitV s)) (qcommit s);
  i_prep : (prepJ s = [] /\ prepR s = 0 /\ prepV s = 0%N) \/ qn p <= nsrc (f_prep s) (prepJ s);
  i_ppj : match ppj s with
          | PNone => True
          | PEmpty => round s = 1 /\ is_leader p 1 (self p) = true
          | PQrc _ _ => is_leader p (round s) (self p) = true
          end;
  i_res : decided s = false -> resends s = [];
  i_init : started s = false -> s = init
}.

Lemma inv_init : forall p, inv p init.
Proof. intro p. constructor; simpl; auto; discriminate. Qed.

Lemma decided_nonempty : forall s, decided s = true <-> qcommit s <> [].
Proof. intro s. unfold decided. destruct (qcommit s); split; try congruence; auto. Qed.

Ltac rule_facts :=
  match goal with E : existsb (rule_eqb ?rl) (rules_of ?p ?s ?m) && _ = true |- _ =>
    let Hr := fresh "Hr" in apply andb_true_iff in E; destruct E as [Hr _]; apply rules_of_inv in Hr; simpl in Hr end.
Ltac started_fact :=
  match goal with E : negb (started ?s) || dead ?s = false |- _ =>
    let Hst := fresh "Hst" in let Hdd := fresh "Hdd" in
    apply orb_false_iff in E; destruct E as [Hst Hdd]; apply negb_false_iff in Hst end.

Lemma inv_fstep : forall p s e o s' outs, 1 <= nodes p ->
  inv p s -> fstep p s e o = Some (s', outs) -> inv p s'.
Proof.
  intros p s e o s' outs Hn [I1 I2 I3 I4 I5 I6 I7] H.
  pose proof (quorum_pos (nodes p) Hn) as Hq. fold (qn p) in Hq.
  destruct e.
  - (* start *) crush_fstep H; apply orb_false_iff in Heqb; destruct Heqb as [Hst Hdd]; rewrite (I7 Hst) in *;
      constructor; simpl; auto; try discriminate.
  - crush_fstep H; constructor; st; auto; try discriminate; try congruence.
    all: try (match goal with E : ppj _ = _ |- _ => rewrite E end; auto).
    all: try (intro Hx; apply I7 in Hx; rewrite Hx in *; discriminate).
  - crush_fstep H.
    all: try rule_facts.
    all: started_fact.
    all: constructor; st; auto; try discriminate; try congruence.
    all: try (match goal with E : ppj _ = _ |- _ => rewrite E end; auto).
    all: try (intro Hx; apply I7 in Hx; rewrite Hx in *; discriminate).
    all: try (right; destruct Hr as [_ [Hr1 Hr2]]; rewrite <- Hr1; rewrite nsrc_dedupb_filter; exact Hr2).
    all: try (intros _; destruct Hr as [_ [Hr1 Hr2]]; rewrite <- ?Hr1;
              match goal with E : pick_ok _ _ _ = true |- _ => rewrite (pick_ok_nsrc _ _ _ E); exact Hr2 end).
    all: try (destruct Hr as [_ [Hr1 Hr2]]; rewrite <- Hr1; exact Hr2).
    all: try (intros _; apply negb_false_iff in Heqb1; unfold justified in Heqb1; rewrite Hr in Heqb1;
              unfold justified_decided in Heqb1; apply Nat.leb_le in Heqb1;
              try (match goal with E : (round _ =? rnd _) = true |- _ => apply Nat.eqb_eq in E; rewrite E end); exact Heqb1).
  - crush_fstep H. all: started_fact. all: constructor; st; auto; try discriminate; try congruence.
    all: intro Hd; specialize (I1 Hd); discriminate.
Qed.

(* ------------------------------------------------------------------------------------------ *)
(* The single-process monitor of C03 holds on every accepted label sequence                    *)

Definition ghost_of (s : state) : g3 := mkg3 (decided s) (resends s).

Lemma run_inv : forall p ls s, 1 <= nodes p -> run p init ls = Some s -> inv p s.
Proof.
  intros p ls s Hn H. eapply (run_invariant p (inv p)); [|apply inv_init|exact H].
  intros. eapply inv_fstep; eassumption.
Qed.

Lemma fstep_mon3 : forall p s l o s', 1 <= nodes p -> inv p s ->
  fstep p s (event_of l) o = Some (s', label_outs l) ->
  check3 p (ghost_of s) l = true /\ ghost_of s' = gstep3 (ghost_of s) l.
Proof.
  intros p s l o s' Hn [I1 I2 I3 I4 I5 I6 I7] H.
  pose proof (quorum_pos (nodes p) Hn) as Hq. fold (qn p) in Hq.
  unfold check3, gstep3, ghost_of.
  destruct l as [outs|v outs|m c outs|outs]; simpl in H; simpl label_outs.
  - crush_fstep H; apply orb_false_iff in Heqb; destruct Heqb as [Hst Hdd]; rewrite (I7 Hst); simpl; auto.
  - crush_fstep H; st; destruct (qcommit s) eqn:Hqc; simpl; auto.
  - crush_fstep H.
    all: try rule_facts.
    all: st.
    all: try (destruct (qcommit s) eqn:Hqc; try discriminate; simpl; auto).
    all: try (rewrite Heqb0; auto).
    1: { (* DECIDED re-broadcast *)
      rewrite !andb_true_iff in Heqb1. destruct Heqb1 as [[H1 H2] H3].
      unfold allow_resend in H3. destruct (resend_get (resends s) (src (main m))) as [lr cnt] eqn:Er.
      apply andb_true_iff in H3. destruct H3 as [H3 H4]. apply negb_true_iff in H3, H4.
      apply Nat.leb_gt in H3. apply Nat.leb_gt in H4. simpl.
      rewrite Nat.eqb_refl, H1, H2. simpl. split; [|reflexivity].
      apply andb_true_iff. split; apply Nat.ltb_lt; assumption. }
    all: try (destruct Hr as [_ [Hr1 Hr2]];
      assert (Hb : qn p <= nsrc (f_trv Commit (rnd (main m)) (val (main m))) (o_just o))
        by (rewrite (pick_ok_nsrc _ _ _ Heqb4); exact Hr2);
      (split; [apply Nat.leb_le; exact Hb|]);
      destruct (o_just o) eqn:Ej; [exfalso; unfold nsrc in Hb; simpl in Hb; lia | reflexivity]).
    all: try (apply negb_false_iff in Heqb1; unfold justified in Heqb1; rewrite Hr in Heqb1;
      unfold justified_decided in Heqb1;
      (split; [exact Heqb1|]); apply Nat.leb_le in Heqb1;
      destruct (just m) eqn:Ej; [exfalso; unfold nsrc in Heqb1; simpl in Heqb1; lia | reflexivity]).
  - crush_fstep H. all: st.
    all: destruct (qcommit s) eqn:Hqc; [simpl; auto | specialize (I1 eq_refl); discriminate].
Qed.
Lemma run_mon3_from : forall p ls s s', 1 <= nodes p -> inv p s -> run p s ls = Some s' ->
  mon3_from p (ghost_of s) ls = true.
Proof.
  intros p. induction ls as [|l ls IH]; simpl; intros s s' Hn Hi H; [reflexivity|].
  destruct (step p s l) as [s1|] eqn:E; [|discriminate].
  apply step_fstep in E.
  destruct (fstep_mon3 p s l _ s1 Hn Hi E) as [Hc Hg].
  rewrite Hc. simpl. rewrite <- Hg. eapply IH; [assumption | eapply inv_fstep; eassumption | eassumption].
Qed.

Theorem run_mon3 : forall p ls s, 1 <= nodes p -> run p init ls = Some s -> mon3 p ls = true.
Proof. intros p ls s Hn H. exact (run_mon3_from p ls init s Hn (inv_init p) H). Qed.

(* ---- readings of the monitor ---- *)

Definition decs (ls : list label) : list (N * nat * list bmsg) := flat_map (fun l => decides_of (label_outs l)) ls.

Lemma check3_decided_no_decide : forall p g l, g_dec g = true -> check3 p g l = true -> decides_of (label_outs l) = [].
Proof.
  intros p g l Hd H. unfold check3 in H. rewrite Hd in H.
  destruct l as [outs|v outs|m c outs|outs]; try discriminate; simpl.
  - destruct outs as [|o [|o2 r]]; try reflexivity; destruct o; try discriminate; reflexivity.
  - destruct outs as [|o [|o2 r]]; try reflexivity; destruct o; try discriminate; reflexivity.
Qed.

Lemma gstep3_decided : forall g l, g_dec g = true -> g_dec (gstep3 g l) = true.
Proof.
  intros g l Hd. unfold gstep3. rewrite Hd. destruct l; try assumption.
  destruct outs as [|o [|o2 r]]; try assumption. reflexivity.
Qed.

Lemma mon3_decided_no_decide : forall p ls g, g_dec g = true -> mon3_from p g ls = true -> decs ls = [].
Proof.
  intros p. induction ls as [|l ls IH]; simpl; intros g Hd H; [reflexivity|].
  apply andb_true_iff in H. destruct H as [H1 H2].
  rewrite (check3_decided_no_decide p g l Hd H1). simpl.
  eapply IH; [|eassumption]. apply gstep3_decided. assumption.
Qed.

Lemma mon3_decide_once_from : forall p ls g, mon3_from p g ls = true -> length (decs ls) <= 1.
Proof.
  intros p. induction ls as [|l ls IH]; simpl; intros g H; [lia|].
  apply andb_true_iff in H. destruct H as [H1 H2].
  destruct (g_dec g) eqn:Hd.
  - rewrite (check3_decided_no_decide p g l Hd H1). simpl. eapply IH; eassumption.
  - unfold check3 in H1. rewrite Hd in H1. unfold gstep3 in H2. rewrite Hd in H2.
    destruct (decides_of (label_outs l)) as [|d [|d2 r]] eqn:E.
    + simpl. eapply IH; eassumption.
    + simpl in H2. rewrite (mon3_decided_no_decide p ls _ (eq_refl : g_dec (mkg3 true (g_res g)) = true) H2). simpl. lia.
    + destruct d as [[v r0] qc]. discriminate.
Qed.

Lemma mon3_backed_from : forall p ls g, mon3_from p g ls = true ->
  forall v r qc, In (v, r, qc) (decs ls) -> qn p <= nsrc (f_trv Commit r v) qc.
Proof.
  intros p. induction ls as [|l ls IH]; simpl; intros g H v r qc Hin; [contradiction|].
  apply andb_true_iff in H. destruct H as [H1 H2].
  apply in_app_or in Hin. destruct Hin as [Hin|Hin]; [|eapply IH; eassumption].
  destruct (g_dec g) eqn:Hd.
  - rewrite (check3_decided_no_decide p g l Hd H1) in Hin. contradiction.
  - unfold check3 in H1. rewrite Hd in H1.
    destruct (decides_of (label_outs l)) as [|d [|d2 r1]] eqn:E; [contradiction| |destruct d as [[? ?] ?]; discriminate].
    destruct d as [[v0 r0] qc0]. destruct Hin as [Hin|[]]. inversion Hin; subst. apply Nat.leb_le. exact H1.
Qed.

Lemma mon3_from_app : forall p a b g, mon3_from p g (a ++ b) = mon3_from p g a && mon3_from p (ghost3_after g a) b.
Proof.
  intros p. induction a as [|l a IH]; simpl; intros b g; [reflexivity|].
  rewrite IH. apply andb_assoc.
Qed.

Lemma ghost3_after_decided : forall ls g, g_dec g = true -> g_dec (ghost3_after g ls) = true.
Proof. induction ls as [|l ls IH]; simpl; intros g H; [assumption|]. apply IH. apply gstep3_decided. assumption. Qed.

Lemma ghost3_after_decs : forall ls g, decs ls <> [] -> g_dec (ghost3_after g ls) = true.
Proof.
  induction ls as [|l ls IH]; simpl; intros g H; [contradiction|].
  destruct (g_dec g) eqn:Hd; [apply ghost3_after_decided; apply gstep3_decided; assumption|].
  destruct (decides_of (label_outs l)) as [|d r] eqn:E.
  - simpl in H. apply IH. assumption.
  - apply ghost3_after_decided. unfold gstep3. rewrite Hd, E. reflexivity.
Qed.

Definition post_decision_label (p : params) (l : label) : Prop :=
  match l with
  | LRecv m _ outs =>
      outs = [] \/
      exists b J, outs = [Bcast b J] /\ ty b = Decided /\ src b = self p
                  /\ ty (main m) = RoundChange /\ src (main m) <> self p
  | LInput _ outs =>
      outs = [] \/ (exists w, outs = [Exit w]) \/ exists b J, outs = [Bcast b J] /\ ty b = PrePrepare
  | _ => False
  end.

Lemma check3_post_decision : forall p g l, g_dec g = true -> check3 p g l = true -> post_decision_label p l.
Proof.
  intros p g l Hd H. unfold check3 in H. rewrite Hd in H.
  destruct l as [outs|v outs|m c outs|outs]; try discriminate; simpl.
  - destruct outs as [|o [|o2 r]]; [left; reflexivity| |destruct o; discriminate].
    destruct o; try discriminate.
    + right; right. exists b, j. split; [reflexivity|]. apply mtype_eqb_eq. exact H.
    + right; left. eexists; reflexivity.
  - destruct outs as [|o [|o2 r]]; [left; reflexivity| |destruct o; discriminate].
    destruct o; try discriminate. right. exists b, j.
    rewrite !andb_true_iff in H. destruct H as [[[[[H1 H2] H3] H4] _] _].
    apply mtype_eqb_eq in H1. apply Nat.eqb_eq in H2. apply mtype_eqb_eq in H3.
    apply negb_true_iff, Nat.eqb_neq in H4. auto.
Qed.

Lemma mon3_post_decision : forall p pre l post,
  mon3 p (pre ++ l :: post) = true -> decs pre <> [] -> post_decision_label p l.
Proof.
  intros p pre l post H Hd. unfold mon3 in H. rewrite mon3_from_app in H.
  apply andb_true_iff in H. destruct H as [_ H]. simpl in H. apply andb_true_iff in H. destruct H as [H _].
  eapply check3_post_decision; [|exact H]. apply ghost3_after_decs. assumption.
Qed.

(* ---- bounded DECIDED re-broadcast ---- *)

Definition is_nil {A} (l : list A) : bool := match l with [] => true | _ => false end.

(* rounds of the ROUND-CHANGE messages of source x that were answered (after the decision) *)
Fixpoint triggers (x : nat) (dec : bool) (ls : list label) : list nat :=
  match ls with
  | [] => []
  | l :: r =>
      (if dec then match l with
                   | LRecv m _ [_] => if src (main m) =? x then [rnd (main m)] else []
                   | _ => []
                   end
       else [])
      ++ triggers x (dec || negb (is_nil (decides_of (label_outs l)))) r
  end.

Lemma resend_get_set_same : forall l k v, resend_get (resend_set l k v) k = v.
Proof.
  induction l as [|[k0 w] l IH]; simpl; intros k v.
  - rewrite Nat.eqb_refl. reflexivity.
  - destruct (k0 =? k) eqn:E; simpl; rewrite E; [reflexivity | apply IH].
Qed.

Lemma resend_get_set_other : forall l k k' v, k <> k' -> resend_get (resend_set l k v) k' = resend_get l k'.
Proof.
  induction l as [|[k0 w] l IH]; simpl; intros k k' v Hne.
  - destruct (k =? k') eqn:E; [apply Nat.eqb_eq in E; contradiction | reflexivity].
  - destruct (k0 =? k) eqn:E; simpl.
    + apply Nat.eqb_eq in E. subst. destruct (k =? k') eqn:E2; [apply Nat.eqb_eq in E2; contradiction | reflexivity].
    + destruct (k0 =? k'); [reflexivity | apply IH; assumption].
Qed.

Lemma gstep3_dec : forall p g l, check3 p g l = true ->
  g_dec (gstep3 g l) = g_dec g || negb (is_nil (decides_of (label_outs l))).
Proof.
  intros p g l H. destruct (g_dec g) eqn:Hd.
  - rewrite gstep3_decided by assumption. reflexivity.
  - unfold gstep3. rewrite Hd. destruct (decides_of (label_outs l)); simpl; [exact Hd | reflexivity].
Qed.

Lemma mon3_triggers_from : forall p x ls g, mon3_from p g ls = true ->
  snd (resend_get (g_res g) x) <= maxDecidedResends ->
  let T := triggers x (g_dec g) ls in
  Forall (fun r => fst (resend_get (g_res g) x) < r) T /\ StronglySorted lt T
  /\ snd (resend_get (g_res g) x) + length T <= maxDecidedResends.
Proof.
  intros p x. induction ls as [|l ls IH]; intros g H Hc; simpl.
  - repeat split; [constructor | constructor | lia].
  - simpl in H. apply andb_true_iff in H. destruct H as [H1 H2].
    rewrite <- (gstep3_dec p g l H1).
    destruct (g_dec g) eqn:Hd.
    + unfold check3 in H1. rewrite Hd in H1.
      specialize (IH (gstep3 g l) H2). unfold gstep3 in IH |- *. rewrite Hd in IH |- *.
      destruct l as [outs|v outs|m c outs|outs]; try discriminate.
      * simpl. apply IH; assumption.
      * destruct outs as [|o [|o2 r]].
        -- simpl. apply IH; assumption.
        -- destruct o; try discriminate.
           rewrite !andb_true_iff in H1. destruct H1 as [[_ H5] H6].
           apply Nat.ltb_lt in H5. apply Nat.ltb_lt in H6.
           simpl in IH |- *.
           destruct (src (main m) =? x) eqn:Ex.
           ++ apply Nat.eqb_eq in Ex. subst x. rewrite resend_get_set_same in IH. simpl in IH.
              destruct IH as [F1 [F2 F3]]; [lia|]. simpl.
              repeat split.
              ** constructor; [assumption|]. eapply Forall_impl; [|exact F1]. simpl. intros; lia.
              ** constructor; assumption.
              ** lia.
           ++ apply Nat.eqb_neq in Ex. rewrite resend_get_set_other in IH by assumption. simpl. apply IH. assumption.
        -- destruct o; discriminate.
    + unfold check3 in H1. rewrite Hd in H1. simpl.
      specialize (IH (gstep3 g l) H2). unfold gstep3 in IH |- *. rewrite Hd in IH |- *.
      destruct (decides_of (label_outs l)); simpl in *; apply IH; assumption.
Qed.

Theorem mon3_resend_bounded : forall p x ls, mon3 p ls = true ->
  StronglySorted lt (triggers x false ls) /\ length (triggers x false ls) <= maxDecidedResends.
Proof.
  intros p x ls H. destruct (mon3_triggers_from p x ls g3_init H) as [_ [H2 H3]]; simpl; [unfold maxDecidedResends; lia|].
  split; [exact H2 | simpl in H3; exact H3].
Qed.
