(* Termination half of property C04 at model level (DESIGN.md, C04 "T (termination)").

   Part 1 (this file, top): [rotation_bound] -- with the wrapper's round-robin leader function
   [lead_rr off n r = (off + r) mod n], among any [faulty n + 1] consecutive rounds at least one has
   its leader outside any given set of at most [faulty n] processes (all n >= 1).

   Part 2: the closed synchronous-round system on top of [Model.fstep] and the hypotheses of
   [good_round_decides] (definitions only).  Proofs: GoodRoundFacts.v (per-process "received =>
   done" invariants, counting, round 1), GoodRoundQrc.v (leader proposing on a quorum of
   ROUND-CHANGEs: getJustifiedQrc cannot fail, the proposal is justified everywhere; the combined
   theorem [good_round_decides]; reachable-state facts), GoodRoundEx.v (vm_compute instances, the
   executable form [gexec] of the system, boolean checkers of the hypotheses, the FIFO refutation).

   Differences from the statement in DESIGN.md (C04), all recorded in Properties/C04_live.v:
   - the hypotheses on the initial configuration are closure conditions ([pool_ok], [start_ok],
     [leader_ok], [pool_fresh], [buf_fresh]) that hold in crash-only executions; the single-process
     ones are proved invariants of [run] from [init], the multi-process ones ("what a process did in
     round r is in the pool", "one value per round") are stated;
     TODO: derive them from reachability in the network semantics Qbft/Net.v without Byzantine members;
   - the reachable-state invariant [ModelFacts.inv] turned out not to be needed;
   - no Input event inside the window: the leader already has its input value;
   - the FIFO bound is [fifo_ok] (initially buffered + delivered in the window <= FIFOLimit, per
     receiver and source), which is what the proof needs; [good_round_without_fifo_refuted] shows it
     cannot be dropped. *)
From Coq Require Import List NArith Arith Bool Lia.
From Charon Require Import Common.Quorum Qbft.Model Qbft.ModelFacts.
Import ListNotations.

(* ------------------------------------------------------------------------------------------ *)
(* rotation_bound                                                                              *)

Lemma mod_eq_close : forall n a b, 1 <= n -> a < b -> b < a + n -> a mod n <> b mod n.
Proof.
  intros n a b Hn Hab Hb E.
  assert (Hn0 : n <> 0) by lia.
  pose proof (Nat.div_mod a n Hn0) as Ha. pose proof (Nat.div_mod b n Hn0) as Hb'.
  rewrite E in Ha.
  assert (b - a = n * (b / n - a / n)) by nia.
  assert (b / n - a / n = 0 \/ 1 <= b / n - a / n) as [Hz|Hz] by lia; nia.
Qed.

Lemma lead_rr_lt : forall off n r, 1 <= n -> lead_rr off n r < n.
Proof. intros. unfold lead_rr. apply Nat.mod_upper_bound. lia. Qed.

Lemma NoDup_snoc : forall {A} (l : list A) x, NoDup l -> ~ In x l -> NoDup (l ++ [x]).
Proof.
  intros A l x Hl Hx. induction Hl as [|y l Hy Hl IH]; simpl; [constructor; [tauto | constructor]|].
  constructor.
  - rewrite in_app_iff. simpl. intros [H|[H|[]]]; [tauto | subst; apply Hx; left; reflexivity].
  - apply IH. intro H. apply Hx. right. assumption.
Qed.

(* the leaders of k <= n consecutive rounds are pairwise distinct *)
Lemma lead_rr_window_nodup : forall off n r0 k, 1 <= n -> k <= n ->
  NoDup (map (fun i => lead_rr off n (r0 + i)) (seq 0 k)).
Proof.
  intros off n r0 k Hn. induction k as [|k IH]; intro Hk; [constructor|].
  rewrite seq_S, map_app. simpl.
  apply NoDup_snoc.
  - apply IH. lia.
  - intro Hin. apply in_map_iff in Hin. destruct Hin as [i [E Hi]]. apply in_seq in Hi.
    unfold lead_rr in E. revert E. apply mod_eq_close; lia.
Qed.

Theorem rotation_bound : forall off n (F : list nat) r0, 1 <= n -> length F <= faulty n ->
  exists k, k <= faulty n /\ ~ In (lead_rr off n (r0 + k)) F.
Proof.
  intros off n F r0 Hn HF.
  destruct (existsb (fun i => negb (memn (lead_rr off n (r0 + i)) F)) (seq 0 (faulty n + 1))) eqn:E.
  - apply existsb_exists in E. destruct E as [k [Hk E]]. apply in_seq in Hk.
    exists k. split; [lia|]. apply negb_true_iff in E. intro Hin. apply memn_In in Hin. congruence.
  - exfalso.
    assert (Hincl : incl (map (fun i => lead_rr off n (r0 + i)) (seq 0 (faulty n + 1))) F).
    { intros x Hx. apply in_map_iff in Hx. destruct Hx as [i [Ex Hi]]. subst x.
      destruct (memn (lead_rr off n (r0 + i)) F) eqn:Em; [apply memn_In; assumption|].
      exfalso. assert (Ht : existsb (fun i => negb (memn (lead_rr off n (r0 + i)) F)) (seq 0 (faulty n + 1)) = true).
      { apply existsb_exists. exists i. split; [assumption|]. rewrite Em. reflexivity. }
      congruence. }
    apply NoDup_incl_length in Hincl.
    + rewrite map_length, seq_length in Hincl. lia.
    + apply lead_rr_window_nodup; [assumption|]. pose proof (fplus1_has_honest n Hn). lia.
Qed.

(* ------------------------------------------------------------------------------------------ *)
(* The closed synchronous-round system                                                         *)

(* A global configuration: the Model state of every process, the pool of messages in flight (a
   message = main part + the justification it was sent with), and two ghost components: what has
   been delivered to each process since the beginning of the window, and the Decide callbacks
   (process, value, round) emitted in the window. *)
Record gcfg := mkg {
  gst : nat -> state;
  pool : list msg;
  seen : nat -> list msg;
  gdecs : list (nat * N * nat)
}.

Definition upd {A} (f : nat -> A) (i : nat) (x : A) : nat -> A := fun j => if j =? i then x else f j.

Fixpoint bcasts (outs : list output) : list msg :=
  match outs with
  | [] => []
  | Bcast b j :: r => mkm b j :: bcasts r
  | _ :: r => bcasts r
  end.

Fixpoint decides (i : nat) (outs : list output) : list (nat * N * nat) :=
  match outs with
  | [] => []
  | Decide v k _ :: r => (i, v, k) :: decides i r
  | _ :: r => decides i r
  end.

Section System.
Variables (n fifo_ : nat) (ld : nat -> nat).

Definition pp (i : nat) : params := {| nodes := n; fifo := fifo_; leader := ld; self := i |}.

(* One transition: some process i of R receives some pool message m (any message, any number of
   times, in any order; its own broadcasts included), Compare answers ok, the process runs the
   algorithm [fstep] for SOME admissible choice o of Go's map orders; what it broadcasts joins the
   pool.  No timer fires, no process outside R moves. *)
Inductive gstep (R : list nat) : gcfg -> gcfg -> Prop :=
| GDeliver : forall g i m o s' outs,
    In i R -> In m (pool g) ->
    fstep (pp i) (gst g i) (ERecv m CmpOk) o = Some (s', outs) ->
    gstep R g (mkg (upd (gst g) i s') (pool g ++ bcasts outs)
                   (upd (seen g) i (seen g i ++ [m])) (gdecs g ++ decides i outs)).

Inductive gsteps (R : list nat) : gcfg -> gcfg -> Prop :=
| GS0 : forall g, gsteps R g g
| GSS : forall g g1 g2, gsteps R g g1 -> gstep R g1 g2 -> gsteps R g g2.

(* FAIRNESS, as a property of the configuration reached: every message of the pool (including the
   ones broadcast during the window) has been delivered to every process of R at least once. *)
Definition delivered_all (R : list nat) (g : gcfg) : Prop :=
  forall i m, In i R -> In m (pool g) -> In m (seen g i).

(* length of the FIFO of source s *)
Fixpoint qlen (buf : list (nat * list msg)) (s : nat) : nat :=
  match buf with [] => 0 | (k, q) :: r => if k =? s then length q else qlen r s end.

Definition from_src (s : nat) (m : msg) : bool := src (main m) =? s.

(* FIFO bound: what process i had buffered from source s at the beginning plus what is delivered
   to it from s in the window fits the per-source FIFO (nothing needed is evicted). *)
Definition fifo_ok (R : list nat) (g0 g : gcfg) : Prop :=
  forall i s, In i R ->
    qlen (buffer (gst g0 i)) s + length (filter (from_src s) (seen g i)) <= fifo_.

End System.

(* ------------------------------------------------------------------------------------------ *)
(* What a configuration "in the middle of round r" looks like: hypotheses of the theorem       *)

Definition bufmsgs (buf : list (nat * list msg)) : list msg := flat_map snd buf.

Section Good.
Variables (n fifo_ : nat) (ld : nat -> nat) (R : list nat) (r : nat).

(* main parts that carry "the value of round r": PREPARE/COMMIT of round r, the PRE-PREPARE(r) of
   the leader of round r, any DECIDED *)
Definition carrier (b : bmsg) : bool :=
  match ty b with
  | Prepare | Commit => rnd b =? r
  | PrePrepare => (rnd b =? r) && (src b =? ld r)
  | Decided => true
  | RoundChange => false
  end.

Definition has_main (P : list msg) (b : bmsg) : Prop := exists m, In m P /\ main m = b.

Definition pc (b : bmsg) : Prop := rnd b = r /\ (ty b = Prepare \/ ty b = Commit).

(* Closure conditions on the pool (messages of R in flight, stale messages of lower rounds, and
   whatever processes outside R sent before stopping).  They hold when every message was produced
   by the protocol; a Byzantine sender could break po_val / po_nest. *)
Record pool_ok (P : list msg) : Prop := mkpo {
  (* nothing of a higher round, no DECIDED of another round *)
  po_rnd : forall m, In m P -> rnd (main m) <= r;
  po_dec : forall m, In m P -> ty (main m) = Decided -> rnd (main m) = r;
  (* one value in round r *)
  po_val : forall m m', In m P -> In m' P -> carrier (main m) = true -> carrier (main m') = true ->
           val (main m) = val (main m');
  (* a PREPARE/COMMIT of round r quoted inside a justification is also in flight as a message *)
  po_nest : forall m b, In m P -> In b (just m) -> pc b -> has_main P b
}.

(* State of a process i of R relative to the pool: it is in round r, running, and what it has
   already done in round r is in the pool. *)
Record start_ok (P : list msg) (i : nat) (s : state) : Prop := mkso {
  so_round : round s = r;
  so_started : started s = true;
  so_dead : dead s = false;
  so_undecided : decided s = false;
  so_jpp : is_dup s JustPrePrepare r = true -> exists x, In (mkm (mk Prepare i r x 0 0) []) P;
  so_qp : is_dup s QPrepares r = true -> exists x, In (mkm (mk Commit i r x 0 0) []) P;
  (* reachable-state facts (proved invariants of [run] from [init] in GoodRoundFacts.v) *)
  so_qc : is_dup s QCommits r = false;
  so_jd : forall k, is_dup s JustDecided k = false;
  (* PREPARE/COMMIT of round r it has buffered are in flight to the others as well *)
  so_buf : forall b, In b (flat (buffer s)) -> pc b -> has_main P b
}.

End Good.

(* ------------------------------------------------------------------------------------------ *)
(* Additional hypotheses for a round r > 1                                                     *)

Section Good2.
Variables (n fifo_ : nat) (ld : nat -> nat) (r : nat).

(* closure conditions on the pool while the leader has not proposed yet *)
Record pool_fresh (P : list msg) : Prop := mkpf {
  (* nobody has a value for round r yet *)
  pf_nocar : forall m, In m P -> carrier ld r (main m) = false;
  (* PREPAREs (of lower rounds, possibly quoted in justifications) are well formed *)
  pf_prep : forall m b, In m P -> In b (main m :: just m) -> ty b = Prepare -> 1 <= rnd b /\ val b <> 0%N;
  (* no ROUND-CHANGE(r) is quoted inside another message *)
  pf_nest : forall m b, In m P -> In b (just m) -> f_rc r b = false;
  (* no equivocation on ROUND-CHANGE(r): one (pr, pv) per source *)
  pf_uniq : forall m m', In m P -> In m' P -> f_rc r (main m) = true -> f_rc r (main m') = true ->
            src (main m) = src (main m') -> pr (main m) = pr (main m') /\ pv (main m) = pv (main m')
}.

(* the same for what the leader has already buffered *)
Record buf_fresh (P : list msg) (s : state) : Prop := mkbf {
  bf_prep : forall b, In b (flat (buffer s)) -> ty b = Prepare -> 1 <= rnd b /\ val b <> 0%N;
  bf_nest : forall m b, In m (bufmsgs (buffer s)) -> In b (just m) -> f_rc r b = false;
  (* reachable-state fact: a buffered ROUND-CHANGE passed isJustifiedRoundChange *)
  bf_rc : forall m, In m (bufmsgs (buffer s)) -> f_rc r (main m) = true ->
          justified_roundchange (pp n fifo_ ld (ld r)) m = true /\ has_main P (main m)
}.

(* the leader of round r: has its input, never had a Compare failure, and either has not run the
   QRC rule of round r yet (empty cache) or its PRE-PREPARE(r) is in the pool *)
Record leader_ok (P : list msg) (s : state) : Prop := mklo {
  lo_input : input s <> 0%N;
  lo_cfr : cfr s = 0;
  lo_fresh : is_dup s QRC r = false -> ppj s = PNone /\ pool_fresh P /\ buf_fresh P s;
  lo_sent : is_dup s QRC r = true ->
      exists ml, In ml P /\ ty (main ml) = PrePrepare /\ rnd (main ml) = r
                 /\ forall i c, justified (pp n fifo_ ld i) ml c = true
}.

(* every member of R has broadcast a justified ROUND-CHANGE(r) and it is in the pool *)
Definition rcs_in_pool (R : list nat) (P : list msg) : Prop :=
  forall i, In i R -> exists m, In m P /\ f_rc r (main m) = true /\ src (main m) = i
                                /\ justified_roundchange (pp n fifo_ ld (ld r)) m = true.

End Good2.
