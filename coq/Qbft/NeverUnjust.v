(* C04, safety half at network level: with no Byzantine members and no compare failures, every message an honest
   member broadcasts passes isJustified at every member, whatever that member's state (Qbft/Net.v; the network may
   still delay, drop, duplicate, reorder and cross-assemble). *)
From Coq Require Import List NArith Arith Bool Lia.
From Charon Require Import Common.Quorum Qbft.Model Qbft.Monitor Qbft.ModelFacts Qbft.Justified Qbft.Inv Qbft.Card
  Qbft.Net Qbft.NetInv Qbft.Agreement.
Import ListNotations.
Set Warnings "-unused-intro-pattern".

(* ---- single process: everything about a PRE-PREPARE broadcast ---- *)

Lemma fstep_pp_detail : forall p s e o s' outs, 1 <= nodes p -> inv p s -> fstep p s e o = Some (s', outs) ->
  forall b J, In (Bcast b J) outs -> ty b = PrePrepare ->
  src b = self p /\ is_leader p (rnd b) (self p) = true /\
  ((rnd b = 1 /\ J = [] /\ val b = input s' /\ input s' <> 0%N) \/
   exists all c0, adm_qrc p all (rnd b) J = true
     /\ ((all = flat (buffer s') /\ c0 = cfr s) \/ ppj s = PQrc all c0)
     /\ ((val b = input s' /\ input s' <> 0%N /\ own_branch p J c0 = true)
         \/ exists spr, single (qn p) J = (spr, val b, true) /\ c0 <> spr)).
Proof.
  intros p s e o s' outs Hn Hi H b J Hin Hty.
  destruct Hi as [I1 I2 I3 I4 I5 I6 I7].
  destruct e; crush_fstep H; try rule_facts2; prep_facts; bool_facts; eqb_conv; simpl in Hin.
  all: repeat (destruct Hin as [Hin|Hin]; [try discriminate Hin|]); try contradiction.
  all: try (apply in_app_or in Hin; destruct Hin as [Hin|Hin]; simpl in Hin).
  all: repeat (destruct Hin as [Hin|Hin]; [try discriminate Hin|]); try contradiction.
  all: try (inversion Hin; subst b J; clear Hin; simpl in Hty; try discriminate Hty).
  all: st.
  all: try (rewrite H in *; repeat split; auto; left; auto; fail).
  all: try (repeat split; auto; right; exists all, c; repeat split; auto; fail).
  all: rewrite H0 in *; (split; [reflexivity|]); (split; [assumption|]); right;
       exists (flat (buffer_add (fifo p) (buffer s) m)), (cfr s); (split; [assumption|]); (split; [left; auto|]).
  - right. subst b0. exists n. auto.
  - left. repeat split; auto. unfold own_branch. rewrite Heqp0. destruct b0; [|reflexivity].
    simpl in Heqb6. apply negb_false_iff in Heqb6. apply Nat.eqb_eq in Heqb6. apply Nat.eqb_eq. auto.
Qed.

Lemma fstep_ppj : forall p s e o s' outs, fstep p s e o = Some (s', outs) ->
  forall all c0, ppj s' = PQrc all c0 -> ppj s = PQrc all c0 \/ (all = flat (buffer s') /\ c0 = cfr s).
Proof.
  intros p s e o s' outs H all c0 Hp.
  destruct e; crush_fstep H; st; try discriminate; auto; try congruence.
  all: inversion Hp; subst; auto.
Qed.

(* ---- network: the cached justification snapshot of every honest member consists of deliverable parts and was
        taken with compareFailureRound = 0 ---- *)

Definition ppjinv (c : cfg) (nt : net) : Prop :=
  forall i, good c i -> forall all c0, ppj (nst nt i) = PQrc all c0 -> c0 = 0 /\ forall y, In y all -> deliv c (sent nt) y.

Lemma ppjinv_step : forall c nt i l nt', wf_cfg c -> ninv c nt -> ppjinv c nt -> nstep c nt i l nt' -> label_nofail l = true ->
  ppjinv c nt'.
Proof.
  intros c nt i l nt' Hwf NI PI Hs Hnf.
  pose proof (ninv_step c nt i l nt' Hwf NI Hs Hnf) as NI'.
  inversion Hs as [nt0 i0 l0 s' Hgood Hstep Hdel]; subst nt0 i0 l0.
  pose proof (step_fstep _ _ _ _ Hstep) as Hf.
  intros j Hj all c0 Hp. simpl in Hp |- *. destruct (Nat.eq_dec j i) as [->|Hne].
  - rewrite upd_same in Hp. destruct (fstep_ppj _ _ _ _ _ _ Hf all c0 Hp) as [Hq|[Hq1 Hq2]].
    + destruct (PI i Hgood all c0 Hq) as [P1 P2]. split; [exact P1|]. intros y Hy. apply deliv_mono. auto.
    + split; [rewrite Hq2; exact (n_cfr c nt NI i Hgood)|]. intros y Hy. subst all.
      subst nt'. pose proof (n_buf c _ NI' i Hgood y) as Hb. simpl in Hb. rewrite upd_same in Hb. auto.
  - rewrite upd_other in Hp by assumption. destruct (PI j Hj all c0 Hp) as [P1 P2]. split; [exact P1|].
    intros y Hy. apply deliv_mono. auto.
Qed.

Lemma nreach_ppjinv : forall c nt tr, wf_cfg c -> nreach c nt tr -> trace_nofail tr -> ppjinv c nt.
Proof.
  intros c nt tr Hwf H. induction H as [|nt tr i l nt' Hr IH Hs]; intro Hnf.
  - intros i Hi all c0 Hp. simpl in Hp. discriminate.
  - assert (Hnf' : trace_nofail tr) by (intros j l' Hin; apply (Hnf j l'); apply in_or_app; left; exact Hin).
    eapply ppjinv_step; [exact Hwf | exact (nreach_ninv c nt tr Hwf Hr Hnf') | exact (IH Hnf') | exact Hs |].
    apply (Hnf i l). apply in_or_app. right. left. reflexivity.
Qed.

(* ---- the theorem ---- *)

Lemma nstep_bcast_justified : forall c nt i l nt', wf_cfg c -> (forall k, k < c_n c -> c_honest c k = true) ->
  ninv c nt -> ppjinv c nt -> nstep c nt i l nt' -> label_nofail l = true ->
  forall b J, In (Bcast b J) (label_outs l) -> forall j c', justified (pp c j) (mkm b J) c' = true.
Proof.
  intros c nt i l nt' Hwf Hall NI PI Hs Hnf b J Hin j c'.
  pose proof (ninv_step c nt i l nt' Hwf NI Hs Hnf) as NI'.
  inversion Hs as [nt0 i0 l0 s' Hgood Hstep Hdel]; subst nt0 i0 l0.
  pose proof (step_fstep _ _ _ _ Hstep) as Hf.
  assert (Hnp : 1 <= nodes (pp c i)) by exact (proj1 Hwf).
  pose proof (n_inv c nt NI i Hgood) as Hinv.
  assert (Hq : 1 <= qn (pp c i)) by exact (quorum_pos (c_n c) (proj1 Hwf)).
  destruct (ty b) eqn:Hty.
  - (* PRE-PREPARE *)
    destruct (fstep_pp_detail _ _ _ _ _ _ Hnp Hinv Hf b J Hin Hty) as [Hsrc [Hlead Hcase]].
    unfold justified. simpl. rewrite Hty. unfold justified_preprepare. simpl.
    assert (Hl : is_leader (pp c j) (rnd b) (src b) = true) by (rewrite Hsrc; exact Hlead).
    rewrite Hl. simpl.
    destruct Hcase as [[K1 [K2 [K3 K4]]]|[all [c0 [Hadm [Hall_c0 Hval]]]]].
    + rewrite K1. simpl. rewrite andb_true_r. apply negb_true_iff, N.eqb_neq. rewrite K3. exact K4.
    + (* parts of the snapshot are honest broadcasts present in sent of the new state; c0 = 0 *)
      assert (Hc0 : c0 = 0 /\ forall y, In y all -> In y (sent nt')).
      { destruct Hall_c0 as [[Ha Hc]|Hp].
        - split; [rewrite Hc; exact (n_cfr c nt NI i Hgood)|]. intros y Hy. subst all nt'.
          pose proof (n_buf c _ NI' i Hgood y) as Hb. simpl in Hb. rewrite upd_same in Hb. specialize (Hb Hy).
          apply (deliv_honest_in c); [exact Hb | apply Hall; exact (proj1 Hb)].
        - destruct (PI i Hgood all c0 Hp) as [P1 P2]. split; [exact P1|]. intros y Hy. subst nt'. simpl.
          apply in_or_app. left. apply (deliv_honest_in c); [exact (P2 y Hy) | apply Hall; exact (proj1 (P2 y Hy))]. }
      destruct Hc0 as [Hc0 Hsent]. subst c0.
      destruct (adm_qrc_contains _ _ _ _ Hq Hadm) as [x [Hx Hxs]]. change (qn (pp c i)) with (qn (pp c j)) in Hx. rewrite Hx.
      assert (HJsent : forall y, In y J -> In y (sent nt')) by (intros y Hy; apply Hsent; eapply adm_qrc_sub; eassumption).
      destruct Hval as [[V1 [V2 V3]]|[spr [V1 V2]]].
      * (* own input value *)
        assert (Hx0 : x = 0%N).
        { destruct Hxs as [Hxs|[spr' Hs']]; [exact Hxs|]. exfalso.
          unfold own_branch in V3. rewrite Hs' in V3. apply Nat.eqb_eq in V3. subst spr'.
          destruct (single_true_witness _ _ _ _ Hq Hs') as [y [Y1 [Y2 [Y3 _]]]].
          pose proof (HJsent y Y1) as Ys.
          pose proof (n_linv c nt' NI' (src y) (n_sent c nt' NI' y Ys)) as L.
          pose proof (l_prep_pos _ _ _ L y (own_intro nt' y Ys) Y2). lia. }
        subst x. rewrite N.eqb_refl. simpl. rewrite !orb_true_r, andb_true_r.
        apply negb_true_iff, N.eqb_neq. rewrite V1. exact V2.
      * (* re-proposal of the prepared value *)
        destruct (single_true_witness _ _ _ _ Hq V1) as [y [Y1 [Y2 [_ Y4]]]].
        assert (Hnz : val b <> 0%N) by (rewrite <- Y4; apply (sent_prepare_nonzero c nt' NI' y (HJsent y Y1) Y2)).
        assert (Hxv : x = 0%N \/ x = val b).
        { destruct Hxs as [Hxs|[spr' Hs']]; [left; exact Hxs | right]. rewrite V1 in Hs'. inversion Hs'. reflexivity. }
        assert (E1 : negb (N.eqb (val b) 0) = true) by (apply negb_true_iff, N.eqb_neq; exact Hnz). rewrite E1. simpl.
        destruct Hxv as [->| ->]; [rewrite N.eqb_refl | rewrite N.eqb_refl]; simpl; rewrite ?orb_true_r; reflexivity.
  - apply prepare_commit_justified. left. exact Hty.
  - apply prepare_commit_justified. right. exact Hty.
  - apply (fstep_bcast_justified _ _ _ _ _ _ Hnp Hinv Hf b J Hin (pp c j) c'); [reflexivity | left; exact Hty].
  - apply (fstep_bcast_justified _ _ _ _ _ _ Hnp Hinv Hf b J Hin (pp c j) c'); [reflexivity | right; exact Hty].
Qed.

(* C04 honest_never_unjust: no Byzantine members, Compare never fails: every message a member broadcasts, delivered with the
   justification it was sent with, passes isJustified at every member j whatever j's state (any compareFailureRound c'; the
   other checks of isJustified do not look at the state). *)
Theorem honest_never_unjust : forall c nt tr, wf_cfg c -> (forall k, k < c_n c -> c_honest c k = true) ->
  nreach c nt tr -> trace_nofail tr ->
  forall i l b J, In (i, l) tr -> In (Bcast b J) (label_outs l) ->
  forall j c', justified (pp c j) (mkm b J) c' = true.
Proof.
  intros c nt tr Hwf Hall H. induction H as [|nt tr i0 l0 nt' Hr IH Hs]; intros Hnf i l b J Hil Hb j c'.
  - contradiction.
  - assert (Hnf' : trace_nofail tr) by (intros k l' Hin; apply (Hnf k l'); apply in_or_app; left; exact Hin).
    apply in_app_or in Hil. destruct Hil as [Hil|[Hil|[]]].
    + exact (IH Hnf' i l b J Hil Hb j c').
    + inversion Hil; subst i0 l0.
      apply (nstep_bcast_justified c nt i l nt' Hwf Hall (nreach_ninv c nt tr Hwf Hr Hnf') (nreach_ppjinv c nt tr Hwf Hr Hnf') Hs);
        [apply (Hnf i l); apply in_or_app; right; left; reflexivity | exact Hb].
Qed.
