(* C04, safety half at network level: with no Byzantine members and no compare failures, every message an honest
   member broadcasts passes isJustified at every member, whatever that member's state (Qbft/Net.v; the network may
   still delay, drop, duplicate, reorder and cross-assemble). *)
From Coq Require Import List NArith Arith Bool Lia.
From Charon Require Import Common.Quorum Qbft.Model Qbft.Monitor Qbft.ModelFacts Qbft.Justified Qbft.Inv Qbft.Card
  Qbft.Net Qbft.NetInv Qbft.Agreement.
Import ListNotations.
Set Warnings "-unused-intro-pattern".

(* ---- single process: everything about a PRE-PREPARE broadcast ---- *)

Lemma fstep_pp_detail : forall p s e o s' outs, 1 <= nodes p -> inv p s -> fstep p s e o = Some (s', outs) ->
  forall b J, In (Bcast b J) outs -> ty b = PrePrepare ->
  src b = self p /\ is_leader p (rnd b) (self p) = true /\
  ((rnd b = 1 /\ J = [] /\ val b = input s' /\ input s' <> 0%N) \/
   exists all c0, adm_qrc p all (rnd b) J = true
     /\ ((all = flat (buffer s') /\ c0 = cfr s) \/ ppj s = PQrc all c0)
     /\ ((val b = input s' /\ input s' <> 0%N /\ own_branch p J c0 = true)
         \/ exists spr, single (qn p) J = (spr, val b, true) /\ c0 <> spr)).
Proof.
  intros p s e o s' outs Hn Hi H b J Hin Hty.
  destruct Hi as [I1 I2 I3 I4 I5 I6 I7].
  destruct e; crush_fstep H; try rule_facts2; prep_facts; bool_facts; eqb_conv; simpl in Hin.
  all: repeat (destruct Hin as [Hin|Hin]; [try discriminate Hin|]); try contradiction.
  all: try (apply in_app_or in Hin; destruct Hin as [Hin|Hin]; simpl in Hin).
  all: repeat (destruct Hin as [Hin|Hin]; [try discriminate Hin|]); try contradiction.
  all: try (inversion Hin; subst b J; clear Hin; simpl in Hty; try discriminate Hty).
  all: st.
  all: try (rewrite H in *; repeat split; auto; left; auto; fail).
  all: try (repeat split; auto; right; exists all, c; repeat split; auto; fail).
  all: rewrite H0 in *; (split; [reflexivity|]); (split; [assumption|]); right;
       exists (flat (buffer_add (fifo p) (buffer s) m)), (cfr s); (split; [assumption|]); (split; [left; auto|]).
  - right. subst b0. exists n. auto.
  - left. repeat split; auto. unfold own_branch. rewrite Heqp0. destruct b0; [|reflexivity].
    simpl in Heqb6. apply negb_false_iff in Heqb6. apply Nat.eqb_eq in Heqb6. apply Nat.eqb_eq. auto.
Qed.
