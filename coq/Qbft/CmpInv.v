(* Network invariant of Qbft/Net.v for executions in which Definition.Compare MAY report a mismatch (CmpFail), under the
   hypothesis that the verdict of a completed comparison is a function of (member, proposed value).

   Compared with NetInv.v (no CmpFail): compareFailureRound is no longer 0, so an honest member may accept a PRE-PREPARE
   through the [round = compareFailureRound + 1] shortcut of isJustifiedPrePrepare.  The invariant records, for every
   honest PREPARE, either a justification (as before) or a CHAIN: contiguous rounds c0 .. rnd-1 in each of which the
   member's comparison failed (so it sent no PREPARE in them, ever), the lowest of which was accepted for round 1 or
   with a deliverable justification, for a value the member's comparison rejects. *)
From Coq Require Import List NArith Arith Bool Lia.
From Charon Require Import Common.Quorum Qbft.Model Qbft.Monitor Qbft.ModelFacts Qbft.Inv Qbft.Card Qbft.Net Qbft.NetInv.
Import ListNotations.
Set Warnings "-unused-intro-pattern".

(* ---- the hypothesis on Compare ---- *)

(* the value compared and the verdict, for the labels in which Run consults Compare (UponJustifiedPrePrepare);
   in every other label the [cmp] component is not looked at by the algorithm *)
Definition consulted (l : label) : option (N * cmp) :=
  match l with
  | LRecv m c (Upon JustPrePrepare :: _) => Some (val (main m), c)
  | _ => None
  end.

(* Generic form: a successful comparison of x at member i needs acc i x, a failed one rej i x; a comparison cut off by the
   round timer (CmpTimeout) is unrestricted.  With acc = rej = (fun _ _ => True) every label satisfies it. *)
Definition label_cmp_gen (acc rej : nat -> N -> Prop) (i : nat) (l : label) : Prop :=
  match consulted l with
  | Some (x, CmpFail) => rej i x
  | Some (x, CmpOk) => acc i x
  | _ => True
  end.

Definition trace_cmp_gen (acc rej : nat -> N -> Prop) (tr : list (nat * label)) : Prop :=
  forall i l, In (i, l) tr -> label_cmp_gen acc rej i l.

(* cf i x = true: member i's comparison rejects value x.  A comparison that completes answers cf. *)
Definition acc_of (cf : nat -> N -> bool) : nat -> N -> Prop := fun i x => cf i x = false.
Definition rej_of (cf : nat -> N -> bool) : nat -> N -> Prop := fun i x => cf i x = true.

Definition label_cmp_ok (cf : nat -> N -> bool) (i : nat) (l : label) : Prop := label_cmp_gen (acc_of cf) (rej_of cf) i l.

Definition trace_cmp_fun (cf : nat -> N -> bool) (tr : list (nat * label)) : Prop := trace_cmp_gen (acc_of cf) (rej_of cf) tr.

Lemma acc_rej_excl : forall cf i x, acc_of cf i x -> rej_of cf i x -> False.
Proof. unfold acc_of, rej_of. intros. congruence. Qed.

Lemma trace_cmp_any : forall tr, trace_cmp_gen (fun _ _ => True) (fun _ _ => True) tr.
Proof. intros tr i l _. unfold label_cmp_gen. destruct (consulted l) as [[x []]|]; exact I. Qed.

(* only the CmpFail half (DESIGN.md's literal wording): NOT enough for agreement, see AgreementCmp.v *)
Definition trace_cmpfail_only (cf : nat -> N -> bool) (tr : list (nat * label)) : Prop :=
  forall i l x, In (i, l) tr -> consulted l = Some (x, CmpFail) -> cf i x = true.

(* member i's comparison failed in round r somewhere in tr *)
Definition failed (tr : list (nat * label)) (i r : nat) : Prop :=
  exists m rest, In (i, LRecv m CmpFail (Upon JustPrePrepare :: rest)) tr /\ rnd (main m) = r.

Lemma failed_mono : forall tr tr' i r, failed tr i r -> failed (tr ++ tr') i r.
Proof. intros tr tr' i r [m [rest [H1 H2]]]. exists m, rest. split; [apply in_or_app; left; exact H1 | exact H2]. Qed.

(* ---- single-process facts about the compare outcome ---- *)

(* compareFailureRound changes only at a failed comparison, which broadcasts nothing and consumes the round's
   UponJustifiedPrePrepare *)
Lemma fstep_cfr_change : forall p s e o s' outs, fstep p s e o = Some (s', outs) ->
  cfr s' = cfr s \/
  exists m rest, e = ERecv m CmpFail /\ outs = Upon JustPrePrepare :: rest /\ bc_mains outs = []
    /\ ty (main m) = PrePrepare /\ cfr s' = rnd (main m) /\ round s' = rnd (main m)
    /\ justified p m (cfr s) = true /\ decided s = false /\ decided s' = false
    /\ is_dup s' JustPrePrepare (rnd (main m)) = true
    /\ (round s < round s' \/ is_dup s JustPrePrepare (rnd (main m)) = false).
Proof.
  intros p s e o s' outs H.
  destruct e; crush_fstep H; try rule_facts2; eqb_conv; st; auto.
  all: right; exists m; eexists; rewrite ?bc_mains_app; simpl.
  all: repeat split; st; auto; try tauto.
  all: apply negb_false_iff; assumption.
Qed.

(* a PREPARE answers a PRE-PREPARE this member holds justified and whose comparison succeeded *)
Lemma fstep_prepare_cmpok : forall p s e o s' outs, fstep p s e o = Some (s', outs) ->
  forall b, In b (bc_mains outs) -> ty b = Prepare ->
  exists m rest, e = ERecv m CmpOk /\ outs = Upon JustPrePrepare :: rest /\ ty (main m) = PrePrepare
    /\ rnd b = rnd (main m) /\ val b = val (main m) /\ justified p m (cfr s) = true.
Proof.
  intros p s e o s' outs H b Hb Hty.
  destruct e; crush_fstep H; try rule_facts2; prep_facts; rewrite ?bc_mains_app in Hb; simpl in Hb; split_in; subst; simpl in *;
    try discriminate Hty; try contradiction.
  all: exists m; eexists; repeat split; st; auto; try tauto.
  all: apply negb_false_iff; assumption.
Qed.

(* what a consulted comparison that fails does *)
Lemma fstep_cmpfail : forall p s m o s' outs rest, fstep p s (ERecv m CmpFail) o = Some (s', outs) ->
  outs = Upon JustPrePrepare :: rest ->
  bc_mains outs = [] /\ ty (main m) = PrePrepare /\ cfr s' = rnd (main m) /\ round s' = rnd (main m)
    /\ justified p m (cfr s) = true /\ decided s = false /\ decided s' = false
    /\ is_dup s' JustPrePrepare (rnd (main m)) = true
    /\ (round s < round s' \/ is_dup s JustPrePrepare (rnd (main m)) = false).
Proof.
  intros p s m o s' outs rest H Hout.
  crush_fstep H.
  all: try match goal with H0 : [] = _ :: _ |- _ => discriminate H0 end.
  all: try match goal with H0 : _ :: _ = Upon JustPrePrepare :: _ |- _ => first [discriminate H0 | inversion H0; subst; clear H0] end.
  all: try match goal with H0 : o_rule _ = JustPrePrepare, H1 : o_rule _ = _ |- _ => rewrite H0 in H1; discriminate H1 end.
  all: try rule_facts2; eqb_conv; st; rewrite ?bc_mains_app; simpl.
  all: repeat split; st; auto; try tauto.
  all: apply negb_false_iff; assumption.
Qed.

(* ---- the invariant ---- *)

(* member i's comparison failed in every round c0 .. cc; the PRE-PREPARE of round c0 was accepted for round 1 or with a
   justification whose parts are deliverable from l, and carried a value y0 that i's comparison rejects *)
Definition chain (acc rej : nat -> N -> Prop) (c : cfg) (l : list bmsg) (tr : list (nat * label)) (i cc : nat) : Prop :=
  exists c0, c0 <= cc /\ (forall r, c0 <= r <= cc -> failed tr i r) /\
    (c0 = 1 \/ exists J x y0, (forall y, In y J -> deliv c l y) /\ contains_jqrc (qc c) J c0 = Some x
                              /\ (x = 0%N \/ y0 = x) /\ y0 <> 0%N /\ rej i y0).

Lemma chain_mono : forall acc rej c l l' tr tr' i cc, chain acc rej c l tr i cc -> chain acc rej c (l ++ l') (tr ++ tr') i cc.
Proof.
  intros acc rej c l l' tr tr' i cc [c0 [H1 [H2 H3]]]. exists c0. split; [exact H1|]. split.
  - intros r Hr. apply failed_mono. auto.
  - destruct H3 as [H3|[J [x [y0 [J1 J2]]]]]; [left; exact H3|]. right. exists J, x, y0. split; [|exact J2].
    intros y Hy. apply deliv_mono. auto.
Qed.

Lemma chain_mono_tr : forall acc rej c l tr tr' i cc, chain acc rej c l tr i cc -> chain acc rej c l (tr ++ tr') i cc.
Proof. intros. rewrite <- (app_nil_r l). apply chain_mono. assumption. Qed.

Record cinv (acc rej : nat -> N -> Prop) (c : cfg) (nt : net) (tr : list (nat * label)) : Prop := mkcinv {
  c_inv  : forall i, good c i -> inv (pp c i) (nst nt i);
  c_linv : forall i, good c i -> linv (pp c i) (nst nt i) (own nt i);
  c_sent : forall b, In b (sent nt) -> good c (src b);
  c_buf  : forall i, good c i -> forall b, In b (flat (buffer (nst nt i))) -> deliv c (sent nt) b;
  c_prepJ : forall i, good c i -> forall b, In b (prepJ (nst nt i)) -> deliv c (sent nt) b;
  c_qcm  : forall i, good c i -> forall b, In b (qcommit (nst nt i)) -> deliv c (sent nt) b;
  (* a round in which the comparison failed has no PREPARE of that member, now or later *)
  c_failed : forall i, good c i -> forall r, failed tr i r ->
      (forall b, In b (own nt i) -> ty b = Prepare -> rnd b <> r) /\
      (decided (nst nt i) = false ->
         r < round (nst nt i) \/ (r = round (nst nt i) /\ is_dup (nst nt i) JustPrePrepare r = true));
  (* compareFailureRound is the top of a chain *)
  c_chain : forall i, good c i -> cfr (nst nt i) = 0 \/ chain acc rej c (sent nt) tr i (cfr (nst nt i));
  (* an honest PREPARE is for a value its sender's comparison accepts and answers a PRE-PREPARE of round 1, or one
     justified by parts deliverable before it, or one of the round after the top of a chain *)
  c_cprep : forall pre b post, sent nt = pre ++ b :: post -> ty b = Prepare ->
      val b <> 0%N /\ acc (src b) (val b) /\
      (rnd b = 1
       \/ (exists J x, (forall y, In y J -> deliv c pre y)
                       /\ contains_jqrc (qc c) J (rnd b) = Some x /\ (x = 0%N \/ val b = x))
       \/ (exists cc, rnd b = cc + 1 /\ chain acc rej c pre tr (src b) cc));
  c_cpp : forall pre b post, sent nt = pre ++ b :: post -> ty b = Prepare ->
      exists ppm, deliv c pre ppm /\ ty ppm = PrePrepare /\ rnd ppm = rnd b /\ val ppm = val b /\ src ppm = c_leader c (rnd b);
  c_cppv : forall pre b post, sent nt = pre ++ b :: post -> ty b = PrePrepare ->
      (val b = input (nst nt (src b)) /\ val b <> 0%N) \/
      exists y, deliv c pre y /\ ty y = Prepare /\ val y = val b;
  c_ccommit : forall b, In b (sent nt) -> ty b = Commit ->
      exists L, (forall y, In y L -> deliv c (sent nt) y) /\ qc c <= nsrc (f_trv Prepare (rnd b) (val b)) L;
  c_crc : forall b, In b (sent nt) -> ty b = RoundChange ->
      (pr b = 0 /\ pv b = 0%N) \/
      exists L, (forall y, In y L -> deliv c (sent nt) y) /\ qc c <= nsrc (f_trv Prepare (pr b) (pv b)) L
}.

Lemma cinv_init : forall acc rej c, cinv acc rej c net_init [].
Proof.
  intros acc rej c. constructor; simpl; intros; try contradiction.
  - apply inv_init.
  - apply linv_init.
  - destruct H0 as [m [rest [[] _]]].
  - left. reflexivity.
  - destruct pre; discriminate.
  - destruct pre; discriminate.
  - destruct pre; discriminate.
Qed.

Lemma failed_snoc : forall tr i l j r, failed (tr ++ [(i, l)]) j r ->
  failed tr j r \/ (j = i /\ exists m rest, l = LRecv m CmpFail (Upon JustPrePrepare :: rest) /\ rnd (main m) = r).
Proof.
  intros tr i l j r [m [rest [H1 H2]]]. apply in_app_or in H1. destruct H1 as [H1|[H1|[]]].
  - left. exists m, rest. auto.
  - right. inversion H1; subst. split; [reflexivity|]. exists m, rest. auto.
Qed.

Lemma label_of_event : forall l m cm outs, event_of l = ERecv m cm -> label_outs l = outs -> l = LRecv m cm outs.
Proof. intros [o|v o|m1 c1 o|o] m cm outs H1 H2; simpl in *; try discriminate. inversion H1; subst. reflexivity. Qed.

Lemma cinv_step : forall acc rej c nt tr i l nt', wf_cfg c -> cinv acc rej c nt tr -> nstep c nt i l nt' -> label_cmp_gen acc rej i l ->
  cinv acc rej c nt' (tr ++ [(i, l)]).
Proof.
  intros acc rej c nt tr i l nt' [Hn Hbz] NI Hs Hok.
  inversion Hs as [nt0 i0 l0 s' Hgood Hstep Hdel]; subst nt0 i0 l0. clear Hs.
  set (p := pp c i) in *. set (s := nst nt i) in *. set (outs := label_outs l) in *. set (B := bc_mains outs) in *.
  pose proof (step_fstep p s l s' Hstep) as Hf. fold outs in Hf.
  assert (Hnp : 1 <= nodes p) by exact Hn.
  pose proof (c_inv acc rej c nt tr NI i Hgood) as Hinv. fold s p in Hinv.
  pose proof (c_linv acc rej c nt tr NI i Hgood) as Hlinv. fold s p in Hlinv.
  pose proof (fstep_effects p s _ _ s' outs Hnp Hinv Hf) as E.
  destruct E as [E1 [E2 [E3 [E4 [E5 [E6 [E7 [E8 [E9 [E10 E11]]]]]]]]]]. fold B in E1, E2, E3, E6, E7, E8, E9, E10.
  pose proof (fstep_provenance p s _ _ s' outs Hf) as [P1 [P2 [P3 P4]]].
  pose proof (fstep_cfr_change p s _ _ s' outs Hf) as Hcc.
  pose proof (ev_parts_deliv c nt l Hdel) as Hparts.
  assert (HsrcB : forall b, In b B -> src b = i) by (intros b Hb; rewrite (E2 b Hb); reflexivity).
  assert (Hown_i : own (mknet (upd (nst nt) i s') (sent nt ++ B)) i = own nt i ++ B).
  { unfold own. simpl. rewrite filter_app, (filter_src_all i B HsrcB). reflexivity. }
  assert (Hown_j : forall j, j <> i -> own (mknet (upd (nst nt) i s') (sent nt ++ B)) j = own nt j).
  { intros j Hj. unfold own. simpl. rewrite filter_app, (filter_src_none i j B Hj HsrcB), app_nil_r. reflexivity. }
  assert (Hbuf' : forall b, In b (flat (buffer s')) -> deliv c (sent nt ++ B) b).
  { intros b Hb. apply deliv_mono. destruct (P1 b Hb) as [H|H]; [exact (c_buf acc rej c nt tr NI i Hgood b H) | auto]. }
  assert (HB : B = [] \/ exists x, B = [x]).
  { destruct B as [|x [|y B']]; [left; reflexivity | right; exists x; reflexivity | simpl in E1; lia]. }
  constructor; simpl.
  - (* c_inv *) intros j Hj. destruct (Nat.eq_dec j i) as [->|Hne].
    + rewrite upd_same. eapply inv_fstep; eassumption.
    + rewrite upd_other by assumption. apply (c_inv acc rej c nt tr NI j Hj).
  - (* c_linv *) intros j Hj. destruct (Nat.eq_dec j i) as [->|Hne].
    + rewrite upd_same, Hown_i. eapply linv_fstep; eassumption.
    + rewrite upd_other, Hown_j by assumption. apply (c_linv acc rej c nt tr NI j Hj).
  - (* c_sent *) intros b Hb. apply in_app_or in Hb. destruct Hb as [Hb|Hb]; [apply (c_sent acc rej c nt tr NI b Hb)|].
    rewrite (HsrcB b Hb). exact Hgood.
  - (* c_buf *) intros j Hj b Hb. destruct (Nat.eq_dec j i) as [->|Hne].
    + rewrite upd_same in Hb. auto.
    + rewrite upd_other in Hb by assumption. apply deliv_mono. apply (c_buf acc rej c nt tr NI j Hj b Hb).
  - (* c_prepJ *) intros j Hj b Hb. destruct (Nat.eq_dec j i) as [->|Hne].
    + rewrite upd_same in Hb. destruct (P2 b Hb) as [H|H]; [apply deliv_mono; apply (c_prepJ acc rej c nt tr NI i Hgood b H) | auto].
    + rewrite upd_other in Hb by assumption. apply deliv_mono. apply (c_prepJ acc rej c nt tr NI j Hj b Hb).
  - (* c_qcm *) intros j Hj b Hb. destruct (Nat.eq_dec j i) as [->|Hne].
    + rewrite upd_same in Hb. destruct (P3 b Hb) as [H|[H|H]];
        [apply deliv_mono; apply (c_qcm acc rej c nt tr NI i Hgood b H) | auto | apply deliv_mono; auto].
    + rewrite upd_other in Hb by assumption. apply deliv_mono. apply (c_qcm acc rej c nt tr NI j Hj b Hb).
  - (* c_failed *) intros j Hj r Hfl. apply failed_snoc in Hfl. destruct Hfl as [Hfl|[Hji [m [rest [Hl Hr]]]]].
    + destruct (c_failed acc rej c nt tr NI j Hj r Hfl) as [F1 F2]. destruct (Nat.eq_dec j i) as [->|Hne].
      * rewrite upd_same, Hown_i. fold s in F2. split.
        -- intros b Hb Hty Hrb. apply in_app_or in Hb. destruct Hb as [Hb|Hb]; [exact (F1 b Hb Hty Hrb)|].
           destruct (E6 b Hb Hty) as [Hd [Hr' [_ Hor]]].
           assert (Hd' : decided s' = false).
           { destruct (decided s') eqn:Ed; [|reflexivity]. rewrite (E10 Hd eq_refl) in Hb. contradiction. }
           specialize (E4 Hd'). destruct (F2 Hd) as [Hlt|[Heq Hdup]]; [lia|].
           destruct Hor as [Hor|Hor]; [lia|]. rewrite Hrb in Hor. congruence.
        -- intro Hd'. assert (Hd : decided s = false).
           { destruct (decided s) eqn:Ed; [|reflexivity]. destruct (E3 eq_refl) as [Hx _]. congruence. }
           specialize (E4 Hd'). specialize (E5 Hd'). destruct (F2 Hd) as [Hlt|[Heq Hdup]]; [left; lia|].
           destruct (Nat.eq_dec (round s') (round s)) as [Er|Er]; [right; split; [lia | apply E5; [exact Er | exact Hdup]] | left; lia].
      * rewrite upd_other, Hown_j by assumption. split; assumption.
    + subst j. rewrite upd_same, Hown_i.
      assert (He : event_of l = ERecv m CmpFail) by (rewrite Hl; reflexivity).
      rewrite He in Hf. assert (Ho : outs = Upon JustPrePrepare :: rest) by (unfold outs; rewrite Hl; reflexivity).
      destruct (fstep_cmpfail p s m _ s' outs rest Hf Ho) as [C1 [C2 [C3 [C4 [C5 [C6 [C7 [C8 C9]]]]]]]].
      fold B in C1. rewrite C1, app_nil_r. rewrite <- Hr. split.
      * intros b Hb Hty Hrb. destruct (l_prep _ _ _ Hlinv b Hb Hty C6) as [Hlt|[Heq Hdup]].
        -- specialize (E4 C7). lia.
        -- destruct C9 as [C9|C9]; [lia|]. rewrite Hrb in Hdup. congruence.
      * intros _. right. split; [auto | exact C8].
  - (* c_chain *) intros j Hj. destruct (Nat.eq_dec j i) as [->|Hne].
    2:{ rewrite upd_other by assumption. destruct (c_chain acc rej c nt tr NI j Hj) as [H|H]; [left; exact H | right; apply chain_mono; exact H]. }
    rewrite upd_same. pose proof (c_chain acc rej c nt tr NI i Hgood) as Hold. fold s in Hold.
    destruct Hcc as [Hcc|[m [rest [He [Ho [_ [Hty [Hc' [_ [Hj' _]]]]]]]]]].
    { rewrite Hcc. destruct Hold as [H|H]; [left; exact H | right; apply chain_mono; exact H]. }
    right. rewrite Hc'.
    pose proof (label_of_event l m CmpFail outs He eq_refl) as Hl. rewrite Ho in Hl.
    assert (Hnew : failed (tr ++ [(i, l)]) i (rnd (main m))).
    { exists m, rest. split; [apply in_or_app; right; left; rewrite Hl; reflexivity | reflexivity]. }
    assert (Hcf : rej i (val (main m))) by (unfold label_cmp_gen in Hok; rewrite Hl in Hok; exact Hok).
    unfold justified in Hj'. rewrite Hty in Hj'. unfold justified_preprepare in Hj'.
    rewrite !andb_true_iff in Hj'. destruct Hj' as [[_ Hv] Hor]. apply negb_true_iff, N.eqb_neq in Hv.
    assert (Hone : rnd (main m) = 1 -> chain acc rej c (sent nt ++ B) (tr ++ [(i, l)]) i (rnd (main m))).
    { intro H1. exists 1. split; [lia|]. split; [|left; reflexivity]. intros r Hr. replace r with (rnd (main m)) by lia. exact Hnew. }
    rewrite !orb_true_iff in Hor. destruct Hor as [[Hor|Hor]|Hor].
    + apply Nat.eqb_eq in Hor. auto.
    + apply Nat.eqb_eq in Hor. destruct Hold as [H0|[c0 [K1 [K2 K3]]]]; [apply Hone; lia|].
      exists c0. split; [lia|]. split.
      * intros r Hr. destruct (Nat.eq_dec r (rnd (main m))) as [->|Hne]; [exact Hnew|]. apply failed_mono. apply K2. lia.
      * destruct K3 as [K3|[J [x [y0 [J1 J2]]]]]; [left; exact K3|]. right. exists J, x, y0. split; [|exact J2].
        intros y Hy. apply deliv_mono. auto.
    + change (qn p) with (qc c) in Hor. destruct (contains_jqrc (qc c) (just m) (rnd (main m))) as [x0|] eqn:Ec; [|discriminate].
      exists (rnd (main m)). split; [lia|]. split.
      * intros r Hr. replace r with (rnd (main m)) by lia. exact Hnew.
      * right. exists (just m), x0, (val (main m)). split; [|split; [exact Ec | split; [|split; [exact Hv | exact Hcf]]]].
        -- intros y Hy. apply deliv_mono. apply Hparts. rewrite He. simpl. right. exact Hy.
        -- apply orb_true_iff in Hor. destruct Hor as [Hor|Hor]; apply N.eqb_eq in Hor; [left; exact Hor | right; exact Hor].
  - (* c_cprep *) intros pre b post Hsplit Hty.
    assert (Hold : forall pre0 b0 post0, sent nt = pre0 ++ b0 :: post0 -> ty b0 = Prepare ->
      val b0 <> 0%N /\ acc (src b0) (val b0) /\
      (rnd b0 = 1
       \/ (exists J x, (forall y, In y J -> deliv c pre0 y) /\ contains_jqrc (qc c) J (rnd b0) = Some x /\ (x = 0%N \/ val b0 = x))
       \/ (exists cc, rnd b0 = cc + 1 /\ chain acc rej c pre0 (tr ++ [(i, l)]) (src b0) cc))).
    { intros pre0 b0 post0 Hs0 Ht0. destruct (c_cprep acc rej c nt tr NI pre0 b0 post0 Hs0 Ht0) as [A1 [A2 A3]].
      split; [exact A1|]. split; [exact A2|]. destruct A3 as [A3|[A3|[cc [A3 A4]]]]; [left; exact A3 | right; left; exact A3|].
      right. right. exists cc. split; [exact A3 | apply chain_mono_tr; exact A4]. }
    destruct HB as [HB|[x HB]]; rewrite HB in *.
    + rewrite app_nil_r in Hsplit. apply (Hold pre b post Hsplit Hty).
    + destruct (snoc_split pre (sent nt) x b post Hsplit) as [[Hp [Hpre Hbx]]|[post0 [Hp Hsent]]].
      2:{ subst post. apply (Hold pre b post0 Hsent Hty). }
      subst post pre b.
      destruct (fstep_prepare_cmpok p s _ _ s' outs Hf x) as [m [rest [He [Ho [Hm1 [Hm2 [Hm3 Hj]]]]]]];
        [fold B; rewrite HB; left; reflexivity | exact Hty |].
      pose proof (label_of_event l m CmpOk outs He eq_refl) as Hl. rewrite Ho in Hl.
      assert (Hcf : acc i (val (main m))) by (unfold label_cmp_gen in Hok; rewrite Hl in Hok; exact Hok).
      rewrite (HsrcB x (or_introl eq_refl)).
      unfold justified in Hj. rewrite Hm1 in Hj. unfold justified_preprepare in Hj.
      rewrite !andb_true_iff in Hj. destruct Hj as [[_ Hv] Hor]. apply negb_true_iff, N.eqb_neq in Hv.
      rewrite Hm3. split; [exact Hv|]. split; [exact Hcf|].
      rewrite !orb_true_iff in Hor. destruct Hor as [[Hor|Hor]|Hor].
      * left. apply Nat.eqb_eq in Hor. lia.
      * apply Nat.eqb_eq in Hor. destruct (c_chain acc rej c nt tr NI i Hgood) as [H0|Hch]; fold s in H0 || fold s in Hch.
        -- left. lia.
        -- right. right. exists (cfr s). split; [lia | apply chain_mono_tr; exact Hch].
      * right. left. change (qn p) with (qc c) in Hor.
        destruct (contains_jqrc (qc c) (just m) (rnd (main m))) as [x0|] eqn:Ec; [|discriminate].
        exists (just m), x0. rewrite Hm2. split; [|split; [exact Ec|]].
        -- intros y Hy. apply Hparts. rewrite He. simpl. right. exact Hy.
        -- apply orb_true_iff in Hor. destruct Hor as [Hor|Hor]; apply N.eqb_eq in Hor; [left; exact Hor | right; exact Hor].
  - (* c_cpp *) intros pre b post Hsplit Hty.
    destruct HB as [HB|[x HB]]; rewrite HB in *.
    + rewrite app_nil_r in Hsplit. apply (c_cpp acc rej c nt tr NI pre b post Hsplit Hty).
    + destruct (snoc_split pre (sent nt) x b post Hsplit) as [[Hp [Hpre Hbx]]|[post0 [Hp Hsent]]].
      * subst post pre b.
        destruct (fstep_origins p s _ _ s' outs Hf x) as [Op _]; [fold B; rewrite HB; left; reflexivity|].
        destruct (Op Hty) as [m [cm [He [Hm1 [Hm2 [Hm3 Hj]]]]]].
        unfold justified in Hj. rewrite Hm1 in Hj. unfold justified_preprepare in Hj.
        rewrite !andb_true_iff in Hj. destruct Hj as [[Hl _] _]. unfold is_leader in Hl. apply Nat.eqb_eq in Hl. simpl in Hl.
        exists (main m). split; [|split; [exact Hm1 | split; [auto | split; [auto | rewrite Hm2; auto]]]].
        apply Hparts. destruct l as [o1|v1 o1|m1 c1 o1|o1]; simpl in He; try discriminate. inversion He; subst. simpl. left. reflexivity.
      * subst post. apply (c_cpp acc rej c nt tr NI pre b post0 Hsent Hty).
  - (* c_cppv *) intros pre b post Hsplit Hty.
    destruct (fstep_pp_origin p s _ _ s' outs Hnp Hf) as [O1 [O2 O3]].
    assert (Hold : forall pre0 b0 post0, sent nt = pre0 ++ b0 :: post0 -> ty b0 = PrePrepare ->
              (val b0 = input (upd (nst nt) i s' (src b0)) /\ val b0 <> 0%N) \/
              exists y, deliv c pre0 y /\ ty y = Prepare /\ val y = val b0).
    { intros pre0 b0 post0 Hs0 Ht0. destruct (c_cppv acc rej c nt tr NI pre0 b0 post0 Hs0 Ht0) as [[Hv1 Hv2]|Hv]; [left|right; exact Hv].
      split; [|exact Hv2]. destruct (Nat.eq_dec (src b0) i) as [Hsi|Hne].
      - rewrite Hsi, upd_same. rewrite Hsi in Hv1. fold s in Hv1. rewrite O2; [exact Hv1 | rewrite <- Hv1; exact Hv2].
      - rewrite upd_other by assumption. exact Hv1. }
    destruct HB as [HB|[x HB]]; rewrite HB in *.
    + rewrite app_nil_r in Hsplit. apply (Hold pre b post Hsplit Hty).
    + destruct (snoc_split pre (sent nt) x b post Hsplit) as [[Hp [Hpre Hbx]]|[post0 [Hp Hsent]]].
      * subst post pre b. assert (Hx : In x (bc_mains outs)) by (fold B; rewrite HB; left; reflexivity).
        destruct (O1 x Hx Hty) as [[Hv1 Hv2]|[y [Y1 [Y2 Y3]]]].
        -- left. rewrite (HsrcB x (or_introl eq_refl)), upd_same. split; [exact Hv1 | rewrite Hv1; exact Hv2].
        -- right. exists y. split; [|auto]. destruct (P1 y Y1) as [Hy|Hy]; [exact (c_buf acc rej c nt tr NI i Hgood y Hy) | auto].
      * subst post. apply (Hold pre b post0 Hsent Hty).
  - (* c_ccommit *) intros b Hb Hty. apply in_app_or in Hb. destruct Hb as [Hb|Hb].
    + destruct (c_ccommit acc rej c nt tr NI b Hb Hty) as [L [HL1 HL2]]. exists L. split; [intros y Hy; apply deliv_mono; auto | exact HL2].
    + destruct (fstep_origins p s _ _ s' outs Hf b Hb) as [_ Oc]. specialize (Oc Hty). change (qn p) with (qc c) in Oc.
      exists (flat (buffer s')). split; [exact Hbuf' | exact Oc].
  - (* c_crc *) intros b Hb Hty. apply in_app_or in Hb. destruct Hb as [Hb|Hb].
    + destruct (c_crc acc rej c nt tr NI b Hb Hty) as [H|[L [HL1 HL2]]]; [left; exact H|].
      right. exists L. split; [intros y Hy; apply deliv_mono; auto | exact HL2].
    + destruct (E8 b Hb Hty) as [_ [_ [_ [Hpr Hpv]]]]. rewrite Hpr, Hpv.
      destruct (i_prep p s Hinv) as [[Hq1 [Hq2 Hq3]]|Hq]; [left; auto|].
      right. exists (prepJ s). split; [|exact Hq].
      intros y Hy. apply deliv_mono. apply (c_prepJ acc rej c nt tr NI i Hgood y Hy).
Qed.
