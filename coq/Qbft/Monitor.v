(* Trace monitors for ONE process of QBFT: boolean functions over the label sequence alone (no model
   state) that transcribe the single-process part of C03:
     - a process calls Decide at most once;
     - the qcommit handed to Decide(value, round, qcommit) contains COMMIT(round, value) from at least
       quorum distinct sources;
     - after its Decide the process emits nothing but: a DECIDED re-broadcast in answer to a
       ROUND-CHANGE of another process, at most once per strictly increasing round of that source and
       at most maxDecidedResends (16) times per source; and (a corner of the Go code) one PRE-PREPARE
       or the zero-input error when its own input value arrives after the decision while a
       justification is still cached.  No timer runs after the decision.
   Definitions only; the theorem [run p init ls = Some s -> mon3 p ls = true] is in ModelFacts.v. *)
From Coq Require Import List NArith Arith Bool.
From Charon Require Import Common.Quorum Qbft.Model.
Import ListNotations.

Definition decides_of (outs : list output) : list (N * nat * list bmsg) :=
  flat_map (fun o => match o with Decide v r qc => [(v, r, qc)] | _ => [] end) outs.

Record g3 := mkg3 { g_dec : bool; g_res : list (nat * (nat * nat)) }.
Definition g3_init : g3 := mkg3 false [].

Definition check3 (p : params) (g : g3) (l : label) : bool :=
  if g_dec g then
    match l with
    | LRecv m _ outs =>
        match outs with
        | [] => true
        | [Bcast b _] =>
            is_ty Decided b && (src b =? self p)
            && is_ty RoundChange (main m) && negb (src (main m) =? self p)
            && (fst (resend_get (g_res g) (src (main m))) <? rnd (main m))
            && (snd (resend_get (g_res g) (src (main m))) <? maxDecidedResends)
        | _ => false
        end
    | LInput _ outs =>
        match outs with
        | [] => true
        | [Exit _] => true
        | [Bcast b _] => is_ty PrePrepare b
        | _ => false
        end
    | _ => false
    end
  else
    match decides_of (label_outs l) with
    | [] => true
    | [(v, r, qc)] => qn p <=? nsrc (f_trv Commit r v) qc
    | _ => false
    end.

Definition gstep3 (g : g3) (l : label) : g3 :=
  if g_dec g then
    match l with
    | LRecv m _ [_] =>
        mkg3 true (resend_set (g_res g) (src (main m))
                     (rnd (main m), snd (resend_get (g_res g) (src (main m))) + 1))
    | _ => g
    end
  else
    match decides_of (label_outs l) with
    | [] => g
    | _ => mkg3 true (g_res g)
    end.

Fixpoint mon3_from (p : params) (g : g3) (ls : list label) : bool :=
  match ls with [] => true | l :: r => check3 p g l && mon3_from p (gstep3 g l) r end.
Definition mon3 (p : params) : list label -> bool := mon3_from p g3_init.

Fixpoint ghost3_after (g : g3) (ls : list label) : g3 :=
  match ls with [] => g | l :: r => ghost3_after (gstep3 g l) r end.

Fixpoint mon3_first_violation (p : params) (g : g3) (ls : list label) (i : nat) : option nat :=
  match ls with
  | [] => None
  | l :: r => if check3 p g l then mon3_first_violation p (gstep3 g l) r (S i) else Some i
  end.
