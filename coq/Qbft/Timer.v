(* Model of core/consensus/timer/roundtimer.go  (round timers of the QBFT consensus instances).

   Units: every time and duration is an integer number of NANOSECONDS (Go time.Duration / the
   difference of two time.Time), in Z.  Instants are offsets from an arbitrary epoch (the harness
   uses the initial reading of its fake clock).  Integer arithmetic is Go's: the only division,
   slotDuration/3 and (2*slotDuration)/3 in getDutyStartDelayWithDuration, truncates ([Z.quot]) and is
   only evaluated for slotDuration > 0.  int64 overflow is not modelled (rounds <= 2^31, |t| < 2^62).

   A timer is the small state machine
       tstep : cfg -> tstate -> round -> now -> tstate * duration
   where [duration] is the argument the Go code hands to clock.NewTimer; a timer created with a
   duration <= 0 fires at once (time.NewTimer and the fake clock agree), so the channel returned by
   Timer(round) fires at [fire_time now d = now + max 0 d].  The code has no explicit clamp; the
   clamp is the clock's.

   * increasingRoundTimer  ("inc")            stateless, duration 750ms + round*250ms
   * linearRoundTimer      ("linear")         stateless, 1s in round 1, 200ms*round afterwards
   * doubleEagerLinearRoundTimer ("eager_dlinear")  -- the DEFAULT (featureset: eager_double_linear
     and proposal_timeout are `stable`, linear is `alpha`): keeps firstDeadlines : round -> instant.
       first request for a round : deadline = dutyStart + timeout(round)          (genesis known)
                                              = now + timeout(round)               (zero genesis / slotDuration <= 0)
                                   and the deadline is stored;
       later requests            : deadline = stored first deadline + timeout(round), NOT stored
                                   (so a round is doubled once: the 3rd, 4th ... request return the
                                   same doubled deadline);
       duration = deadline - now  (may be <= 0).
     timeout(round) = round*1s, or round*1s + 500ms for every round of a proposer duty when
     proposal_timeout is enabled.  (For inc/linear the proposal variant only changes round 1.)

   Labels (correspondence = trace inclusion):  LReq r now dur fire until  says  "Timer(r) was called
   when the clock read [now]; the timer asked the clock for [dur]; the returned channel was watched
   up to instant [until] and became ready at [fire] (None: not before [until])".

   The trace monitor [monitor] is a closed form over the label sequence alone (ghost = instant of the
   first request of every round); TimerFacts.v proves that every accepted trace passes it.

   NOT proved anywhere in this development: the real-time bridge of C04, i.e. that message latency
   below a third of the shortest round timeout, start offsets below a round and fair goroutine
   scheduling imply the hypothesis of good_round_decides.  The theorems over this model are the
   arithmetic facts such a bridge would use. *)
From Coq Require Import List ZArith Bool.
Import ListNotations.
Local Open Scope Z_scope.

(* ---- constants (nanoseconds) ---- *)
Definition ms : Z := 1000000.                       (* time.Millisecond *)
Definition sec : Z := 1000 * ms.                    (* time.Second *)
Definition IncRoundStart : Z := 750 * ms.
Definition IncRoundIncrease : Z := 250 * ms.
Definition LinearRoundInc : Z := sec.
Definition ProposalRoundExtra : Z := 500 * ms.

Definition increasingRoundTimeout (round : Z) : Z := IncRoundStart + round * IncRoundIncrease.
Definition linearRoundTimeout (round : Z) : Z := round * LinearRoundInc.
Definition proposalRoundTimeout (round : Z) : Z := linearRoundTimeout round + ProposalRoundExtra.

(* core.DutyType values that the timers look at *)
Definition DutyProposer : Z := 1.
Definition DutyAttester : Z := 2.
Definition DutyAggregator : Z := 9.
Definition DutySyncContribution : Z := 12.

(* getDutyStartDelayWithDuration *)
Definition dutyStartDelay (dtype slotdur : Z) : Z :=
  if dtype =? DutyAttester then Z.quot slotdur 3
  else if (dtype =? DutyAggregator) || (dtype =? DutySyncContribution) then Z.quot (2 * slotdur) 3
  else 0.

Inductive kind := KInc | KEager | KLinear.

Definition kind_eqb (a b : kind) : bool :=
  match a, b with KInc, KInc | KEager, KEager | KLinear, KLinear => true | _, _ => false end.

(* GetRoundTimerFunc: feature flags x duty type -> timer kind *)
Record flags := mkFlags { f_linear : bool; f_eager : bool; f_proposal : bool }.

Definition select_kind (fl : flags) (dtype : Z) : kind :=
  if f_linear fl then
    if dtype =? DutyProposer then KLinear
    else if f_eager fl then KEager else KInc
  else if f_eager fl then KEager else KInc.

(* the default feature set: eager_double_linear and proposal_timeout stable, linear alpha *)
Definition default_flags : flags := mkFlags false true true.

(* One timer instance.  c_genesis = None is the zero time.Time; c_proposal is the feature flag. *)
Record cfg := mkCfg {
  c_kind : kind; c_dtype : Z; c_slot : Z; c_genesis : option Z; c_slotdur : Z; c_proposal : bool }.

Definition prop_on (c : cfg) : bool := c_proposal c && (c_dtype c =? DutyProposer).

Definition inc_timeout (c : cfg) (round : Z) : Z :=
  if prop_on c && (round =? 1) then proposalRoundTimeout round else increasingRoundTimeout round.

Definition lin_timeout (c : cfg) (round : Z) : Z :=
  if prop_on c && (round =? 1) then proposalRoundTimeout round
  else if round =? 1 then sec
  else (200 * (round - 1) + 200) * ms.

Definition eager_timeout (c : cfg) (round : Z) : Z :=
  if prop_on c then proposalRoundTimeout round else linearRoundTimeout round.

(* dutyStart, when the timer was built with a non-zero genesis time and a positive slot duration *)
Definition duty_start (c : cfg) : option Z :=
  match c_genesis c with
  | Some g => if 0 <? c_slotdur c
              then Some (g + c_slotdur c * c_slot c + dutyStartDelay (c_dtype c) (c_slotdur c))
              else None
  | None => None
  end.

(* firstDeadlines *)
Definition tstate := list (Z * Z).

Fixpoint lookup (r : Z) (m : list (Z * Z)) : option Z :=
  match m with [] => None | (k, v) :: t => if k =? r then Some v else lookup r t end.

Definition tstep (c : cfg) (st : tstate) (round now : Z) : tstate * Z :=
  match c_kind c with
  | KInc => (st, inc_timeout c round)
  | KLinear => (st, lin_timeout c round)
  | KEager =>
      let timeout := eager_timeout c round in
      match lookup round st with
      | Some first => (st, first + timeout - now)
      | None =>
          let deadline := match duty_start c with
                          | Some s => s + timeout
                          | None => now + timeout
                          end in
          ((round, deadline) :: st, deadline - now)
      end
  end.

(* instant at which a timer created at [now] with duration [d] fires *)
Definition fire_time (now d : Z) : Z := now + Z.max 0 d.

(* ---- labels, acceptance ---- *)
Inductive label := LReq (round now dur : Z) (fire : option Z) (until : Z).

Definition oeqb (a b : option Z) : bool :=
  match a, b with None, None => true | Some x, Some y => x =? y | _, _ => false end.

Definition expected_fire (now d until : Z) : option Z :=
  if fire_time now d <=? until then Some (fire_time now d) else None.

Definition lab_ok (d : Z) (l : label) : bool :=
  match l with LReq _ now dur fire until => (dur =? d) && oeqb fire (expected_fire now d until) end.

Definition step (c : cfg) (st : tstate) (l : label) : option tstate :=
  match l with
  | LReq r now _ _ _ =>
      let '(st', d) := tstep c st r now in
      if lab_ok d l then Some st' else None
  end.

Fixpoint run (c : cfg) (st : tstate) (ls : list label) : option tstate :=
  match ls with
  | [] => Some st
  | l :: t => match step c st l with Some st' => run c st' t | None => None end
  end.

Definition init : tstate := [].

Fixpoint first_reject (c : cfg) (st : tstate) (ls : list label) (i : nat) : option nat :=
  match ls with
  | [] => None
  | l :: t => match step c st l with Some st' => first_reject c st' t (S i) | None => Some i end
  end.

(* ---- trace monitor: closed form over the labels alone ---- *)
(* ghost: round -> instant of the first request for that round *)
Definition ghost_upd (g : list (Z * Z)) (r now : Z) : list (Z * Z) :=
  match lookup r g with None => (r, now) :: g | Some _ => g end.

(* reference instant of a round's deadlines: the duty start when known, else the first request *)
Definition base (c : cfg) (first_now : Z) : Z :=
  match duty_start c with Some s => s | None => first_now end.

Definition spec_dur (c : cfg) (g : list (Z * Z)) (r now : Z) : Z :=
  match c_kind c with
  | KInc => inc_timeout c r
  | KLinear => lin_timeout c r
  | KEager =>
      match lookup r g with
      | None => base c now + eager_timeout c r - now
      | Some n0 => base c n0 + 2 * eager_timeout c r - now
      end
  end.

Fixpoint monitor_from (c : cfg) (g : list (Z * Z)) (ls : list label) : bool :=
  match ls with
  | [] => true
  | (LReq r now _ _ _ as l) :: t =>
      lab_ok (spec_dur c g r now) l && monitor_from c (ghost_upd g r now) t
  end.

Definition monitor (c : cfg) (ls : list label) : bool := monitor_from c [] ls.

Fixpoint first_violation (c : cfg) (g : list (Z * Z)) (ls : list label) (i : nat) : option nat :=
  match ls with
  | [] => None
  | (LReq r now _ _ _ as l) :: t =>
      if lab_ok (spec_dur c g r now) l then first_violation c (ghost_upd g r now) t (S i) else Some i
  end.

(* ghost after a prefix, and "was round r requested in this prefix" *)
Fixpoint ghost_after (g : list (Z * Z)) (ls : list label) : list (Z * Z) :=
  match ls with [] => g | LReq r now _ _ _ :: t => ghost_after (ghost_upd g r now) t end.

Definition requested (r : Z) (ls : list label) : bool :=
  existsb (fun l => match l with LReq r' _ _ _ _ => r' =? r end) ls.

(* ---- a process driven only by its round timer (qbft.Run: `case <-timerChan: round+1; NewTimer`) ----
   In round r, entered at instant t, it calls Timer(r); if [q r = Some tq] a justified PRE-PREPARE
   of round r reaches it at instant tq clipped into [t, first firing] and it calls Timer(r) a second
   time (qbft.Run, UponJustifiedPrePrepare; at most once per round by dedupRules); when the timer it
   holds fires it moves to round r+1.  [round_step] returns the instant at which round r is left. *)
Definition round_step (c : cfg) (q : Z -> option Z) (st : tstate) (r t : Z) : tstate * Z :=
  let '(st1, d1) := tstep c st r t in
  let f1 := fire_time t d1 in
  match q r with
  | None => (st1, f1)
  | Some tq =>
      let t2 := Z.max t (Z.min tq f1) in
      let '(st2, d2) := tstep c st1 r t2 in
      (st2, fire_time t2 d2)
  end.

Fixpoint walk (c : cfg) (q : Z -> option Z) (n : nat) (st : tstate) (r t : Z) : tstate * Z * Z :=
  match n with
  | O => (st, r, t)
  | S n' => let '(st', t') := round_step c q st r t in walk c q n' st' (r + 1) t'
  end.

Definition no_pp : Z -> option Z := fun _ => None.

(* ---- wrapper-level observations (core/consensus/qbft runInstance -> core/qbft.Run) ----
   What an observer placed between runInstance and qbft.Run sees of the successive NewTimer(round)
   calls of ONE consensus instance: the round, the clock reading, the instant at which the returned
   channel fired (None: not before it was stopped / the observation ended at [until]).  The duration
   asked of the clock is not visible there.  The instance must behave as ONE timer object:
   [run_obs c init os] threads a single timer state through all calls of the instance. *)
Inductive obs := Obs (round now : Z) (fire : option Z) (until : Z).

Definition step_obs (c : cfg) (st : tstate) (o : obs) : option tstate :=
  match o with
  | Obs r now fire until =>
      let '(st', d) := tstep c st r now in
      if oeqb fire (expected_fire now d until) then Some st' else None
  end.

Fixpoint first_reject_obs (c : cfg) (st : tstate) (os : list obs) (i : nat) : option nat :=
  match os with
  | [] => None
  | o :: t => match step_obs c st o with Some st' => first_reject_obs c st' t (S i) | None => Some i end
  end.
