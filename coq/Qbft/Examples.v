(* Non-vacuity: label sequences recorded from the real core/qbft.Run (harness/qbft, n = 4) that the
   model accepts and on which the monitor is exercised non-trivially:
   [ex_happy]: PRE-PREPARE, quorum PREPAREs, quorum COMMITs, Decide, then DECIDED re-broadcasts answering
   ROUND-CHANGEs; [ex_reproposal]: prepared in one round, round timeout, justified PRE-PREPARE re-proposing the
   prepared value in the next round, Decide there. *)
From Coq Require Import List NArith Arith Bool.
From Charon Require Import Common.Quorum Qbft.Model Qbft.Monitor.
Import ListNotations.

Definition ex_happy_params : params := {| nodes := 4; fifo := 100; leader := lead_rr 7 4; self := 3 |}.
Definition ex_happy : list label := [
  LStart [NewTimer 1];
  LInput 6%N [];
  LRecv (mkm (mk PrePrepare 0 1 3 0 0) []) CmpOk [Upon JustPrePrepare; StopTimer; NewTimer 1; Bcast (mk Prepare 3 1 3 0 0) []];
  LRecv (mkm (mk Prepare 2 1 3 0 0) []) CmpOk [];
  LRecv (mkm (mk Prepare 0 1 3 0 0) []) CmpOk [];
  LRecv (mkm (mk Prepare 3 1 3 0 0) []) CmpOk [Upon QPrepares; Bcast (mk Commit 3 1 3 0 0) []];
  LRecv (mkm (mk Prepare 1 1 3 0 0) []) CmpOk [];
  LRecv (mkm (mk Commit 3 1 3 0 0) []) CmpOk [];
  LRecv (mkm (mk Commit 0 1 3 0 0) []) CmpOk [];
  LRecv (mkm (mk Commit 1 1 3 0 0) []) CmpOk [Upon QCommits; StopTimer; Decide 3%N 1 [(mk Commit 3 1 3 0 0); (mk Commit 1 1 3 0 0); (mk Commit 0 1 3 0 0)]];
  LRecv (mkm (mk Commit 2 1 3 0 0) []) CmpOk [];
  LRecv (mkm (mk RoundChange 2 5 0 0 0) []) CmpOk [Bcast (mk Decided 3 1 3 0 0) [(mk Commit 3 1 3 0 0); (mk Commit 1 1 3 0 0); (mk Commit 0 1 3 0 0)]];
  LRecv (mkm (mk RoundChange 1 3 0 0 0) []) CmpOk [Bcast (mk Decided 3 1 3 0 0) [(mk Commit 3 1 3 0 0); (mk Commit 1 1 3 0 0); (mk Commit 0 1 3 0 0)]] ].

Definition ex_reproposal_params : params := {| nodes := 4; fifo := 100; leader := lead_rr 5 4; self := 1 |}.
Definition ex_reproposal : list label := [
  LStart [NewTimer 1];
  LRecv (mkm (mk PrePrepare 2 1 2 0 0) []) CmpOk [Upon JustPrePrepare; StopTimer; NewTimer 1; Bcast (mk Prepare 1 1 2 0 0) []];
  LRecv (mkm (mk Prepare 3 1 2 0 0) []) CmpOk [];
  LRecv (mkm (mk Prepare 0 1 2 0 0) []) CmpOk [];
  LRecv (mkm (mk Prepare 2 1 2 0 0) []) CmpOk [Upon QPrepares; Bcast (mk Commit 1 1 2 0 0) []];
  LTimeout [RoundChg 1 2 RoundTimeout; StopTimer; NewTimer 2; Bcast (mk RoundChange 1 2 0 1 2) [(mk Prepare 3 1 2 0 0); (mk Prepare 0 1 2 0 0); (mk Prepare 2 1 2 0 0)]];
  LRecv (mkm (mk RoundChange 3 2 0 1 2) [(mk Prepare 3 1 2 0 0); (mk Prepare 0 1 2 0 0); (mk Prepare 2 1 2 0 0)]) CmpOk [];
  LRecv (mkm (mk RoundChange 0 2 0 0 0) []) CmpOk [];
  LRecv (mkm (mk RoundChange 2 2 0 1 2) [(mk Prepare 3 1 2 0 0); (mk Prepare 0 1 2 0 0); (mk Prepare 2 1 2 0 0)]) CmpOk [];
  LRecv (mkm (mk PrePrepare 3 2 2 1 1) [(mk RoundChange 3 2 0 1 2); (mk RoundChange 2 2 0 1 2); (mk RoundChange 1 2 0 0 0); (mk Prepare 2 1 2 0 0); (mk Prepare 3 1 2 0 0); (mk Prepare 1 1 2 0 0)]) CmpOk [Upon JustPrePrepare; StopTimer; NewTimer 2; Bcast (mk Prepare 1 2 2 0 0) []];
  LRecv (mkm (mk Prepare 0 2 2 0 0) []) CmpOk [];
  LRecv (mkm (mk Prepare 1 2 2 0 0) []) CmpOk [];
  LRecv (mkm (mk Prepare 3 2 2 0 0) []) CmpOk [Upon QPrepares; Bcast (mk Commit 1 2 2 0 0) []];
  LRecv (mkm (mk Commit 0 2 2 0 0) []) CmpOk [];
  LRecv (mkm (mk Commit 1 2 2 0 0) []) CmpOk [];
  LRecv (mkm (mk Commit 3 2 2 0 0) []) CmpOk [Upon QCommits; StopTimer; Decide 2%N 2 [(mk Commit 3 2 2 0 0); (mk Commit 0 2 2 0 0); (mk Commit 1 2 2 0 0)]] ].

Definition accepted (p : params) (ls : list label) : bool := match run p init ls with Some _ => true | None => false end.

Example ex_happy_accepted : accepted ex_happy_params ex_happy = true.
Proof. vm_compute. reflexivity. Qed.
Example ex_happy_decides : length (flat_map (fun l => decides_of (label_outs l)) ex_happy) = 1.
Proof. vm_compute. reflexivity. Qed.
Example ex_happy_monitor : mon3 ex_happy_params ex_happy = true.
Proof. vm_compute. reflexivity. Qed.

Example ex_reproposal_accepted : accepted ex_reproposal_params ex_reproposal = true.
Proof. vm_compute. reflexivity. Qed.
Example ex_reproposal_decides : map (fun d => snd (fst d)) (flat_map (fun l => decides_of (label_outs l)) ex_reproposal) = [2].
Proof. vm_compute. reflexivity. Qed.
