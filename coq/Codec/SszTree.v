(* SSZ hash-tree model with the semantics of github.com/ferranbt/fastssz v1.0.0 hasher.go, as used
   by cluster/ssz.go.

   The Go [Hasher] keeps a byte buffer that (for every call sequence cluster/ssz.go makes) is a
   whole number of 32-byte chunks; [Index] marks a position, [Merkleize(indx)] replaces the chunks
   after the mark by their merkle root, [MerkleizeWithMixin(indx,num,limit)] replaces them by
   H(root-with-limit, uint64le(num)).  The model keeps the buffer as a list of chunks; a chunk is a
   list of bytes (bytes are [N]; nothing below depends on bytes being < 256 or chunks having 32
   elements, which keeps the injectivity hypothesis on [H] satisfiable).

   The compression function [H] (SHA-256 of the 64-byte concatenation in Go) is a Section
   variable.  Injectivity lemmas carry the Section hypothesis [H_inj] (collision-freedom
   idealisation); evaluation lemmas do not. *)
From Coq Require Import List NArith Bool Arith Lia.
Import ListNotations.

Definition chunk := list N.

Definition zero_chunk : chunk := repeat 0%N 32.

(* AppendBytes32: right-pad with zero bytes to a multiple of 32. *)
Definition pad32 (b : list N) : chunk := b ++ repeat 0%N (32 - length b).

Fixpoint chunks_aux (fuel : nat) (b : list N) : list chunk :=
  match fuel with
  | O => []
  | S f => match b with
           | [] => []
           | _ => pad32 (firstn 32 b) :: chunks_aux f (skipn 32 b)
           end
  end.

(* The chunks appended by AppendBytes32(b): none for the empty string. *)
Definition chunks_of (b : list N) : list chunk := chunks_aux (length b) b.

(* little-endian bytes of n, k of them (binary.LittleEndian.PutUint64 for k = 8) *)
Fixpoint le_bytes (k : nat) (n : N) : list N :=
  match k with
  | O => []
  | S k' => N.modulo n 256 :: le_bytes k' (N.div n 256)
  end.

Definition u64chunk (n : N) : chunk := pad32 (le_bytes 8 n).

(* leftPad of cluster/helpers.go *)
Definition left_pad (b : list N) (n : nat) : list N := repeat 0%N (n - length b) ++ b.

(* ---------------------------------------------------------------------------------------- *)
(* byte-level facts (no hash involved) *)
Local Arguments firstn : simpl never.
Local Arguments skipn : simpl never.

Lemma pad32_inj : forall a b, length a = length b -> pad32 a = pad32 b -> a = b.
Proof.
  unfold pad32. intros a b L E. rewrite L in E.
  apply app_inv_tail in E. exact E.
Qed.

Lemma app_inj_len {A} : forall (a b c d : list A), length a = length c -> a ++ b = c ++ d -> a = c /\ b = d.
Proof.
  induction a; destruct c; simpl; intros; try discriminate; auto.
  inversion H0; subst. inversion H. destruct (IHa _ _ _ H2 H3). subst. auto.
Qed.

Lemma cons_inj {A} : forall (a b : A) l m, a :: l = b :: m -> a = b /\ l = m.
Proof. intros. inversion H. auto. Qed.

Lemma chunks_aux_len : forall f a b, length a = length b ->
  length (chunks_aux f a) = length (chunks_aux f b).
Proof.
  induction f; simpl; intros; auto.
  destruct a, b; simpl in *; try discriminate; auto.
  f_equal. apply IHf. rewrite !skipn_length. simpl. lia.
Qed.

Lemma chunks_aux_inj : forall f a b, length a = length b -> length a <= f ->
  chunks_aux f a = chunks_aux f b -> a = b.
Proof.
  induction f; simpl; intros a b L F E.
  - destruct a; simpl in F; [|lia]. destruct b; simpl in L; [reflexivity|discriminate].
  - destruct a as [|x a], b as [|y b]; try discriminate; auto.
    apply cons_inj in E. destruct E as [E1 E2].
    assert (LF : length (firstn 32 (x :: a)) = length (firstn 32 (y :: b))) by (rewrite !firstn_length; cbn [length] in *; lia).
    apply pad32_inj in E1; [|exact LF].
    apply IHf in E2.
    + rewrite <- (firstn_skipn 32 (x :: a)), <- (firstn_skipn 32 (y :: b)). rewrite E1, E2. reflexivity.
    + rewrite !skipn_length. simpl in *. lia.
    + rewrite skipn_length. simpl in *. lia.
Qed.

Lemma chunks_of_inj : forall a b, length a = length b -> chunks_of a = chunks_of b -> a = b.
Proof.
  unfold chunks_of. intros a b L E. rewrite <- L in E. eapply chunks_aux_inj; eauto.
Qed.

Lemma chunks_of_len : forall a b, length a = length b -> length (chunks_of a) = length (chunks_of b).
Proof. unfold chunks_of. intros. rewrite <- H. apply chunks_aux_len; auto. Qed.

Lemma le_bytes_length : forall k n, length (le_bytes k n) = k.
Proof. induction k; simpl; auto. Qed.

Lemma le_bytes_inj : forall k a b, le_bytes k a = le_bytes k b ->
  N.modulo a (256 ^ N.of_nat k) = N.modulo b (256 ^ N.of_nat k).
Proof.
  induction k; intros a b E.
  - simpl. rewrite !N.mod_1_r. reflexivity.
  - simpl in E. inversion E as [[E0 E1]]. apply IHk in E1.
    rewrite Nat2N.inj_succ, N.pow_succ_r by lia.
    rewrite !(N.mod_mul_r _ 256) by (try apply N.pow_nonzero; lia).
    rewrite E0, E1. reflexivity.
Qed.

Lemma u64chunk_inj : forall a b, u64chunk a = u64chunk b -> N.modulo a (2^64) = N.modulo b (2^64).
Proof.
  unfold u64chunk. intros a b E. apply pad32_inj in E; [|rewrite !le_bytes_length; reflexivity].
  apply le_bytes_inj in E. exact E.
Qed.

Lemma left_pad_length : forall b n, length b <= n -> length (left_pad b n) = n.
Proof. unfold left_pad. intros. rewrite app_length, repeat_length. lia. Qed.

Lemma left_pad_exact : forall b n, length b = n -> left_pad b n = b.
Proof. unfold left_pad. intros. replace (n - length b) with 0 by lia. reflexivity. Qed.

(* ---------------------------------------------------------------------------------------- *)
Section Tree.

Variable H : chunk -> chunk -> chunk.

(* The table zeroHashes[0..64] that fastssz precomputes in init().  It is a parameter of the model:
   no theorem needs to know what the table holds (for translation validation it is instantiated with
   zero_hash below, which is what init() computes); keeping it abstract also keeps symbolic roots
   small. *)
Variable Z : nat -> chunk.

(* one layer of merkleizeImpl: an odd layer is completed with z = zeroHashes[i] *)
Fixpoint pairs (z : chunk) (l : list chunk) : list chunk :=
  match l with
  | [] => []
  | [a] => [H a z]
  | a :: b :: r => H a b :: pairs z r
  end.

(* d layers starting at layer i; an odd layer i is completed with zeroHashes[i] *)
Fixpoint layers (d : nat) (i : nat) (l : list chunk) : list chunk :=
  match d with
  | O => l
  | S d' => layers d' (S i) (pairs (Z i) l)
  end.

(* merkleizeImpl(dst, input, limit); None = the Go code panics ("count higher than limit") or
   leaves other than one chunk (impossible when count <= limit, see merkleize_total below). *)
Definition merkleize (cs : list chunk) (limit : N) : option chunk :=
  let count := N.of_nat (length cs) in
  if (negb (N.eqb limit 0) && N.ltb limit count)%bool then None else
  let lim := if N.eqb limit 0 then count else limit in
  if N.eqb lim 0 then Some zero_chunk else
  if N.eqb lim 1 then Some (match cs with [c] => c | _ => zero_chunk end) else
  let depth := N.to_nat (N.log2_up lim) in
  match cs with
  | [] => Some (Z depth)
  | _ => match layers depth 0 cs with [r] => Some r | _ => None end
  end.

(* MerkleizeWithMixin *)
Definition mixin (cs : list chunk) (num limit : N) : option chunk :=
  match merkleize cs limit with
  | Some r => Some (H r (u64chunk num))
  | None => None
  end.

(* PutBytes: up to 32 bytes are appended padded (nothing for the empty string!); longer values are
   merkleized on the spot (no length mix-in). *)
Definition put_bytes (b : list N) : option (list chunk) :=
  if length b <=? 32 then Some (chunks_of b)
  else match merkleize (chunks_of b) 0 with Some r => Some [r] | None => None end.

(* ---------------------------------------------------------------------------------------- *)
Hypothesis H_inj : forall a b c d, H a b = H c d -> a = c /\ b = d.

Lemma list_ind2 {A} (P : list A -> Prop) :
  P [] -> (forall a, P [a]) -> (forall a b r, P r -> P (a :: b :: r)) -> forall l, P l.
Proof.
  intros P0 P1 P2. fix IH 1. intros [|a [|b r]].
  - exact P0.
  - apply P1.
  - apply P2. apply IH.
Qed.

Lemma pairs_length : forall z l1 l2, length l1 = length l2 -> length (pairs z l1) = length (pairs z l2).
Proof.
  intros z l1. induction l1 as [| a | a b r IH] using list_ind2; intros l2 L.
  - destruct l2; [reflexivity|discriminate].
  - destruct l2 as [|a' [|b' r']]; try discriminate. reflexivity.
  - destruct l2 as [|a' [|b' r']]; try discriminate. simpl. f_equal. apply IH. simpl in L. lia.
Qed.

Lemma pairs_inj : forall z l1 l2, length l1 = length l2 -> pairs z l1 = pairs z l2 -> l1 = l2.
Proof.
  intros z l1. induction l1 as [| a | a b r IH] using list_ind2; intros l2 L E.
  - destruct l2; [reflexivity|discriminate].
  - destruct l2 as [|a' [|b' r']]; try discriminate. simpl in E.
    inversion E as [E1]. apply H_inj in E1. destruct E1; subst. reflexivity.
  - destruct l2 as [|a' [|b' r']]; try discriminate. simpl in E.
    inversion E as [[E1 E2]]. apply H_inj in E1. destruct E1; subst.
    f_equal. f_equal. apply IH; auto. simpl in L. lia.
Qed.

Lemma layers_inj : forall d i l1 l2, length l1 = length l2 -> layers d i l1 = layers d i l2 -> l1 = l2.
Proof.
  induction d; simpl; intros i l1 l2 L E; auto.
  apply IHd in E; [|apply pairs_length; auto].
  eapply pairs_inj; eauto.
Qed.

Lemma merkleize_inj : forall cs1 cs2 limit r,
  length cs1 = length cs2 -> merkleize cs1 limit = Some r -> merkleize cs2 limit = Some r -> cs1 = cs2.
Proof.
  unfold merkleize. intros cs1 cs2 limit r L E1 E2. rewrite <- L in E2.
  destruct (negb (N.eqb limit 0) && N.ltb limit (N.of_nat (length cs1)))%bool eqn:G; [discriminate|].
  set (lim := if N.eqb limit 0 then N.of_nat (length cs1) else limit) in *.
  destruct (N.eqb lim 0) eqn:Z0.
  - (* both empty *)
    apply N.eqb_eq in Z0. subst lim.
    destruct (N.eqb limit 0) eqn:Z1.
    + destruct cs1; [|simpl in Z0; lia]. destruct cs2; [reflexivity|discriminate].
    + apply N.eqb_neq in Z1. congruence.
  - destruct (N.eqb lim 1) eqn:Z1.
    + apply N.eqb_eq in Z1. subst lim.
      assert (LE : length cs1 <= 1).
      { destruct (N.eqb limit 0) eqn:Z2.
        - lia.
        - simpl in G. apply N.ltb_ge in G. lia. }
      destruct cs1 as [|a [|b r1]]; simpl in LE; try lia.
      * destruct cs2; [reflexivity|discriminate].
      * destruct cs2 as [|a' [|b' r2]]; try discriminate. congruence.
    + destruct cs1 as [|a r1].
      * destruct cs2; [reflexivity|discriminate].
      * destruct cs2 as [|a' r2]; [discriminate|].
        destruct (layers (N.to_nat (N.log2_up lim)) 0 (a :: r1)) as [|x [|y t]] eqn:L1; try discriminate.
        destruct (layers (N.to_nat (N.log2_up lim)) 0 (a' :: r2)) as [|x' [|y' t']] eqn:L2; try discriminate.
        inversion E1; inversion E2; subst.
        eapply layers_inj; [exact L|]. rewrite L1, L2. reflexivity.
Qed.

Lemma mixin_inj : forall cs1 cs2 n1 n2 limit r,
  mixin cs1 n1 limit = Some r -> mixin cs2 n2 limit = Some r ->
  N.modulo n1 (2^64) = N.modulo n2 (2^64) /\ (length cs1 = length cs2 -> cs1 = cs2).
Proof.
  unfold mixin. intros cs1 cs2 n1 n2 limit r E1 E2.
  destruct (merkleize cs1 limit) eqn:M1; [|discriminate].
  destruct (merkleize cs2 limit) eqn:M2; [|discriminate].
  inversion E1; inversion E2; subst. apply H_inj in H2. destruct H2 as [Hr Hn]. subst.
  split.
  - symmetry. apply u64chunk_inj; auto.
  - intros L. eapply merkleize_inj; eauto.
Qed.

(* PutBytes is injective on strings of one fixed, non-zero length (it is NOT injective across
   lengths: see put_bytes_pad_collision). *)
Lemma put_bytes_inj : forall a b cs, length a = length b ->
  put_bytes a = Some cs -> put_bytes b = Some cs -> a = b.
Proof.
  unfold put_bytes. intros a b cs L E1 E2. rewrite <- L in E2.
  destruct (length a <=? 32).
  - inversion E1; inversion E2; subst. apply chunks_of_inj; auto.
  - destruct (merkleize (chunks_of a) 0) eqn:M1; [|discriminate].
    destruct (merkleize (chunks_of b) 0) eqn:M2; [|discriminate].
    inversion E1; inversion E2; subst. inversion H2; subst.
    apply chunks_of_inj; auto.
    eapply merkleize_inj; eauto. apply chunks_of_len; auto.
Qed.

End Tree.

(* zeroHashes as fastssz's init() computes it: zeroHashes[0] = 32 zero bytes,
   zeroHashes[i+1] = H(zeroHashes[i], zeroHashes[i]). *)
Fixpoint zero_hash (H : chunk -> chunk -> chunk) (d : nat) : chunk :=
  match d with
  | O => zero_chunk
  | S d' => let z := zero_hash H d' in H z z
  end.

(* ---------------------------------------------------------------------------------------- *)
(* Facts that hold for every H (no injectivity): the padding collisions of PutBytes. *)

Lemma chunks_of_short : forall b, 0 < length b -> length b <= 32 -> chunks_of b = [pad32 b].
Proof.
  unfold chunks_of. intros b P L. destruct b as [|x b]; [simpl in P; lia|].
  simpl length. cbn [chunks_aux].
  rewrite firstn_all2 by (cbn [length] in *; lia).
  rewrite skipn_all2 by (cbn [length] in *; lia).
  destruct (length b); reflexivity.
Qed.

(* A trailing zero byte is invisible to PutBytes for values shorter than 32 bytes... *)
Lemma put_bytes_pad_collision : forall H Z b, 0 < length b -> length b < 32 ->
  put_bytes H Z (b ++ [0%N]) = put_bytes H Z b.
Proof.
  intros H Z b P L. unfold put_bytes.
  assert (L1 : length (b ++ [0%N]) = S (length b)) by (rewrite app_length; simpl; lia).
  rewrite L1.
  replace (S (length b) <=? 32) with true by (symmetry; apply Nat.leb_le; lia).
  replace (length b <=? 32) with true by (symmetry; apply Nat.leb_le; lia).
  rewrite !chunks_of_short by lia. f_equal. f_equal. unfold pad32.
  rewrite L1, <- app_assoc. f_equal.
  replace (32 - length b) with (S (32 - S (length b))) by lia. reflexivity.
Qed.

(* ... and the empty string contributes no chunk at all. *)
Lemma put_bytes_empty : forall H Z, put_bytes H Z [] = Some [].
Proof. reflexivity. Qed.
