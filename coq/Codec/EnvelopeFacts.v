(* Proofs about Codec/Envelope.v. *)
From Coq Require Import List NArith Bool Lia Arith PeanoNat Permutation Sorted.
From Charon Require Import Codec.Envelope.
Import ListNotations.
Local Open Scope N_scope.

(* ------------------------------------------------------------------------------------------- *)
(* little-endian integers *)

Lemma le_enc_length k n : length (le_enc k n) = k.
Proof. revert n; induction k; simpl; intros; [reflexivity | now rewrite IHk]. Qed.

Lemma le_enc_wf k n : wf (le_enc k n).
Proof.
  revert n; induction k; simpl; intros; constructor.
  - unfold byte_ok. apply N.mod_lt. discriminate.
  - apply IHk.
Qed.

Lemma le_dec_enc k n : n < 256 ^ N.of_nat k -> le_dec (le_enc k n) = n.
Proof.
  revert n; induction k; intros n H.
  - simpl in *. lia.
  - cbn [le_enc le_dec]. rewrite IHk.
    + rewrite (N.div_mod n 256) at 3 by discriminate. lia.
    + rewrite Nat2N.inj_succ, N.pow_succ_r' in H.
      apply N.div_lt_upper_bound; [discriminate | exact H].
Qed.

Lemma le_dec_bound bs : wf bs -> le_dec bs < 256 ^ N.of_nat (length bs).
Proof.
  induction 1 as [| b r Hb _ IH].
  - simpl. lia.
  - cbn [le_dec length]. rewrite Nat2N.inj_succ, N.pow_succ_r'. unfold byte_ok in Hb. nia.
Qed.

Lemma le_enc_dec bs : wf bs -> le_enc (length bs) (le_dec bs) = bs.
Proof.
  induction 1 as [| b r Hb _ IH]; [reflexivity |].
  cbn [le_dec length le_enc]. unfold byte_ok in Hb.
  assert (E1 : (b + 256 * le_dec r) mod 256 = b).
  { rewrite N.mul_comm, N.mod_add by discriminate. now apply N.mod_small. }
  assert (E2 : (b + 256 * le_dec r) / 256 = le_dec r).
  { rewrite N.mul_comm, N.div_add by discriminate. rewrite N.div_small by exact Hb. reflexivity. }
  now rewrite E1, E2, IH.
Qed.

Lemma wf_app a b : wf (a ++ b) <-> wf a /\ wf b.
Proof. unfold wf. apply Forall_app. Qed.

(* ------------------------------------------------------------------------------------------- *)
(* slices *)

Lemma slice_some b lo hi s : slice b lo hi = Some s ->
  (lo <= hi)%nat /\ (hi <= length b)%nat /\ s = firstn (hi - lo) (skipn lo b) /\ length s = (hi - lo)%nat.
Proof.
  unfold slice. destruct (Nat.leb_spec lo hi); destruct (Nat.leb_spec hi (length b)); simpl; try discriminate.
  intros [= <-]. repeat split; try assumption.
  rewrite firstn_length, skipn_length. lia.
Qed.

Lemma slice_in_range b lo hi : (lo <= hi)%nat -> (hi <= length b)%nat -> exists s, slice b lo hi = Some s.
Proof.
  intros H1 H2. unfold slice.
  destruct (Nat.leb_spec lo hi); [| lia]. destruct (Nat.leb_spec hi (length b)); [| lia].
  simpl. eauto.
Qed.

Lemma slice_none b lo hi : slice b lo hi = None -> (hi < lo)%nat \/ (length b < hi)%nat.
Proof.
  unfold slice. destruct (Nat.leb_spec lo hi); destruct (Nat.leb_spec hi (length b)); simpl; try discriminate; lia.
Qed.

Lemma slice_app_mid a m c : slice (a ++ m ++ c) (length a) (length a + length m) = Some m.
Proof.
  unfold slice.
  destruct (Nat.leb_spec (length a) (length a + length m)); [| lia].
  destruct (Nat.leb_spec (length a + length m) (length (a ++ m ++ c))) as [_ | H'];
    [| rewrite !app_length in H'; lia].
  simpl. f_equal.
  rewrite skipn_app, skipn_all, Nat.sub_diag. simpl.
  replace (length a + length m - length a)%nat with (length m + 0)%nat by lia.
  rewrite firstn_app_2. simpl. apply app_nil_r.
Qed.

Lemma slice_app_tail a c : slice (a ++ c) (length a) (length (a ++ c)) = Some c.
Proof.
  pose proof (slice_app_mid a c []) as H. rewrite app_nil_r in H.
  rewrite app_length. exact H.
Qed.

Lemma slice_app_head a c : slice (a ++ c) 0 (length a) = Some a.
Proof. exact (slice_app_mid [] a c). Qed.

Lemma skipn_skipn' {A} x y (l : list A) : skipn x (skipn y l) = skipn (x + y) l.
Proof.
  revert l. induction y as [| y IH]; intros l.
  - now rewrite Nat.add_0_r.
  - destruct l as [| a l]; [now rewrite !skipn_nil |].
    rewrite Nat.add_succ_r. simpl. apply IH.
Qed.

Lemma slice_join b lo mid hi x y :
  slice b lo mid = Some x -> slice b mid hi = Some y -> slice b lo hi = Some (x ++ y).
Proof.
  intros H1 H2.
  apply slice_some in H1 as (A1 & A2 & -> & _). apply slice_some in H2 as (B1 & B2 & -> & _).
  unfold slice.
  destruct (Nat.leb_spec lo hi); [| lia]. destruct (Nat.leb_spec hi (length b)); [| lia].
  simpl. f_equal.
  replace (hi - lo)%nat with ((mid - lo) + (hi - mid))%nat by lia.
  rewrite <- (firstn_skipn (mid - lo) (skipn lo b)) at 1.
  rewrite firstn_app, firstn_firstn.
  replace (Nat.min (mid - lo + (hi - mid)) (mid - lo)) with (mid - lo)%nat by lia.
  f_equal.
  rewrite firstn_length, skipn_length.
  replace (mid - lo + (hi - mid) - Nat.min (mid - lo) (length b - lo))%nat with (hi - mid)%nat by lia.
  rewrite skipn_skipn'. replace (mid - lo + lo)%nat with mid by lia. reflexivity.
Qed.

Lemma slice_full b : slice b 0 (length b) = Some b.
Proof.
  unfold slice. simpl. rewrite Nat.leb_refl. simpl. now rewrite Nat.sub_0_r, firstn_all.
Qed.

Lemma firstn_In' {A} n (l : list A) x : In x (firstn n l) -> In x l.
Proof.
  revert l. induction n; intros [| a l]; simpl; try tauto.
  intros [-> | H]; [now left | right; now apply IHn].
Qed.

Lemma slice_wf b lo hi s : wf b -> slice b lo hi = Some s -> wf s.
Proof.
  intros W H. apply slice_some in H as (_ & _ & -> & _).
  unfold wf in *. rewrite Forall_forall in *. intros x Hx.
  apply W. apply firstn_In' in Hx.
  rewrite <- (firstn_skipn lo b). apply in_or_app. now right.
Qed.

(* ------------------------------------------------------------------------------------------- *)
(* generic header *)
Section GenFacts.
Variable payload : Type.
Variable xlen : nat.
Variable strict : bool.
Variable inner_enc : N -> bytes -> payload -> bytes.
Variable inner_dec : N -> bytes -> bytes -> ires payload.
Hypothesis Hx : (xlen <= 8)%nat.

Notation fixedn := (fixed xlen).
Notation enc := (enc_gen payload xlen inner_enc).
Notation dec := (dec_gen payload xlen strict inner_dec).

Lemma fixed_small : N.of_nat fixedn < 256 ^ N.of_nat 4.
Proof. unfold fixed. change (256 ^ N.of_nat 4) with 4294967296. lia. Qed.

(* decode (encode v) = v, under the value-range guards Go has: a known version, an extra field of
   the declared width; the inner codec round-trips on this payload. *)
Lemma gen_roundtrip ver extra p :
  ver < nver -> length extra = xlen ->
  inner_dec ver extra (inner_enc ver extra p) = IOk p ->
  exists b, enc ver extra p = Some b /\ dec b = Ok (ver, extra, p).
Proof.
  intros Hv Hl Hin. unfold enc_gen.
  destruct (N.leb_spec nver ver) as [H | _]; [lia |].
  eexists; split; [reflexivity |].
  set (pb := inner_enc ver extra p).
  set (vb := le_enc 8 ver). set (ob := le_enc 4 (N.of_nat fixedn)).
  assert (Lv : length vb = 8%nat) by apply le_enc_length.
  assert (Lo : length ob = 4%nat) by apply le_enc_length.
  assert (Dv : le_dec vb = ver).
  { apply le_dec_enc. unfold nver in Hv. change (256 ^ N.of_nat 8) with 18446744073709551616. lia. }
  assert (Do : le_dec ob = N.of_nat fixedn) by (apply le_dec_enc, fixed_small).
  unfold dec_gen.
  assert (Ltot : length (vb ++ extra ++ ob ++ pb) = (fixedn + length pb)%nat).
  { rewrite !app_length, Lv, Lo, Hl. unfold fixed. lia. }
  rewrite Ltot.
  destruct (Nat.ltb_spec (fixedn + length pb) fixedn) as [H | _]; [lia |].
  assert (S1 : slice (vb ++ extra ++ ob ++ pb) 0 8 = Some vb).
  { rewrite <- Lv. apply slice_app_head. }
  rewrite S1, Dv.
  destruct (N.leb_spec nver ver) as [H | _]; [lia |].
  assert (S2 : slice (vb ++ extra ++ ob ++ pb) 8 (8 + xlen) = Some extra).
  { rewrite <- Lv, <- Hl. apply slice_app_mid. }
  rewrite S2.
  assert (S3 : slice (vb ++ extra ++ ob ++ pb) (8 + xlen) (8 + xlen + 4) = Some ob).
  { replace (vb ++ extra ++ ob ++ pb) with ((vb ++ extra) ++ ob ++ pb) by now rewrite <- app_assoc.
    replace (8 + xlen)%nat with (length (vb ++ extra)) by (rewrite app_length; lia).
    rewrite <- Lo. apply slice_app_mid. }
  rewrite S3, Do.
  assert (G : (if strict then negb (N.of_nat fixedn =? N.of_nat fixedn)
               else (N.of_nat fixedn <? N.of_nat fixedn) || (N.of_nat (fixedn + length pb) <? N.of_nat fixedn))%bool = false).
  { destruct strict.
    - now rewrite N.eqb_refl.
    - rewrite N.ltb_irrefl. simpl. apply N.ltb_ge. lia. }
  rewrite G, Nat2N.id.
  assert (S4 : slice (vb ++ extra ++ ob ++ pb) fixedn (fixedn + length pb) = Some pb).
  { replace (vb ++ extra ++ ob ++ pb) with ((vb ++ extra ++ ob) ++ pb) by now rewrite <- !app_assoc.
    assert (L3 : length (vb ++ extra ++ ob) = fixedn) by (rewrite !app_length; unfold fixed; lia).
    rewrite <- L3 at 1. rewrite <- L3 at 1. rewrite <- app_length. apply slice_app_tail. }
  rewrite S4. unfold pb. now rewrite Hin.
Qed.

(* every byte string is decoded to a value or an error: no slice expression is out of range *)
Lemma gen_total b : dec b <> Panic.
Proof.
  unfold dec_gen.
  destruct (Nat.ltb_spec (length b) fixedn) as [| Hlen]; [discriminate |].
  unfold fixed in Hlen.
  destruct (slice_in_range b 0 8) as [vb ->]; [lia | lia |].
  destruct (N.leb_spec nver (le_dec vb)); [discriminate |].
  destruct (slice_in_range b 8 (8 + xlen)) as [ex ->]; [lia | lia |].
  destruct (slice_in_range b (8 + xlen) (8 + xlen + 4)) as [ob ->]; [lia | lia |].
  set (o1 := le_dec ob).
  destruct (if strict then negb (o1 =? N.of_nat fixedn)
            else (o1 <? N.of_nat fixedn) || (N.of_nat (length b) <? o1))%bool eqn:G; [discriminate |].
  assert (R : (N.to_nat o1 <= length b)%nat).
  { destruct strict.
    - apply negb_false_iff, N.eqb_eq in G. rewrite G, Nat2N.id. unfold fixed. lia.
    - apply orb_false_iff in G as [_ G]. apply N.ltb_ge in G. lia. }
  destruct (slice_in_range b (N.to_nat o1) (length b)) as [pb ->]; [lia | lia |].
  destruct (inner_dec (le_dec vb) ex pb); discriminate.
Qed.

(* what a successful decode says about the input *)
Lemma gen_decode_ok b ver extra p :
  dec b = Ok (ver, extra, p) ->
  exists vb ob pb,
    slice b 0 8 = Some vb /\ le_dec vb = ver /\ ver < nver /\
    slice b 8 (8 + xlen) = Some extra /\
    slice b (8 + xlen) (8 + xlen + 4) = Some ob /\
    N.of_nat fixedn <= le_dec ob /\ le_dec ob <= N.of_nat (length b) /\
    (strict = true -> le_dec ob = N.of_nat fixedn) /\
    slice b (N.to_nat (le_dec ob)) (length b) = Some pb /\
    inner_dec ver extra pb = IOk p.
Proof.
  unfold dec_gen.
  destruct (Nat.ltb_spec (length b) fixedn) as [| Hlen]; [discriminate |].
  destruct (slice b 0 8) as [vb |] eqn:S1; [| discriminate].
  destruct (N.leb_spec nver (le_dec vb)); [discriminate |].
  destruct (slice b 8 (8 + xlen)) as [ex |] eqn:S2; [| discriminate].
  destruct (slice b (8 + xlen) (8 + xlen + 4)) as [ob |] eqn:S3; [| discriminate].
  destruct (if strict then negb (le_dec ob =? N.of_nat fixedn)
            else (le_dec ob <? N.of_nat fixedn) || (N.of_nat (length b) <? le_dec ob))%bool eqn:G; [discriminate |].
  destruct (slice b (N.to_nat (le_dec ob)) (length b)) as [pb |] eqn:S4; [| discriminate].
  destruct (inner_dec (le_dec vb) ex pb) eqn:I; [| discriminate].
  intros [= <- <- <-].
  exists vb, ob, pb. repeat split; try assumption.
  - destruct strict.
    + apply negb_false_iff, N.eqb_eq in G. lia.
    + apply orb_false_iff in G as [G _]. apply N.ltb_ge in G. exact G.
  - destruct strict.
    + apply negb_false_iff, N.eqb_eq in G. rewrite G. lia.
    + apply orb_false_iff in G as [_ G]. apply N.ltb_ge in G. exact G.
  - intros ->. apply negb_false_iff, N.eqb_eq in G. exact G.
Qed.

(* canonical form: an accepted input whose offset field equals the fixed size is exactly the
   encoding of the decoded value (given a canonical inner codec). *)
Lemma gen_canonical b ver extra p :
  wf b ->
  (forall pb, inner_dec ver extra pb = IOk p -> inner_enc ver extra p = pb) ->
  dec b = Ok (ver, extra, p) ->
  offset_of xlen b = Some (N.of_nat fixedn) ->
  enc ver extra p = Some b.
Proof.
  intros W Hcan D Ho.
  apply gen_decode_ok in D as (vb & ob & pb & S1 & Dv & Hv & S2 & S3 & _ & _ & _ & S4 & I).
  unfold offset_of in Ho. rewrite S3 in Ho.
  assert (Ho' : le_dec ob = N.of_nat fixedn) by congruence. clear Ho. rename Ho' into Ho.
  assert (S4' : slice b fixedn (length b) = Some pb) by (rewrite <- (Nat2N.id fixedn), <- Ho; exact S4).
  clear S4. rename S4' into S4.
  unfold enc_gen. destruct (N.leb_spec nver ver); [lia |]. f_equal.
  rewrite (Hcan pb I).
  pose proof (slice_some _ _ _ _ S1) as (_ & _ & _ & L1).
  pose proof (slice_some _ _ _ _ S3) as (_ & _ & _ & L3).
  assert (E1 : le_enc 8 ver = vb).
  { rewrite <- Dv. replace 8%nat with (length vb) by (rewrite L1; lia).
    apply le_enc_dec. eapply slice_wf; eauto. }
  assert (E3 : le_enc 4 (N.of_nat fixedn) = ob).
  { rewrite <- Ho. replace 4%nat with (length ob) by (rewrite L3; lia).
    apply le_enc_dec. eapply slice_wf; eauto. }
  rewrite E1, E3.
  pose proof (slice_join _ _ _ _ _ _ S1 S2) as J1.
  pose proof (slice_join _ _ _ _ _ _ J1 S3) as J2.
  replace (8 + xlen + 4)%nat with fixedn in J2 by reflexivity.
  pose proof (slice_join _ _ _ _ _ _ J2 S4) as J3.
  rewrite slice_full in J3. injection J3 as ->. now rewrite <- !app_assoc.
Qed.

Lemma gen_canonical_strict b ver extra p :
  strict = true -> wf b ->
  (forall pb, inner_dec ver extra pb = IOk p -> inner_enc ver extra p = pb) ->
  dec b = Ok (ver, extra, p) -> enc ver extra p = Some b.
Proof.
  intros St W Hcan D. apply gen_canonical; try assumption.
  apply gen_decode_ok in D as (vb & ob & pb & _ & _ & _ & _ & S3 & _ & _ & E & _).
  unfold offset_of. rewrite S3. now rewrite (E St).
Qed.
End GenFacts.

(* ------------------------------------------------------------------------------------------- *)
(* Shape B *)
Section BFacts.
Variable payload : Type.
Variable inner_enc : N -> bool -> payload -> bytes.
Variable inner_dec : N -> bool -> bytes -> ires payload.

Lemma flag_of_byte bl : flag_of (flag_byte bl) = bl.
Proof. now destruct bl. Qed.

Lemma B_roundtrip ver bl p :
  ver < nver -> inner_dec ver bl (inner_enc ver bl p) = IOk p ->
  exists b, encB payload inner_enc (ver, bl, p) = Some b /\ decB payload inner_dec b = Ok (ver, bl, p).
Proof.
  intros Hv Hin.
  destruct (gen_roundtrip payload 1 false (fun v x => inner_enc v (flag_of x)) (fun v x => inner_dec v (flag_of x))
              ltac:(lia) ver (flag_byte bl) p Hv eq_refl) as (b & E & D).
  { now rewrite flag_of_byte. }
  exists b. split; [exact E |]. unfold decB. rewrite D. now rewrite flag_of_byte.
Qed.

Lemma B_total b : decB payload inner_dec b <> Panic.
Proof.
  unfold decB.
  pose proof (gen_total payload 1 false (fun v x => inner_dec v (flag_of x)) ltac:(lia) b) as H.
  destruct (dec_gen payload 1 false _ b) as [[[? ?] ?] | |]; congruence.
Qed.

(* canonical only when the offset is 13 and the flag byte is 0 or 1 *)
Lemma B_canonical b ver bl p :
  wf b ->
  (forall pb, inner_dec ver bl pb = IOk p -> inner_enc ver bl p = pb) ->
  decB payload inner_dec b = Ok (ver, bl, p) ->
  offset_of 1 b = Some 13 -> (exists x, slice b 8 9 = Some [x] /\ x <= 1) ->
  encB payload inner_enc (ver, bl, p) = Some b.
Proof.
  intros W Hcan D Ho (x & Sx & Hx).
  unfold decB in D.
  destruct (dec_gen payload 1 false (fun v x => inner_dec v (flag_of x)) b) as [[[v e] q] | |] eqn:G; try discriminate.
  injection D as <- <- <-.
  pose proof (gen_decode_ok payload 1 false _ ltac:(lia) _ _ _ _ G) as (_ & _ & _ & _ & _ & _ & S2 & _).
  change (8 + 1)%nat with 9%nat in S2. rewrite Sx in S2. injection S2 as <-.
  unfold encB.
  assert (E : flag_byte (flag_of [x]) = [x]).
  { unfold flag_byte, flag_of. destruct (N.eqb_spec x 1) as [-> | Hn]; [reflexivity |].
    f_equal. lia. }
  rewrite E.
  apply (gen_canonical payload 1 false (fun v x => inner_enc v (flag_of x)) (fun v x => inner_dec v (flag_of x))
           ltac:(lia) b v [x] q W); auto.
Qed.
End BFacts.

(* Shapes V, I and VersionedAttestation *)
Section VFacts.
Variable payload : Type.
Variable inner_enc : N -> payload -> bytes.
Variable inner_dec : N -> bytes -> ires payload.

Lemma V_roundtrip ver p :
  ver < nver -> inner_dec ver (inner_enc ver p) = IOk p ->
  exists b, encV payload inner_enc (ver, p) = Some b /\ decV payload inner_dec b = Ok (ver, p).
Proof.
  intros Hv Hin.
  destruct (gen_roundtrip payload 0 false (fun v _ => inner_enc v) (fun v _ => inner_dec v)
              ltac:(lia) ver [] p Hv eq_refl Hin) as (b & E & D).
  exists b. split; [exact E |]. unfold decV. now rewrite D.
Qed.

Lemma V_total b : decV payload inner_dec b <> Panic.
Proof.
  unfold decV.
  pose proof (gen_total payload 0 false (fun v _ => inner_dec v) ltac:(lia) b) as H.
  destruct (dec_gen payload 0 false _ b) as [[[? ?] ?] | |]; congruence.
Qed.

Lemma V_canonical b ver p :
  wf b -> (forall pb, inner_dec ver pb = IOk p -> inner_enc ver p = pb) ->
  decV payload inner_dec b = Ok (ver, p) -> offset_of 0 b = Some 12 ->
  encV payload inner_enc (ver, p) = Some b.
Proof.
  intros W Hcan D Ho. unfold decV in D.
  destruct (dec_gen payload 0 false (fun v _ => inner_dec v) b) as [[[v e] q] | |] eqn:G; try discriminate.
  injection D as <- <-.
  pose proof (gen_decode_ok payload 0 false _ ltac:(lia) _ _ _ _ G) as (_ & _ & _ & _ & _ & _ & S2 & _).
  apply slice_some in S2 as (_ & _ & _ & L). destruct e; [| simpl in L; lia].
  unfold encV.
  apply (gen_canonical payload 0 false (fun v _ => inner_enc v) (fun v _ => inner_dec v)
           ltac:(lia) b v [] q W); auto.
Qed.

Lemma I_roundtrip ver idx p :
  ver < nver -> idx < 2 ^ 64 -> inner_dec ver (inner_enc ver p) = IOk p ->
  exists b, encI payload inner_enc (ver, idx, p) = Some b /\ decI payload inner_dec b = Ok (ver, idx, p).
Proof.
  intros Hv Hi Hin.
  destruct (gen_roundtrip payload 8 true (fun v _ => inner_enc v) (fun v _ => inner_dec v)
              ltac:(lia) ver (le_enc 8 idx) p Hv (le_enc_length 8 idx) Hin) as (b & E & D).
  exists b. split; [exact E |]. unfold decI. rewrite D.
  rewrite le_dec_enc; [reflexivity |]. exact Hi.
Qed.

Lemma I_total b : decI payload inner_dec b <> Panic.
Proof.
  unfold decI.
  pose proof (gen_total payload 8 true (fun v _ => inner_dec v) ltac:(lia) b) as H.
  destruct (dec_gen payload 8 true _ b) as [[[? ?] ?] | |]; congruence.
Qed.

(* shape I accepts only offset == 20, so (with a canonical inner codec) it accepts only encodings *)
Lemma I_canonical b ver idx p :
  wf b -> (forall pb, inner_dec ver pb = IOk p -> inner_enc ver p = pb) ->
  decI payload inner_dec b = Ok (ver, idx, p) -> encI payload inner_enc (ver, idx, p) = Some b.
Proof.
  intros W Hcan D. unfold decI in D.
  destruct (dec_gen payload 8 true (fun v _ => inner_dec v) b) as [[[v e] q] | |] eqn:G; try discriminate.
  injection D as <- <- <-.
  pose proof (gen_decode_ok payload 8 true _ ltac:(lia) _ _ _ _ G) as (_ & _ & _ & _ & _ & _ & S2 & _).
  pose proof (slice_some _ _ _ _ S2) as (_ & _ & _ & L).
  unfold encI.
  replace (le_enc 8 (le_dec e)) with e.
  2:{ symmetry. replace 8%nat with (length e) by (rewrite L; lia). apply le_enc_dec. eapply slice_wf; eauto. }
  apply (gen_canonical_strict payload 8 true (fun v _ => inner_enc v) (fun v _ => inner_dec v)
           ltac:(lia) b v e q eq_refl W); auto.
Qed.

Lemma Att_total pre b : decAtt payload inner_dec pre b <> Panic.
Proof.
  unfold decAtt.
  pose proof (I_total b) as HI. pose proof (V_total b) as HV.
  destruct (decI payload inner_dec b) as [[[? ?] ?] | e |]; try congruence.
  destruct (pre && negb (is_offset_err e))%bool; [congruence |].
  destruct (decV payload inner_dec b) as [[? ?] | e' |]; try congruence.
  destruct (is_offset_err e); congruence.
Qed.

Lemma Att_roundtrip_idx pre ver idx p :
  ver < nver -> idx < 2 ^ 64 -> inner_dec ver (inner_enc ver p) = IOk p ->
  exists b, encAtt payload inner_enc (ver, Some idx, p) = Some b /\
            decAtt payload inner_dec pre b = Ok (ver, Some idx, p).
Proof.
  intros Hv Hi Hin. destruct (I_roundtrip ver idx p Hv Hi Hin) as (b & E & D).
  exists b. split; [exact E |]. unfold decAtt. now rewrite D.
Qed.

(* Legacy form (no validator index): the bytes are first read as shape I.
   Current rule: the round trip holds exactly when that first reading does not succeed. *)
Lemma Att_roundtrip_noidx ver p b :
  ver < nver -> inner_dec ver (inner_enc ver p) = IOk p ->
  encAtt payload inner_enc (ver, None, p) = Some b ->
  (forall r, decI payload inner_dec b <> Ok r) ->
  decAtt payload inner_dec false b = Ok (ver, None, p).
Proof.
  intros Hv Hin E HI.
  destruct (V_roundtrip ver p Hv Hin) as (b' & E' & D').
  assert (Eb : b' = b).
  { unfold encAtt, encV in *. rewrite E in E'. congruence. }
  subst b'. unfold decAtt.
  destruct (decI payload inner_dec b) as [r | e |] eqn:DI.
  - exfalso. exact (HI r eq_refl).
  - simpl. now rewrite D'.
  - exfalso. exact (I_total b DI).
Qed.

(* ... and only then: when the indexed reading of the legacy bytes succeeds, a value WITH a validator
   index is returned, never the encoded one. *)
Lemma Att_noidx_misdecoded pre b ver idx q :
  decI payload inner_dec b = Ok (ver, idx, q) ->
  decAtt payload inner_dec pre b = Ok (ver, Some idx, q).
Proof. intros D. unfold decAtt. now rewrite D. Qed.

(* Rule before the repair: the first reading had to be refused with an offset-class error. *)
Lemma Att_roundtrip_noidx_pre ver p b :
  ver < nver -> inner_dec ver (inner_enc ver p) = IOk p ->
  encAtt payload inner_enc (ver, None, p) = Some b ->
  (exists e, decI payload inner_dec b = Err e /\ is_offset_err e = true) ->
  decAtt payload inner_dec true b = Ok (ver, None, p).
Proof.
  intros Hv Hin E (e & DI & Ho).
  destruct (V_roundtrip ver p Hv Hin) as (b' & E' & D').
  assert (Eb : b' = b).
  { unfold encAtt, encV in *. rewrite E in E'. congruence. }
  subst b'. unfold decAtt. rewrite DI, Ho. simpl. now rewrite D'.
Qed.

Lemma decI_offset_err b x :
  (20 <= length b)%nat -> slice b 0 8 = Some x -> le_dec x < nver ->
  (forall ob, slice b 16 20 = Some ob -> le_dec ob <> 20) ->
  decI payload inner_dec b = Err EOffset.
Proof.
  intros Hl S1 Hv Ho. unfold decI, dec_gen. change (fixed 8) with 20%nat.
  destruct (Nat.ltb_spec (length b) 20); [lia |].
  rewrite S1. destruct (N.leb_spec nver (le_dec x)); [lia |].
  destruct (slice_in_range b 8 (8 + 8)) as [ex ->]; [lia | simpl; lia |].
  destruct (slice_in_range b (8 + 8) (8 + 8 + 4)) as [ob Sob]; [lia | simpl; lia |].
  rewrite Sob. specialize (Ho ob Sob).
  destruct (N.eqb_spec (le_dec ob) (N.of_nat 20)) as [Heq | _]; [| reflexivity].
  exfalso. apply Ho. exact Heq.
Qed.

Lemma legacy_decI_offset ver p :
  ver < nver -> (8 <= length (inner_enc ver p))%nat ->
  (forall s, slice (inner_enc ver p) 4 8 = Some s -> le_dec s <> 20) ->
  decI payload inner_dec (le_enc 8 ver ++ le_enc 4 (N.of_nat (fixed 0)) ++ inner_enc ver p) = Err EOffset.
Proof.
  intros Hv Hl Hs.
  set (pb := inner_enc ver p) in *.
  assert (L8 : length (le_enc 8 ver) = 8%nat) by apply le_enc_length.
  assert (L4 : length (le_enc 4 (N.of_nat (fixed 0))) = 4%nat) by apply le_enc_length.
  apply (decI_offset_err _ (le_enc 8 ver)).
  - rewrite !app_length, L8, L4. lia.
  - rewrite <- L8 at 2. apply slice_app_head.
  - rewrite le_dec_enc; [exact Hv |]. unfold nver in Hv. change (256 ^ N.of_nat 8) with 18446744073709551616. lia.
  - intros ob Sob.
    (* bytes 16..20 of the envelope are bytes 4..8 of the payload *)
    assert (Spb : slice pb 4 8 = Some ob).
    { apply slice_some in Sob as (_ & _ & -> & _).
      unfold slice. destruct (Nat.leb_spec 4 8); [| lia]. destruct (Nat.leb_spec 8 (length pb)); [| lia].
      simpl andb. cbv iota. f_equal. }
    exact (Hs ob Spb).
Qed.

Lemma legacy_bytes ver p b :
  ver < nver -> encAtt payload inner_enc (ver, None, p) = Some b ->
  b = le_enc 8 ver ++ le_enc 4 (N.of_nat (fixed 0)) ++ inner_enc ver p.
Proof.
  intros Hv E. unfold encAtt, encV, enc_gen in E. destruct (N.leb_spec nver ver); [lia |].
  change (le_enc 8 ver ++ le_enc 4 (N.of_nat (fixed 0)) ++ inner_enc ver p)
    with (le_enc 8 ver ++ [] ++ le_enc 4 (N.of_nat (fixed 0)) ++ inner_enc ver p). congruence.
Qed.

(* sufficient for both rules: bytes 4..8 of the inner encoding (for an attestation: the low half of
   data.slot) do not read 20 *)
Lemma Att_roundtrip_noidx_slot pre ver p b :
  ver < nver -> inner_dec ver (inner_enc ver p) = IOk p ->
  encAtt payload inner_enc (ver, None, p) = Some b ->
  (8 <= length (inner_enc ver p))%nat ->
  (forall s, slice (inner_enc ver p) 4 8 = Some s -> le_dec s <> 20) ->
  decAtt payload inner_dec pre b = Ok (ver, None, p).
Proof.
  intros Hv Hin E Hl Hs.
  pose proof (legacy_decI_offset ver p Hv Hl Hs) as DI.
  rewrite <- (legacy_bytes ver p b Hv E) in DI.
  destruct pre.
  - apply (Att_roundtrip_noidx_pre ver p b Hv Hin E). exists EOffset. split; [exact DI | reflexivity].
  - apply (Att_roundtrip_noidx ver p b Hv Hin E). intros r. rewrite DI. discriminate.
Qed.

(* current rule, second sufficient condition: the inner decoder refuses the inner encoding shifted by
   8 bytes (what the indexed reading hands it) *)
Lemma Att_roundtrip_noidx_shift ver p b :
  ver < nver -> inner_dec ver (inner_enc ver p) = IOk p ->
  encAtt payload inner_enc (ver, None, p) = Some b ->
  (forall sfx q, slice b 20 (length b) = Some sfx -> inner_dec ver sfx <> IOk q) ->
  decAtt payload inner_dec false b = Ok (ver, None, p).
Proof.
  intros Hv Hin E Hs.
  apply (Att_roundtrip_noidx ver p b Hv Hin E).
  intros [[v i] q] D. unfold decI in D.
  destruct (dec_gen payload 8 true (fun v _ => inner_dec v) b) as [[[v0 e0] q0] | |] eqn:G; try discriminate.
  injection D as <- <- <-.
  pose proof (gen_decode_ok payload 8 true _ ltac:(lia) _ _ _ _ G) as (vb & ob & pb & S1 & Dv & _ & _ & _ & _ & _ & St & S4 & I).
  rewrite (St eq_refl) in S4. change (N.to_nat (N.of_nat (fixed 8))) with 20%nat in S4.
  (* the version read by the indexed reading is the encoded one *)
  assert (v0 = ver).
  { rewrite (legacy_bytes ver p b Hv E) in S1.
    assert (L8 : length (le_enc 8 ver) = 8%nat) by apply le_enc_length.
    rewrite <- L8 in S1 at 2. rewrite slice_app_head in S1.
    assert (Evb : vb = le_enc 8 ver) by congruence.
    rewrite <- Dv, Evb. apply le_dec_enc. unfold nver in Hv. change (256 ^ N.of_nat 8) with 18446744073709551616. lia. }
  subst v0. rewrite H in I. exact (Hs pb q0 S4 I).
Qed.
End VFacts.

(* ------------------------------------------------------------------------------------------- *)
(* Shape D and A *)

Lemma D_roundtrip u : duty_ok u -> decD (encD u) = Ok u.
Proof.
  destruct u as [pk f1 f2 f3 f4 f5 f6]. unfold duty_ok. simpl.
  intros (Lp & H1 & H2 & H3 & H4 & H5 & H6).
  unfold decD, encD. simpl d_pk; simpl d_slot; simpl d_vidx; simpl d_cidx; simpl d_clen; simpl d_cats; simpl d_vcidx.
  set (e1 := le_enc 8 f1). set (e2 := le_enc 8 f2). set (e3 := le_enc 8 f3).
  set (e4 := le_enc 8 f4). set (e5 := le_enc 8 f5). set (e6 := le_enc 8 f6).
  assert (L1 : length e1 = 8%nat) by apply le_enc_length.
  assert (L2 : length e2 = 8%nat) by apply le_enc_length.
  assert (L3 : length e3 = 8%nat) by apply le_enc_length.
  assert (L4 : length e4 = 8%nat) by apply le_enc_length.
  assert (L5 : length e5 = 8%nat) by apply le_enc_length.
  assert (L6 : length e6 = 8%nat) by apply le_enc_length.
  assert (Lt : length (pk ++ e1 ++ e2 ++ e3 ++ e4 ++ e5 ++ e6) = 96%nat)
    by (rewrite !app_length; lia).
  rewrite Lt. change (96 <? 96)%nat with false. cbv iota.
  assert (S0 : slice (pk ++ e1 ++ e2 ++ e3 ++ e4 ++ e5 ++ e6) 0 48 = Some pk)
    by (rewrite <- Lp; apply slice_app_head).
  assert (mid : forall (a m c : bytes) lo hi, length a = lo -> (lo + length m = hi)%nat ->
                  slice (a ++ m ++ c) lo hi = Some m).
  { intros a m c lo hi <- <-. apply slice_app_mid. }
  assert (S1 : slice (pk ++ e1 ++ e2 ++ e3 ++ e4 ++ e5 ++ e6) 48 56 = Some e1) by (apply mid; lia).
  assert (S2 : slice (pk ++ e1 ++ e2 ++ e3 ++ e4 ++ e5 ++ e6) 56 64 = Some e2).
  { replace (pk ++ e1 ++ e2 ++ e3 ++ e4 ++ e5 ++ e6) with ((pk ++ e1) ++ e2 ++ e3 ++ e4 ++ e5 ++ e6)
      by now rewrite <- !app_assoc.
    apply mid; rewrite ?app_length; lia. }
  assert (S3 : slice (pk ++ e1 ++ e2 ++ e3 ++ e4 ++ e5 ++ e6) 64 72 = Some e3).
  { replace (pk ++ e1 ++ e2 ++ e3 ++ e4 ++ e5 ++ e6) with ((pk ++ e1 ++ e2) ++ e3 ++ e4 ++ e5 ++ e6)
      by now rewrite <- !app_assoc.
    apply mid; rewrite ?app_length; lia. }
  assert (S4 : slice (pk ++ e1 ++ e2 ++ e3 ++ e4 ++ e5 ++ e6) 72 80 = Some e4).
  { replace (pk ++ e1 ++ e2 ++ e3 ++ e4 ++ e5 ++ e6) with ((pk ++ e1 ++ e2 ++ e3) ++ e4 ++ e5 ++ e6)
      by now rewrite <- !app_assoc.
    apply mid; rewrite ?app_length; lia. }
  assert (S5 : slice (pk ++ e1 ++ e2 ++ e3 ++ e4 ++ e5 ++ e6) 80 88 = Some e5).
  { replace (pk ++ e1 ++ e2 ++ e3 ++ e4 ++ e5 ++ e6) with ((pk ++ e1 ++ e2 ++ e3 ++ e4) ++ e5 ++ e6)
      by now rewrite <- !app_assoc.
    apply mid; rewrite ?app_length; lia. }
  assert (S6 : slice (pk ++ e1 ++ e2 ++ e3 ++ e4 ++ e5 ++ e6) 88 96 = Some e6).
  { replace (pk ++ e1 ++ e2 ++ e3 ++ e4 ++ e5 ++ e6) with ((pk ++ e1 ++ e2 ++ e3 ++ e4 ++ e5) ++ e6 ++ [])
      by now rewrite <- !app_assoc, app_nil_r.
    apply mid; rewrite ?app_length; lia. }
  rewrite S0, S1, S2, S3, S4, S5, S6.
  unfold e1, e2, e3, e4, e5, e6.
  change (2 ^ 64) with (256 ^ N.of_nat 8) in *.
  now rewrite !le_dec_enc by assumption.
Qed.

Lemma D_total b : decD b <> Panic.
Proof.
  unfold decD. destruct (Nat.ltb_spec (length b) 96); [discriminate |].
  destruct (slice_in_range b 0 48) as [? ->]; [lia | lia |].
  destruct (slice_in_range b 48 56) as [? ->]; [lia | lia |].
  destruct (slice_in_range b 56 64) as [? ->]; [lia | lia |].
  destruct (slice_in_range b 64 72) as [? ->]; [lia | lia |].
  destruct (slice_in_range b 72 80) as [? ->]; [lia | lia |].
  destruct (slice_in_range b 80 88) as [? ->]; [lia | lia |].
  destruct (slice_in_range b 88 96) as [? ->]; [lia | lia |].
  discriminate.
Qed.

Lemma encD_length u : length (d_pk u) = 48%nat -> length (encD u) = 96%nat.
Proof. intros H. unfold encD. rewrite !app_length, !le_enc_length, H. reflexivity. Qed.

Section AFacts.
Variable data : Type.
Variable data_enc : data -> bytes.
Variable data_dec : bytes -> ires data.

Lemma A_roundtrip d u :
  duty_ok u -> 8 + N.of_nat (length (data_enc d)) < 2 ^ 32 ->
  data_dec (data_enc d) = IOk d ->
  decA data data_dec (encA data data_enc (d, u)) = Ok (d, u).
Proof.
  intros Hu Hl Hd. unfold encA, decA.
  set (db := data_enc d). set (ub := encD u).
  set (h0 := le_enc 4 8). set (h1 := le_enc 4 (8 + N.of_nat (length db))).
  assert (L0 : length h0 = 4%nat) by apply le_enc_length.
  assert (L1 : length h1 = 4%nat) by apply le_enc_length.
  assert (Lu : length ub = 96%nat) by (apply encD_length; apply Hu).
  assert (D0 : le_dec h0 = 8) by reflexivity.
  assert (D1 : le_dec h1 = 8 + N.of_nat (length db)).
  { apply le_dec_enc. change (256 ^ N.of_nat 4) with (2 ^ 32). exact Hl. }
  assert (Lt : length (h0 ++ h1 ++ db ++ ub) = (8 + length db + 96)%nat) by (rewrite !app_length; lia).
  assert (S0 : slice (h0 ++ h1 ++ db ++ ub) 0 4 = Some h0) by (rewrite <- L0; apply slice_app_head).
  assert (S1 : slice (h0 ++ h1 ++ db ++ ub) 4 8 = Some h1).
  { rewrite <- L0 at 1. replace 8%nat with (length h0 + length h1)%nat by lia. apply slice_app_mid. }
  assert (S2 : slice (h0 ++ h1 ++ db ++ ub) 8 (8 + length db) = Some db).
  { replace (h0 ++ h1 ++ db ++ ub) with ((h0 ++ h1) ++ db ++ ub) by now rewrite <- app_assoc.
    replace 8%nat with (length (h0 ++ h1)) by (rewrite app_length; lia). apply slice_app_mid. }
  assert (S3 : slice (h0 ++ h1 ++ db ++ ub) (8 + length db) (8 + length db + 96) = Some ub).
  { replace (h0 ++ h1 ++ db ++ ub) with ((h0 ++ h1 ++ db) ++ ub ++ []) by now rewrite <- !app_assoc, app_nil_r.
    assert (L3 : length (h0 ++ h1 ++ db) = (8 + length db)%nat) by (rewrite !app_length; lia).
    rewrite <- L3, <- Lu. apply slice_app_mid. }
  rewrite Lt.
  assert (C0 : (N.of_nat (8 + length db + 96) <? 8) = false) by (apply N.ltb_ge; lia).
  rewrite C0, S0, D0.
  assert (C1 : ((N.of_nat (8 + length db + 96) <? 8) || (8 <? 8))%bool = false) by (rewrite C0; reflexivity).
  rewrite C1, S1, D1.
  assert (C2 : ((N.of_nat (8 + length db + 96) <? 8 + N.of_nat (length db)) || (8 + N.of_nat (length db) <? 8))%bool = false).
  { apply orb_false_iff. split; apply N.ltb_ge; lia. }
  rewrite C2.
  change (N.to_nat 8) with 8%nat.
  replace (N.to_nat (8 + N.of_nat (length db))) with (8 + length db)%nat by lia.
  rewrite S2. change (data_dec db) with (data_dec (data_enc d)). rewrite Hd.
  rewrite S3. change (decD ub) with (decD (encD u)). rewrite (D_roundtrip u Hu). reflexivity.
Qed.

Lemma A_total b : decA data data_dec b <> Panic.
Proof.
  unfold decA.
  destruct (N.ltb_spec (N.of_nat (length b)) 8); [discriminate |].
  destruct (slice_in_range b 0 4) as [b0 ->]; [lia | lia |].
  destruct ((N.of_nat (length b) <? le_dec b0) || (le_dec b0 <? 8))%bool eqn:G0; [discriminate |].
  apply orb_false_iff in G0 as [G0a G0b]. apply N.ltb_ge in G0a, G0b.
  destruct (slice_in_range b 4 8) as [b1 ->]; [lia | lia |].
  destruct ((N.of_nat (length b) <? le_dec b1) || (le_dec b1 <? le_dec b0))%bool eqn:G1; [discriminate |].
  apply orb_false_iff in G1 as [G1a G1b]. apply N.ltb_ge in G1a, G1b.
  destruct (slice_in_range b (N.to_nat (le_dec b0)) (N.to_nat (le_dec b1))) as [db ->]; [lia | lia |].
  destruct (data_dec db); [| discriminate].
  destruct (slice_in_range b (N.to_nat (le_dec b1)) (length b)) as [ub ->]; [lia | lia |].
  pose proof (D_total ub). destruct (decD ub); congruence.
Qed.
End AFacts.

(* ------------------------------------------------------------------------------------------- *)
(* Non-canonical inputs that the decoders accept (witnesses; inner codec = identity on bytes). *)
Definition id_enc2 (_ : N) (_ : bool) (p : bytes) : bytes := p.
Definition id_dec2 (_ : N) (_ : bool) (b : bytes) : ires bytes := IOk b.
Definition id_enc1 (_ : N) (p : bytes) : bytes := p.
Definition id_dec1 (_ : N) (b : bytes) : ires bytes := IOk b.

(* shape B: offset 14 with one ignored gap byte, and a flag byte of 2 (read as "not blinded") *)
Definition nc_B : bytes := [4;0;0;0;0;0;0;0; 2; 14;0;0;0; 99; 7;7;7].
Lemma B_noncanonical_accepted :
  wf nc_B /\ decB bytes id_dec2 nc_B = Ok (4, false, [7;7;7]) /\
  encB bytes id_enc2 (4, false, [7;7;7]) <> Some nc_B.
Proof.
  split; [| split].
  - unfold wf, nc_B. repeat constructor.
  - reflexivity.
  - vm_compute. discriminate.
Qed.

Definition nc_V : bytes := [5;0;0;0;0;0;0;0; 13;0;0;0; 99; 7;7;7].
Lemma V_noncanonical_accepted :
  wf nc_V /\ decV bytes id_dec1 nc_V = Ok (5, [7;7;7]) /\ encV bytes id_enc1 (5, [7;7;7]) <> Some nc_V.
Proof.
  split; [| split].
  - unfold wf, nc_V. repeat constructor.
  - reflexivity.
  - vm_compute. discriminate.
Qed.

(* shape D ignores trailing bytes, so shape A does too *)
Definition nc_duty : duty := mkDuty (repeat 1 48) 2 3 4 5 6 7.
Lemma D_noncanonical_accepted :
  decD (encD nc_duty ++ [9]) = Ok nc_duty /\ encD nc_duty <> encD nc_duty ++ [9].
Proof. split; [reflexivity |]. vm_compute. discriminate. Qed.

(* Before dd3af90 the legacy attestation form did not round-trip even for values whose indexed reading
   fails: with an inner codec that refuses (non-offset error) the shifted reading, the encoding of a
   value whose inner bytes 4..8 read 20 was rejected.  (On the real types: an attestation without
   validator index whose data.slot is 20 mod 2^32.)  The current rule decodes it. *)
Definition legacy_dec (_ : N) (b : bytes) : ires bytes :=
  match b with 0 :: _ => IErr false | _ => IOk b end.
Definition legacy_payload : bytes := [228;0;0;0; 20;0;0;0; 0;0;0;0; 1;2;3].
Lemma Att_legacy_roundtrip_refuted_before_fix :
  legacy_dec 4 (id_enc1 4 legacy_payload) = IOk legacy_payload /\
  exists b, encAtt bytes id_enc1 (4, None, legacy_payload) = Some b /\
            decAtt bytes legacy_dec true b = Err (EInner false) /\
            decAtt bytes legacy_dec false b = Ok (4, None, legacy_payload).
Proof. split; [reflexivity |]. eexists. repeat split; reflexivity. Qed.

(* What remains after the repair is inherent in the two layouts sharing one wire: when the shifted
   reading is accepted by the inner decoder, the legacy encoding of one value IS the indexed
   encoding of another, and the decoder returns the other.  (On the real types: data.slot =
   228 * 2^32 + 20 and at least 9 bytes of aggregation bits -- observed on core.VersionedAttestation by
   the harness.) *)
Definition ambiguous_payload : bytes := [228;0;0;0; 20;0;0;0; 228;0;0;0; 1;2;3].
Lemma Att_legacy_roundtrip_refuted_ambiguous :
  legacy_dec 4 (id_enc1 4 ambiguous_payload) = IOk ambiguous_payload /\
  exists b, encAtt bytes id_enc1 (4, None, ambiguous_payload) = Some b /\
            decAtt bytes legacy_dec false b = Ok (4, Some (12 + 228 * 2 ^ 32), [228;0;0;0; 1;2;3]) /\
            encAtt bytes id_enc1 (4, Some (12 + 228 * 2 ^ 32), [228;0;0;0; 1;2;3]) = Some b.
Proof. split; [reflexivity |]. eexists. repeat split; reflexivity. Qed.

(* ------------------------------------------------------------------------------------------- *)
(* unmarshal and dispatch *)

Lemma unmarshal_ssz_first T f j b v : f b = Some v -> unmarshal T (Some f) j b = Some v.
Proof. unfold unmarshal. now intros ->. Qed.

Lemma unmarshal_json_only_with_prefix T f j b :
  f b = None -> json_prefix b = false -> unmarshal T (Some f) j b = None.
Proof. unfold unmarshal. now intros -> ->. Qed.

Lemma unmarshal_json_fallback T f j b :
  f b = None -> json_prefix b = true -> unmarshal T (Some f) j b = j b.
Proof. unfold unmarshal. now intros -> ->. Qed.

Lemma unmarshal_no_ssz T j b : unmarshal T None j b = j b.
Proof. reflexivity. Qed.

(* an SSZ encoding never looks like JSON to [unmarshal] unless it starts with white space or '{':
   for the versioned envelopes the first byte is the version (0..6) *)
Lemma json_prefix_version b v : v < nver -> json_prefix (v :: b) = false.
Proof.
  unfold nver. intros H. simpl.
  assert (is_space v = false) as ->.
  { unfold is_space.
    destruct (N.eqb_spec v 9); [lia |]. destruct (N.eqb_spec v 10); [lia |].
    destruct (N.eqb_spec v 11); [lia |]. destruct (N.eqb_spec v 12); [lia |].
    destruct (N.eqb_spec v 13); [lia |]. destruct (N.eqb_spec v 32); [lia |]. reflexivity. }
  apply N.eqb_neq. lia.
Qed.

Section DispatchFacts.
Variable V : Type.
Variable sdec : stype -> bytes -> option V.
Variable udec : utype -> bytes -> option V.

Lemma sdispatch_sound d b t v :
  sdispatch V sdec d b = Some (t, v) -> In t (sallowed d) /\ sdec t b = Some v.
Proof.
  intros H. destruct d; simpl in H; unfold try2, try1 in H; try discriminate;
    repeat match type of H with
           | context [sdec ?t0 b] => let E := fresh "E" in destruct (sdec t0 b) eqn:E
           end; try discriminate; injection H as <- <-; split; simpl; auto.
Qed.

Lemma udispatch_sound d b t v :
  udispatch V udec d b = Some (t, v) -> In t (uallowed d) /\ udec t b = Some v.
Proof.
  intros H. destruct d; simpl in H; unfold try2, try1 in H; try discriminate;
    repeat match type of H with
           | context [udec ?t0 b] => let E := fresh "E" in destruct (udec t0 b) eqn:E
           end; try discriminate; injection H as <- <-; split; simpl; auto.
Qed.

(* the dispatch yields a value exactly when one of the allowed types decodes the input; the first in
   the listed order wins *)
Lemma sdispatch_complete d b :
  sdispatch V sdec d b = None <-> (forall t, In t (sallowed d) -> sdec t b = None).
Proof.
  split.
  - intros H t Ht. destruct (sdec t b) as [v |] eqn:E; [| reflexivity]. exfalso.
    destruct d; simpl in Ht, H; unfold try2, try1 in H; try contradiction;
      repeat match type of H with
             | context [sdec ?t0 b] => let E' := fresh "E" in destruct (sdec t0 b) eqn:E'
             end; try discriminate;
      repeat (destruct Ht as [<- | Ht]; [congruence |]); contradiction.
  - intros H. destruct d; simpl in *; unfold try2, try1; try reflexivity;
      repeat match goal with
             | |- context [sdec ?t0 b] => rewrite (H t0) by (simpl; auto)
             end; reflexivity.
Qed.

Lemma udispatch_complete d b :
  udispatch V udec d b = None <-> (forall t, In t (uallowed d) -> udec t b = None).
Proof.
  split.
  - intros H t Ht. destruct (udec t b) as [v |] eqn:E; [| reflexivity]. exfalso.
    destruct d; simpl in Ht, H; unfold try2, try1 in H; try contradiction;
      repeat match type of H with
             | context [udec ?t0 b] => let E' := fresh "E" in destruct (udec t0 b) eqn:E'
             end; try discriminate;
      repeat (destruct Ht as [<- | Ht]; [congruence |]); contradiction.
  - intros H. destruct d; simpl in *; unfold try2, try1; try reflexivity;
      repeat match goal with
             | |- context [udec ?t0 b] => rewrite (H t0) by (simpl; auto)
             end; reflexivity.
Qed.

(* totality of the type-directed decoding: for every duty type and every byte string the result
   is either an error or a value whose Go type is one of the types that belong to the duty type,
   and that type's own decoder produced it. *)
Lemma sdispatch_total d b :
  match sdispatch V sdec d b with
  | Some (t, v) => In t (sallowed d) /\ sdec t b = Some v
  | None => forall t, In t (sallowed d) -> sdec t b = None
  end.
Proof.
  destruct (sdispatch V sdec d b) as [[t v] |] eqn:E.
  - now apply sdispatch_sound.
  - now apply sdispatch_complete.
Qed.

Lemma udispatch_total d b :
  match udispatch V udec d b with
  | Some (t, v) => In t (uallowed d) /\ udec t b = Some v
  | None => forall t, In t (uallowed d) -> udec t b = None
  end.
Proof.
  destruct (udispatch V udec d b) as [[t v] |] eqn:E.
  - now apply udispatch_sound.
  - now apply udispatch_complete.
Qed.
(* use of a decoded partial signature by the receive path: the only decodable value that is not an
   Eth2SignedData is a core.Signature under DutySignature; it is refused with an error (VNotEth2), every
   other decoded value is handed to VerifyEth2SignedData (VRan) -- [vuse] has no crashing outcome. *)
Lemma not_eth2_only_signature d b t v :
  sdispatch V sdec d b = Some (t, v) -> verifier_use t = VNotEth2 -> d = DSignature /\ t = TSignature.
Proof.
  intros H U. apply sdispatch_sound in H as [Hin _].
  destruct d; simpl in Hin; repeat (destruct Hin as [<- | Hin]); try contradiction;
    try discriminate U; auto.
Qed.

Lemma validated_usable {Ty} (usable : V -> bool) (r : option (Ty * V)) t v :
  validated V usable r = Some (t, v) -> r = Some (t, v) /\ usable v = true.
Proof.
  unfold validated. destruct r as [[t0 v0] |]; [| discriminate].
  destruct (usable v0) eqn:E; [| discriminate]. intros [= <- <-]. auto.
Qed.
End DispatchFacts.

(* ------------------------------------------------------------------------------------------- *)
(* key-sorted set encoding *)
Section SetFacts.
Variable key : Type.
Variable kleb : key -> key -> bool.
Variable entry : key -> bytes -> bytes.
Hypothesis kleb_total : forall a b, kleb a b = true \/ kleb b a = true.
Hypothesis kleb_trans : forall a b c, kleb a b = true -> kleb b c = true -> kleb a c = true.
Hypothesis kleb_antisym : forall a b, kleb a b = true -> kleb b a = true -> a = b.

Notation ent := (key * bytes)%type.
Definition le_ent (a b : ent) : Prop := kleb (fst a) (fst b) = true.

Lemma insert_perm e l : Permutation (e :: l) (insert key kleb e l).
Proof.
  induction l as [| x r IH]; simpl; [reflexivity |].
  destruct (kleb (fst e) (fst x)); [reflexivity |].
  rewrite perm_swap. now constructor.
Qed.

Lemma sort_perm l : Permutation l (sort_entries key kleb l).
Proof.
  induction l as [| e r IH]; simpl; [reflexivity |].
  rewrite <- insert_perm. now constructor.
Qed.

Lemma insert_sorted e l : StronglySorted le_ent l -> StronglySorted le_ent (insert key kleb e l).
Proof.
  induction 1 as [| x r Hs IH Hall]; simpl.
  - repeat constructor.
  - destruct (kleb (fst e) (fst x)) eqn:E.
    + constructor; [now constructor |].
      constructor; [exact E |].
      rewrite Forall_forall in *. intros y Hy. unfold le_ent in *. eapply kleb_trans; eauto.
    + constructor; [exact IH |].
      rewrite Forall_forall in *. intros y Hy.
      apply (Permutation_in _ (Permutation_sym (insert_perm e r))) in Hy. destruct Hy as [<- | Hy].
      * unfold le_ent. destruct (kleb_total (fst x) (fst e)) as [H | H]; [exact H | congruence].
      * now apply Hall.
Qed.

Lemma sort_sorted l : StronglySorted le_ent (sort_entries key kleb l).
Proof. induction l; simpl; [constructor | now apply insert_sorted]. Qed.

(* two sorted lists with the same elements and pairwise distinct keys are equal *)
Lemma sorted_perm_eq l1 l2 :
  StronglySorted le_ent l1 -> StronglySorted le_ent l2 -> Permutation l1 l2 ->
  NoDup (map fst l1) -> l1 = l2.
Proof.
  intros S1. revert l2. induction S1 as [| x r Hs IH Hall]; intros l2 S2 P ND.
  - apply Permutation_nil in P. now subst.
  - destruct l2 as [| y r2]; [apply Permutation_sym, Permutation_nil in P; discriminate |].
    inversion S2 as [| ? ? Hs2 Hall2]; subst.
    assert (Exy : x = y).
    { assert (Hx : In x (y :: r2)) by (eapply Permutation_in; [exact P | now left]).
      assert (Hy : In y (x :: r)) by (eapply Permutation_in; [exact (Permutation_sym P) | now left]).
      destruct Hx as [-> | Hx]; [reflexivity |]. destruct Hy as [<- | Hy]; [reflexivity |].
      rewrite Forall_forall in Hall, Hall2.
      assert (K : fst x = fst y) by (apply kleb_antisym; [apply (Hall y Hy) | apply (Hall2 x Hx)]).
      (* then x's key occurs twice in x :: r *)
      simpl in ND. inversion ND as [| ? ? Hn _]; subst. exfalso. apply Hn.
      rewrite K. now apply in_map. }
    subst y. f_equal. apply IH; try assumption.
    + eapply Permutation_cons_inv; eauto.
    + simpl in ND. now inversion ND.
Qed.

(* deterministic marshalling does not depend on the order in which Go's map iteration delivered
   the entries: two listings of the same map (same entries, keys unique) have the same bytes *)
Lemma enc_set_perm l1 l2 :
  NoDup (map fst l1) -> Permutation l1 l2 -> enc_set key kleb entry l1 = enc_set key kleb entry l2.
Proof.
  intros ND P. unfold enc_set. f_equal.
  apply sorted_perm_eq; try apply sort_sorted.
  - rewrite <- (sort_perm l1), <- (sort_perm l2). exact P.
  - eapply Permutation_NoDup; [| exact ND]. apply Permutation_map, sort_perm.
Qed.

Lemma enc_set_same_map l1 l2 :
  NoDup (map fst l1) -> NoDup (map fst l2) -> (forall e, In e l1 <-> In e l2) ->
  enc_set key kleb entry l1 = enc_set key kleb entry l2.
Proof.
  intros N1 N2 H. apply enc_set_perm; [exact N1 |].
  apply NoDup_Permutation; try assumption.
  - eapply NoDup_map_inv; eauto.
  - eapply NoDup_map_inv; eauto.
Qed.

Lemma hash_set_same_map (H : Type) (hash : bytes -> H) l1 l2 :
  NoDup (map fst l1) -> NoDup (map fst l2) -> (forall e, In e l1 <-> In e l2) ->
  hash (enc_set key kleb entry l1) = hash (enc_set key kleb entry l2).
Proof. intros. f_equal. now apply enc_set_same_map. Qed.
End SetFacts.

(* non-vacuity: the N-keyed instance; without sorting (entries in iteration order) two listings of
   one map differ *)
Definition ex_entry (k : N) (v : bytes) : bytes := k :: N.of_nat (length v) :: v.
Example enc_set_example :
  enc_set N N.leb ex_entry [(3, [30]); (1, [10; 11]); (2, [])] =
  enc_set N N.leb ex_entry [(2, []); (3, [30]); (1, [10; 11])] /\
  enc_set N N.leb ex_entry [(3, [30]); (1, [10; 11]); (2, [])] = [1; 2; 10; 11; 2; 0; 3; 1; 30] /\
  flat_map (fun e => ex_entry (fst e) (snd e)) [(3, [30]); (1, [10; 11])] <>
  flat_map (fun e => ex_entry (fst e) (snd e)) [(1, [10; 11]); (3, [30])].
Proof. repeat split; vm_compute; discriminate. Qed.
