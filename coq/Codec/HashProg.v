(* Hash programs: the DSL into which translator/hashprog turns the walker functions of
   cluster/ssz.go (one program per hash function and format version, coq/gen/HashProgs.v), its
   interpretation over the SSZ tree model (Codec/SszTree.v), and the decidable well-formedness
   check [wf] under which the root determines every hashed field (theorem [root_injective] in
   Codec/HashProgFacts.v).

   A program runs against an environment [value] (a definition or lock as a tree of Go field
   names), appends chunks to the hasher buffer and may fail ([None] = the Go function returns an
   error or panics). *)
From Coq Require Import List NArith Bool Arith String Lia.
From Charon Require Import Codec.SszTree.
Import ListNotations.
Local Open Scope list_scope.
Local Notation length := List.length.

(* ---------------------------------------------------------------------------------------- *)
(* environments *)

Inductive value :=
| VBytes (b : list N)                       (* []byte, string *)
| VNum (n : N)                              (* int, uint, uint64, Gwei, time.Time.Unix() *)
| VBool (b : bool)
| VList (vs : list value)
| VStruct (fs : list (string * value)).

Definition path := list string.

Definition vzero : value := VStruct [].      (* the Go zero value of any type, as far as reads go *)

Fixpoint lookup (k : string) (fs : list (string * value)) : value :=
  match fs with
  | [] => vzero
  | (k', v) :: r => if String.eqb k k' then v else lookup k r
  end.

(* one path segment; "#0" = first element of a list or the zero value (Go: `if len(x) > 0 { y = x[0] }`) *)
Definition step (v : value) (k : string) : value :=
  if String.eqb k "#0"%string then match v with VList (x :: _) => x | _ => vzero end
  else match v with VStruct fs => lookup k fs | _ => vzero end.

Definition get (v : value) (p : path) : value := fold_left step p v.

Definition as_bytes (v : value) : list N := match v with VBytes b => b | _ => [] end.
Definition as_num (v : value) : N := match v with VNum n => n | _ => 0%N end.
Definition as_bool (v : value) : bool := match v with VBool b => b | _ => false end.
Definition as_list (v : value) : list value := match v with VList l => l | _ => [] end.

(* ---------------------------------------------------------------------------------------- *)
(* hex helpers of cluster/helpers.go *)

Definition hexdigit (d : N) : N := if N.ltb d 10 then (48 + d)%N else (87 + d)%N.   (* lower case *)

(* to0xHex: "" for empty input, else fmt.Sprintf("%#x", b) *)
Definition to_0xhex (b : list N) : list N :=
  match b with
  | [] => []
  | _ => 48%N :: 120%N :: flat_map (fun x => [hexdigit (N.div x 16); hexdigit (N.modulo x 16)]) b
  end.

Definition hexval (c : N) : option N :=
  if (N.leb 48 c && N.leb c 57)%bool then Some (c - 48)%N
  else if (N.leb 97 c && N.leb c 102)%bool then Some (c - 87)%N
  else if (N.leb 65 c && N.leb c 70)%bool then Some (c - 55)%N
  else None.

Fixpoint hexdecode (s : list N) : option (list N) :=
  match s with
  | [] => Some []
  | a :: b :: r =>
    match hexval a, hexval b, hexdecode r with
    | Some x, Some y, Some t => Some ((16 * x + y)%N :: t)
    | _, _, _ => None
    end
  | _ => None
  end.

Definition trim0x (s : list N) : list N :=
  match s with
  | 48%N :: 120%N :: r => r
  | _ => s
  end.

(* from0xHex(s, n): "" -> nil; undecodable or wrong length -> error *)
Definition from_0xhex (s : list N) (n : nat) : option (list N) :=
  match s with
  | [] => Some []
  | _ => match hexdecode (trim0x s) with
         | Some b => if Nat.eqb (length b) n then Some b else None
         | None => None
         end
  end.

(* ---------------------------------------------------------------------------------------- *)
(* the DSL *)

Inductive bexp :=
| BField (f : path)                 (* a []byte field, or []byte(string field) *)
| BHex0x (f : path)                 (* []byte(to0xHex(field)) *)
| BFromHex (f : path) (n : nat)     (* from0xHex(field, n) *)
| BNil.                             (* nil *)

Inductive lexp := LConst (n : N) | LLen (f : path).

Inductive hprog :=
| PutU64 (f : path)                              (* hh.PutUint64(uint64(field)) *)
| PutU64Const (n : N)                            (* hh.PutUint64(const) *)
| PutBool (f : path)                             (* hh.PutBool(field) *)
| PutBytes (b : bexp) (declared : option nat)    (* hh.PutBytes(b); declared = N of the field's ssz:"BytesN" tag *)
| PutBytesN (b : bexp) (n : nat)                 (* putBytesN(hh, b, n): len <= n, leftPad, PutBytes *)
| PutHex20 (f : path)                            (* putHexBytes20(hh, field) *)
| PutByteList (b : bexp) (max : nat)             (* putByteList(hh, b, max, _) *)
| PutK1SigList (b : bexp) (max : nat)            (* putK1SigList(hh, b, max, _) *)
| PutU64Array (f : path) (max : N)               (* hasher.PutUint64Array(field as []uint64, max) *)
| Merk (ps : list hprog)                         (* i := hh.Index(); ps; hh.Merkleize(i) *)
| MerkMixin (f : path) (limit : lexp) (ps : list hprog)
                                                 (* i := hh.Index(); ps; hh.MerkleizeWithMixin(i, len(f), limit) *)
| ForEach (f : path) (ps : list hprog)           (* for _, x := range f { ps } (ps run in the scope of x) *)
| IfNonEmpty (f : path) (ps : list hprog).       (* if f != "" { ps } *)

(* Induction principle with the nested lists handled. *)
Section HprogInd.
  Variable P : hprog -> Prop.
  Hypothesis HU64 : forall f, P (PutU64 f).
  Hypothesis HU64C : forall n, P (PutU64Const n).
  Hypothesis HBool : forall f, P (PutBool f).
  Hypothesis HBytes : forall b d, P (PutBytes b d).
  Hypothesis HBytesN : forall b n, P (PutBytesN b n).
  Hypothesis HHex20 : forall f, P (PutHex20 f).
  Hypothesis HByteList : forall b m, P (PutByteList b m).
  Hypothesis HK1 : forall b m, P (PutK1SigList b m).
  Hypothesis HArr : forall f m, P (PutU64Array f m).
  Hypothesis HMerk : forall ps, Forall P ps -> P (Merk ps).
  Hypothesis HMixin : forall f l ps, Forall P ps -> P (MerkMixin f l ps).
  Hypothesis HEach : forall f ps, Forall P ps -> P (ForEach f ps).
  Hypothesis HIf : forall f ps, Forall P ps -> P (IfNonEmpty f ps).

  Fixpoint hprog_ind' (p : hprog) : P p :=
    let fix go (ps : list hprog) : Forall P ps :=
      match ps with
      | [] => Forall_nil P
      | q :: r => Forall_cons q (hprog_ind' q) (go r)
      end in
    match p with
    | PutU64 f => HU64 f
    | PutU64Const n => HU64C n
    | PutBool f => HBool f
    | PutBytes b d => HBytes b d
    | PutBytesN b n => HBytesN b n
    | PutHex20 f => HHex20 f
    | PutByteList b m => HByteList b m
    | PutK1SigList b m => HK1 b m
    | PutU64Array f m => HArr f m
    | Merk ps => HMerk ps (go ps)
    | MerkMixin f l ps => HMixin f l ps (go ps)
    | ForEach f ps => HEach f ps (go ps)
    | IfNonEmpty f ps => HIf f ps (go ps)
    end.
End HprogInd.

(* ---------------------------------------------------------------------------------------- *)
(* interpretation *)

Definition evalb (b : bexp) (e : value) : option (list N) :=
  match b with
  | BField f => Some (as_bytes (get e f))
  | BHex0x f => Some (to_0xhex (as_bytes (get e f)))
  | BFromHex f n => from_0xhex (as_bytes (get e f)) n
  | BNil => Some []
  end.

(* run I over a list, concatenating the appended chunks *)
Definition seq_opt {A} (I : A -> option (list chunk)) : list A -> option (list chunk) :=
  fix go (l : list A) : option (list chunk) :=
    match l with
    | [] => Some []
    | x :: r => match I x, go r with
                | Some a, Some b => Some (a ++ b)
                | _, _ => None
                end
    end.

Definition true_chunk : chunk := pad32 [1%N].

(* CalculateLimit(maxCapacity, numItems, 8) *)
Definition u64array_limit (max num : N) : N :=
  let l := N.div (max * 8 + 31) 32 in
  if N.eqb l 0 then (if N.eqb num 0 then 1%N else num) else l.

Definition two64 : N := (2 ^ 64)%N.

Local Arguments firstn : simpl never.
Local Arguments skipn : simpl never.

Section Interp.

Variable H : chunk -> chunk -> chunk.
Variable Z : nat -> chunk.          (* the zero-hash table, see SszTree *)

(* the loop of putK1SigList over k 65-byte signatures *)
Fixpoint k1_chunks (k : nat) (x : list N) : option (list chunk) :=
  match k with
  | O => Some []
  | S k' => match put_bytes H Z (firstn 65 x), k1_chunks k' (skipn 65 x) with
            | Some a, Some b => Some (a ++ b)
            | _, _ => None
            end
  end.

Definition opt1 (r : option chunk) : option (list chunk) :=
  match r with Some c => Some [c] | None => None end.

Definition put_bytes_n (x : list N) (n : nat) : option (list chunk) :=
  if length x <=? n then put_bytes H Z (left_pad x n) else None.

Definition put_byte_list (x : list N) (max : nat) : option (list chunk) :=
  if length x <=? max
  then opt1 (mixin H Z (chunks_of x) (N.of_nat (length x)) (N.div (N.of_nat max + 31) 32))
  else None.

Definition put_k1_sig_list (x : list N) (max : nat) : option (list chunk) :=
  if negb (Nat.eqb (Nat.modulo (length x) 65) 0) then None else
  let num := Nat.div (length x) 65 in
  if max <? num then None else
  match k1_chunks num x with
  | Some cs => opt1 (mixin H Z cs (N.of_nat num) (N.of_nat max))
  | None => None
  end.

Definition put_u64_array (l : list N) (max : N) : option (list chunk) :=
  let num := N.of_nat (length l) in
  opt1 (mixin H Z (chunks_of (flat_map (le_bytes 8) l)) num (u64array_limit max num)).

Definition limit_of (l : lexp) (e : value) : N :=
  match l with
  | LConst n => n
  | LLen f => N.of_nat (length (as_list (get e f)))
  end.

Fixpoint interp (p : hprog) (e : value) {struct p} : option (list chunk) :=
  match p with
  | PutU64 f => Some [u64chunk (as_num (get e f))]
  | PutU64Const n => Some [u64chunk n]
  | PutBool f => Some [if as_bool (get e f) then true_chunk else zero_chunk]
  | PutBytes b _ => match evalb b e with Some x => put_bytes H Z x | None => None end
  | PutBytesN b n => match evalb b e with Some x => put_bytes_n x n | None => None end
  | PutHex20 f => match from_0xhex (as_bytes (get e f)) 20 with Some x => put_bytes_n x 20 | None => None end
  | PutByteList b max => match evalb b e with Some x => put_byte_list x max | None => None end
  | PutK1SigList b max => match evalb b e with Some x => put_k1_sig_list x max | None => None end
  | PutU64Array f max => put_u64_array (map as_num (as_list (get e f))) max
  | Merk ps =>
    match seq_opt (fun q => interp q e) ps with
    | Some cs => opt1 (merkleize H Z cs 0)
    | None => None
    end
  | MerkMixin f lim ps =>
    match seq_opt (fun q => interp q e) ps with
    | Some cs => opt1 (mixin H Z cs (N.of_nat (length (as_list (get e f)))) (limit_of lim e))
    | None => None
    end
  | ForEach f ps => seq_opt (fun v => seq_opt (fun q => interp q v) ps) (as_list (get e f))
  | IfNonEmpty f ps =>
    match as_bytes (get e f) with
    | [] => Some []
    | _ => seq_opt (fun q => interp q e) ps
    end
  end.

(* hh.HashRoot(): the buffer must hold exactly one chunk *)
Definition root (p : hprog) (e : value) : option chunk :=
  match interp p e with
  | Some [c] => Some c
  | _ => None
  end.

End Interp.

(* ---------------------------------------------------------------------------------------- *)
(* what the hash is claimed to determine *)

Inductive obs :=
| OBytes (b : list N)
| ONum (n : N)
| OBool (b : bool)
| OLen (n : nat)
| ONums (l : list N)
| OErr.

Definition obs_bytes (x : option (list N)) : obs := match x with Some b => OBytes b | None => OErr end.
Definition obs_padded (x : option (list N)) (n : nat) : obs :=
  match x with Some b => OBytes (left_pad b n) | None => OErr end.

(* The canonical value of every hashed leaf, in hashing order.  Fixed-size byte fields are observed
   left-padded (putBytesN hashes leftPad(b, n)), addresses as their 20 decoded bytes, integers
   modulo 2^64, lists with their length. *)
Fixpoint fields (p : hprog) (e : value) {struct p} : list obs :=
  match p with
  | PutU64 f => [ONum (N.modulo (as_num (get e f)) two64)]
  | PutU64Const _ => []
  | PutBool f => [OBool (as_bool (get e f))]
  | PutBytes b _ => [obs_bytes (evalb b e)]
  | PutBytesN b n => [obs_padded (evalb b e) n]
  | PutHex20 f => [obs_padded (from_0xhex (as_bytes (get e f)) 20) 20]
  | PutByteList b _ => [obs_bytes (evalb b e)]
  | PutK1SigList b _ => [obs_bytes (evalb b e)]
  | PutU64Array f _ => [ONums (map (fun v => N.modulo (as_num v) two64) (as_list (get e f)))]
  | Merk ps => flat_map (fun q => fields q e) ps
  | MerkMixin f _ ps => OLen (length (as_list (get e f))) :: flat_map (fun q => fields q e) ps
  | ForEach f ps => flat_map (fun v => flat_map (fun q => fields q v) ps) (as_list (get e f))
  | IfNonEmpty f ps => OBytes (as_bytes (get e f)) :: flat_map (fun q => fields q e) ps
  end.

(* The domain on which injectivity is claimed: a byte field that is hashed by a bare PutBytes
   (no length check in ssz.go) has the size its struct tag declares; list lengths fit a uint64. *)
Fixpoint dom (p : hprog) (e : value) {struct p} : bool :=
  match p with
  | PutBytes b (Some n) => match evalb b e with Some x => Nat.eqb (length x) n | None => false end
  | PutU64Array f _ => N.ltb (N.of_nat (length (as_list (get e f)))) two64
  | Merk ps => forallb (fun q => dom q e) ps
  | MerkMixin f _ ps => N.ltb (N.of_nat (length (as_list (get e f)))) two64 && forallb (fun q => dom q e) ps
  | ForEach f ps => forallb (fun v => forallb (fun q => dom q v) ps) (as_list (get e f))
  | IfNonEmpty _ ps => forallb (fun q => dom q e) ps
  | _ => true
  end.

(* number of chunks a program appends, when that does not depend on the environment *)
Definition is_nil (b : bexp) : bool := match b with BNil => true | _ => false end.

Definition arity (p : hprog) : option nat :=
  match p with
  | PutBytes b d =>
    if is_nil b then Some 0
    else match d with Some n => if 0 <? n then Some 1 else None | None => None end
  | PutBytesN _ n => if 0 <? n then Some 1 else None
  | ForEach _ _ => None
  | IfNonEmpty _ _ => None
  | _ => Some 1
  end.

Definition has_arity (p : hprog) : bool := match arity p with Some _ => true | None => false end.

Definition arity_sum (ps : list hprog) : nat :=
  fold_right (fun q n => match arity q with Some k => k + n | None => n end) 0 ps.

Definition path_eqb (a b : path) : bool :=
  Nat.eqb (length a) (length b) && forallb (fun p => String.eqb (fst p) (snd p)) (combine a b).

Definition lexp_ok (f : path) (l : lexp) : bool :=
  match l with
  | LConst _ => true
  | LLen g => path_eqb f g
  end.

(* Well-formedness: every item of a container appends a statically known number of chunks (so the
   chunk sequence parses uniquely), a variable-length byte string is hashed only with its length
   mixed in or at a declared fixed size, a loop occurs only as the sole content of a length-mixed
   list over the same field, and limits fit a uint64. *)
Fixpoint wf (p : hprog) {struct p} : bool :=
  match p with
  | PutBytes _ _ => has_arity p
  | PutBytesN _ n => 0 <? n
  | PutByteList _ max => N.ltb (N.of_nat max) two64
  | PutK1SigList _ max => N.ltb (N.of_nat max) two64
  | Merk ps => forallb wf ps && forallb has_arity ps
  | MerkMixin f lim [ForEach g qs] =>
    path_eqb f g && lexp_ok f lim && forallb wf qs && forallb has_arity qs
  | MerkMixin _ _ _ => false
  | ForEach _ _ => false
  | IfNonEmpty _ _ => false
  | _ => true
  end.
