(* Per-version consequences of root_injective for the hash programs GENERATED from cluster/ssz.go
   (gen/HashProgs.v): which of the 36 programs are well-formed is decided by computation on the
   generated terms; the well-formed ones are tamper-evident; for the others a collision is
   exhibited (it holds for EVERY compression function H, so it is a property of the format). *)
From Coq Require Import List NArith Bool String.
From Charon Require Import Codec.SszTree Codec.HashProg Codec.HashProgFacts gen.HashProgs.
Import ListNotations.
Local Open Scope string_scope.

Definition collision_free (H : chunk -> chunk -> chunk) : Prop :=
  forall a b c d, H a b = H c d -> a = c /\ b = d.

(* Equal roots on the declared domain imply equal canonical values of all hashed fields. *)
Definition tamper_evident (H : chunk -> chunk -> chunk) (p : hprog) : Prop :=
  forall (Z : nat -> chunk) e1 e2 r, dom p e1 = true -> dom p e2 = true ->
    root H Z p e1 = Some r -> root H Z p e2 = Some r -> fields p e1 = fields p e2.

Lemma wf_tamper_evident : forall H, collision_free H -> forall p, wf p = true -> tamper_evident H p.
Proof. intros H Hi p W Z e1 e2 r D1 D2 R1 R2. eapply root_injective; eauto. Qed.

(* The hash is NOT injective: two environments with different hashed fields and the same root,
   whatever the compression function (and the zero-hash table). *)
Definition collides (p : hprog) : Prop :=
  exists e1 e2, fields p e1 <> fields p e2 /\
    forall H Z, root H Z p e1 <> None /\ root H Z p e1 = root H Z p e2.

(* ------------------------------------------------------------------------------------------ *)
(* Which generated programs are well-formed.  A change of ssz.go that alters this table (a new
   version, a field hashed without length, a dropped mix-in) breaks this lemma. *)

Definition wf_table : list (string * bool) := map (fun p => (fst p, wf (snd p))) all_progs.

Definition expected_wf_table : list (string * bool) := [
  ("config_v1_0", false); ("def_v1_0", false); ("lock_v1_0", false);
  ("config_v1_1", false); ("def_v1_1", false); ("lock_v1_1", false);
  ("config_v1_2", false); ("def_v1_2", false); ("lock_v1_2", false);
  ("config_v1_3", true); ("def_v1_3", false); ("lock_v1_3", false);
  ("config_v1_4", true); ("def_v1_4", false); ("lock_v1_4", false);
  ("config_v1_5", true); ("def_v1_5", true); ("lock_v1_5", true);
  ("config_v1_6", true); ("def_v1_6", true); ("lock_v1_6", true);
  ("config_v1_7", true); ("def_v1_7", true); ("lock_v1_7", true);
  ("config_v1_8", true); ("def_v1_8", true); ("lock_v1_8", true);
  ("config_v1_9", true); ("def_v1_9", true); ("lock_v1_9", true);
  ("config_v1_10", true); ("def_v1_10", true); ("lock_v1_10", true);
  ("config_v1_11", true); ("def_v1_11", true); ("lock_v1_11", true) ].

Lemma wf_table_ok : wf_table = expected_wf_table.
Proof. vm_compute. reflexivity. Qed.

Ltac by_wf := intros H Hi; repeat split; apply (wf_tamper_evident H Hi); vm_compute; reflexivity.

Definition tamper_evident3 H (a b c : hprog) : Prop :=
  tamper_evident H a /\ tamper_evident H b /\ tamper_evident H c.

Lemma tamper_evident_v1_5 : forall H, collision_free H -> tamper_evident3 H prog_config_v1_5 prog_def_v1_5 prog_lock_v1_5.
Proof. by_wf. Qed.
Lemma tamper_evident_v1_6 : forall H, collision_free H -> tamper_evident3 H prog_config_v1_6 prog_def_v1_6 prog_lock_v1_6.
Proof. by_wf. Qed.
Lemma tamper_evident_v1_7 : forall H, collision_free H -> tamper_evident3 H prog_config_v1_7 prog_def_v1_7 prog_lock_v1_7.
Proof. by_wf. Qed.
Lemma tamper_evident_v1_8 : forall H, collision_free H -> tamper_evident3 H prog_config_v1_8 prog_def_v1_8 prog_lock_v1_8.
Proof. by_wf. Qed.
Lemma tamper_evident_v1_9 : forall H, collision_free H -> tamper_evident3 H prog_config_v1_9 prog_def_v1_9 prog_lock_v1_9.
Proof. by_wf. Qed.
Lemma tamper_evident_v1_10 : forall H, collision_free H -> tamper_evident3 H prog_config_v1_10 prog_def_v1_10 prog_lock_v1_10.
Proof. by_wf. Qed.
Lemma tamper_evident_v1_11 : forall H, collision_free H -> tamper_evident3 H prog_config_v1_11 prog_def_v1_11 prog_lock_v1_11.
Proof. by_wf. Qed.

(* v1.3 / v1.4: only the config hash is well-formed (the definition hash puts the operator
   signatures in with a bare PutBytes: an absent signature contributes no chunk). *)
Lemma tamper_evident_config_v1_3 : forall H, collision_free H -> tamper_evident H prog_config_v1_3.
Proof. intros H Hi. apply (wf_tamper_evident H Hi). vm_compute. reflexivity. Qed.
Lemma tamper_evident_config_v1_4 : forall H, collision_free H -> tamper_evident H prog_config_v1_4.
Proof. intros H Hi. apply (wf_tamper_evident H Hi). vm_compute. reflexivity. Qed.

(* ------------------------------------------------------------------------------------------ *)
(* Collisions of the programs that are not well-formed. *)

Local Open Scope N_scope.

Ltac collide e1 e2 :=
  exists e1, e2; split; [vm_compute; discriminate | intros H Z; split; [vm_compute; discriminate | vm_compute; reflexivity]].

(* F6: legacy hashes (v1.0 - v1.2) put strings in with PutBytes: zero padding, no length.
   name = "a" and name = "a\000" give the same config, definition and lock hash. *)
Definition legacy_def (name : list N) : value := VStruct [("Name", VBytes name)].
Definition legacy_lock (name : list N) : value := VStruct [("Definition", legacy_def name)].

Lemma legacy_hash_collision_v1_0 :
  collides prog_config_v1_0 /\ collides prog_def_v1_0 /\ collides prog_lock_v1_0.
Proof.
  repeat split.
  - collide (legacy_def [97]) (legacy_def [97; 0]).
  - collide (legacy_def [97]) (legacy_def [97; 0]).
  - collide (legacy_lock [97]) (legacy_lock [97; 0]).
Qed.

Lemma legacy_hash_collision_v1_1 :
  collides prog_config_v1_1 /\ collides prog_def_v1_1 /\ collides prog_lock_v1_1.
Proof.
  repeat split.
  - collide (legacy_def [97]) (legacy_def [97; 0]).
  - collide (legacy_def [97]) (legacy_def [97; 0]).
  - collide (legacy_lock [97]) (legacy_lock [97; 0]).
Qed.

Lemma legacy_hash_collision_v1_2 :
  collides prog_config_v1_2 /\ collides prog_def_v1_2 /\ collides prog_lock_v1_2.
Proof.
  repeat split.
  - collide (legacy_def [97]) (legacy_def [97; 0]).
  - collide (legacy_def [97]) (legacy_def [97; 0]).
  - collide (legacy_lock [97]) (legacy_lock [97; 0]).
Qed.

(* v1.3 / v1.4 definition hash: an operator with (config signature s, no ENR signature) and one
   with (no config signature, ENR signature s) hash alike (a bare PutBytes of an empty value
   appends nothing, so the next field takes its place). *)
Definition sig65 : list N := repeat 7 65.
Definition op_def (fs : list (string * value)) : value := VStruct [("Operators", VList [VStruct fs])].

Lemma signature_shift_collision_v1_3 : collides prog_def_v1_3 /\ collides prog_lock_v1_3.
Proof.
  split.
  - collide (op_def [("ConfigSignature", VBytes sig65)]) (op_def [("ENRSignature", VBytes sig65)]).
  - collide (VStruct [("Definition", op_def [("ConfigSignature", VBytes sig65)])])
            (VStruct [("Definition", op_def [("ENRSignature", VBytes sig65)])]).
Qed.

Lemma signature_shift_collision_v1_4 : collides prog_def_v1_4 /\ collides prog_lock_v1_4.
Proof.
  split.
  - collide (op_def [("ConfigSignature", VBytes sig65)]) (op_def [("ENRSignature", VBytes sig65)]).
  - collide (VStruct [("Definition", op_def [("ConfigSignature", VBytes sig65)])])
            (VStruct [("Definition", op_def [("ENRSignature", VBytes sig65)])]).
Qed.

(* Up to v1.4 the single (fee recipient, withdrawal) address pair is hashed by PutBytes calls that
   append nothing for an empty address: a definition with only a fee recipient address A and one
   with only a withdrawal address A have the same config hash (hence the same EIP-712 signatures),
   definition hash and lock hash.  For v1.3/v1.4 this is outside the declared domain (20-byte
   addresses) of the config-hash theorem; the code accepts it (harness finding legacy-address-shift). *)
Definition addrA : list N := 48 :: 120 :: repeat 49 40.      (* "0x1111...11" *)
Definition addr_def (fee wd : list N) : value :=
  VStruct [("ValidatorAddresses", VList [VStruct [("FeeRecipientAddress", VBytes fee); ("WithdrawalAddress", VBytes wd)]])].

Lemma address_shift_collision :
  collides prog_config_v1_3 /\ collides prog_def_v1_3 /\ collides prog_config_v1_4 /\ collides prog_def_v1_4 /\
  collides prog_config_v1_0 /\ collides prog_config_v1_1 /\ collides prog_config_v1_2 /\
  dom prog_config_v1_3 (addr_def addrA []) = false.
Proof.
  do 7 (split; [collide (addr_def addrA []) (addr_def [] addrA)|]).
  vm_compute. reflexivity.
Qed.

(* The domain restriction of the well-formed lock programs is needed at the level of the hash:
   hashRegistration puts the registration's fee recipient in with a bare PutBytes, so a 21-byte
   value ending in 00 (outside the declared Bytes20) has the root of the 20-byte one, for every
   hash function.  Before the fix "lock verification checks the length of builder registration fee
   recipient and public key" nothing in lock verification looked at that length and the altered
   lock verified (finding registration-fee-recipient-padding, F14); since the fix
   verifyBuilderRegistrations enforces exactly this domain condition (20 / 48 bytes), and the
   harness reports a VIOLATION if such a file verifies again. *)
Definition reg_lock (fee : list N) : value :=
  VStruct [("Definition", VStruct [("ConfigHash", VBytes (repeat 0 32))]); ("Validators", VList [VStruct [("BuilderRegistration",
    VStruct [("Message", VStruct [("FeeRecipient", VBytes fee)])])]])].

Lemma registration_padding_collision :
  collides prog_lock_v1_7 /\ collides prog_lock_v1_8 /\ collides prog_lock_v1_9 /\
  collides prog_lock_v1_10 /\ collides prog_lock_v1_11 /\
  dom prog_lock_v1_11 (reg_lock (repeat 9 20)) = true /\
  dom prog_lock_v1_11 (reg_lock (repeat 9 20 ++ [0])) = false.
Proof.
  do 5 (split; [collide (reg_lock (repeat 9 20)) (reg_lock (repeat 9 20 ++ [0]))|]).
  split; vm_compute; reflexivity.
Qed.

(* What the canonical observation of an address (putHexBytes20, from v1.5) cannot tell apart, i.e.
   what the tamper-evidence theorems do NOT promise: the empty string is hashed as 20 zero bytes, so
   "" and the zero address are one value (harness finding empty-address-equals-zero-address); so are
   the upper-/lower-case spellings and the spelling without "0x" (enumerated exception
   address-spelling of the harness). *)
Definition addr_env (s : list N) : value := VStruct [("a", VBytes s)].
Definition zero_address_ascii : list N := 48 :: 120 :: repeat 48 40.            (* "0x00...00" *)

Lemma address_canonical_gaps :
  fields (PutHex20 ["a"]) (addr_env []) = fields (PutHex20 ["a"]) (addr_env zero_address_ascii) /\
  (forall H Z, interp H Z (PutHex20 ["a"]) (addr_env []) = interp H Z (PutHex20 ["a"]) (addr_env zero_address_ascii)) /\
  fields (PutHex20 ["a"]) (addr_env (48 :: 120 :: repeat 97 40)) = fields (PutHex20 ["a"]) (addr_env (48 :: 120 :: repeat 65 40)) /\
  fields (PutHex20 ["a"]) (addr_env (48 :: 120 :: repeat 97 40)) = fields (PutHex20 ["a"]) (addr_env (repeat 97 40)).
Proof. repeat split; try intros H Z; vm_compute; reflexivity. Qed.
