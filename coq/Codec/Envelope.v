(* Byte-level models of the hand-written SSZ envelopes of core/ssz.go, of core/proto.go's
   unmarshal / type-directed dispatch, and of deterministic (key-sorted) set marshalling.

   Bytes are [list N] with the explicit well-formedness [wf] (every element < 256).
   A Go slice expression buf[lo:hi] is [slice b lo hi : option bytes]; it is [None] exactly when Go
   would panic (lo > hi or hi > len).  Decoders return [Ok v | Err e | Panic]: [Panic] is produced
   only by an out-of-range slice / index, so "no decoder ever returns Panic" (…_total) is the statement
   that the guards in the Go code (len(buf) < fixed, fixed <= o1 <= len(buf), …) make every
   slice access in range.  Nothing is hidden behind a default value.

   The envelope shapes of core/ssz.go (all little-endian):
     B  version:u64 | blinded:u8        | offset:u32 | payload     VersionedSignedProposal, VersionedProposal
                                                                   guard: len >= 13, 13 <= offset <= len
     V  version:u64                     | offset:u32 | payload     VersionedSignedAggregateAndProof,
                                                                   VersionedAggregatedAttestation, and the legacy
                                                                   form of VersionedAttestation
                                                                   guard: len >= 12, 12 <= offset <= len
     I  version:u64 | validatorIndex:u64| offset:u32 | payload     VersionedAttestation
                                                                   guard: len >= 20, offset == 20
     VersionedAttestation.UnmarshalSSZ = I, and when I fails (before dd3af90: only with an error that Is
                                                                   ssz.ErrOffset), V
     A  o0:u32 | o1:u32 | data | duty                              AttestationData
                                                                   guard: len >= 8, 8 <= o0 <= len, o0 <= o1 <= len
     D  pubkey:48 | 6 x u64                                        attesterDutySSZ; guard: len >= 96
   The inner (go-eth2-client) codecs are Section parameters; theorems that need them assume the
   round-trip of the inner codec only. *)
From Coq Require Import List NArith Bool Lia Arith PeanoNat Permutation Sorted.
Import ListNotations.
Local Open Scope N_scope.

Definition bytes := list N.
Definition byte_ok (b : N) : Prop := b < 256.
Definition wf (bs : bytes) : Prop := Forall byte_ok bs.

(* ssz.MarshalUint64 / WriteOffset (k = 8 / 4) and ssz.UnmarshallUint64 / ReadOffset *)
Fixpoint le_enc (k : nat) (n : N) : bytes :=
  match k with O => [] | S k' => (n mod 256) :: le_enc k' (n / 256) end.
Fixpoint le_dec (bs : bytes) : N :=
  match bs with [] => 0 | b :: r => b + 256 * le_dec r end.

(* buf[lo:hi] *)
Definition slice (b : bytes) (lo hi : nat) : option bytes :=
  if ((lo <=? hi)%nat && (hi <=? length b)%nat)%bool then Some (firstn (hi - lo) (skipn lo b)) else None.

Inductive err :=
| ESize                     (* ssz.ErrSize: shorter than the fixed part *)
| EVersion                  (* eth2util.DataVersionFromUint64 failed *)
| EOffset                   (* ssz.ErrOffset from the envelope's own offset check *)
| EInner (offset_class : bool).  (* error of the inner codec; true when errors.Is(err, ssz.ErrOffset) *)

Inductive res (A : Type) := Ok (a : A) | Err (e : err) | Panic.
Arguments Ok {A} a.
Arguments Err {A} e.
Arguments Panic {A}.

Inductive ires (A : Type) := IOk (a : A) | IErr (offset_class : bool).
Arguments IOk {A} a.
Arguments IErr {A} offset_class.

(* eth2util.dataVersionValues: phase0..fulu = 0..6 *)
Definition nver : N := 7.

(* ------------------------------------------------------------------------------------------- *)
(* Shapes B, V, I as instances of one header layout: version:u64 | extra:xlen bytes | offset:u32 | payload *)
Section Gen.
Variable payload : Type.
Variable xlen : nat.       (* width of the field between version and offset: 1 (B), 0 (V), 8 (I) *)
Variable strict : bool.    (* true: offset must equal the fixed size (I); false: fixed <= offset <= len (B, V) *)
Variable inner_enc : N -> bytes -> payload -> bytes.
Variable inner_dec : N -> bytes -> bytes -> ires payload.

Definition fixed : nat := (8 + xlen + 4)%nat.

(* marshalSSZVersioned*To *)
Definition enc_gen (ver : N) (extra : bytes) (p : payload) : option bytes :=
  if nver <=? ver then None
  else Some (le_enc 8 ver ++ extra ++ le_enc 4 (N.of_nat fixed) ++ inner_enc ver extra p).

(* unmarshalSSZVersioned* *)
Definition dec_gen (b : bytes) : res (N * bytes * payload) :=
  if (length b <? fixed)%nat then Err ESize else
  match slice b 0 8 with None => Panic | Some vb =>
  let ver := le_dec vb in
  if nver <=? ver then Err EVersion else
  match slice b 8 (8 + xlen) with None => Panic | Some extra =>
  match slice b (8 + xlen) (8 + xlen + 4) with None => Panic | Some ob =>
  let o1 := le_dec ob in
  if (if strict then negb (o1 =? N.of_nat fixed)
      else (o1 <? N.of_nat fixed) || (N.of_nat (length b) <? o1))%bool then Err EOffset else
  match slice b (N.to_nat o1) (length b) with None => Panic | Some pb =>
  match inner_dec ver extra pb with
  | IOk p => Ok (ver, extra, p)
  | IErr c => Err (EInner c)
  end end end end end.

(* the offset field as read by the decoder (for the canonical-form statements) *)
Definition offset_of (b : bytes) : option N :=
  match slice b (8 + xlen) (8 + xlen + 4) with Some ob => Some (le_dec ob) | None => None end.
End Gen.

(* ------------------------------------------------------------------------------------------- *)
(* Shape B: VersionedSignedProposal / VersionedProposal *)
Section ShapeB.
Variable payload : Type.
Variable inner_enc : N -> bool -> payload -> bytes.          (* sszValFromVersion(version, blinded).MarshalSSZTo *)
Variable inner_dec : N -> bool -> bytes -> ires payload.     (* sszValFromVersion(version, blinded).UnmarshalSSZ *)

(* ssz.UnmarshalBool(buf[8:9]): src[0] == 1 *)
Definition flag_of (extra : bytes) : bool := match extra with x :: _ => x =? 1 | [] => false end.
Definition flag_byte (bl : bool) : bytes := [if bl then 1 else 0].

Definition encB (v : N * bool * payload) : option bytes :=
  let '(ver, bl, p) := v in
  enc_gen payload 1 (fun ver x => inner_enc ver (flag_of x)) ver (flag_byte bl) p.

Definition decB (b : bytes) : res (N * bool * payload) :=
  match dec_gen payload 1 false (fun ver x => inner_dec ver (flag_of x)) b with
  | Ok (ver, x, p) => Ok (ver, flag_of x, p)
  | Err e => Err e
  | Panic => Panic
  end.
End ShapeB.

(* Shape V: VersionedSignedAggregateAndProof / VersionedAggregatedAttestation / legacy VersionedAttestation *)
Section ShapeV.
Variable payload : Type.
Variable inner_enc : N -> payload -> bytes.
Variable inner_dec : N -> bytes -> ires payload.

Definition encV (v : N * payload) : option bytes :=
  let '(ver, p) := v in enc_gen payload 0 (fun ver _ => inner_enc ver) ver [] p.

Definition decV (b : bytes) : res (N * payload) :=
  match dec_gen payload 0 false (fun ver _ => inner_dec ver) b with
  | Ok (ver, _, p) => Ok (ver, p)
  | Err e => Err e
  | Panic => Panic
  end.

(* Shape I: VersionedAttestation with validator index *)
Definition encI (v : N * N * payload) : option bytes :=
  let '(ver, idx, p) := v in enc_gen payload 8 (fun ver _ => inner_enc ver) ver (le_enc 8 idx) p.

Definition decI (b : bytes) : res (N * N * payload) :=
  match dec_gen payload 8 true (fun ver _ => inner_dec ver) b with
  | Ok (ver, x, p) => Ok (ver, le_dec x, p)
  | Err e => Err e
  | Panic => Panic
  end.

(* VersionedAttestation.MarshalSSZTo / UnmarshalSSZ: validator index optional.  Decoding reads the bytes as
   shape I first; when that fails it reads them as shape V (the legacy layout).
   [pre_fix = true] is the rule before commit dd3af90: the legacy reading was tried only when the
   indexed one failed with an error that Is ssz.ErrOffset.  Since dd3af90 ([pre_fix = false]) it is
   tried on any error; when both readings fail the error returned is the legacy one if the indexed
   error was an offset error, else the indexed one. *)
Definition is_offset_err (e : err) : bool :=
  match e with EOffset => true | EInner c => c | _ => false end.

Definition encAtt (v : N * option N * payload) : option bytes :=
  let '(ver, oi, p) := v in
  match oi with Some idx => encI (ver, idx, p) | None => encV (ver, p) end.

Definition decAtt (pre_fix : bool) (b : bytes) : res (N * option N * payload) :=
  match decI b with
  | Ok (ver, idx, p) => Ok (ver, Some idx, p)
  | Panic => Panic
  | Err e =>
      if pre_fix && negb (is_offset_err e) then Err e
      else
        match decV b with
        | Ok (ver, p) => Ok (ver, None, p)
        | Err e' => if is_offset_err e then Err e' else Err e
        | Panic => Panic
        end
  end.
End ShapeV.

(* ------------------------------------------------------------------------------------------- *)
(* Shape D: attesterDutySSZ, and shape A: AttestationData *)
Record duty := mkDuty { d_pk : bytes; d_slot : N; d_vidx : N; d_cidx : N; d_clen : N; d_cats : N; d_vcidx : N }.

Definition duty_ok (u : duty) : Prop :=
  length (d_pk u) = 48%nat /\ d_slot u < 2^64 /\ d_vidx u < 2^64 /\ d_cidx u < 2^64 /\
  d_clen u < 2^64 /\ d_cats u < 2^64 /\ d_vcidx u < 2^64.

Definition encD (u : duty) : bytes :=
  d_pk u ++ le_enc 8 (d_slot u) ++ le_enc 8 (d_vidx u) ++ le_enc 8 (d_cidx u) ++
  le_enc 8 (d_clen u) ++ le_enc 8 (d_cats u) ++ le_enc 8 (d_vcidx u).

Definition decD (b : bytes) : res duty :=
  if (length b <? 96)%nat then Err ESize else
  match slice b 0 48, slice b 48 56, slice b 56 64, slice b 64 72, slice b 72 80, slice b 80 88, slice b 88 96 with
  | Some pk, Some f1, Some f2, Some f3, Some f4, Some f5, Some f6 =>
      Ok (mkDuty pk (le_dec f1) (le_dec f2) (le_dec f3) (le_dec f4) (le_dec f5) (le_dec f6))
  | _, _, _, _, _, _, _ => Panic
  end.

Section ShapeA.
Variable data : Type.
Variable data_enc : data -> bytes.            (* eth2p0.AttestationData.MarshalSSZTo *)
Variable data_dec : bytes -> ires data.       (* eth2p0.AttestationData.UnmarshalSSZ *)

Definition encA (v : data * duty) : bytes :=
  let '(d, u) := v in
  le_enc 4 8 ++ le_enc 4 (8 + N.of_nat (length (data_enc d))) ++ data_enc d ++ encD u.

Definition decA (b : bytes) : res (data * duty) :=
  let size := N.of_nat (length b) in
  if size <? 8 then Err ESize else
  match slice b 0 4 with None => Panic | Some b0 =>
  let o0 := le_dec b0 in
  if (size <? o0) || (o0 <? 8) then Err EOffset else
  match slice b 4 8 with None => Panic | Some b1 =>
  let o1 := le_dec b1 in
  if (size <? o1) || (o1 <? o0) then Err EOffset else
  match slice b (N.to_nat o0) (N.to_nat o1) with None => Panic | Some db =>
  match data_dec db with
  | IErr c => Err (EInner c)
  | IOk d =>
    match slice b (N.to_nat o1) (length b) with None => Panic | Some ub =>
    match decD ub with
    | Ok u => Ok (d, u)
    | Err e => Err e
    | Panic => Panic
    end end end end end end.
End ShapeA.

(* ------------------------------------------------------------------------------------------- *)
(* core/proto.go unmarshal: SSZ first when the target type implements ssz.Unmarshaler; JSON when the
   type has no SSZ form, or when SSZ failed and the input, after leading white space, starts with '{'. *)
Definition is_space (c : N) : bool :=   (* ASCII white space of bytes.TrimSpace *)
  (c =? 9) || (c =? 10) || (c =? 11) || (c =? 12) || (c =? 13) || (c =? 32).
Fixpoint json_prefix (b : bytes) : bool :=
  match b with
  | [] => false
  | c :: r => if is_space c then json_prefix r else c =? 123
  end.

Section Unmarshal.
Variable T : Type.
Variable ssz_dec : option (bytes -> option T).   (* None: the Go type is not an ssz.Unmarshaler *)
Variable json_dec : bytes -> option T.

Definition unmarshal (b : bytes) : option T :=
  match ssz_dec with
  | Some f =>
      match f b with
      | Some v => Some v
      | None => if json_prefix b then json_dec b else None
      end
  | None => json_dec b
  end.
End Unmarshal.

(* Duty types (core/types.go) and the Go types ParSignedDataFromProto / unmarshalUnsignedData produce. *)
Inductive dutytype :=
| DUnknown | DProposer | DAttester | DSignature | DExit | DBuilderProposer | DBuilderRegistration
| DRandao | DPrepareAggregator | DAggregator | DSyncMessage | DPrepareSyncContribution
| DSyncContribution | DInfoSync | DOther.

Inductive stype :=   (* signed data Go types *)
| TVersionedAttestation | TVersionedSignedProposal | TVersionedSignedValidatorRegistration
| TSignedVoluntaryExit | TSignedRandao | TSignature | TBeaconCommitteeSelection
| TSignedAggregateAndProof | TVersionedSignedAggregateAndProof | TSignedSyncMessage
| TSyncCommitteeSelection | TSignedSyncContributionAndProof.

(* core.Eth2SignedData (core/eth2signeddata.go): every signed type the decoder can produce except
   core.Signature.  The receive path (parsigex.handle -> NewEth2Verifier) uses a decoded value by
   asserting it to this interface with a CHECKED assertion: a value that is not an Eth2SignedData is
   refused with an error, every other one goes on to VerifyEth2SignedData; no outcome is a panic. *)
Definition eth2_signed (t : stype) : bool := match t with TSignature => false | _ => true end.
Inductive vuse := VNotEth2 | VRan.
Definition verifier_use (t : stype) : vuse := if eth2_signed t then VRan else VNotEth2.

Inductive utype :=   (* unsigned data Go types *)
| UAttestationData | UVersionedProposal | UVersionedAggregatedAttestation | UAggregatedAttestation
| USyncContributions | USyncContribution.

Section Dispatch.
(* [dec t b]: outcome of core.unmarshal(b, new(t)) -- a value of Go type t, or an error.
   A decoded value is modelled as the pair (type tag, opaque value). *)
Variable V : Type.
Variable sdec : stype -> bytes -> option V.
Variable udec : utype -> bytes -> option V.

Definition try1 {Ty} (dec : Ty -> bytes -> option V) (t : Ty) (b : bytes) : option (Ty * V) :=
  match dec t b with Some v => Some (t, v) | None => None end.
Definition try2 {Ty} (dec : Ty -> bytes -> option V) (t1 t2 : Ty) (b : bytes) : option (Ty * V) :=
  match dec t1 b with Some v => Some (t1, v) | None => try1 dec t2 b end.

(* ParSignedDataFromProto's switch *)
Definition sdispatch (d : dutytype) (b : bytes) : option (stype * V) :=
  match d with
  | DAttester => try1 sdec TVersionedAttestation b
  | DProposer => try1 sdec TVersionedSignedProposal b
  | DBuilderProposer => None
  | DBuilderRegistration => try1 sdec TVersionedSignedValidatorRegistration b
  | DExit => try1 sdec TSignedVoluntaryExit b
  | DRandao => try1 sdec TSignedRandao b
  | DSignature => try1 sdec TSignature b
  | DPrepareAggregator => try1 sdec TBeaconCommitteeSelection b
  | DAggregator => try2 sdec TSignedAggregateAndProof TVersionedSignedAggregateAndProof b
  | DSyncMessage => try1 sdec TSignedSyncMessage b
  | DPrepareSyncContribution => try1 sdec TSyncCommitteeSelection b
  | DSyncContribution => try1 sdec TSignedSyncContributionAndProof b
  | DUnknown | DInfoSync | DOther => None
  end.

(* unmarshalUnsignedData's switch *)
Definition udispatch (d : dutytype) (b : bytes) : option (utype * V) :=
  match d with
  | DAttester => try1 udec UAttestationData b
  | DProposer => try1 udec UVersionedProposal b
  | DAggregator => try2 udec UVersionedAggregatedAttestation UAggregatedAttestation b
  | DSyncContribution => try2 udec USyncContributions USyncContribution b
  | _ => None
  end.

(* Since commit 83a4e02 ParSignedDataFromProto / UnsignedDataSetFromProto validate the decoded value
   before returning it (checkSignedData / checkUnsignedData, inside their recover): [usable] says that
   the accessors used later (MessageRoot, Signature, Clone / MarshalJSON, Clone) succeed on the value.
   The decoders are [validated usable (sdispatch ...)] and [validated usable (udispatch ...)]. *)
Definition validated {Ty} (usable : V -> bool) (r : option (Ty * V)) : option (Ty * V) :=
  match r with
  | Some (t, v) => if usable v then Some (t, v) else None
  | None => None
  end.

Definition sallowed (d : dutytype) : list stype :=
  match d with
  | DAttester => [TVersionedAttestation]
  | DProposer => [TVersionedSignedProposal]
  | DBuilderRegistration => [TVersionedSignedValidatorRegistration]
  | DExit => [TSignedVoluntaryExit]
  | DRandao => [TSignedRandao]
  | DSignature => [TSignature]
  | DPrepareAggregator => [TBeaconCommitteeSelection]
  | DAggregator => [TSignedAggregateAndProof; TVersionedSignedAggregateAndProof]
  | DSyncMessage => [TSignedSyncMessage]
  | DPrepareSyncContribution => [TSyncCommitteeSelection]
  | DSyncContribution => [TSignedSyncContributionAndProof]
  | _ => []
  end.

Definition uallowed (d : dutytype) : list utype :=
  match d with
  | DAttester => [UAttestationData]
  | DProposer => [UVersionedProposal]
  | DAggregator => [UVersionedAggregatedAttestation; UAggregatedAttestation]
  | DSyncContribution => [USyncContributions; USyncContribution]
  | _ => []
  end.
End Dispatch.

(* ------------------------------------------------------------------------------------------- *)
(* Deterministic proto marshalling of a map field (ParSignedDataSet.set, UnsignedDataSet.set):
   the entries are emitted in increasing key order.  A set is a list of (key, value bytes) in the
   (arbitrary) order Go's map iteration produced; [entry] is the wire form of one map entry. *)
Section SetEnc.
Variable key : Type.
Variable kleb : key -> key -> bool.        (* the key order used by deterministic marshalling *)
Variable entry : key -> bytes -> bytes.

Fixpoint insert (e : key * bytes) (l : list (key * bytes)) : list (key * bytes) :=
  match l with
  | [] => [e]
  | x :: r => if kleb (fst e) (fst x) then e :: x :: r else x :: insert e r
  end.
Fixpoint sort_entries (l : list (key * bytes)) : list (key * bytes) :=
  match l with [] => [] | e :: r => insert e (sort_entries r) end.

Definition enc_set (l : list (key * bytes)) : bytes :=
  flat_map (fun e => entry (fst e) (snd e)) (sort_entries l).
End SetEnc.
