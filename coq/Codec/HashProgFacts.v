(* root_injective: for a well-formed hash program the chunks appended to the hasher (hence the
   root) determine the canonical value of every hashed field, on the declared domain, provided the
   compression function has no collisions (Section hypothesis H_inj). *)
From Coq Require Import List NArith Bool Arith String Lia.
From Charon Require Import Codec.SszTree Codec.HashProg.
Import ListNotations.
Local Open Scope list_scope.
Local Notation length := List.length.
Local Arguments firstn : simpl never.
Local Arguments skipn : simpl never.
Local Arguments N.pow : simpl never.
Local Arguments N.div : simpl never.
Local Arguments N.modulo : simpl never.
Local Arguments left_pad : simpl never.
Local Arguments chunks_of : simpl never.
Local Arguments Nat.leb : simpl never.
Local Arguments Nat.ltb : simpl never.
Local Arguments Nat.div : simpl never.
Local Arguments Nat.modulo : simpl never.
Local Arguments from_0xhex : simpl never.
Local Arguments two64 : simpl never.
Local Arguments u64chunk : simpl never.
Local Arguments true_chunk : simpl never.
Local Arguments zero_chunk : simpl never.

Lemma path_eqb_eq : forall a b, path_eqb a b = true -> a = b.
Proof.
  unfold path_eqb. induction a; destruct b; simpl; intros E; try discriminate; auto.
  apply andb_true_iff in E. destruct E as [L E]. apply andb_true_iff in E. destruct E as [E1 E2].
  apply String.eqb_eq in E1. subst. f_equal. apply IHa. rewrite L. simpl. exact E2.
Qed.

Lemma true_chunk_neq : true_chunk <> zero_chunk.
Proof. unfold true_chunk, zero_chunk, pad32. simpl. discriminate. Qed.

Lemma opt1_inv : forall r cs, opt1 r = Some cs -> exists c, r = Some c /\ cs = [c].
Proof. intros [c|] cs E; simpl in E; [|discriminate]. inversion E. eauto. Qed.

Lemma two64_pow : two64 = (256 ^ N.of_nat 8)%N.
Proof. reflexivity. Qed.

Lemma mod_small_eq : forall a b, (a < two64)%N -> (b < two64)%N ->
  N.modulo a two64 = N.modulo b two64 -> a = b.
Proof. intros. rewrite !N.mod_small in H1 by assumption. exact H1. Qed.

Section Facts.

Variable H : chunk -> chunk -> chunk.
Variable Z : nat -> chunk.
Hypothesis H_inj : forall a b c d, H a b = H c d -> a = c /\ b = d.

(* ------------------------------------------------------------------ chunk counts *)

Lemma put_bytes_len1 : forall x cs, 0 < length x -> put_bytes H Z x = Some cs -> length cs = 1.
Proof.
  unfold put_bytes. intros x cs P E. destruct (length x <=? 32) eqn:L.
  - apply Nat.leb_le in L. rewrite chunks_of_short in E by lia. inversion E. reflexivity.
  - destruct (merkleize H Z (chunks_of x) 0); inversion E. reflexivity.
Qed.

Lemma put_bytes_n_len1 : forall x n cs, 0 < n -> put_bytes_n H Z x n = Some cs -> length cs = 1.
Proof.
  unfold put_bytes_n. intros x n cs P E. destruct (length x <=? n) eqn:L; [|discriminate].
  apply Nat.leb_le in L. eapply put_bytes_len1; [|exact E]. rewrite left_pad_length; lia.
Qed.

Lemma opt1_len : forall r cs, opt1 r = Some cs -> length cs = 1.
Proof. intros r cs E. apply opt1_inv in E. destruct E as [c [_ ->]]. reflexivity. Qed.

Lemma arity_sound : forall p e cs k,
  arity p = Some k -> dom p e = true -> interp H Z p e = Some cs -> length cs = k.
Proof.
  intros p e cs k A D E. destruct p; simpl in A, E; try discriminate;
    try (inversion A; subst; inversion E; reflexivity).
  - (* PutBytes *)
    destruct (is_nil b) eqn:NB.
    + destruct b; try discriminate. inversion A; subst. simpl in E. inversion E. reflexivity.
    + destruct declared as [n|]; [|discriminate]. destruct (0 <? n) eqn:P; [|discriminate].
      inversion A; subst. simpl in D. apply Nat.ltb_lt in P.
      destruct (evalb b e) as [x|] eqn:EV; [|discriminate].
      apply Nat.eqb_eq in D. eapply put_bytes_len1; [|exact E]. lia.
  - (* PutBytesN *)
    destruct (0 <? n) eqn:P; [|discriminate]. inversion A; subst. apply Nat.ltb_lt in P.
    destruct (evalb b e); [|discriminate]. eapply put_bytes_n_len1; eauto.
  - (* PutHex20 *)
    inversion A; subst. destruct (from_0xhex _ 20); [|discriminate].
    eapply put_bytes_n_len1; [|exact E]. lia.
  - inversion A; subst. destruct (evalb b e); [|discriminate]. unfold put_byte_list in E.
    destruct (_ <=? _); [|discriminate]. eapply opt1_len; eauto.
  - inversion A; subst. destruct (evalb b e); [|discriminate]. unfold put_k1_sig_list in E.
    destruct (negb _); [discriminate|]. destruct (_ <? _); [discriminate|].
    destruct (k1_chunks _ _ _); [|discriminate]. eapply opt1_len; eauto.
  - inversion A; subst. unfold put_u64_array in E. eapply opt1_len; eauto.
  - inversion A; subst. destruct (seq_opt _ _); [|discriminate]. eapply opt1_len; eauto.
  - inversion A; subst. destruct (seq_opt _ _); [|discriminate]. eapply opt1_len; eauto.
Qed.

Lemma seq_len : forall ps e cs,
  forallb has_arity ps = true -> forallb (fun q => dom q e) ps = true ->
  seq_opt (fun q => interp H Z q e) ps = Some cs -> length cs = arity_sum ps.
Proof.
  induction ps as [|q r IH]; simpl; intros e cs A D E.
  - inversion E. reflexivity.
  - apply andb_true_iff in A. destruct A as [A1 A2]. apply andb_true_iff in D. destruct D as [D1 D2].
    destruct (interp H Z q e) as [a|] eqn:E1; [|discriminate].
    destruct (seq_opt (fun q0 => interp H Z q0 e) r) as [b|] eqn:E2; [|discriminate].
    inversion E; subst. rewrite app_length.
    unfold has_arity in A1. destruct (arity q) as [k|] eqn:AQ; [|discriminate].
    erewrite (arity_sound q e a k); eauto.
Qed.

(* ------------------------------------------------------------------ leaves *)

Lemma put_bytes_n_inj : forall x y n cs, 0 < n ->
  put_bytes_n H Z x n = Some cs -> put_bytes_n H Z y n = Some cs -> left_pad x n = left_pad y n.
Proof.
  unfold put_bytes_n. intros x y n cs P E1 E2.
  destruct (length x <=? n) eqn:L1; [|discriminate]. destruct (length y <=? n) eqn:L2; [|discriminate].
  apply Nat.leb_le in L1, L2.
  eapply (put_bytes_inj H Z H_inj); [|exact E1|exact E2]. rewrite !left_pad_length; lia.
Qed.

Lemma put_byte_list_inj : forall x y max cs, (N.of_nat max < two64)%N ->
  put_byte_list H Z x max = Some cs -> put_byte_list H Z y max = Some cs -> x = y.
Proof.
  unfold put_byte_list. intros x y max cs M E1 E2.
  destruct (length x <=? max) eqn:L1; [|discriminate]. destruct (length y <=? max) eqn:L2; [|discriminate].
  apply Nat.leb_le in L1, L2.
  apply opt1_inv in E1. destruct E1 as [c1 [E1 ->]]. apply opt1_inv in E2. destruct E2 as [c2 [E2 C]].
  inversion C; subst c2.
  destruct (mixin_inj H Z H_inj _ _ _ _ _ _ E1 E2) as [LN CS].
  apply mod_small_eq in LN; try lia. apply Nat2N.inj in LN.
  apply chunks_of_inj; auto. apply CS. apply chunks_of_len; auto.
Qed.

Lemma k1_chunks_len : forall k x cs, length x = 65 * k -> k1_chunks H Z k x = Some cs -> length cs = k.
Proof.
  induction k; simpl; intros x cs L E.
  - inversion E. reflexivity.
  - destruct (put_bytes H Z (firstn 65 x)) as [a|] eqn:E1; [|discriminate].
    destruct (k1_chunks H Z k (skipn 65 x)) as [b|] eqn:E2; [|discriminate].
    inversion E; subst. rewrite app_length.
    erewrite (put_bytes_len1 (firstn 65 x) a); eauto; [|rewrite firstn_length; lia].
    erewrite IHk; eauto. rewrite skipn_length. lia.
Qed.

Lemma k1_chunks_inj : forall k x y cs, length x = 65 * k -> length y = 65 * k ->
  k1_chunks H Z k x = Some cs -> k1_chunks H Z k y = Some cs -> x = y.
Proof.
  induction k; simpl; intros x y cs L1 L2 E1 E2.
  - destruct x; [|simpl in L1; lia]. destruct y; [reflexivity|simpl in L2; lia].
  - destruct (put_bytes H Z (firstn 65 x)) as [a|] eqn:A1; [|discriminate].
    destruct (k1_chunks H Z k (skipn 65 x)) as [b|] eqn:B1; [|discriminate].
    destruct (put_bytes H Z (firstn 65 y)) as [a'|] eqn:A2; [|discriminate].
    destruct (k1_chunks H Z k (skipn 65 y)) as [b'|] eqn:B2; [|discriminate].
    inversion E1; inversion E2; subst. clear E1 E2.
    assert (LA : length a = 1) by (eapply put_bytes_len1; [|exact A1]; rewrite firstn_length; lia).
    assert (LA' : length a' = 1) by (eapply put_bytes_len1; [|exact A2]; rewrite firstn_length; lia).
    apply app_inj_len in H2; [|lia]. destruct H2; subst.
    assert (F : firstn 65 x = firstn 65 y).
    { eapply (put_bytes_inj H Z H_inj); [|exact A1|exact A2]. rewrite !firstn_length. lia. }
    assert (S : skipn 65 x = skipn 65 y).
    { eapply IHk; [| |exact B1|exact B2]; rewrite skipn_length; lia. }
    rewrite <- (firstn_skipn 65 x), <- (firstn_skipn 65 y), F, S. reflexivity.
Qed.

Lemma div65 : forall n, Nat.modulo n 65 = 0 -> n = 65 * Nat.div n 65.
Proof. intros n M. pose proof (Nat.div_mod n 65). lia. Qed.

Lemma put_k1_sig_list_inj : forall x y max cs, (N.of_nat max < two64)%N ->
  put_k1_sig_list H Z x max = Some cs -> put_k1_sig_list H Z y max = Some cs -> x = y.
Proof.
  unfold put_k1_sig_list. intros x y max cs M E1 E2.
  destruct (Nat.eqb (Nat.modulo (length x) 65) 0) eqn:M1; [|discriminate].
  destruct (Nat.eqb (Nat.modulo (length y) 65) 0) eqn:M2; [|discriminate].
  simpl in E1, E2. apply Nat.eqb_eq in M1, M2. apply div65 in M1, M2.
  destruct (max <? Nat.div (length x) 65) eqn:X1; [discriminate|].
  destruct (max <? Nat.div (length y) 65) eqn:X2; [discriminate|].
  apply Nat.ltb_ge in X1, X2.
  destruct (k1_chunks H Z (Nat.div (length x) 65) x) as [c1|] eqn:K1; [|discriminate].
  destruct (k1_chunks H Z (Nat.div (length y) 65) y) as [c2|] eqn:K2; [|discriminate].
  apply opt1_inv in E1. destruct E1 as [r1 [E1 ->]]. apply opt1_inv in E2. destruct E2 as [r2 [E2 C]].
  inversion C; subst r2.
  destruct (mixin_inj H Z H_inj _ _ _ _ _ _ E1 E2) as [LN CS].
  apply mod_small_eq in LN; try lia. apply Nat2N.inj in LN.
  rewrite <- LN in K2, M2.
  assert (c1 = c2).
  { apply CS. rewrite (k1_chunks_len _ _ _ M1 K1), (k1_chunks_len _ _ _ M2 K2). reflexivity. }
  subst c2. eapply k1_chunks_inj; [exact M1|exact M2|exact K1|exact K2].
Qed.

Lemma le_bytes8_flat_inj : forall l1 l2, length l1 = length l2 ->
  flat_map (le_bytes 8) l1 = flat_map (le_bytes 8) l2 ->
  map (fun n => N.modulo n two64) l1 = map (fun n => N.modulo n two64) l2.
Proof.
  induction l1; destruct l2; intros L E; try discriminate; auto.
  cbn [flat_map] in E. apply app_inj_len in E; [|rewrite !le_bytes_length; reflexivity].
  destruct E as [E1 E2]. cbn [map]. f_equal.
  - rewrite two64_pow. apply le_bytes_inj. exact E1.
  - apply IHl1; auto.
Qed.

Lemma flat_le8_len : forall l, length (flat_map (le_bytes 8) l) = 8 * length l.
Proof. induction l; cbn [flat_map length]; auto. rewrite app_length, le_bytes_length, IHl. lia. Qed.

Lemma put_u64_array_inj : forall l1 l2 max cs,
  (N.of_nat (length l1) < two64)%N -> (N.of_nat (length l2) < two64)%N ->
  put_u64_array H Z l1 max = Some cs -> put_u64_array H Z l2 max = Some cs ->
  map (fun n => N.modulo n two64) l1 = map (fun n => N.modulo n two64) l2.
Proof.
  unfold put_u64_array. intros l1 l2 max cs B1 B2 E1 E2.
  apply opt1_inv in E1. destruct E1 as [r1 [E1 ->]]. apply opt1_inv in E2. destruct E2 as [r2 [E2 C]].
  inversion C; subst r2.
  (* the limits agree once the lengths agree; get the lengths first from the mixed-in number *)
  unfold mixin in E1, E2.
  destruct (merkleize H Z _ (u64array_limit max (N.of_nat (length l1)))) as [m1|] eqn:M1; [|discriminate].
  destruct (merkleize H Z _ (u64array_limit max (N.of_nat (length l2)))) as [m2|] eqn:M2; [|discriminate].
  inversion E1; inversion E2; subst. apply H_inj in H2. destruct H2 as [Hm Hn]. subst m2.
  apply u64chunk_inj in Hn. apply mod_small_eq in Hn; auto. apply Nat2N.inj in Hn.
  assert (Hl : length l2 = length l1) by congruence.
  rewrite Hl in M2.
  apply le_bytes8_flat_inj; auto.
  apply chunks_of_inj; [rewrite !flat_le8_len; lia|].
  eapply (merkleize_inj H Z H_inj); [|exact M1|exact M2].
  apply chunks_of_len. rewrite !flat_le8_len. lia.
Qed.

(* ------------------------------------------------------------------ programs *)

Definition inj_p (p : hprog) : Prop := forall e1 e2 cs,
  wf p = true -> dom p e1 = true -> dom p e2 = true ->
  interp H Z p e1 = Some cs -> interp H Z p e2 = Some cs -> fields p e1 = fields p e2.

Lemma seq_inj : forall ps, Forall inj_p ps -> forall e1 e2 cs,
  forallb wf ps = true -> forallb has_arity ps = true ->
  forallb (fun q => dom q e1) ps = true -> forallb (fun q => dom q e2) ps = true ->
  seq_opt (fun q => interp H Z q e1) ps = Some cs -> seq_opt (fun q => interp H Z q e2) ps = Some cs ->
  flat_map (fun q => fields q e1) ps = flat_map (fun q => fields q e2) ps.
Proof.
  induction 1 as [|q r IQ IR IH]; simpl; intros e1 e2 cs W A D1 D2 E1 E2; auto.
  apply andb_true_iff in W. destruct W as [W1 W2]. apply andb_true_iff in A. destruct A as [A1 A2].
  apply andb_true_iff in D1. destruct D1 as [D11 D12]. apply andb_true_iff in D2. destruct D2 as [D21 D22].
  destruct (interp H Z q e1) as [a1|] eqn:I1; [|discriminate].
  destruct (seq_opt (fun q0 => interp H Z q0 e1) r) as [b1|] eqn:S1; [|discriminate].
  destruct (interp H Z q e2) as [a2|] eqn:I2; [|discriminate].
  destruct (seq_opt (fun q0 => interp H Z q0 e2) r) as [b2|] eqn:S2; [|discriminate].
  inversion E1; inversion E2; subst. clear E1 E2.
  unfold has_arity in A1. destruct (arity q) as [k|] eqn:AQ; [|discriminate].
  apply app_inj_len in H2.
  - destruct H2; subst. f_equal.
    + eapply IQ; eauto.
    + eapply IH; eauto.
  - rewrite (arity_sound q e2 a2 k), (arity_sound q e1 a1 k); auto.
Qed.

Lemma each_len : forall ps l cs,
  forallb has_arity ps = true ->
  forallb (fun v => forallb (fun q => dom q v) ps) l = true ->
  seq_opt (fun v => seq_opt (fun q => interp H Z q v) ps) l = Some cs ->
  length cs = length l * arity_sum ps.
Proof.
  induction l as [|v l IH]; simpl; intros cs A D E.
  - inversion E. reflexivity.
  - apply andb_true_iff in D. destruct D as [D1 D2].
    destruct (seq_opt (fun q => interp H Z q v) ps) as [a|] eqn:E1; [|discriminate].
    destruct (seq_opt _ l) as [b|] eqn:E2; [|discriminate].
    inversion E; subst. rewrite app_length. erewrite seq_len, IH; eauto.
Qed.

Lemma each_inj : forall ps, Forall inj_p ps ->
  forallb wf ps = true -> forallb has_arity ps = true ->
  forall l1 l2 cs, length l1 = length l2 ->
  forallb (fun v => forallb (fun q => dom q v) ps) l1 = true ->
  forallb (fun v => forallb (fun q => dom q v) ps) l2 = true ->
  seq_opt (fun v => seq_opt (fun q => interp H Z q v) ps) l1 = Some cs ->
  seq_opt (fun v => seq_opt (fun q => interp H Z q v) ps) l2 = Some cs ->
  flat_map (fun v => flat_map (fun q => fields q v) ps) l1 =
  flat_map (fun v => flat_map (fun q => fields q v) ps) l2.
Proof.
  intros ps IP W A. induction l1 as [|v1 l1 IH]; destruct l2 as [|v2 l2]; simpl; intros cs L D1 D2 E1 E2;
    try discriminate; auto.
  apply andb_true_iff in D1. destruct D1 as [D11 D12]. apply andb_true_iff in D2. destruct D2 as [D21 D22].
  destruct (seq_opt (fun q => interp H Z q v1) ps) as [a1|] eqn:I1; [|discriminate].
  destruct (seq_opt _ l1) as [b1|] eqn:S1; [|discriminate].
  destruct (seq_opt (fun q => interp H Z q v2) ps) as [a2|] eqn:I2; [|discriminate].
  destruct (seq_opt _ l2) as [b2|] eqn:S2; [|discriminate].
  inversion E1; inversion E2; subst. clear E1 E2.
  apply app_inj_len in H2.
  - destruct H2; subst. f_equal.
    + eapply seq_inj; eauto.
    + eapply IH; eauto.
  - rewrite (seq_len ps v2 a2), (seq_len ps v1 a1); auto.
Qed.

(* the induction carries, for a loop, the statement about its body (the loop itself is only
   well-formed as the content of a length-mixed list) *)
Definition body_inj (p : hprog) : Prop :=
  match p with ForEach _ qs => Forall inj_p qs | _ => True end.

Lemma interp_injective_strong : forall p, inj_p p /\ body_inj p.
Proof.
  induction p using hprog_ind'; (split; [|try exact I]);
    try (unfold inj_p; intros e1 e2 cs W D1 D2 E1 E2; simpl in E1, E2; simpl).
  - (* PutU64 *)
    assert (X : u64chunk (as_num (get e1 f)) = u64chunk (as_num (get e2 f))) by congruence.
    apply u64chunk_inj in X. fold two64 in X. rewrite X. reflexivity.
  - reflexivity.
  - (* PutBool *)
    destruct (as_bool (get e1 f)), (as_bool (get e2 f)); auto; exfalso; apply true_chunk_neq; congruence.
  - (* PutBytes *)
    simpl in W. unfold has_arity in W. simpl in W. destruct (is_nil b) eqn:NB.
    + destruct b; try discriminate. reflexivity.
    + destruct d as [n|]; [|discriminate]. destruct (0 <? n) eqn:P; [|discriminate].
      simpl in D1, D2. apply Nat.ltb_lt in P.
      destruct (evalb b e1) as [x|] eqn:EV1; [|discriminate].
      destruct (evalb b e2) as [y|] eqn:EV2; [|discriminate].
      apply Nat.eqb_eq in D1, D2. simpl. f_equal. f_equal.
      eapply (put_bytes_inj H Z H_inj); [|exact E1|exact E2]. lia.
  - (* PutBytesN *)
    simpl in W. apply Nat.ltb_lt in W.
    destruct (evalb b e1) as [x|]; [|discriminate]. destruct (evalb b e2) as [y|]; [|discriminate].
    simpl. f_equal. f_equal. eapply put_bytes_n_inj; eauto.
  - (* PutHex20 *)
    destruct (from_0xhex (as_bytes (get e1 f)) 20) as [x|]; [|discriminate].
    destruct (from_0xhex (as_bytes (get e2 f)) 20) as [y|]; [|discriminate].
    simpl. f_equal. f_equal. eapply put_bytes_n_inj; [|exact E1|exact E2]. lia.
  - (* PutByteList *)
    simpl in W. apply N.ltb_lt in W.
    destruct (evalb b e1) as [x|]; [|discriminate]. destruct (evalb b e2) as [y|]; [|discriminate].
    simpl. f_equal. f_equal. eapply put_byte_list_inj; eauto.
  - (* PutK1SigList *)
    simpl in W. apply N.ltb_lt in W.
    destruct (evalb b e1) as [x|]; [|discriminate]. destruct (evalb b e2) as [y|]; [|discriminate].
    simpl. f_equal. f_equal. eapply put_k1_sig_list_inj; eauto.
  - (* PutU64Array *)
    simpl in D1, D2. apply N.ltb_lt in D1, D2.
    f_equal. f_equal.
    rewrite <- (map_map as_num (fun n => N.modulo n two64)).
    rewrite <- (map_map as_num (fun n => N.modulo n two64) (as_list (get e2 f))).
    eapply put_u64_array_inj; [| |exact E1|exact E2]; rewrite map_length; assumption.
  - (* Merk *)
    simpl in W. apply andb_true_iff in W. destruct W as [W A]. simpl in D1, D2.
    destruct (seq_opt (fun q => interp H Z q e1) ps) as [c1|] eqn:S1; [|discriminate].
    destruct (seq_opt (fun q => interp H Z q e2) ps) as [c2|] eqn:S2; [|discriminate].
    apply opt1_inv in E1. destruct E1 as [r1 [E1 ->]]. apply opt1_inv in E2. destruct E2 as [r2 [E2 C]].
    inversion C; subst r2.
    assert (c1 = c2).
    { eapply (merkleize_inj H Z H_inj); [|exact E1|exact E2].
      rewrite (seq_len ps e1 c1), (seq_len ps e2 c2); auto. }
    subst c2. eapply seq_inj; eauto.
    eapply Forall_impl; [|exact H0]. intros q [Q _]. exact Q.
  - (* MerkMixin *)
    simpl in W. destruct ps as [|[] [|]]; try discriminate.
    apply andb_true_iff in W. destruct W as [W A]. apply andb_true_iff in W. destruct W as [W WQ].
    apply andb_true_iff in W. destruct W as [PE LO]. apply path_eqb_eq in PE. subst f0.
    inversion H0 as [|? ? [_ IB] _]; subst. clear H0. simpl in IB.
    simpl in D1, D2.
    apply andb_true_iff in D1. destruct D1 as [B1 D1]. apply andb_true_iff in D1. destruct D1 as [D1 _].
    apply andb_true_iff in D2. destruct D2 as [B2 D2]. apply andb_true_iff in D2. destruct D2 as [D2 _].
    apply N.ltb_lt in B1, B2.
    simpl in E1, E2.
    destruct (seq_opt _ (as_list (get e1 f))) as [c1|] eqn:S1; [|discriminate].
    destruct (seq_opt _ (as_list (get e2 f))) as [c2|] eqn:S2; [|discriminate].
    rewrite app_nil_r in E1, E2.
    apply opt1_inv in E1. destruct E1 as [r1 [E1 ->]]. apply opt1_inv in E2. destruct E2 as [r2 [E2 C]].
    inversion C; subst r2.
    (* lengths first (from the mixed-in number), then the limits agree *)
    unfold mixin in E1, E2.
    destruct (merkleize H Z c1 (limit_of l e1)) as [m1|] eqn:M1; [|discriminate].
    destruct (merkleize H Z c2 (limit_of l e2)) as [m2|] eqn:M2; [|discriminate].
    inversion E1; inversion E2; subst. apply H_inj in H2. destruct H2 as [Hm Hn]. subst m2.
    apply u64chunk_inj in Hn. apply mod_small_eq in Hn; auto. apply Nat2N.inj in Hn.
    assert (LIM : limit_of l e2 = limit_of l e1).
    { destruct l; simpl in *; auto. apply path_eqb_eq in LO. subst f0. rewrite Hn. reflexivity. }
    rewrite LIM in M2.
    assert (c1 = c2).
    { eapply (merkleize_inj H Z H_inj); [|exact M1|exact M2].
      rewrite (each_len ps (as_list (get e1 f)) c1), (each_len ps (as_list (get e2 f)) c2); auto. }
    subst c2. simpl. rewrite !app_nil_r. rewrite Hn. f_equal.
    eapply each_inj; eauto.
  - (* ForEach *) discriminate.
  - simpl. eapply Forall_impl; [|exact H0]. intros q [Q _]. exact Q.
  - (* IfNonEmpty *) discriminate.
Qed.

Theorem interp_injective : forall p, inj_p p.
Proof. intro p. exact (proj1 (interp_injective_strong p)). Qed.

(* The statement in terms of the root (hh.HashRoot()). *)
Theorem root_injective : forall p e1 e2 r,
  wf p = true -> dom p e1 = true -> dom p e2 = true ->
  root H Z p e1 = Some r -> root H Z p e2 = Some r -> fields p e1 = fields p e2.
Proof.
  unfold root. intros p e1 e2 r W D1 D2 R1 R2.
  destruct (interp H Z p e1) as [[|c1 [|]]|] eqn:I1; try discriminate.
  destruct (interp H Z p e2) as [[|c2 [|]]|] eqn:I2; try discriminate.
  inversion R1; inversion R2; subst.
  eapply interp_injective; eauto.
Qed.

End Facts.

(* The hypothesis on H is satisfiable (the theorems are not vacuous): an injective pairing. *)
Definition pairH (a b : chunk) : chunk := N.of_nat (length a) :: a ++ b.

Lemma pairH_inj : forall a b c d, pairH a b = pairH c d -> a = c /\ b = d.
Proof.
  unfold pairH. intros a b c d E. inversion E as [[L E']]. apply Nat2N.inj in L.
  apply app_inj_len in E'; auto.
Qed.
