(* lock_consistent: the share half of C12, on top of the threshold algebra of Tbls/Shamir.v.

   Lock.VerifySignatures runs verifySharesReconstruct on every validator: the first t public shares
   recover the validator key, and so does every set {first t-1 shares, share i}, i >= t
   (Shamir.vsr_check transcribes it).  Shamir.verify_shares_reconstruct_sound turns that into "all n
   public shares lie on one polynomial of degree < t with the validator key as constant term".
   Consequences stated here: ANY >= t public shares of the lock recombine to the validator public
   key, and if every node's key share is the secret of its public share in the lock (what the C12
   harness checks on the key stores written by create-cluster), ANY >= t key shares recombine to a
   secret whose public key is the lock's validator key -- what `charon combine` checks at run time.

   G1 is any vector space over the scalar field with generator g1 (public key of s = s *: g1). *)
From mathcomp Require Import all_ssreflect all_algebra.
From Charon Require Import Tbls.Shamir.
Set Implicit Arguments.
Unset Strict Implicit.
Unset Printing Implicit Defensive.
Import GRing.Theory.
Local Open Scope ring_scope.

Section LockConsistent.
Variables (F : fieldType) (G1 : lmodType F) (g1 : G1).
Variable x : nat -> F.                       (* share identifier of node i (herumi: i+1 as scalar) *)
Variables (n t : nat).
Hypothesis Hdist : ids_distinct x (iota 0 n).
Hypothesis Hnz : ids_nonzero x (iota 0 n).

Definition pk (s : F) : G1 := s *: g1.

(* recombination of secret shares: the same Lagrange combination, in the scalar field *)
Definition recover_secret (js : seq nat) (s : nat -> F) : F := \sum_(j <- js) lam x js j * s j.

Lemma pk_recover js s : pk (recover_secret js s) = recover x js (fun j => pk (s j)).
Proof.
rewrite /pk /recover_secret /recover scaler_suml; apply: eq_bigr => j _.
by rewrite scalerA.
Qed.

Theorem public_shares_recombine dv (y : nat -> G1) :
  vsr_check x dv y n t ->
  forall js, uniq js -> {subset js <= iota 0 n} -> (t <= size js)%N ->
  recover x js y = dv.
Proof.
move=> chk js ujs sub tjs.
have t0 : (0 < t)%N by case/and4P: chk.
have [c [c0 yc]] := verify_shares_reconstruct_sound Hdist Hnz chk.
have U : ids_distinct x js := sub_ids_distinct Hdist ujs sub.
rewrite -c0 -(split_recover_lmod c U t0 tjs).
apply: recover_ext => j jin; apply: yc.
by have := sub _ jin; rewrite mem_iota add0n.
Qed.

Theorem lock_consistent dv (y : nat -> G1) (s : nat -> F) :
  vsr_check x dv y n t ->                                  (* the lock passes verifySharesReconstruct *)
  (forall i, (i < n)%N -> pk (s i) = y i) ->               (* node i's key share matches public share i *)
  forall js, uniq js -> {subset js <= iota 0 n} -> (t <= size js)%N ->
  recover x js y = dv /\ pk (recover_secret js s) = dv.
Proof.
move=> chk sy js ujs sub tjs.
have R := public_shares_recombine chk ujs sub tjs.
split=> //; rewrite pk_recover -R.
apply: recover_ext => j jin; apply: sy.
by have := sub _ jin; rewrite mem_iota add0n.
Qed.

End LockConsistent.
