(* Helpers of the translation-validation files gen/cases_C12_*.v: hex literals for byte strings and
   the comparison of a program's root under SHA-256 with the hash the Go code computed. *)
From Coq Require Import List NArith String Ascii.
From Charon Require Import Common.Sha256 Codec.SszTree Codec.HashProg.
Import ListNotations.

Definition hexv (c : ascii) : N :=
  let n := N_of_ascii c in
  if N.leb 97 n then (n - 87)%N else (n - 48)%N.      (* lower-case hex only (generated) *)

Fixpoint hx (s : string) : list N :=
  match s with
  | String a (String b r) => (16 * hexv a + hexv b)%N :: hx r
  | _ => []
  end.

(* zeroHashes[0..64] under SHA-256, computed once (fastssz computes the same table in init()) *)
Definition sha_zero_table : list chunk :=
  Eval vm_compute in
    (fix go (n : nat) (z : chunk) : list chunk :=
       match n with O => [] | S n' => z :: go n' (sha_pair z z) end) 65 zero_chunk.

Definition sha_zero (d : nat) : chunk := nth d sha_zero_table zero_chunk.

Example sha_zero_is_zero_hash : forallb (fun d => bytes_eqb (sha_zero d) (zero_hash sha_pair d)) (seq 0 20) = true.
Proof. vm_compute. reflexivity. Qed.

Definition opt_eqb (a b : option (list N)) : bool :=
  match a, b with
  | Some x, Some y => bytes_eqb x y
  | None, None => true
  | _, _ => false
  end.

(* ids of the cases whose Coq-evaluated root differs from the expected one *)
Definition tv_mismatches (cases : list (nat * hprog * value * option (list N))) : list nat :=
  flat_map (fun c => match c with (id, p, e, want) =>
                       if opt_eqb (root sha_pair sha_zero p e) want then [] else [id] end) cases.

Example hx_test : hx "00ff1a" = [0; 255; 26]%N.
Proof. reflexivity. Qed.
