(* Evaluation side of the C14 correspondence: the envelope / dispatch / set models of
   Codec/Envelope.v instantiated with oracles recorded from the Go code (the inner go-eth2-client
   codec's verdict on a given suffix; every single type's SSZ / JSON decoder verdict), so that the
   model's outcome on the very bytes Go saw can be compared with Go's outcome by vm_compute.
   Nothing here is used by the theorems. *)
From Coq Require Import List NArith ZArith Bool Ascii String Uint63.
From Charon Require Import Codec.Envelope.
Import ListNotations.
Local Open Scope N_scope.

(* Byte strings are shipped as primitive 63-bit integers holding 7 bytes each (little-endian inside a
   word) plus the byte count -- string / N literals of this size take minutes to elaborate.  The
   primitives appear only in these evaluation files, never under a theorem of Properties/C14.v. *)
Record packed := { p_len : N; p_words : list int }.

Fixpoint word_bytes (k : nat) (w : int) : bytes :=
  match k with
  | O => []
  | S k' => Z.to_N (Uint63.to_Z (Uint63.land w 255%uint63)) :: word_bytes k' (Uint63.lsr w 8%uint63)
  end.
Fixpoint unpack_words (n : nat) (ws : list int) : bytes :=
  match ws with
  | [] => []
  | w :: r => word_bytes (Nat.min n 7) w ++ unpack_words (n - 7) r
  end.
Definition unpack (p : packed) : bytes := unpack_words (N.to_nat (p_len p)) (p_words p).

Definition hexval (a : ascii) : N :=
  let n := N_of_ascii a in if n <? 58 then n - 48 else n - 87.
Fixpoint hex (s : string) : bytes :=
  match s with
  | String a (String b r) => (16 * hexval a + hexval b) :: hex r
  | _ => []
  end.

Fixpoint bytes_eqb (a b : bytes) : bool :=
  match a, b with
  | [], [] => true
  | x :: a', y :: b' => (x =? y) && bytes_eqb a' b'
  | _, _ => false
  end.

(* Inner-codec oracle: (version, blinded, start offset of the suffix in the whole input, class)
   class 0 = decoded, 1 = error that Is ssz.ErrOffset, 2 = other error.  A missing entry makes the
   model answer OMissing, which never equals a Go outcome. *)
Definition oracle := list (N * bool * N * N).
Fixpoint olookup (o : oracle) (ver : N) (bl : bool) (start : N) : option N :=
  match o with
  | [] => None
  | (v, b, s, c) :: r => if (v =? ver) && Bool.eqb b bl && (s =? start) then Some c else olookup r ver bl start
  end.

Inductive shape := SB | SV | SAtt | SA.

Inductive outcome :=
| OErr
| OOk (ver : N) (flag : bool) (idx : option N) (pstart : N)
| OOkA (o0 o1 : N) (u : duty)
| OPanic
| OMissing.

(* payload = Some raw-suffix (decoded) ; the oracle decides, [None] inside IOk marks a missing entry *)
Definition odec (o : oracle) (total : N) (ver : N) (bl : bool) (pb : bytes) : ires (option bytes) :=
  match olookup o ver bl (total - N.of_nat (List.length pb)) with
  | Some 0 => IOk (Some pb)
  | Some 1 => IErr true
  | Some _ => IErr false
  | None => IOk None
  end.

Definition run_shape (sh : shape) (o : oracle) (b : bytes) : outcome :=
  let total := N.of_nat (List.length b) in
  match sh with
  | SB =>
      match decB (option bytes) (odec o total) b with
      | Ok (ver, bl, Some pb) => OOk ver bl None (total - N.of_nat (List.length pb))
      | Ok (_, _, None) => OMissing
      | Err _ => OErr
      | Panic => OPanic
      end
  | SV =>
      match decV (option bytes) (fun ver => odec o total ver false) b with
      | Ok (ver, Some pb) => OOk ver false None (total - N.of_nat (List.length pb))
      | Ok (_, None) => OMissing
      | Err _ => OErr
      | Panic => OPanic
      end
  | SAtt =>
      match decAtt (option bytes) (fun ver => odec o total ver false) false b with
      | Ok (ver, idx, Some pb) => OOk ver false idx (total - N.of_nat (List.length pb))
      | Ok (_, _, None) => OMissing
      | Err _ => OErr
      | Panic => OPanic
      end
  | SA => OMissing   (* run_A below *)
  end.

(* shape A needs the two offsets for the oracle key, so it is run with a decoder that carries them *)
Definition run_A (o : oracle) (b : bytes) : outcome :=
  let total := N.of_nat (List.length b) in
  (* the data slice is b[o0:o1]; its oracle key is (o0, false, o1); recover o0/o1 from the header *)
  match slice b 0 4, slice b 4 8 with
  | Some h0, Some h1 =>
      let o0 := le_dec h0 in let o1 := le_dec h1 in
      match decA (option unit)
              (fun db => match olookup o o0 false o1 with
                         | Some 0 => IOk (Some tt) | Some 1 => IErr true | Some _ => IErr false | None => IOk None end) b with
      | Ok (Some _, u) => OOkA o0 o1 u
      | Ok (None, _) => OMissing
      | Err _ => OErr
      | Panic => OPanic
      end
  | _, _ =>
      match decA (option unit) (fun db => IOk None) b with
      | Ok _ => OMissing | Err _ => OErr | Panic => OPanic
      end
  end.

Definition run (sh : shape) (o : oracle) (b : bytes) : outcome :=
  match sh with SA => run_A o b | _ => run_shape sh o b end.

Definition opt_eqb (a b : option N) : bool :=
  match a, b with None, None => true | Some x, Some y => x =? y | _, _ => false end.
Definition duty_eqb (a b : duty) : bool :=
  bytes_eqb (d_pk a) (d_pk b) && (d_slot a =? d_slot b) && (d_vidx a =? d_vidx b) && (d_cidx a =? d_cidx b)
  && (d_clen a =? d_clen b) && (d_cats a =? d_cats b) && (d_vcidx a =? d_vcidx b).
Definition outcome_eqb (a b : outcome) : bool :=
  match a, b with
  | OErr, OErr => true
  | OOk v f i p, OOk v' f' i' p' => (v =? v') && Bool.eqb f f' && opt_eqb i i' && (p =? p')
  | OOkA a0 a1 u, OOkA b0 b1 u' => (a0 =? b0) && (a1 =? b1) && duty_eqb u u'
  | OPanic, OPanic => true
  | _, _ => false
  end.

Definition outcome_eqb_k (known : bool) (a b : outcome) : bool :=
  match a, b with
  | OOk v f i p, OOk v' f' i' p' => (v =? v') && Bool.eqb f f' && opt_eqb i i' && (negb known || (p =? p'))
  | _, _ => outcome_eqb a b
  end.

(* re-encoding by the model of what Go decoded: header fields as Go reports them, inner bytes as Go's
   inner MarshalSSZ produced them; must equal Go's MarshalSSZ of the whole value *)
Definition reenc (sh : shape) (exp : outcome) (inner : bytes) (inner2 : bytes) : option bytes :=
  match sh, exp with
  | SB, OOk ver fl _ _ => encB bytes (fun _ _ p => p) (ver, fl, inner)
  | SV, OOk ver _ _ _ => encV bytes (fun _ p => p) (ver, inner)
  | SAtt, OOk ver _ idx _ => encAtt bytes (fun _ p => p) (ver, idx, inner)
  | SA, OOkA _ _ u => Some (encA bytes (fun p => p) (inner, u))
  | _, _ => None
  end.

Record ecase := {
  e_id : N; e_shape : shape; e_bytes : packed; e_oracle : oracle;
  e_expect : outcome;        (* what Go did with e_bytes *)
  e_pstart_known : bool;     (* false: the inner value does not re-marshal to a suffix of the input, payload start not compared *)
  e_inner : option packed;   (* when Go decoded: inner value re-marshalled by Go; None = the suffix of the input
                                from the expected payload start (the harness checked that equality) *)
  e_reenc : option packed    (* when Go decoded: whole value re-marshalled by Go; None = equal to the input *)
}.

(* 1 = outcome differs, 2 = re-encoding differs *)
Definition check_ecase (c : ecase) : list (N * N) :=
  let b := unpack (e_bytes c) in
  let got := run (e_shape c) (e_oracle c) b in
  (if outcome_eqb_k (e_pstart_known c) got (e_expect c) then [] else [(e_id c, 1)]) ++
  match e_expect c with
  | OOk _ _ _ _ | OOkA _ _ _ =>
      let inner :=
        match e_inner c, e_expect c with
        | Some p, _ => unpack p
        | None, OOk _ _ _ ps => skipn (N.to_nat ps) b
        | None, OOkA o0 o1 _ => match slice b (N.to_nat o0) (N.to_nat o1) with Some x => x | None => [] end
        | None, _ => []
        end in
      let want := match e_reenc c with Some p => unpack p | None => b end in
      match reenc (e_shape c) (e_expect c) inner [] with
      | Some r => if bytes_eqb r want then [] else [(e_id c, 2)]
      | None => [(e_id c, 2)]
      end
  | _ => []
  end.

Definition ecases_mismatch (cs : list ecase) : list (N * N) := flat_map check_ecase cs.

(* ------------------------------------------------------------------------------------------- *)
(* dispatch cases *)
Definition s_has_ssz (t : stype) : bool :=
  match t with
  | TVersionedAttestation | TVersionedSignedProposal | TSignedAggregateAndProof
  | TVersionedSignedAggregateAndProof | TSignedSyncMessage | TSignedSyncContributionAndProof
  (* not SSZ on the way out (marshal sees a value whose method set has no MarshalSSZ), but the pointer
     handed to unmarshal inherits UnmarshalSSZ from the embedded go-eth2-client struct: *)
  | TSignedVoluntaryExit | TVersionedSignedValidatorRegistration => true
  | _ => false
  end.
Definition u_has_ssz (t : utype) : bool :=
  match t with USyncContributions => false | _ => true end.

Definition stype_eqb (a b : stype) : bool :=
  match a, b with
  | TVersionedAttestation, TVersionedAttestation | TVersionedSignedProposal, TVersionedSignedProposal
  | TVersionedSignedValidatorRegistration, TVersionedSignedValidatorRegistration
  | TSignedVoluntaryExit, TSignedVoluntaryExit | TSignedRandao, TSignedRandao | TSignature, TSignature
  | TBeaconCommitteeSelection, TBeaconCommitteeSelection | TSignedAggregateAndProof, TSignedAggregateAndProof
  | TVersionedSignedAggregateAndProof, TVersionedSignedAggregateAndProof | TSignedSyncMessage, TSignedSyncMessage
  | TSyncCommitteeSelection, TSyncCommitteeSelection
  | TSignedSyncContributionAndProof, TSignedSyncContributionAndProof => true
  | _, _ => false
  end.
Definition utype_eqb (a b : utype) : bool :=
  match a, b with
  | UAttestationData, UAttestationData | UVersionedProposal, UVersionedProposal
  | UVersionedAggregatedAttestation, UVersionedAggregatedAttestation | UAggregatedAttestation, UAggregatedAttestation
  | USyncContributions, USyncContributions | USyncContribution, USyncContribution => true
  | _, _ => false
  end.

(* oracle entry: (type, pointer implements ssz.Unmarshaler, SSZ decoder accepts, JSON decoder accepts,
   SSZ-decoded value usable, JSON-decoded value usable).  Decoded values are modelled by
   1 = unusable (MessageRoot / Signature / Clone resp. MarshalJSON / Clone fail or panic), 2 = usable,
   0 = the oracle has no entry or disagrees with the model's has-SSZ table (never matches Go). *)
Definition orow (Ty : Type) := (Ty * bool * bool * bool * bool * bool)%type.
Definition uval (u : bool) : N := if u then 2 else 1.
Fixpoint lookup_s (l : list (orow stype)) (t : stype) : option (bool * bool * bool * bool) :=
  match l with
  | [] => None
  | (t', h, s, j, us, uj) :: r =>
      if stype_eqb t t' then (if Bool.eqb h (s_has_ssz t) then Some (s, j, us, uj) else None) else lookup_s r t
  end.
Fixpoint lookup_u (l : list (orow utype)) (t : utype) : option (bool * bool * bool * bool) :=
  match l with
  | [] => None
  | (t', h, s, j, us, uj) :: r =>
      if utype_eqb t t' then (if Bool.eqb h (u_has_ssz t) then Some (s, j, us, uj) else None) else lookup_u r t
  end.

Definition sdec_o (l : list (orow stype)) (t : stype) (b : bytes) : option N :=
  match lookup_s l t with
  | None => Some 0
  | Some (s, j, us, uj) =>
      unmarshal N (if s_has_ssz t then Some (fun _ => if s then Some (uval us) else None) else None)
                (fun _ => if j then Some (uval uj) else None) b
  end.
Definition udec_o (l : list (orow utype)) (t : utype) (b : bytes) : option N :=
  match lookup_u l t with
  | None => Some 0
  | Some (s, j, us, uj) =>
      unmarshal N (if u_has_ssz t then Some (fun _ => if s then Some (uval us) else None) else None)
                (fun _ => if j then Some (uval uj) else None) b
  end.

Record scase := { s_id : N; s_duty : dutytype; s_prefix : packed;
                  s_oracle : list (orow stype);
                  s_expect : option stype;                 (* Go type returned, None = error *)
                  s_verify : option vuse }.                (* what the real parsigex verifier did with the value; None = no value, or it panicked *)
Record ucase := { u_id : N; u_duty : dutytype; u_prefix : packed;
                  u_oracle : list (orow utype); u_expect : option utype }.

(* the code under test validates decoded values before returning them (commit 83a4e02) *)
Definition check_scase (c : scase) : list N :=
  let r := validated N (fun v => negb (v =? 1))
             (sdispatch N (sdec_o (s_oracle c)) (s_duty c) (unpack (s_prefix c))) in
  match r, s_expect c with
  | None, None => []
  | Some (t, 0), _ => [s_id c]
  | Some (t, _), Some t' =>
      if stype_eqb t t' then
        match s_verify c, verifier_use t with
        | Some VNotEth2, VNotEth2 | Some VRan, VRan => []
        | _, _ => [s_id c]
        end
      else [s_id c]
  | _, _ => [s_id c]
  end.
Definition check_ucase (c : ucase) : list N :=
  let r := validated N (fun v => negb (v =? 1))
             (udispatch N (udec_o (u_oracle c)) (u_duty c) (unpack (u_prefix c))) in
  match r, u_expect c with
  | None, None => []
  | Some (t, 0), _ => [u_id c]
  | Some (t, _), Some t' => if utype_eqb t t' then [] else [u_id c]
  | _, _ => [u_id c]
  end.

(* ------------------------------------------------------------------------------------------- *)
(* set cases: keys and values as hex strings; the key order of deterministic proto marshalling is
   the byte-wise order of the key strings *)
Fixpoint bytes_leb (a b : bytes) : bool :=
  match a, b with
  | [], _ => true
  | _ :: _, [] => false
  | x :: a', y :: b' => if x <? y then true else if y <? x then false else bytes_leb a' b'
  end.

(* The observed order of map entries in Go's deterministic encoding (list of keys, in wire order) must
   be the model's sorted order. *)
Record setcase := { t_id : N; t_keys_inserted : list packed; t_keys_wire : list packed }.
Definition check_setcase (c : setcase) : list N :=
  let ins := map (fun k => (unpack k, @nil N)) (t_keys_inserted c) in
  let sorted := map fst (sort_entries bytes bytes_leb ins) in
  let wire := map unpack (t_keys_wire c) in
  if (fix eq (a b : list bytes) : bool :=
        match a, b with [], [] => true | x :: a', y :: b' => bytes_eqb x y && eq a' b' | _, _ => false end) sorted wire
  then [] else [t_id c].
