(* A minimal heap model for property C18 (values passed between workflow components are isolated
   copies).

   Values are finite trees (a leaf is a scalar cell; a node is a struct / slice / map whose
   children are reached through pointers).  The heap is a list of cells; a location is an index;
   a node cell holds the locations of its children, so that two values CAN share a child cell, a
   sub-tree or everything (aliasing is expressible).  A handle is a root location held by some
   party (a caller, a store, a subscriber).

   Every component API path is a script over
     LAlloc t        a party builds a fresh value t                      (new handle)
     LCross p i      the value under handle i crosses component boundary path p and the receiver
                     gets a new handle: a deep copy into fresh locations if [pol p = Clone], the
                     same root if [pol p = Share]
     LMutate i pa v  the holder of handle i writes v into the leaf at tree path pa
     LRead i t       the holder of handle i reads its value and sees t    (observation)
   e.g. "store x, await, await" is  LCross in x; LCross out s; LCross out s.

   [step] is the heap semantics (operational: pointer following, in-place write, deep copy by
   reading the reachable graph and laying it out at fresh locations).  The monitor (a function of
   the label sequence alone) is value semantics: every handle behaves as a private value that only
   its own holder's writes change.  Facts are in HeapFacts.v. *)
From Coq Require Import List Arith Lia Bool.
Import ListNotations.

Definition loc := nat.

Inductive tree := TLeaf (v : nat) | TNode (ts : list tree).
Inductive cell := CLeaf (v : nat) | CNode (ks : list loc).
Definition heap := list cell.

(* Induction principle for the nested inductive type. *)
Section TreeInd.
  Variable P : tree -> Prop.
  Hypothesis Hleaf : forall v, P (TLeaf v).
  Hypothesis Hnode : forall ts, Forall P ts -> P (TNode ts).
  Fixpoint tree_ind' (t : tree) : P t :=
    match t with
    | TLeaf v => Hleaf v
    | TNode ts =>
        Hnode ts ((fix go (l : list tree) : Forall P l :=
                     match l with
                     | [] => Forall_nil P
                     | x :: r => Forall_cons x (tree_ind' x) (go r)
                     end) ts)
    end.
End TreeInd.

Fixpoint tree_eqb (a b : tree) : bool :=
  match a, b with
  | TLeaf v, TLeaf w => Nat.eqb v w
  | TNode ts, TNode us =>
      (fix go (l m : list tree) : bool :=
         match l, m with
         | [], [] => true
         | x :: l', y :: m' => tree_eqb x y && go l' m'
         | _, _ => false
         end) ts us
  | _, _ => false
  end.

Fixpoint trees_eqb (l m : list tree) : bool :=
  match l, m with
  | [], [] => true
  | x :: l', y :: m' => tree_eqb x y && trees_eqb l' m'
  | _, _ => false
  end.

(* number of cells of a value *)
Fixpoint size (t : tree) : nat :=
  match t with
  | TLeaf _ => 1
  | TNode ts => S (list_sum (map size ts))
  end.
Definition sizes (ts : list tree) : nat := list_sum (map size ts).

(* Pre-order layout of a value at base address [base]: the root cell first, then the children
   one after the other; a node cell records where each child starts. *)
Fixpoint layout (base : nat) (t : tree) : list cell :=
  match t with
  | TLeaf v => [CLeaf v]
  | TNode ts =>
      CNode ((fix kids (b : nat) (l : list tree) : list loc :=
                match l with [] => [] | x :: r => b :: kids (b + size x) r end) (S base) ts)
      :: (fix lays (b : nat) (l : list tree) : list cell :=
            match l with [] => [] | x :: r => layout b x ++ lays (b + size x) r end) (S base) ts
  end.

Fixpoint kids (b : nat) (l : list tree) : list loc :=
  match l with [] => [] | x :: r => b :: kids (b + size x) r end.
Fixpoint layouts (b : nat) (l : list tree) : list cell :=
  match l with [] => [] | x :: r => layout b x ++ layouts (b + size x) r end.

(* Reading a value: follow the pointers.  Fuel bounds the depth; [read] gives as much fuel as the
   heap has cells. *)
Fixpoint readf (n : nat) (h : heap) (l : loc) : option tree :=
  match n with
  | 0 => None
  | S n' =>
      match nth_error h l with
      | Some (CLeaf v) => Some (TLeaf v)
      | Some (CNode ks) =>
          option_map TNode
            ((fix go (ks : list loc) : option (list tree) :=
                match ks with
                | [] => Some []
                | k :: r =>
                    match readf n' h k, go r with
                    | Some t, Some ts => Some (t :: ts)
                    | _, _ => None
                    end
                end) ks)
      | None => None
      end
  end.

Fixpoint reads (n : nat) (h : heap) (ks : list loc) : option (list tree) :=
  match ks with
  | [] => Some []
  | k :: r =>
      match readf n h k, reads n h r with
      | Some t, Some ts => Some (t :: ts)
      | _, _ => None
      end
  end.

Definition read (h : heap) (l : loc) : option tree := readf (length h) h l.

(* Reachability through child pointers. *)
Inductive reach (h : heap) : loc -> loc -> Prop :=
| reach_here : forall l c, nth_error h l = Some c -> reach h l l
| reach_kid : forall l ks k m, nth_error h l = Some (CNode ks) -> In k ks -> reach h k m -> reach h l m.

(* In-place update of one list element. *)
Fixpoint upd {A : Type} (l : list A) (i : nat) (x : A) : list A :=
  match l, i with
  | [], _ => []
  | _ :: r, 0 => x :: r
  | y :: r, S i' => y :: upd r i' x
  end.

(* The location of the leaf at tree path [p] below [l]. *)
Fixpoint hfind (h : heap) (p : list nat) (l : loc) : option loc :=
  match p with
  | [] => match nth_error h l with Some (CLeaf _) => Some l | _ => None end
  | k :: p' =>
      match nth_error h l with
      | Some (CNode ks) => match nth_error ks k with Some l' => hfind h p' l' | None => None end
      | _ => None
      end
  end.

(* The same write on a value. *)
Fixpoint tset (p : list nat) (v : nat) (t : tree) : option tree :=
  match p, t with
  | [], TLeaf _ => Some (TLeaf v)
  | k :: p', TNode ts =>
      match nth_error ts k with
      | Some tk => match tset p' v tk with Some tk' => Some (TNode (upd ts k tk')) | None => None end
      | None => None
      end
  | _, _ => None
  end.

(* ------------------------------------------------------------------------------------------ *)
(* The labelled transition system. *)

Inductive policy := Clone | Share.

Definition policy_eqb (a b : policy) : bool :=
  match a, b with Clone, Clone | Share, Share => true | _, _ => false end.

Inductive label :=
| LAlloc (t : tree)
| LCross (p : nat) (i : nat)
| LMutate (i : nat) (pa : list nat) (v : nat)
| LRead (i : nat) (t : tree).

Record state := mk { hp : heap; roots : list loc }.

Definition init : state := mk [] [].

Definition alloc (s : state) (t : tree) : state :=
  mk (hp s ++ layout (length (hp s)) t) (roots s ++ [length (hp s)]).

Section LTS.
Variable pol : nat -> policy.   (* the component boundary policy table: path -> clone | share *)

Definition step (s : state) (l : label) : option state :=
  match l with
  | LAlloc t => Some (alloc s t)
  | LCross p i =>
      match nth_error (roots s) i with
      | None => None
      | Some r =>
          match pol p with
          | Share => Some (mk (hp s) (roots s ++ [r]))
          | Clone => match read (hp s) r with Some t => Some (alloc s t) | None => None end
          end
      end
  | LMutate i pa v =>
      match nth_error (roots s) i with
      | None => None
      | Some r =>
          match hfind (hp s) pa r with
          | Some m => Some (mk (upd (hp s) m (CLeaf v)) (roots s))
          | None => None
          end
      end
  | LRead i t =>
      match nth_error (roots s) i with
      | None => None
      | Some r =>
          match read (hp s) r with
          | Some t' => if tree_eqb t t' then Some s else None
          | None => None
          end
      end
  end.

Fixpoint run (s : state) (ls : list label) : option state :=
  match ls with
  | [] => Some s
  | l :: r => match step s l with Some s' => run s' r | None => None end
  end.

(* index of the first label the model refuses *)
Fixpoint first_reject (s : state) (ls : list label) (i : nat) : option nat :=
  match ls with
  | [] => None
  | l :: r => match step s l with Some s' => first_reject s' r (S i) | None => Some i end
  end.

End LTS.

(* ------------------------------------------------------------------------------------------ *)
(* The monitor: value semantics.  The ghost state is the private value of every handle. *)

Definition gstep (g : list tree) (l : label) : option (list tree) :=
  match l with
  | LAlloc t => Some (g ++ [t])
  | LCross _ i => match nth_error g i with Some t => Some (g ++ [t]) | None => None end
  | LMutate i pa v =>
      match nth_error g i with
      | Some t => match tset pa v t with Some t' => Some (upd g i t') | None => None end
      | None => None
      end
  | LRead i t =>
      match nth_error g i with
      | Some t' => if tree_eqb t t' then Some g else None
      | None => None
      end
  end.

Fixpoint grun (g : list tree) (ls : list label) : option (list tree) :=
  match ls with
  | [] => Some g
  | l :: r => match gstep g l with Some g' => grun g' r | None => None end
  end.

Definition monitor (ls : list label) : bool :=
  match grun [] ls with Some _ => true | None => false end.

Fixpoint first_violation (g : list tree) (ls : list label) (i : nat) : option nat :=
  match ls with
  | [] => None
  | l :: r => match gstep g l with Some g' => first_violation g' r (S i) | None => Some i end
  end.

(* every boundary crossing of the history uses a path whose policy is Clone *)
Definition crosses_clone (pol : nat -> policy) (ls : list label) : Prop :=
  forall p i, In (LCross p i) ls -> pol p = Clone.

(* ------------------------------------------------------------------------------------------ *)
(* Policy tables (what the harness observes). *)

Definition table := list (nat * policy).

Fixpoint pol_of (tb : table) (p : nat) : policy :=
  match tb with
  | [] => Share                       (* a path that was not observed is not assumed to clone *)
  | (q, x) :: r => if Nat.eqb q p then x else pol_of r p
  end.

Definition all_clone (tb : table) : bool :=
  forallb (fun e => policy_eqb (snd e) Clone) tb.

Definition share_entries (tb : table) : list nat :=
  map fst (filter (fun e => policy_eqb (snd e) Share) tb).

Fixpoint paths_of (ls : list label) : list nat :=
  match ls with
  | [] => []
  | LCross p _ :: r => p :: paths_of r
  | _ :: r => paths_of r
  end.

Definition covered (tb : table) (ls : list label) : bool :=
  forallb (fun p => existsb (fun e => Nat.eqb (fst e) p) tb) (paths_of ls).
