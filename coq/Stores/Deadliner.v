(* Model of core/deadline.go (deadliner.run / Add / C / getCurrDuty).

   The model is a labelled transition system  step : state -> label -> option state.
   A label carries what an observer of the real component sees (the status returned by Add, the
   duty pushed to C(), a "channel full" drop, a value read from C(), quiescence), so that
   the correspondence check is trace inclusion: the label sequence recorded from the Go
   component must be accepted by [run].  Theorems (DeadlinerFacts.v) quantify over every
   accepted label sequence, i.e. over every interleaving of registrations, clock advances, timer
   firings and reads -- including the ones in which a ready timer is served after further Adds.

   Nondeterminism of Go's map iteration in getCurrDuty (which of several duties with the earliest
   deadline becomes currDuty) is kept as the candidate set [cands]: it is fixed when
   setCurrState runs and resolved only when the timer fires.

   Not modelled: the ~292-year timer armed while no duty is pending; context cancellation. *)
From Coq Require Import List ZArith NArith Bool.
Import ListNotations.
Local Open Scope Z_scope.

Inductive status := Expired | Scheduled | Exempt.

Definition status_eqb (a b : status) : bool :=
  match a, b with
  | Expired, Expired | Scheduled, Scheduled | Exempt, Exempt => true
  | _, _ => false
  end.

Inductive label :=
| LAdd (d : N) (st : status)   (* Add(d) returned st *)
| LAdv (dt : Z)                (* the clock advanced by dt >= 0 *)
| LFire (d : N)                (* timer case: d sent on the output channel *)
| LDrop (d : N)                (* timer case: output channel full, d logged and dropped *)
| LRead (d : N)                (* consumer received d from C() *)
| LQuiet.                      (* the run goroutine is blocked in select with no ready timer *)

Definition cap : nat := 10.    (* outputBuffer *)

Fixpoint mem (d : N) (l : list N) : bool :=
  match l with [] => false | x :: r => N.eqb x d || mem d r end.
Definition add (d : N) (l : list N) : list N := if mem d l then l else l ++ [d].
Fixpoint remove (d : N) (l : list N) : list N :=
  match l with [] => [] | x :: r => if N.eqb x d then remove d r else x :: remove d r end.

Section Deadliner.
Variable dl : N -> option Z.    (* DeadlineFunc: None = never expires *)

Definition dlz (d : N) : Z := match dl d with Some t => t | None => 0 end.

Record state := mk { now : Z; duties : list N; cands : list N; cdl : option Z; out : list N }.

Definition init : state := mk 0 [] [] None [].

Fixpoint min_dl (l : list N) : option Z :=
  match l with
  | [] => None
  | d :: r => match min_dl r with None => Some (dlz d) | Some m => Some (Z.min (dlz d) m) end
  end.

(* setCurrState / getCurrDuty *)
Definition set_curr (s : state) : state :=
  let m := min_dl (duties s) in
  mk (now s) (duties s)
     (match m with None => [] | Some t => filter (fun d => dlz d =? t) (duties s) end)
     m (out s).

Definition lt_cdl (t : Z) (c : option Z) : bool :=
  match c with None => true | Some m => t <? m end.

Definition enabled (s : state) : bool :=
  match cdl s with Some t => t <=? now s | None => false end.

(* [strict] = true is the code before the repair of F4 (refuse only deadline < now). *)
Definition expired_at (strict : bool) (t nw : Z) : bool := if strict then t <? nw else t <=? nw.

Definition step_gen (strict : bool) (s : state) (l : label) : option state :=
  match l with
  | LAdd d st =>
      match dl d with
      | None => if status_eqb st Exempt then Some s else None
      | Some t =>
          if expired_at strict t (now s) then (if status_eqb st Expired then Some s else None)
          else if status_eqb st Scheduled then
                 let s1 := mk (now s) (add d (duties s)) (cands s) (cdl s) (out s) in
                 Some (if lt_cdl t (cdl s) then set_curr s1 else s1)
               else None
      end
  | LAdv dt => if 0 <=? dt then Some (mk (now s + dt) (duties s) (cands s) (cdl s) (out s)) else None
  | LFire d =>
      if enabled s && mem d (cands s) && Nat.ltb (length (out s)) cap
      then Some (set_curr (mk (now s) (remove d (duties s)) (cands s) (cdl s) (out s ++ [d])))
      else None
  | LDrop d =>
      if enabled s && mem d (cands s) && Nat.leb cap (length (out s))
      then Some (set_curr (mk (now s) (remove d (duties s)) (cands s) (cdl s) (out s)))
      else None
  | LRead d =>
      match out s with
      | x :: r => if N.eqb x d then Some (mk (now s) (duties s) (cands s) (cdl s) r) else None
      | [] => None
      end
  | LQuiet => if enabled s then None else Some s
  end.

Definition step := step_gen false.

Fixpoint run_gen (strict : bool) (s : state) (ls : list label) : option state :=
  match ls with
  | [] => Some s
  | l :: r => match step_gen strict s l with Some s' => run_gen strict s' r | None => None end
  end.

Definition run := run_gen false.

(* Index of the first label the model refuses (None = whole trace accepted). *)
Fixpoint first_reject (strict : bool) (s : state) (ls : list label) (i : nat) : option nat :=
  match ls with
  | [] => None
  | l :: r => match step_gen strict s l with Some s' => first_reject strict s' r (S i) | None => Some i end
  end.

(* ---- The property, read off the trace alone (no model state). ---- *)

Record ghost := mkg { g_time : Z; g_pending : list N; g_reported : list N; g_queue : list N }.
Definition ginit : ghost := mkg 0 [] [] [].

Definition all_ge (t : Z) (l : list N) : bool := forallb (fun d => t <=? dlz d) l.
Definition all_gt (t : Z) (l : list N) : bool := forallb (fun d => t <? dlz d) l.

(* [check g l] : label l is consistent with the property in ghost state g. *)
Definition check (g : ghost) (l : label) : bool :=
  match l with
  | LAdd d st =>
      match dl d with
      | None => status_eqb st Exempt
      | Some t => if t <? g_time g then status_eqb st Expired
                  else if g_time g <? t then status_eqb st Scheduled
                  else negb (status_eqb st Exempt)
      end
  | LAdv dt => 0 <=? dt
  | LFire d =>
      mem d (g_pending g) && negb (mem d (g_reported g)) && (dlz d <=? g_time g)
      && all_ge (dlz d) (g_pending g)
  | LDrop d =>
      mem d (g_pending g) && negb (mem d (g_reported g)) && (dlz d <=? g_time g)
      && all_ge (dlz d) (g_pending g) && Nat.leb cap (length (g_queue g))
  | LRead d => match g_queue g with x :: _ => N.eqb x d | [] => false end
  | LQuiet => all_gt (g_time g) (g_pending g)
  end.

Definition gstep (g : ghost) (l : label) : ghost :=
  match l with
  | LAdd d Scheduled => mkg (g_time g) (add d (g_pending g)) (g_reported g) (g_queue g)
  | LAdd _ _ => g
  | LAdv dt => mkg (g_time g + dt) (g_pending g) (g_reported g) (g_queue g)
  | LFire d => mkg (g_time g) (remove d (g_pending g)) (d :: g_reported g) (g_queue g ++ [d])
  | LDrop d => mkg (g_time g) (remove d (g_pending g)) (d :: g_reported g) (g_queue g)
  | LRead d => mkg (g_time g) (g_pending g) (g_reported g) (tl (g_queue g))
  | LQuiet => g
  end.

Fixpoint monitor_from (g : ghost) (ls : list label) : bool :=
  match ls with [] => true | l :: r => check g l && monitor_from (gstep g l) r end.
Definition monitor := monitor_from ginit.

Fixpoint first_violation (g : ghost) (ls : list label) (i : nat) : option nat :=
  match ls with
  | [] => None
  | l :: r => if check g l then first_violation (gstep g l) r (S i) else Some i
  end.

End Deadliner.
