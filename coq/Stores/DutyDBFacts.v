(* Proofs about the duty store model: every trace accepted by the model satisfies the trace
   monitor (which transcribes property C06), plus the Prop-level readings of the monitor and the
   state-level facts (clash handling, refusal of expired duties, no lost wake-up). *)
From Coq Require Import List NArith Bool Lia.
From Charon Require Import Stores.DutyDB.
Import ListNotations.
Local Open Scope N_scope.

(* ---------- decidable equalities ---------- *)
Lemma kind_eqb_eq a b : kind_eqb a b = true <-> a = b.
Proof. destruct a, b; simpl; split; intro H; try reflexivity; try discriminate. Qed.
Lemma dtype_eqb_eq a b : dtype_eqb a b = true <-> a = b.
Proof. destruct a, b; simpl; split; intro H; try reflexivity; try discriminate. Qed.
Lemma err_eqb_eq a b : err_eqb a b = true <-> a = b.
Proof. destruct a, b; simpl; split; intro H; try reflexivity; try discriminate. Qed.
Lemma res_eqb_eq a b : res_eqb a b = true <-> a = b.
Proof.
  destruct a as [x|], b as [y|]; simpl; try (split; [discriminate|discriminate]); try tauto.
  rewrite err_eqb_eq. split; congruence.
Qed.
Lemma key_eqb_eq x y : key_eqb x y = true <-> x = y.
Proof.
  destruct x as [a b c d], y as [a' b' c' d']. unfold key_eqb. simpl.
  rewrite !andb_true_iff, kind_eqb_eq, !N.eqb_eq. split.
  - intros [[[-> ->] ->] ->]. reflexivity.
  - intro H. injection H as -> -> -> ->. tauto.
Qed.
Lemma key_eqb_refl x : key_eqb x x = true.
Proof. apply key_eqb_eq. reflexivity. Qed.
Lemma key_eqb_neq x y : key_eqb x y = false <-> x <> y.
Proof. rewrite <- key_eqb_eq. destruct (key_eqb x y); split; congruence. Qed.
Lemma pkkey_eqb_eq x y : pkkey_eqb x y = true <-> x = y.
Proof.
  destruct x as [[a b] c], y as [[a' b'] c']. simpl.
  rewrite !andb_true_iff, !N.eqb_eq. split.
  - intros [[-> ->] ->]. reflexivity.
  - intro H. injection H as -> -> ->. tauto.
Qed.
Lemma duty_eqb_eq x y : duty_eqb x y = true <-> x = y.
Proof.
  destruct x as [a b], y as [a' b']. unfold duty_eqb. simpl.
  rewrite andb_true_iff, dtype_eqb_eq, N.eqb_eq. split; [intros [-> ->]; reflexivity | intro H; injection H as -> ->; tauto].
Qed.
Lemma status_not_sched st : st <> Scheduled -> st = Expired \/ st = Exempt.
Proof. destruct st; intro H; [left|congruence|right]; reflexivity. Qed.

Lemma in_keys_In k l : in_keys k l = true <-> In k l.
Proof.
  unfold in_keys. rewrite existsb_exists. split.
  - intros [x [Hx He]]. apply key_eqb_eq in He. subst. exact Hx.
  - intro H. exists k. split; [exact H | apply key_eqb_refl].
Qed.
Lemma in_duties_In d l : in_duties d l = true <-> In d l.
Proof.
  unfold in_duties. rewrite existsb_exists. split.
  - intros [x [Hx He]]. apply duty_eqb_eq in He. subst. exact Hx.
  - intro H. exists d. split; [exact H | apply duty_eqb_eq; reflexivity].
Qed.
Lemma pair_in_In k c l : pair_in k c l = true <-> In (k, c) l.
Proof.
  unfold pair_in. rewrite existsb_exists. split.
  - intros [[k' c'] [Hx He]]. simpl in He. apply andb_true_iff in He. destruct He as [H1 H2].
    apply key_eqb_eq in H1. apply N.eqb_eq in H2. subst. exact Hx.
  - intro H. exists (k, c). split; [exact H|]. simpl. rewrite key_eqb_refl, N.eqb_refl. reflexivity.
Qed.
Lemma pk_in_In k c l : pk_in k c l = true <-> In (k, c) l.
Proof.
  unfold pk_in. rewrite existsb_exists. split.
  - intros [[k' c'] [Hx He]]. simpl in He. apply andb_true_iff in He. destruct He as [H1 H2].
    apply pkkey_eqb_eq in H1. apply N.eqb_eq in H2. subst. exact Hx.
  - intro H. exists (k, c). split; [exact H|]. simpl. rewrite N.eqb_refl.
    replace (pkkey_eqb k k) with true; [reflexivity|]. symmetry. apply pkkey_eqb_eq. reflexivity.
Qed.
Lemma qk_in_In q k l : qk_in q k l = true <-> In (q, k) l.
Proof.
  unfold qk_in. rewrite existsb_exists. split.
  - intros [[q' k'] [Hx He]]. simpl in He. apply andb_true_iff in He. destruct He as [H1 H2].
    apply key_eqb_eq in H2. apply N.eqb_eq in H1. subst. exact Hx.
  - intro H. exists (q, k). split; [exact H|]. simpl. rewrite key_eqb_refl, N.eqb_refl. reflexivity.
Qed.
Lemma ans_in_In q k c l : existsb (ans_eqb (q, k, c)) l = true <-> In (q, k, c) l.
Proof.
  rewrite existsb_exists. split.
  - intros [[[q' k'] c'] [Hx He]]. simpl in He. rewrite !andb_true_iff in He. destruct He as [[H1 H2] H3].
    apply key_eqb_eq in H2. apply N.eqb_eq in H1. apply N.eqb_eq in H3. subst. exact Hx.
  - intro H. exists (q, k, c). split; [exact H|]. simpl. rewrite key_eqb_refl, !N.eqb_refl. reflexivity.
Qed.
Lemma nil_entries_nil l : nil_entries l = true <-> l = [].
Proof. destruct l; simpl; split; congruence. Qed.
Lemma ans_agree_spec k c l : ans_agree k c l = true <-> (forall c', In (k, c') l -> c' = c).
Proof.
  unfold ans_agree. rewrite forallb_forall. split.
  - intros H c' Hin. specialize (H _ Hin). simpl in H. rewrite key_eqb_refl in H. simpl in H.
    apply N.eqb_eq in H. exact H.
  - intros H [k' c'] Hin. simpl. destruct (key_eqb k' k) eqn:E; [|reflexivity]. simpl.
    apply key_eqb_eq in E. subst. apply N.eqb_eq. apply H. exact Hin.
Qed.

(* ---------- maps ---------- *)
Lemma lookup_del k p m : lookup k (del_vals p m) = if p k then None else lookup k m.
Proof.
  induction m as [|[k' v] r IH]; simpl; [destruct (p k); reflexivity|].
  destruct (p k') eqn:Ep; simpl.
  - rewrite IH. destruct (key_eqb k' k) eqn:E; [|reflexivity].
    apply key_eqb_eq in E. subst. rewrite Ep. reflexivity.
  - destruct (key_eqb k' k) eqn:E.
    + apply key_eqb_eq in E. subst. rewrite Ep. reflexivity.
    + exact IH.
Qed.
Lemma lookup_pk_filter k (p : pkkey -> bool) m :
  lookup_pk k (filter (fun kp => negb (p (fst kp))) m) = if p k then None else lookup_pk k m.
Proof.
  induction m as [|[k' v] r IH]; simpl; [destruct (p k); reflexivity|].
  destruct (p k') eqn:Ep; simpl.
  - rewrite IH. destruct (pkkey_eqb k' k) eqn:E; [|reflexivity].
    apply pkkey_eqb_eq in E. subst. rewrite Ep. reflexivity.
  - destruct (pkkey_eqb k' k) eqn:E.
    + apply pkkey_eqb_eq in E. subst. rewrite Ep. reflexivity.
    + exact IH.
Qed.
Lemma lookup_cons k k' v m : lookup k ((k', v) :: m) = if key_eqb k' k then Some v else lookup k m.
Proof. reflexivity. Qed.

(* ---------- what one store step may do ---------- *)
(* [ext ov op ob d d']: d' extends d; new values come from ov, new public keys from op, new bucket
   entries from ob. *)
Record ext (ov : list (key * val)) (op : list (pkkey * N)) (ob : list (N * pkkey)) (d d' : db) : Prop := {
  x_mono : forall k v, lookup k (vals d) = Some v -> lookup k (vals d') = Some v;
  x_new : forall k v, lookup k (vals d') = Some v -> lookup k (vals d) = Some v \/ (lookup k (vals d) = None /\ In (k, v) ov);
  x_pmono : forall k p, lookup_pk k (pks d) = Some p -> lookup_pk k (pks d') = Some p;
  x_pnew : forall k p, lookup_pk k (pks d') = Some p -> lookup_pk k (pks d) = Some p \/ In (k, p) op;
  x_abk : forall x, In x (abk d') -> In x (abk d) \/ In x ob;
  x_abk_mono : forall x, In x (abk d) -> In x (abk d')
}.

Lemma ext_refl ov op ob d : ext ov op ob d d.
Proof. constructor; intros; auto. Qed.

Lemma ext_weaken ov op ob ov' op' ob' d d' :
  ext ov op ob d d' -> incl ov ov' -> incl op op' -> incl ob ob' -> ext ov' op' ob' d d'.
Proof.
  intros [A B C D E G] Hv Hp Hb. constructor; auto.
  - intros k v H. destruct (B k v H) as [|[? ?]]; auto.
  - intros k p H. destruct (D k p H); auto.
  - intros x H. destruct (E x H); auto.
Qed.

Lemma ext_trans ov op ob d d1 d2 : ext ov op ob d d1 -> ext ov op ob d1 d2 -> ext ov op ob d d2.
Proof.
  intros [A B C D E G] [A' B' C' D' E' G']. constructor; auto.
  - intros k v H. destruct (B' k v H) as [H1|[H1 H2]].
    + apply B. exact H1.
    + right. split; [|exact H2]. destruct (lookup k (vals d)) as [w|] eqn:Ew; [|reflexivity].
      apply A in Ew. congruence.
  - intros k p H. destruct (D' k p H) as [H1|H1]; auto.
  - intros x H. destruct (E' x H) as [H1|H1]; auto.
Qed.

Lemma put_root_spec e k v d d' r :
  put_root e k v d = (d', r) ->
  ext [(k, v)] [] [] d d' /\ (r = None -> lookup k (vals d') <> None) /\ (r <> None -> d' = d /\ r = Some e).
Proof.
  unfold put_root, okr. destruct (lookup k (vals d)) as [w|] eqn:Ew.
  - destruct (v_root w =? v_root v); intro H; injection H as <- <-; (split; [apply ext_refl|]); split; try congruence.
    intros _. split; reflexivity.
  - intro H. injection H as <- <-. split; [|split; [|congruence]].
    + constructor; simpl; auto.
      * intros k0 v0 H. destruct (key_eqb k k0) eqn:E; [|exact H].
        apply key_eqb_eq in E. subst. congruence.
      * intros k0 v0. destruct (key_eqb k k0) eqn:E; [|auto].
        apply key_eqb_eq in E. subst. intro H. injection H as <-. right. split; [exact Ew|left; reflexivity].
    + intros _. simpl. rewrite key_eqb_refl. discriminate.
Qed.

Lemma put_agg_spec k v d d' r :
  put_agg false k v d = (d', r) ->
  ext [(k, v)] [] [] d d' /\ (r = None -> lookup k (vals d') <> None) /\ (r <> None -> d' = d /\ r = Some EClashAgg).
Proof.
  unfold put_agg, okr. destruct (lookup k (vals d)) as [w|] eqn:Ew.
  - destruct (v_root w =? v_root v); intro H; injection H as <- <-; (split; [apply ext_refl|]); split; try congruence.
    intros _. split; reflexivity.
  - intro H. injection H as <- <-. split; [|split; [|congruence]].
    + constructor; simpl; auto.
      * intros k0 v0 H. destruct (key_eqb k k0) eqn:E; [|exact H].
        apply key_eqb_eq in E. subst. congruence.
      * intros k0 v0. destruct (key_eqb k k0) eqn:E; [|auto].
        apply key_eqb_eq in E. subst. intro H. injection H as <-. right. split; [exact Ew|left; reflexivity].
    + intros _. simpl. rewrite key_eqb_refl. discriminate.
Qed.

Lemma put_att0_spec k v d d' r :
  put_att0 k v d = (d', r) ->
  ext [(k, v)] [] [] d d' /\ (r = None -> lookup k (vals d') <> None) /\ (r <> None -> d' = d /\ (r = Some EClashSrc \/ r = Some EClashTgt)).
Proof.
  unfold put_att0, okr. destruct (lookup k (vals d)) as [w|] eqn:Ew.
  - destruct (negb (v_src w =? v_src v)); [|destruct (negb (v_tgt w =? v_tgt v))];
      intro H; injection H as <- <-; (split; [apply ext_refl|]); split; try congruence; intros _; split; auto.
  - intro H. injection H as <- <-. split; [|split; [|congruence]].
    + constructor; simpl; auto.
      * intros k0 v0 H. destruct (key_eqb k k0) eqn:E; [|exact H].
        apply key_eqb_eq in E. subst. congruence.
      * intros k0 v0. destruct (key_eqb k k0) eqn:E; [|auto].
        apply key_eqb_eq in E. subst. intro H. injection H as <-. right. split; [exact Ew|left; reflexivity].
    + intros _. simpl. rewrite key_eqb_refl. discriminate.
Qed.

Lemma put_pk_spec pk ds pkk d d' r :
  put_pk pk ds pkk d = (d', r) ->
  ext [] [(pkk, pk)] [(ds, pkk)] d d' /\ (r <> None -> d' = d /\ r = Some EClashPK).
Proof.
  unfold put_pk, okr. destruct (lookup_pk pkk (pks d)) as [p|] eqn:Ep.
  - destruct (p =? pk); intro H; injection H as <- <-; (split; [apply ext_refl|]); try congruence.
    intros _. split; reflexivity.
  - intro H. injection H as <- <-. split; [|congruence].
    constructor; simpl; auto.
    + intros k0 p0 H. destruct (pkkey_eqb pkk k0) eqn:E; [|exact H].
      apply pkkey_eqb_eq in E. subst. congruence.
    + intros k0 p0. destruct (pkkey_eqb pkk k0) eqn:E; [|auto].
      apply pkkey_eqb_eq in E. subst. intro H. injection H as <-. right. left. reflexivity.
    + intros x H. apply in_app_or in H. destruct H as [H|H]; auto.
    + intros x H. apply in_or_app. left. exact H.
Qed.

Lemma present_mono ov op ob d d' k : ext ov op ob d d' -> lookup k (vals d) <> None -> lookup k (vals d') <> None.
Proof.
  intros X H. destruct (lookup k (vals d)) as [v|] eqn:E; [|congruence].
  rewrite (x_mono _ _ _ _ _ X _ _ E). discriminate.
Qed.

Lemma bind_inv r f d' res : bind r f = (d', res) ->
  (exists e, r = (d', Some e) /\ res = Some e) \/ (exists d1, r = (d1, None) /\ f d1 = (d', res)).
Proof.
  destruct r as [d1 [e|]]; simpl; intro H.
  - injection H as <- <-. left. exists e. split; reflexivity.
  - right. exists d1. split; [reflexivity|exact H].
Qed.

(* values, with their clash ids, that an entry offers *)
Definition offers_v (t : dtype) (e : entry) : list (key * val) :=
  match t, e with
  | DAtt, EAtt _ _ slot comm _ cid src tgt => [(K KAtt slot comm 0, V cid cid src tgt); (K KAtt slot 0 0, V cid cid src tgt)]
  | DPro, EPro slot root cid => [(K KPro slot 0 0, V cid root 0 0)]
  | DAgg, EAgg slot root comm cid => [(K KAgg slot root comm, V cid root 0 0)]
  | DCon, ECon cs => map (fun c => let '(slot, sub, broot, cid) := c in (K KCon slot sub broot, V cid cid 0 0)) cs
  | _, _ => []
  end.
Definition offers_b (t : dtype) (e : entry) : list (N * pkkey) :=
  match t, e with
  | DAtt, EAtt _ ds slot comm vidx _ _ _ => [(ds, (slot, comm, vidx)); (ds, (slot, 0, vidx))]
  | _, _ => []
  end.

Lemma offers_map t e : offers t e = map (fun kv => (fst kv, v_cid (snd kv))) (offers_v t e).
Proof.
  destruct t, e; try reflexivity. simpl. rewrite map_map. apply map_ext.
  intros [[[a b] c] d]. reflexivity.
Qed.

Definition entry_err (e : err) : bool :=
  match e with
  | EInvalid | EClashPK | EClashAtt | EClashSrc | EClashTgt | EClashPro | EClashAgg | EClashCon => true
  | _ => false
  end.

Definition con_kv (c : N * N * N * N) : key * val :=
  let '(slot, sub, broot, cid) := c in (K KCon slot sub broot, V cid cid 0 0).

Lemma store_cons_spec cs : forall d d' r,
  store_cons cs d = (d', r) ->
  ext (map con_kv cs) [] [] d d' /\
  (r = None -> forall k, In k (map fst (map con_kv cs)) -> lookup k (vals d') <> None) /\
  (forall er, r = Some er -> er = EClashCon).
Proof.
  induction cs as [|[[[slot sub] broot] cid] cs IH]; intros d d' r H; simpl in H.
  - unfold okr in H. injection H as <- <-. split; [apply ext_refl|]. split; [intros _ k []|discriminate].
  - apply bind_inv in H. destruct H as [[e [H ->]]|[d1 [H1 H2]]].
    + apply put_root_spec in H. destruct H as [X [_ Hr]].
      destruct Hr as [-> Hr]; [discriminate|]. split; [apply ext_refl|]. split; [discriminate|].
      intros er Her. congruence.
    + apply put_root_spec in H1. destruct H1 as [X [Hp _]].
      destruct (IH _ _ _ H2) as [X2 [Hp2 He2]]. split; [|split].
      * eapply ext_trans.
        -- eapply ext_weaken; [exact X| | |]; intros x Hx; simpl in *; tauto.
        -- eapply ext_weaken; [exact X2| | |]; intros x Hx; simpl in *; tauto.
      * intros Hr k Hk. simpl in Hk. destruct Hk as [<-|Hk].
        -- eapply present_mono; [exact X2|]. apply Hp. reflexivity.
        -- apply Hp2; assumption.
      * exact He2.
Qed.

Lemma store_att_spec pk ds slot comm vidx cid src tgt d d' r :
  store_att pk ds slot comm vidx cid src tgt d = (d', r) ->
  let e := EAtt pk ds slot comm vidx cid src tgt in
  ext (offers_v DAtt e) (offers_pk DAtt e) (offers_b DAtt e) d d' /\
  (r = None -> forall k, In k (map fst (offers_v DAtt e)) -> lookup k (vals d') <> None) /\
  (forall er, r = Some er -> entry_err er = true).
Proof.
  intros H e. unfold store_att in H.
  assert (W : forall ov op ob a b, ext ov op ob a b ->
            incl ov (offers_v DAtt e) -> incl op (offers_pk DAtt e) -> incl ob (offers_b DAtt e) ->
            ext (offers_v DAtt e) (offers_pk DAtt e) (offers_b DAtt e) a b).
  { intros. eapply ext_weaken; eassumption. }
  assert (I1 : incl [(K KAtt slot comm 0, V cid cid src tgt)] (offers_v DAtt e)) by (intros x [<-|[]]; simpl; auto).
  assert (I2 : incl [(K KAtt slot 0 0, V cid cid src tgt)] (offers_v DAtt e)) by (intros x [<-|[]]; simpl; auto).
  assert (I3 : incl [((slot, comm, vidx), pk)] (offers_pk DAtt e)) by (intros x [<-|[]]; simpl; auto).
  assert (I4 : incl [((slot, 0, vidx), pk)] (offers_pk DAtt e)) by (intros x [<-|[]]; simpl; auto).
  assert (I5 : incl [(ds, (slot, comm, vidx))] (offers_b DAtt e)) by (intros x [<-|[]]; simpl; auto).
  assert (I6 : incl [(ds, (slot, 0, vidx))] (offers_b DAtt e)) by (intros x [<-|[]]; simpl; auto).
  assert (I0 : forall A (l : list A), incl [] l) by (intros A l x []).
  apply bind_inv in H. destruct H as [[er [H ->]]|[d3 [H H4]]].
  - (* failed in one of the first three *)
    assert (X : ext (offers_v DAtt e) (offers_pk DAtt e) (offers_b DAtt e) d d' /\ entry_err er = true).
    { apply bind_inv in H. destruct H as [[er' [H E]]|[d2 [H H3]]].
      - injection E as <-. apply bind_inv in H. destruct H as [[er' [H E]]|[d1 [H H2]]].
        + injection E as <-. apply put_pk_spec in H. destruct H as [X Hr].
          destruct Hr as [-> Hr]; [discriminate|]. injection Hr as ->. split; [apply ext_refl|reflexivity].
        + apply put_pk_spec in H. destruct H as [X1 _].
          apply put_root_spec in H2. destruct H2 as [X2 [_ Hr]].
          destruct Hr as [-> Hr]; [discriminate|]. injection Hr as ->.
          split; [|reflexivity]. eapply W; [exact X1| | |]; auto.
      - apply bind_inv in H. destruct H as [[er' [H E]]|[d1 [H H2]]]; [discriminate|].
        apply put_pk_spec in H. destruct H as [X1 _].
        apply put_root_spec in H2. destruct H2 as [X2 _].
        apply put_pk_spec in H3. destruct H3 as [X3 Hr].
        destruct Hr as [-> Hr]; [discriminate|]. injection Hr as ->.
        split; [|reflexivity]. eapply ext_trans; [eapply W; [exact X1| | |]; auto|].
        eapply W; [exact X2| | |]; auto. }
    destruct X as [X Her]. split; [exact X|]. split; [discriminate|]. intros er0 E. injection E as <-. exact Her.
  - apply bind_inv in H. destruct H as [[er' [H E]]|[d2 [H H3]]]; [discriminate|].
    apply bind_inv in H. destruct H as [[er' [H E]]|[d1 [H H2]]]; [discriminate|].
    apply put_pk_spec in H. destruct H as [X1 _].
    apply put_root_spec in H2. destruct H2 as [X2 [P2 _]].
    apply put_pk_spec in H3. destruct H3 as [X3 _].
    apply put_att0_spec in H4. destruct H4 as [X4 [P4 Hr]].
    assert (X12 : ext (offers_v DAtt e) (offers_pk DAtt e) (offers_b DAtt e) d d2).
    { eapply ext_trans; [eapply W; [exact X1| | |]; auto|]. eapply W; [exact X2| | |]; auto. }
    assert (X34 : ext (offers_v DAtt e) (offers_pk DAtt e) (offers_b DAtt e) d2 d').
    { eapply ext_trans; [eapply W; [exact X3| | |]; auto|]. eapply W; [exact X4| | |]; auto. }
    split; [eapply ext_trans; eassumption|]. split.
    + intros -> k Hk. simpl in Hk. destruct Hk as [<-|[<-|[]]].
      * eapply present_mono; [exact X34|]. apply P2. reflexivity.
      * apply P4. reflexivity.
    + intros er E. destruct Hr as [_ [Hr|Hr]]; [congruence| |]; rewrite Hr in E; injection E as <-; reflexivity.
Qed.

Lemma store_entry_spec t e d d' r :
  store_entry false t e d = (d', r) ->
  ext (offers_v t e) (offers_pk t e) (offers_b t e) d d' /\
  (r = None -> forall k, In k (map fst (offers_v t e)) -> lookup k (vals d') <> None) /\
  (forall er, r = Some er -> entry_err er = true).
Proof.
  assert (Inv : forall d d' r, (d, Some EInvalid) = (d', r) ->
     ext (offers_v t e) (offers_pk t e) (offers_b t e) d d' /\
     (r = None -> forall k, In k (map fst (offers_v t e)) -> lookup k (vals d') <> None) /\
     (forall er, r = Some er -> entry_err er = true)).
  { intros a b c H. injection H as <- <-. split; [apply ext_refl|]. split; [discriminate|].
    intros er E. injection E as <-. reflexivity. }
  destruct t, e; simpl; try (apply Inv).
  - apply store_att_spec.
  - intro H. apply put_root_spec in H. destruct H as [X [P Hr]]. split; [exact X|]. split.
    + intros -> k [<-|[]]. apply P. reflexivity.
    + intros er E. destruct Hr as [_ Hr]; [congruence|]. rewrite Hr in E. injection E as <-. reflexivity.
  - intro H. apply put_agg_spec in H. destruct H as [X [P Hr]]. split; [exact X|]. split.
    + intros -> k [<-|[]]. apply P. reflexivity.
    + intros er E. destruct Hr as [_ Hr]; [congruence|]. rewrite Hr in E. injection E as <-. reflexivity.
  - intro H. apply store_cons_spec in H. destruct H as [X [P Hr]]. split; [exact X|]. split; [exact P|].
    intros er E. rewrite (Hr _ E). reflexivity.
Qed.

Lemma store_entries_spec t vis : forall d d' r,
  store_entries false t vis d = Some (d', r) ->
  ext (flat_map (offers_v t) vis) (flat_map (offers_pk t) vis) (flat_map (offers_b t) vis) d d' /\
  (r = None -> forall k, In k (map fst (flat_map (offers_v t) vis)) -> lookup k (vals d') <> None) /\
  (forall er, r = Some er -> entry_err er = true).
Proof.
  induction vis as [|e vis IH]; intros d d' r H; simpl in H.
  - injection H as <- <-. split; [apply ext_refl|]. split; [intros _ k []|discriminate].
  - destruct (store_entry false t e d) as [d1 [er|]] eqn:E.
    + destruct vis; [|discriminate]. injection H as <- <-.
      apply store_entry_spec in E. destruct E as [X [_ He]]. split; [|split; [discriminate|exact He]].
      eapply ext_weaken; [exact X| | |]; intros x Hx; simpl; rewrite app_nil_r; exact Hx.
    + apply store_entry_spec in E. destruct E as [X [P _]].
      destruct (IH _ _ _ H) as [X2 [P2 He2]]. split; [|split; [|exact He2]].
      * eapply ext_trans.
        -- eapply ext_weaken; [exact X| | |]; intros x Hx; simpl; apply in_or_app; left; exact Hx.
        -- eapply ext_weaken; [exact X2| | |]; intros x Hx; simpl; apply in_or_app; right; exact Hx.
      * intros Hr k Hk. simpl in Hk. rewrite map_app in Hk. apply in_app_or in Hk. destruct Hk as [Hk|Hk].
        -- eapply present_mono; [exact X2|]. apply P; [reflexivity|exact Hk].
        -- apply P2; assumption.
Qed.

(* offered keys have the kind of the duty type *)
Lemma offers_v_kind t e k v : In (k, v) (offers_v t e) -> kind_of_dt t = Some (k_kind k).
Proof.
  destruct t, e; simpl; try tauto.
  - intros [H|[H|[]]]; injection H as <- _; reflexivity.
  - intros [H|[]]; injection H as <- _; reflexivity.
  - intros [H|[]]; injection H as <- _; reflexivity.
  - intro H. apply in_map_iff in H. destruct H as [[[[a b] c] d] [H _]]. injection H as <- _. reflexivity.
Qed.

(* ... and, for a disciplined store, its slot *)
Lemma offers_v_slot t e k v sl : entry_slots_ok sl e = true -> In (k, v) (offers_v t e) -> k_slot k = sl.
Proof.
  destruct t, e; simpl; try tauto.
  - intros Hs [H|[H|[]]]; injection H as <- _; simpl; apply andb_true_iff in Hs; destruct Hs as [_ Hs]; apply N.eqb_eq; exact Hs.
  - intros Hs [H|[]]; injection H as <- _; apply N.eqb_eq; exact Hs.
  - intros Hs [H|[]]; injection H as <- _; apply N.eqb_eq; exact Hs.
  - intros Hs H. apply in_map_iff in H. destruct H as [[[[a b] c] d] [H Hin]]. injection H as <- _. simpl.
    rewrite forallb_forall in Hs. specialize (Hs _ Hin). simpl in Hs. apply N.eqb_eq. exact Hs.
Qed.

Lemma offers_b_slot t e b p sl : entry_slots_ok sl e = true -> In (b, p) (offers_b t e) -> b = sl /\ fst (fst p) = sl.
Proof.
  destruct t, e; simpl; try tauto.
  intros Hs H. apply andb_true_iff in Hs. destruct Hs as [H1 H2]. apply N.eqb_eq in H1. apply N.eqb_eq in H2.
  destruct H as [H|[H|[]]]; injection H as <- <-; simpl; split; congruence.
Qed.

(* ---------- resolve ---------- *)
Lemma resolve_spec t m p : forall p' o', resolve t m p = (p', o') ->
  (forall q k, In (q, k) p -> In (q, k) p' \/ exists c, In (q, k, c) o') /\
  (forall q k, In (q, k) p' -> In (q, k) p /\ (k_kind k = t -> lookup k m = None)) /\
  (forall q k c, In (q, k, c) o' -> In (q, k) p /\ k_kind k = t /\ exists v, lookup k m = Some v /\ c = v_cid v).
Proof.
  induction p as [|[q0 k0] r IH]; intros p' o' H; simpl in H.
  - injection H as <- <-. repeat split; intros; try contradiction.
  - destruct (resolve t m r) as [p1 o1]. destruct (IH _ _ eq_refl) as [A [B C]].
    destruct (kind_eqb (k_kind k0) t) eqn:Ek.
    + apply kind_eqb_eq in Ek. destruct (lookup k0 m) as [v|] eqn:El; injection H as <- <-.
      * split; [|split].
        -- intros q k [E|Hin]; [injection E as <- <-; right; exists (v_cid v); left; reflexivity|].
           destruct (A _ _ Hin) as [|[c Hc]]; [left; assumption|right; exists c; right; exact Hc].
        -- intros q k Hin. destruct (B _ _ Hin) as [H1 H2]. split; [right; exact H1|exact H2].
        -- intros q k c [E|Hin].
           ++ injection E as <- <- <-. split; [left; reflexivity|]. split; [exact Ek|]. exists v. split; [exact El|reflexivity].
           ++ destruct (C _ _ _ Hin) as [H1 H2]. split; [right; exact H1|exact H2].
      * split; [|split].
        -- intros q k [E|Hin]; [injection E as <- <-; left; left; reflexivity|].
           destruct (A _ _ Hin) as [|[c Hc]]; [left; right; assumption|right; exists c; exact Hc].
        -- intros q k [E|Hin]; [injection E as <- <-; split; [left; reflexivity|intros _; exact El]|].
           destruct (B _ _ Hin) as [H1 H2]. split; [right; exact H1|exact H2].
        -- intros q k c Hin. destruct (C _ _ _ Hin) as [H1 H2]. split; [right; exact H1|exact H2].
    + assert (Hne : k_kind k0 <> t) by (intro E; apply kind_eqb_eq in E; congruence).
      injection H as <- <-. split; [|split].
      * intros q k [E|Hin]; [injection E as <- <-; left; left; reflexivity|].
        destruct (A _ _ Hin) as [|[c Hc]]; [left; right; assumption|right; exists c; exact Hc].
      * intros q k [E|Hin]; [injection E as <- <-; split; [left; reflexivity|intros E; contradiction]|].
        destruct (B _ _ Hin) as [H1 H2]. split; [right; exact H1|exact H2].
      * intros q k c Hin. destruct (C _ _ _ Hin) as [H1 H2]. split; [right; exact H1|exact H2].
Qed.

(* ---------- deleteDutyUnsafe / drain ---------- *)
Lemma delete_spec du d d' :
  delete_duty du d = inl d' ->
  (forall k v, lookup k (vals d') = Some v -> lookup k (vals d) = Some v) /\
  (forall k p, lookup_pk k (pks d') = Some p -> lookup_pk k (pks d) = Some p) /\
  (forall x, In x (abk d') -> In x (abk d)) /\
  (forall k v, lookup k (vals d) = Some v -> lookup k (vals d') = None ->
     (dt_of (k_kind k), k_slot k) = du \/
     (fst du = DAtt /\ k_kind k = KAtt /\ exists p, In (snd du, p) (abk d) /\ k_slot k = fst (fst p))).
Proof.
  destruct du as [t s]. destruct t; simpl; intro H; try discriminate; injection H as <-; simpl.
  - (* att *)
    split; [|split; [|split]].
    + intros k v. rewrite lookup_del. destruct (in_keys _ _); [discriminate|auto].
    + intros k p. rewrite (lookup_pk_filter k (fun x => in_pks x (bucket s (abk d)))). destruct (in_pks _ _); [discriminate|auto].
    + intros x Hx. apply filter_In in Hx. tauto.
    + intros k v H1. rewrite lookup_del. destruct (in_keys k _) eqn:E; [|congruence]. intros _. right.
      apply in_keys_In in E. apply in_map_iff in E. destruct E as [p [E Hp]].
      unfold bucket in Hp. apply in_map_iff in Hp. destruct Hp as [[b p'] [E2 Hp]]. simpl in E2. subst p'.
      apply filter_In in Hp. destruct Hp as [Hp Hb]. simpl in Hb. apply N.eqb_eq in Hb. subst b.
      split; [reflexivity|]. destruct p as [[ps pc] pv]. simpl in E. subst k. split; [reflexivity|].
      exists (ps, pc, pv). split; [exact Hp|reflexivity].
  - (* pro *)
    split; [|split; [|split]]; auto.
    + intros k v. rewrite lookup_del. destruct (key_eqb _ _); [discriminate|auto].
    + intros k v H1. rewrite lookup_del. destruct (key_eqb (K KPro s 0 0) k) eqn:E; [|congruence].
      apply key_eqb_eq in E. subst k. intros _. left. reflexivity.
  - split; [|split; [|split]]; auto.
    + intros k v. rewrite lookup_del. destruct (kind_slot _ _ _); [discriminate|auto].
    + intros k v H1. rewrite lookup_del. destruct (kind_slot KAgg s k) eqn:E; [|congruence].
      unfold kind_slot in E. apply andb_true_iff in E. destruct E as [E1 E2].
      apply kind_eqb_eq in E1. apply N.eqb_eq in E2. intros _. left. rewrite E1, E2. reflexivity.
  - split; [|split; [|split]]; auto.
    + intros k v. rewrite lookup_del. destruct (kind_slot _ _ _); [discriminate|auto].
    + intros k v H1. rewrite lookup_del. destruct (kind_slot KCon s k) eqn:E; [|congruence].
      unfold kind_slot in E. apply andb_true_iff in E. destruct E as [E1 E2].
      apply kind_eqb_eq in E1. apply N.eqb_eq in E2. intros _. left. rewrite E1, E2. reflexivity.
Qed.

Lemma delete_err du d e : delete_duty du d = inr e -> e = EDeprecated \/ e = EUnknownType.
Proof. destruct du as [t s]. destruct t; simpl; intro H; try discriminate; injection H as <-; auto. Qed.

Lemma drain_spec q : forall d d2 q2 er,
  drain q d = (d2, q2, er) ->
  (forall k v, lookup k (vals d2) = Some v -> lookup k (vals d) = Some v) /\
  (forall k p, lookup_pk k (pks d2) = Some p -> lookup_pk k (pks d) = Some p) /\
  (forall x, In x (abk d2) -> In x (abk d)) /\
  incl q2 q /\ (er = None -> q2 = []) /\
  (forall e, er = Some e -> e = EDeprecated \/ e = EUnknownType) /\
  (forall k v, lookup k (vals d) = Some v -> lookup k (vals d2) = None ->
     In (dt_of (k_kind k), k_slot k) q \/
     (k_kind k = KAtt /\ exists s p, In (DAtt, s) q /\ In (s, p) (abk d) /\ k_slot k = fst (fst p))).
Proof.
  induction q as [|du r IH]; intros d d2 q2 er H; simpl in H.
  - injection H as <- <- <-. split; [auto|]. split; [auto|]. split; [auto|]. split; [intros x []|].
    split; [reflexivity|]. split; [discriminate|]. intros k v H1 H2. congruence.
  - destruct (delete_duty du d) as [d1|e] eqn:E.
    + destruct (delete_spec _ _ _ E) as [A [B [C D]]].
      destruct (IH _ _ _ _ H) as [A' [B' [C' [I [N [Er D']]]]]].
      split; [auto|]. split; [auto|]. split; [auto|]. split; [intros x Hx; right; apply I; exact Hx|].
      split; [exact N|]. split; [exact Er|].
      intros k v H1 H2. destruct (lookup k (vals d1)) as [w|] eqn:Ew.
      * destruct (D' k w Ew H2) as [Hd|[Hk [s [p [H3 [H4 H5]]]]]].
        -- left. right. exact Hd.
        -- right. split; [exact Hk|]. exists s, p. split; [right; exact H3|]. split; [apply C; exact H4|exact H5].
      * destruct (D k v H1 Ew) as [Hd|[Hf [Hk [p [H3 H4]]]]].
        -- left. left. symmetry. exact Hd.
        -- right. split; [exact Hk|]. exists (snd du), p. split; [left; destruct du; simpl in *; congruence|].
           split; assumption.
    + injection H as <- <- <-. split; [auto|]. split; [auto|]. split; [auto|].
      split; [intros x Hx; right; exact Hx|]. split; [discriminate|]. split.
      * intros e0 E0. injection E0 as <-. eapply delete_err. exact E.
      * intros k v H1 H2. congruence.
Qed.

Lemma drain_nil d : drain [] d = (d, [], None).
Proof. reflexivity. Qed.

(* ---------- the simulation invariant ---------- *)
Definition Fmap := key -> option N.   (* proof-only ghost: the content first stored under a key *)

Definition duty_of (k : key) : duty := (dt_of (k_kind k), k_slot k).

Record InvU (F : Fmap) (a : option (duty * status)) (s : state) (g : ghost) : Prop := {
  u1 : forall k v, lookup k (vals (st_db s)) = Some v -> F k = Some (v_cid v);
  u2 : forall q k c, In (q, k, c) (outbox s) -> F k = Some c;
  u3 : forall k c, In (k, c) (g_ans g) -> F k = Some c;
  u4 : forall k c, F k = Some c -> lookup k (vals (st_db s)) <> None \/ In (dt_of (k_kind k), k_slot k) (g_dead g);
  u5 : forall b p, In (b, p) (abk (st_db s)) -> b = fst (fst p);
  u6 : forall d, In d (expq s) -> In d (g_dead g);
  (* a Store that got the verdict Scheduled and has not written yet: no key of its duty that was ever
     stored is absent (its expiry cannot have been processed before the verdict) *)
  u7 : forall d, a = Some (d, Scheduled) -> forall k c, F k = Some c -> lookup k (vals (st_db s)) = None -> duty_of k <> d
}.

Record Inv (a : option (duty * status)) (s : state) (g : ghost) : Prop := {
  a1 : forall k v, lookup k (vals (st_db s)) = Some v -> In (k, v_cid v) (g_off g);
  a2 : forall q k c, In (q, k, c) (outbox s) -> In (q, k) (g_pend g) /\ In (k, c) (g_off g);
  a3 : forall q k, In (q, k) (g_pend g) -> In (q, k) (pend s) \/ exists c, In (q, k, c) (outbox s);
  a3' : forall q k, In (q, k) (pend s) -> In (q, k) (g_pend g);
  a4 : forall q, In q (g_must g) -> exists k c, In (q, k, c) (outbox s);
  a5 : forall k, In k (g_prov g) -> lookup k (vals (st_db s)) <> None;
  a6 : g_expn g = false -> expq s = [];
  a7 : forall q k, In (q, k) (pend s) -> lookup k (vals (st_db s)) <> None -> In (k_kind k) (g_dirty g);
  a8 : forall k p, lookup_pk k (pks (st_db s)) = Some p -> In (k, p) (g_offpk g);
  au : g_disc g = true -> exists F, InvU F a s g
}.

Lemma inv_init : Inv None init ginit.
Proof.
  constructor; simpl; intros; try contradiction; try discriminate; try reflexivity.
  exists (fun _ => None). constructor; simpl; intros; try contradiction; discriminate.
Qed.

Lemma kind_of_dt_inv t kd : kind_of_dt t = Some kd -> dt_of kd = t.
Proof. destruct t; simpl; intro H; try discriminate; injection H as <-; reflexivity. Qed.

Lemma offers_v_in t vis k v :
  In (k, v) (flat_map (offers_v t) vis) -> In (k, v_cid v) (flat_map (offers t) vis).
Proof.
  intro H. apply in_flat_map in H. destruct H as [e [He H]]. apply in_flat_map. exists e. split; [exact He|].
  rewrite offers_map. apply in_map_iff. exists (k, v). split; [reflexivity|exact H].
Qed.

Lemma store_keys_v t vis : store_keys t vis = map fst (flat_map (offers_v t) vis).
Proof.
  unfold store_keys. induction vis as [|e r IH]; [reflexivity|]. simpl. rewrite !map_app, IH. f_equal.
  rewrite offers_map, map_map. reflexivity.
Qed.

(* phase 1 of a Store that passed the deadline check: the visited entries were written *)
Lemma store_phase s g t sl vis d' kd :
  Inv (Some ((t, sl), Scheduled)) s g -> kind_of_dt t = Some kd ->
  ext (flat_map (offers_v t) vis) (flat_map (offers_pk t) vis) (flat_map (offers_b t) vis) (st_db s) d' ->
  Inv None (mk d' (pend s) (outbox s) (expq s))
      (mkg (g_pend g) (flat_map (offers t) vis ++ g_off g) (flat_map (offers_pk t) vis ++ g_offpk g) (g_ans g) (g_dead g)
           (g_disc g && store_disc g (t, sl) Scheduled vis) (g_must g) (g_prov g) (g_expn g) (kd :: g_dirty g)).
Proof.
  intros I Hk X. destruct I as [A1 A2 A3 A3' A4 A5 A6 A7 A8 AU].
  constructor; simpl; auto.
  - intros k v H. apply in_or_app. destruct (x_new _ _ _ _ _ X _ _ H) as [H1|[_ H1]].
    + right. apply A1. exact H1.
    + left. apply offers_v_in. exact H1.
  - intros q k c H. destruct (A2 _ _ _ H) as [H1 H2]. split; [exact H1|apply in_or_app; right; exact H2].
  - intros k H. eapply present_mono; [exact X|]. apply A5. exact H.
  - intros q k H1 H2. destruct (lookup k (vals (st_db s))) as [w|] eqn:Ew.
    + right. eapply A7; [exact H1|]. rewrite Ew. discriminate.
    + left. destruct (lookup k (vals d')) as [v|] eqn:Ev; [|congruence].
      destruct (x_new _ _ _ _ _ X _ _ Ev) as [H3|[_ H3]]; [congruence|].
      apply in_flat_map in H3. destruct H3 as [e [_ H3]]. apply offers_v_kind in H3. congruence.
  - intros k p H. apply in_or_app. destruct (x_pnew _ _ _ _ _ X _ _ H) as [H1|H1]; [right; apply A8; exact H1|left; exact H1].
  - intro Hd. apply andb_true_iff in Hd. destruct Hd as [Hd Hsl].
    destruct (AU Hd) as [F [U1 U2 U3 U4 U5 U6 U7]]. simpl in *.
    assert (Hnew : forall k v, lookup k (vals (st_db s)) = None -> lookup k (vals d') = Some v ->
                   duty_of k = (t, sl)).
    { intros k v H1 H2. destruct (x_new _ _ _ _ _ X _ _ H2) as [H3|[_ H3]]; [congruence|].
      apply in_flat_map in H3. destruct H3 as [e [He H3]].
      rewrite forallb_forall in Hsl. specialize (Hsl _ He).
      unfold duty_of. rewrite (offers_v_slot _ _ _ _ _ Hsl H3). apply offers_v_kind in H3.
      rewrite Hk in H3. injection H3 as <-. rewrite (kind_of_dt_inv _ _ Hk). reflexivity. }
    exists (fun k => match F k with Some c => Some c | None => option_map v_cid (lookup k (vals d')) end).
    constructor; simpl.
    + intros k v H. destruct (F k) as [c|] eqn:EF; [|rewrite H; reflexivity].
      destruct (lookup k (vals (st_db s))) as [w|] eqn:Ew.
      * rewrite (x_mono _ _ _ _ _ X _ _ Ew) in H. injection H as <-. rewrite (U1 _ _ Ew) in EF. symmetry. exact EF.
      * exfalso. apply (U7 _ eq_refl _ _ EF Ew). apply Hnew with v; assumption.
    + intros q k c H. rewrite (U2 _ _ _ H). reflexivity.
    + intros k c H. rewrite (U3 _ _ H). reflexivity.
    + intros k c H. destruct (F k) as [c0|] eqn:EF.
      * destruct (U4 _ _ EF) as [H1|H1]; [left; eapply present_mono; eassumption|right; exact H1].
      * left. destruct (lookup k (vals d')); [discriminate|discriminate].
    + intros b p H. destruct (x_abk _ _ _ _ _ X _ H) as [H1|H1]; [apply U5; exact H1|].
      apply in_flat_map in H1. destruct H1 as [e [He H1]].
      rewrite forallb_forall in Hsl. specialize (Hsl _ He).
      destruct (offers_b_slot _ _ _ _ _ Hsl H1) as [-> ->]. reflexivity.
    + exact U6.
    + intros d0 E. discriminate E.
Qed.

Lemma drop_kind_In kd x l : In x (drop_kind kd l) <-> In x l /\ x <> kd.
Proof.
  unfold drop_kind. rewrite filter_In. split; intros [H1 H2]; split; auto.
  - intro E. subst. destruct kd; discriminate.
  - destruct (kind_eqb x kd) eqn:E; [apply kind_eqb_eq in E; contradiction|reflexivity].
Qed.

(* phase 2: resolve<kd>QueriesUnsafe *)
Lemma resolve_phase a s g kd newm :
  Inv a s g ->
  (forall q, In q newm -> exists k, In (q, k) (g_pend g) /\ k_kind k = kd /\ lookup k (vals (st_db s)) <> None) ->
  Inv a (do_resolve kd s)
      (mkg (g_pend g) (g_off g) (g_offpk g) (g_ans g) (g_dead g) (g_disc g) (newm ++ g_must g) (g_prov g) (g_expn g)
           (drop_kind kd (g_dirty g))).
Proof.
  intros I Hm. destruct I as [A1 A2 A3 A3' A4 A5 A6 A7 A8 AU].
  unfold do_resolve. destruct (resolve kd (vals (st_db s)) (pend s)) as [p' o'] eqn:ER.
  destruct (resolve_spec _ _ _ _ _ ER) as [R1 [R2 R3]].
  constructor; simpl; auto.
  - intros q k c H. apply in_app_or in H. destruct H as [H|H]; [apply A2; exact H|].
    destruct (R3 _ _ _ H) as [H1 [_ [v [H2 ->]]]]. split; [apply A3'; exact H1|apply A1; exact H2].
  - intros q k H. destruct (A3 _ _ H) as [H1|[c H1]].
    + destruct (R1 _ _ H1) as [H2|[c H2]]; [left; exact H2|right; exists c; apply in_or_app; right; exact H2].
    + right. exists c. apply in_or_app. left. exact H1.
  - intros q k H. apply A3'. apply R2. exact H.
  - intros q H. apply in_app_or in H. destruct H as [H|H].
    + destruct (Hm _ H) as [k [H1 [H2 H3]]]. destruct (A3 _ _ H1) as [H4|[c H4]].
      * destruct (R1 _ _ H4) as [H5|[c H5]].
        -- destruct (R2 _ _ H5) as [_ H6]. specialize (H6 H2). contradiction.
        -- exists k, c. apply in_or_app. right. exact H5.
      * exists k, c. apply in_or_app. left. exact H4.
    + destruct (A4 _ H) as [k [c H1]]. exists k, c. apply in_or_app. left. exact H1.
  - intros q k H1 H2. destruct (R2 _ _ H1) as [H3 H4]. apply drop_kind_In. split; [eapply A7; eassumption|].
    intro E. apply H4 in E. contradiction.
  - intro Hd. destruct (AU Hd) as [F [U1 U2 U3 U4 U5 U6 U7]]. exists F. constructor; simpl; auto.
    intros q k c H. apply in_app_or in H. destruct H as [H|H]; [eapply U2; exact H|].
    destruct (R3 _ _ _ H) as [_ [_ [v [H2 ->]]]]. apply U1. exact H2.
Qed.

(* phase 3: the drain loop over deadliner.C() *)
Lemma drain_phase s g d2 q2 er newp :
  Inv None s g -> drain (expq s) (st_db s) = (d2, q2, er) ->
  (forall k, In k newp -> lookup k (vals (st_db s)) <> None) ->
  Inv None (mk d2 (pend s) (outbox s) q2)
      (mkg (g_pend g) (g_off g) (g_offpk g) (g_ans g) (g_dead g) (g_disc g) (g_must g)
           (if g_expn g then [] else newp ++ g_prov g) (match er with None => false | _ => g_expn g end) (g_dirty g)).
Proof.
  intros I HD Hp. destruct I as [A1 A2 A3 A3' A4 A5 A6 A7 A8 AU].
  destruct (drain_spec _ _ _ _ _ HD) as [D1 [D2 [D3 [D4 [D5 [D6 D7]]]]]].
  constructor; simpl; auto.
  - intros k H. destruct (g_expn g) eqn:E; [contradiction|].
    rewrite (A6 eq_refl) in HD. rewrite drain_nil in HD. injection HD as <- _ _.
    apply in_app_or in H. destruct H as [H|H]; [apply Hp; exact H|apply A5; exact H].
  - intro H. destruct er as [e|]; [|apply D5; reflexivity].
    rewrite (A6 H) in HD. rewrite drain_nil in HD. discriminate.
  - intros q k H1 H2. eapply A7; [exact H1|]. destruct (lookup k (vals d2)) as [v|] eqn:E; [|congruence].
    rewrite (D1 _ _ E). discriminate.
  - intro Hd. destruct (AU Hd) as [F [U1 U2 U3 U4 U5 U6 U7]]. exists F. constructor; simpl; auto.
    + intros k c H. destruct (U4 _ _ H) as [H1|H1]; [|right; exact H1].
      destruct (lookup k (vals (st_db s))) as [v|] eqn:Ev; [|congruence].
      destruct (lookup k (vals d2)) as [w|] eqn:Ew; [left; discriminate|].
      right. destruct (D7 _ _ Ev Ew) as [H2|[Hk [sl [p [H3 [H4 H5]]]]]].
      * apply U6. exact H2.
      * rewrite Hk. simpl. rewrite H5. rewrite <- (U5 _ _ H4). apply U6. exact H3.
    + intros d0 E. discriminate E.
Qed.

Lemma drop_kind_cons_same kd l : drop_kind kd (kd :: l) = drop_kind kd l.
Proof. unfold drop_kind. simpl. replace (kind_eqb kd kd) with true; [reflexivity|]. destruct kd; reflexivity. Qed.

Lemma drop_q_In q x l : In x (drop_q q l) <-> In x l /\ fst x <> q.
Proof.
  unfold drop_q. rewrite filter_In. split; intros [H1 H2]; split; auto.
  - intro E. rewrite E, N.eqb_refl in H2. discriminate.
  - destruct (N.eqb_spec (fst x) q); [contradiction|reflexivity].
Qed.
Lemma drop_n_In q x l : In x (drop_n q l) <-> In x l /\ x <> q.
Proof.
  unfold drop_n. rewrite filter_In. split; intros [H1 H2]; split; auto.
  - intro E. rewrite E, N.eqb_refl in H2. discriminate.
  - destruct (N.eqb_spec x q); [contradiction|reflexivity].
Qed.
Lemma drop_out_In q (x : N * key * N) l :
  In x (filter (fun x => negb (N.eqb (fst (fst x)) q)) l) <-> In x l /\ fst (fst x) <> q.
Proof.
  rewrite filter_In. split; intros [H1 H2]; split; auto.
  - intro E. rewrite E, N.eqb_refl in H2. discriminate.
  - destruct (N.eqb_spec (fst (fst x)) q); [contradiction|reflexivity].
Qed.

(* a reader returned (answer or cancellation): its query disappears everywhere *)
Lemma return_phase a s g q ans :
  Inv a s g ->
  (forall k c, In (k, c) ans -> exists q', In (q', k, c) (outbox s)) ->
  Inv a (mk (st_db s) (drop_q q (pend s)) (filter (fun x => negb (N.eqb (fst (fst x)) q)) (outbox s)) (expq s))
      (mkg (drop_q q (g_pend g)) (g_off g) (g_offpk g) (ans ++ g_ans g) (g_dead g) (g_disc g)
           (drop_n q (g_must g)) (g_prov g) (g_expn g) (g_dirty g)).
Proof.
  intros I Ha. destruct I as [A1 A2 A3 A3' A4 A5 A6 A7 A8 AU].
  constructor; simpl; auto.
  - intros q' k c H. apply drop_out_In in H. destruct H as [H Hq]. destruct (A2 _ _ _ H) as [H1 H2].
    split; [|exact H2]. apply drop_q_In. split; [exact H1|exact Hq].
  - intros q' k H. apply drop_q_In in H. destruct H as [H Hq]. destruct (A3 _ _ H) as [H1|[c H1]].
    + left. apply drop_q_In. split; assumption.
    + right. exists c. apply drop_out_In. split; assumption.
  - intros q' k H. apply drop_q_In in H. destruct H as [H Hq]. apply drop_q_In. split; [apply A3'; exact H|exact Hq].
  - intros q' H. apply drop_n_In in H. destruct H as [H Hq]. destruct (A4 _ H) as [k [c H1]].
    exists k, c. apply drop_out_In. split; [exact H1|exact Hq].
  - intros q' k H. apply drop_q_In in H. destruct H as [H _]. apply (A7 q'). exact H.
  - intro Hd. destruct (AU Hd) as [F [U1 U2 U3 U4 U5 U6 U7]]. exists F. constructor; simpl; auto.
    + intros q' k c H. apply drop_out_In in H. destruct H as [H _]. eapply U2. exact H.
    + intros k c H. apply in_app_or in H. destruct H as [H|H]; [|apply U3; exact H].
      destruct (Ha _ _ H) as [q' H1]. eapply U2. exact H1.
Qed.

Lemma state_eta s : mk (st_db s) (pend s) (outbox s) (expq s) = s.
Proof. destruct s; reflexivity. Qed.

Lemma inv_weaken_disc a s g b :
  Inv a s g ->
  Inv a s (mkg (g_pend g) (g_off g) (g_offpk g) (g_ans g) (g_dead g) (g_disc g && b) (g_must g) (g_prov g) (g_expn g) (g_dirty g)).
Proof.
  intros [A1 A2 A3 A3' A4 A5 A6 A7 A8 AU]. constructor; simpl; auto.
  intro Hd. apply andb_true_iff in Hd. destruct Hd as [Hd _]. destruct (AU Hd) as [F [U1 U2 U3 U4 U5 U6 U7]].
  exists F. constructor; simpl; auto.
Qed.

Lemma entry_err_not_resolved er : entry_err er = true -> resolved_res (Some er) = false /\ er <> ERefused.
Proof. destruct er; simpl; intro H; try discriminate; split; try reflexivity; discriminate. Qed.

Lemma inv_clear a s g : Inv a s g -> Inv None s g.
Proof.
  intros [A1 A2 A3 A3' A4 A5 A6 A7 A8 AU]. constructor; auto.
  intro Hd. destruct (AU Hd) as [F [U1 U2 U3 U4 U5 U6 U7]]. exists F. constructor; auto.
  intros d0 E. discriminate E.
Qed.

(* which Store is inside its critical section after label l *)
Definition next_add (a : option (duty * status)) (l : label) : option (duty * status) :=
  match l with
  | LAdd d st => Some (d, st)
  | LStore _ _ _ _ _ | LAwaitReg _ _ | LPubKey _ _ _ _ => None
  | _ => a
  end.
Definition add_ok (a : option (duty * status)) (l : label) : Prop :=
  match l with
  | LStore d st _ _ _ => a = Some (d, st)
  | LAdd _ _ | LAwaitReg _ _ | LPubKey _ _ _ _ => a = None
  | _ => True
  end.

Lemma core_sound a s g l s' :
  Inv a s g -> add_ok a l -> core_step false s l = Some s' -> check g l = true /\ Inv (next_add a l) s' (gstep g l).
Proof.
  intros I Hok Hs. destruct l as [[t sl] st vis unv res|q k|q k c|q|d|slot comm vidx r| |da sta];
    cbv beta iota delta [core_step] in Hs; cbv beta iota delta [next_add]; cbv beta iota delta [add_ok] in Hok.
  - (* LStore *)
    subst a.
    assert (Refused : forall (b : bool), (if res_eqb res (Some ERefused) && nil_entries vis then Some s else None) = Some s' ->
               st <> Scheduled -> (match st with Scheduled => b | _ => res_eqb res (Some ERefused) && nil_entries vis end) = true
               /\ Inv None s' (match st with Scheduled => gstep g (LStore (t, sl) Scheduled vis unv res) | _ => g end)).
    { intros b H Hst. destruct (res_eqb res (Some ERefused) && nil_entries vis) eqn:E; [|discriminate].
      injection H as <-. destruct st; try contradiction; (split; [reflexivity|eapply inv_clear; exact I]). }
    destruct st.
    + destruct (Refused true Hs) as [H1 H2]; [discriminate|]. split; [exact H1|exact H2].
    + (* Scheduled *)
      unfold check, gstep. cbv beta iota. simpl fst.
      destruct (kind_of_dt t) as [kd|] eqn:Ek.
      * destruct (dtype_eqb t DPro && Nat.ltb 1 (length (vis ++ unv))) eqn:Elen.
        -- (* ELen *)
           destruct (res_eqb res (Some ELen) && nil_entries vis) eqn:E; [|discriminate]. injection Hs as <-.
           apply andb_true_iff in E. destruct E as [E1 E2]. apply res_eqb_eq in E1. apply nil_entries_nil in E2. subst res vis.
           split; [reflexivity|]. simpl resolved_res. cbv iota.
           pose proof (store_phase s g t sl [] (st_db s) kd I Ek (ext_refl _ _ _ _)) as P.
           rewrite state_eta in P. exact P.
        -- destruct (store_entries false t vis (st_db s)) as [[d' [er|]]|] eqn:ES; [| |discriminate].
           ++ (* an entry failed *)
              destruct (res_eqb res (Some er)) eqn:E; [|discriminate]. injection Hs as <-.
              apply res_eqb_eq in E. subst res.
              destruct (store_entries_spec _ _ _ _ _ ES) as [X [_ He]].
              destruct (entry_err_not_resolved _ (He _ eq_refl)) as [Hr Hne]. rewrite Hr. split.
              ** destruct er; try reflexivity. contradiction.
              ** apply store_phase; assumption.
           ++ (* all entries stored: resolve, drain *)
              destruct (nil_entries unv) eqn:Eu; [|discriminate].
              destruct (store_entries_spec _ _ _ _ _ ES) as [X [Hp _]]. specialize (Hp eq_refl).
              pose proof (store_phase s g t sl vis d' kd I Ek X) as P1.
              set (s1 := mk d' (pend s) (outbox s) (expq s)) in *.
              set (newm := map fst (filter (fun x => in_keys (snd x) (store_keys t vis)) (g_pend g))).
              assert (Hm : forall q, In q newm -> exists k, In (q, k) (g_pend g) /\ k_kind k = kd /\ lookup k (vals d') <> None).
              { intros q Hq. unfold newm in Hq. apply in_map_iff in Hq. destruct Hq as [[q' k] [E Hq]]. simpl in E. subst q'.
                apply filter_In in Hq. destruct Hq as [Hq Hk]. simpl in Hk. apply in_keys_In in Hk.
                exists k. split; [exact Hq|]. rewrite store_keys_v in Hk. split; [|apply Hp; exact Hk].
                apply in_map_iff in Hk. destruct Hk as [[k' v] [E Hk]]. simpl in E. subst k'.
                apply in_flat_map in Hk. destruct Hk as [e [_ Hk]]. apply offers_v_kind in Hk. congruence. }
              pose proof (resolve_phase _ s1 _ kd newm P1 Hm) as P2. cbn [g_pend g_off g_offpk g_ans g_dead g_disc g_must g_prov g_expn g_dirty] in P2.
              rewrite drop_kind_cons_same in P2.
              cbv zeta in Hs.
              destruct (drain (expq (do_resolve kd s1)) (st_db (do_resolve kd s1))) as [[d2 q2] er] eqn:ED.
              destruct (res_eqb res er) eqn:E; [|discriminate]. injection Hs as <-.
              apply res_eqb_eq in E. subst res.
              assert (Hsame : st_db (do_resolve kd s1) = d').
              { unfold do_resolve. destruct (resolve kd (vals (st_db s1)) (pend s1)). reflexivity. }
              assert (Hprov : forall k, In k (store_keys t vis) -> lookup k (vals (st_db (do_resolve kd s1))) <> None).
              { intros k Hk. rewrite Hsame. apply Hp. rewrite <- store_keys_v. exact Hk. }
              pose proof (drain_phase _ _ _ _ _ (store_keys t vis) P2 ED Hprov) as P3. cbn [g_pend g_off g_offpk g_ans g_dead g_disc g_must g_prov g_expn g_dirty] in P3.
              destruct (drain_spec _ _ _ _ _ ED) as [_ [_ [_ [_ [_ [De _]]]]]].
              assert (Hres : resolved_res er = true).
              { destruct er as [e|]; [|reflexivity]. destruct (De _ eq_refl) as [-> | ->]; reflexivity. }
              rewrite Hres. split.
              ** destruct er as [e|]; [|reflexivity]. destruct (De _ eq_refl) as [-> | ->]; reflexivity.
              ** exact P3.
      * (* builder / unsupported type *)
        destruct (res_eqb res (Some match t with DBuilder => EDeprecated | _ => EUnsupported end) && nil_entries vis) eqn:E; [|discriminate].
        injection Hs as <-. apply andb_true_iff in E. destruct E as [E1 E2].
        apply res_eqb_eq in E1. apply nil_entries_nil in E2. subst vis. split.
        -- subst res. destruct t; reflexivity.
        -- simpl. eapply inv_clear. apply inv_weaken_disc. exact I.
    + destruct (Refused true Hs) as [H1 H2]; [discriminate|]. split; [exact H1|exact H2].
  - (* LAwaitReg *)
    subst a.
    destruct (qid_in_pend q (pend s) || qid_in_out q (outbox s)); [discriminate|]. injection Hs as <-.
    split; [reflexivity|].
    set (s1 := mk (st_db s) (pend s ++ [(q, k)]) (outbox s) (expq s)).
    assert (P1 : Inv None s1 (mkg (g_pend g ++ [(q, k)]) (g_off g) (g_offpk g) (g_ans g) (g_dead g) (g_disc g) (g_must g)
                          (g_prov g) (g_expn g) (k_kind k :: g_dirty g))).
    { destruct I as [A1 A2 A3 A3' A4 A5 A6 A7 A8 AU]. constructor; simpl; auto.
      - intros q' k' c H. destruct (A2 _ _ _ H) as [H1 H2]. split; [apply in_or_app; left; exact H1|exact H2].
      - intros q' k' H. apply in_app_or in H. destruct H as [H|H].
        + destruct (A3 _ _ H) as [H1|H1]; [left; apply in_or_app; left; exact H1|right; exact H1].
        + left. apply in_or_app. right. exact H.
      - intros q' k' H. apply in_app_or in H. apply in_or_app. destruct H as [H|H]; [left; apply A3'; exact H|right; exact H].
      - intros q' k' H H2. apply in_app_or in H. destruct H as [H|[H|[]]].
        + right. eapply A7; eassumption.
        + injection H as <- <-. left. reflexivity.
      - intro Hd. destruct (AU Hd) as [F [U1 U2 U3 U4 U5 U6 U7]]. exists F. constructor; simpl; auto. }
    set (newm := if in_keys k (g_prov g) then [q] else []).
    assert (Hm : forall q0, In q0 newm -> exists k0, In (q0, k0) (g_pend g ++ [(q, k)]) /\ k_kind k0 = k_kind k /\ lookup k0 (vals (st_db s1)) <> None).
    { intros q0 H. unfold newm in H. destruct (in_keys k (g_prov g)) eqn:E; [|contradiction].
      destruct H as [<-|[]]. exists k. split; [apply in_or_app; right; left; reflexivity|]. split; [reflexivity|].
      apply in_keys_In in E. destruct I. auto. }
    pose proof (resolve_phase _ s1 _ (k_kind k) newm P1 Hm) as P2. cbn [g_pend g_off g_offpk g_ans g_dead g_disc g_must g_prov g_expn g_dirty] in P2.
    rewrite drop_kind_cons_same in P2. unfold gstep. unfold newm in P2.
    destruct (in_keys k (g_prov g)); exact P2.
  - (* LAnswer *)
    destruct (existsb (ans_eqb (q, k, c)) (outbox s)) eqn:E; [|discriminate]. injection Hs as <-.
    apply ans_in_In in E. split.
    + unfold check. destruct I as [A1 A2 A3 A3' A4 A5 A6 A7 A8 AU]. destruct (A2 _ _ _ E) as [H1 H2].
      apply andb_true_iff. split; [apply andb_true_iff; split; [apply qk_in_In; exact H1|apply pair_in_In; exact H2]|].
      destruct (g_disc g) eqn:Ed; [|reflexivity]. simpl. apply ans_agree_spec. intros c' Hc.
      destruct (AU eq_refl) as [F [U1 U2 U3 U4 U5 U6 U7]].
      pose proof (U2 _ _ _ E). pose proof (U3 _ _ Hc). congruence.
    + apply (return_phase a s g q [(k, c)] I). intros k' c' [H|[]]. injection H as <- <-. exists q. exact E.
  - (* LCancel *)
    destruct (qid_in_pend q (pend s) || qid_in_out q (outbox s)); [|discriminate]. injection Hs as <-.
    split; [reflexivity|]. apply (return_phase a s g q [] I). intros k' c' [].
  - (* LExpire *)
    injection Hs as <-. split; [reflexivity|].
    destruct I as [A1 A2 A3 A3' A4 A5 A6 A7 A8 AU]. constructor; simpl; auto; [discriminate|].
    intro Hd. destruct (AU Hd) as [F [U1 U2 U3 U4 U5 U6 U7]]. exists F. constructor; simpl; auto.
    + intros k c H. destruct (U4 _ _ H) as [H1|H1]; [left; exact H1|right; right; exact H1].
    + intros d0 H. apply in_app_or in H. destruct H as [H|[H|[]]]; [right; apply U6; exact H|left; exact H].
  - (* LPubKey *)
    subst a.
    destruct (opt_eqb r (lookup_pk (slot, comm, vidx) (pks (st_db s)))) eqn:E; [|discriminate]. injection Hs as <-.
    split; [|exact I]. unfold check. destruct r as [p|]; [|reflexivity].
    destruct (lookup_pk (slot, comm, vidx) (pks (st_db s))) as [p'|] eqn:El; simpl in E; [|discriminate].
    apply N.eqb_eq in E. subst p'. apply pk_in_In. destruct I. auto.
  - (* LQuiet *)
    destruct (outbox s) as [|x r] eqn:Eo; [|discriminate]. injection Hs as <-. split; [|exact I].
    unfold check. destruct (g_must g) as [|q r] eqn:Em; [reflexivity|].
    destruct I as [A1 A2 A3 A3' A4 A5 A6 A7 A8 AU]. destruct (A4 q) as [k [c H]]; [rewrite Em; left; reflexivity|].
    rewrite Eo in H. contradiction.
  - (* LAdd: the verdict *)
    subst a. injection Hs as <-. split; [reflexivity|].
    destruct I as [A1 A2 A3 A3' A4 A5 A6 A7 A8 AU]. constructor; simpl; auto.
    intro Hd. apply andb_true_iff in Hd. destruct Hd as [Hd Hv].
    destruct (AU Hd) as [F [U1 U2 U3 U4 U5 U6 U7]]. exists F. constructor; simpl; auto.
    intros d0 E k c HF Hl. injection E as <- ->. simpl in Hv. intro Eq.
    destruct (U4 _ _ HF) as [H1|H1]; [contradiction|]. unfold duty_of in Eq. rewrite Eq in H1.
    apply in_duties_In in H1. rewrite H1 in Hv. discriminate.
Qed.

Lemma step_sound a s g l s' a' :
  Inv a s g -> step (s, a) l = Some (s', a') ->
  xcheck (g, a) l = true /\ Inv a' s' (gstep g l) /\ xgstep (g, a) l = (gstep g l, a').
Proof.
  intros I Hs. unfold step, step_gen in Hs.
  assert (W : forall b, with_add b (core_step false s l) = Some (s', a') -> core_step false s l = Some s' /\ a' = b).
  { intros b H. destruct (core_step false s l); [|discriminate]. injection H as <- <-. auto. }
  destruct l as [d st vis unv res|q k|q k c|q|d|slot comm vidx r| |da sta].
  - destruct a as [[d' st']|] eqn:Ea; simpl in Hs; [|discriminate].
    destruct (duty_eqb d' d && status_eqb st' st) eqn:E; [|discriminate].
    apply andb_true_iff in E. destruct E as [E1 E2]. apply duty_eqb_eq in E1. subst d'.
    assert (st' = st) by (destruct st', st; try discriminate; reflexivity). subst st'.
    destruct (W _ Hs) as [Hc ->]. destruct (core_sound _ _ _ (LStore d st vis unv res) _ I eq_refl Hc) as [C I'].
    split; [|split; [exact I'|reflexivity]]. unfold xcheck. rewrite C. unfold add_eqb.
    replace (duty_eqb d d) with true by (symmetry; apply duty_eqb_eq; reflexivity).
    destruct st; reflexivity.
  - destruct a; simpl in Hs; [discriminate|]. destruct (W _ Hs) as [Hc ->].
    destruct (core_sound _ _ _ (LAwaitReg q k) _ I eq_refl Hc) as [C I']. split; [exact C|split; [exact I'|reflexivity]].
  - destruct (W _ Hs) as [Hc ->]. destruct (core_sound _ _ _ (LAnswer q k c) _ I Logic.I Hc) as [C I']. split; [exact C|split; [exact I'|reflexivity]].
  - destruct (W _ Hs) as [Hc ->]. destruct (core_sound _ _ _ (LCancel q) _ I Logic.I Hc) as [C I']. split; [exact C|split; [exact I'|reflexivity]].
  - destruct (W _ Hs) as [Hc ->]. destruct (core_sound _ _ _ (LExpire d) _ I Logic.I Hc) as [C I']. split; [exact C|split; [exact I'|reflexivity]].
  - destruct a; simpl in Hs; [discriminate|]. destruct (W _ Hs) as [Hc ->].
    destruct (core_sound _ _ _ (LPubKey slot comm vidx r) _ I eq_refl Hc) as [C I']. split; [exact C|split; [exact I'|reflexivity]].
  - destruct (W _ Hs) as [Hc ->]. destruct (core_sound _ _ _ LQuiet _ I Logic.I Hc) as [C I']. split; [exact C|split; [exact I'|reflexivity]].
  - destruct a; simpl in Hs; [discriminate|]. injection Hs as <- <-.
    destruct (core_sound None s g (LAdd da sta) s I eq_refl eq_refl) as [C I']. split; [reflexivity|split; [exact I'|reflexivity]].
Qed.

(* ---------- main theorem: every trace of the model passes the monitor ---------- *)
Lemma run_sound ls : forall s a g s' a', Inv a s g -> run_gen false (s, a) ls = Some (s', a') ->
  monitor_from (g, a) ls = true /\ Inv a' s' (ghost_after g ls) /\ xghost_after (g, a) ls = (ghost_after g ls, a').
Proof.
  induction ls as [|l r IH]; intros s a g s' a' I H; cbn [run_gen monitor_from ghost_after xghost_after] in *.
  - injection H as <- <-. split; [reflexivity|split; [exact I|reflexivity]].
  - destruct (step_gen false (s, a) l) as [[s1 a1]|] eqn:E; [|discriminate].
    destruct (step_sound _ _ _ _ _ _ I E) as [C [I1 X]]. rewrite C, X. simpl. eapply IH; eassumption.
Qed.

Theorem run_monitor ls x : run xinit ls = Some x -> monitor ls = true.
Proof. destruct x as [s a]. intro H. exact (proj1 (run_sound ls _ _ _ _ _ inv_init H)). Qed.

Theorem run_inv ls s a : run xinit ls = Some (s, a) -> Inv a s (ghost_after ginit ls).
Proof. intro H. exact (proj1 (proj2 (run_sound ls _ _ _ _ _ inv_init H))). Qed.

(* ---------- reading the monitor ---------- *)
Lemma ghost_after_app a : forall g b, ghost_after g (a ++ b) = ghost_after (ghost_after g a) b.
Proof. induction a as [|l r IH]; intros g b; simpl; [reflexivity|apply IH]. Qed.

Lemma xcheck_check g a l : xcheck (g, a) l = true -> check g l = true.
Proof.
  destruct l; simpl; auto; try (intro H; apply andb_true_iff in H; tauto).
Qed.

Lemma xgstep_fst g a l : exists a', xgstep (g, a) l = (gstep g l, a').
Proof. eexists. reflexivity. Qed.

Lemma monitor_split pre : forall g a l post, monitor_from (g, a) (pre ++ l :: post) = true ->
  check (ghost_after g pre) l = true /\
  exists a1, xcheck (ghost_after g pre, a1) l = true /\ monitor_from (xgstep (ghost_after g pre, a1) l) post = true.
Proof.
  induction pre as [|x r IH]; intros g a l post H; cbn [app monitor_from ghost_after] in *.
  - apply andb_true_iff in H. destruct H as [H1 H2]. split; [eapply xcheck_check; exact H1|].
    exists a. split; [exact H1|exact H2].
  - apply andb_true_iff in H. destruct H as [_ H]. destruct (xgstep_fst g a x) as [a' E]. rewrite E in H. eapply IH. exact H.
Qed.

Lemma disc_step g l : g_disc (gstep g l) = true -> g_disc g = true.
Proof.
  destruct l as [d st vis unv res|q k|q k c|q|d|slot comm vidx r| |da sta]; simpl; auto.
  - destruct st; auto. destruct (kind_of_dt (fst d)); [destruct (resolved_res res)|]; simpl; intro H;
      apply andb_true_iff in H; tauto.
  - intro H. apply andb_true_iff in H. tauto.
Qed.
Lemma disc_mono ls : forall g, g_disc (ghost_after g ls) = true -> g_disc g = true.
Proof. induction ls as [|l r IH]; intros g H; simpl in *; [exact H|]. apply disc_step with l. apply IH. exact H. Qed.

Lemma ans_step g l x : In x (g_ans g) -> In x (g_ans (gstep g l)).
Proof.
  destruct l as [d st vis unv res|q k|q k c|q|d|slot comm vidx r| |da sta]; simpl; auto.
  destruct st; auto. destruct (kind_of_dt (fst d)); [destruct (resolved_res res)|]; simpl; auto.
Qed.
Lemma ans_mono ls : forall g x, In x (g_ans g) -> In x (g_ans (ghost_after g ls)).
Proof. induction ls as [|l r IH]; intros g x H; simpl; [exact H|]. apply IH. apply ans_step. exact H. Qed.

(* all answers ever given for one key carry the same content *)
Theorem answers_unique ls : monitor ls = true -> disciplined ls = true ->
  forall pre q1 k c1 mid q2 c2 post,
    ls = pre ++ LAnswer q1 k c1 :: mid ++ LAnswer q2 k c2 :: post -> c1 = c2.
Proof.
  intros M D pre q1 k c1 mid q2 c2 post E. subst ls. unfold monitor, disciplined in *.
  replace (pre ++ LAnswer q1 k c1 :: mid ++ LAnswer q2 k c2 :: post)
    with ((pre ++ LAnswer q1 k c1 :: mid) ++ LAnswer q2 k c2 :: post) in *
    by (rewrite <- app_assoc; reflexivity).
  destruct (monitor_split _ _ _ _ _ M) as [C _].
  rewrite ghost_after_app in D. simpl in D. apply disc_mono in D. simpl in D.
  unfold check in C. rewrite D in C. simpl in C. apply andb_true_iff in C. destruct C as [_ C].
  rewrite ans_agree_spec in C. apply C.
  rewrite ghost_after_app. simpl. apply ans_mono. simpl. left. reflexivity.
Qed.

Lemma pend_origin ls : forall g q k, In (q, k) (g_pend (ghost_after g ls)) -> In (q, k) (g_pend g) \/ In (LAwaitReg q k) ls.
Proof.
  induction ls as [|l r IH]; intros g q k H; simpl in *; [left; exact H|].
  destruct (IH _ _ _ H) as [H1|H1]; [|right; right; exact H1].
  destruct l as [d st vis unv res|q' k'|q' k' c|q'|d|slot comm vidx r'| |da sta]; simpl in H1; auto.
  - destruct st; auto. destruct (kind_of_dt (fst d)); [destruct (resolved_res res)|]; simpl in H1; auto.
  - apply in_app_or in H1. destruct H1 as [H1|[H1|[]]]; [left; exact H1|]. injection H1 as <- <-. right. left. reflexivity.
  - apply drop_q_In in H1. left. tauto.
  - apply drop_q_In in H1. left. tauto.
Qed.

Lemma off_origin ls : forall g k c, In (k, c) (g_off (ghost_after g ls)) ->
  In (k, c) (g_off g) \/ exists d vis unv res e, In (LStore d Scheduled vis unv res) ls /\ In e vis /\ In (k, c) (offers (fst d) e).
Proof.
  induction ls as [|l r IH]; intros g k c H; simpl in *; [left; exact H|].
  destruct (IH _ _ _ H) as [H1|[d [vis [unv [res [e [H1 H2]]]]]]]; [|right; exists d, vis, unv, res, e; split; [right; exact H1|exact H2]].
  destruct l as [d st vis unv res|q' k'|q' k' c'|q'|d|slot comm vidx r'| |da sta]; simpl in H1; auto.
  destruct st; auto.
  assert (In (k, c) (flat_map (offers (fst d)) vis ++ g_off g)).
  { destruct (kind_of_dt (fst d)); [destruct (resolved_res res)|]; exact H1. }
  apply in_app_or in H0. destruct H0 as [H0|H0]; [|left; exact H0].
  apply in_flat_map in H0. destruct H0 as [e [He H0]]. right. exists d, vis, unv, res, e. split; [left; reflexivity|split; assumption].
Qed.

Lemma offpk_origin ls : forall g k c, In (k, c) (g_offpk (ghost_after g ls)) ->
  In (k, c) (g_offpk g) \/ exists d vis unv res e, In (LStore d Scheduled vis unv res) ls /\ In e vis /\ In (k, c) (offers_pk (fst d) e).
Proof.
  induction ls as [|l r IH]; intros g k c H; simpl in *; [left; exact H|].
  destruct (IH _ _ _ H) as [H1|[d [vis [unv [res [e [H1 H2]]]]]]]; [|right; exists d, vis, unv, res, e; split; [right; exact H1|exact H2]].
  destruct l as [d st vis unv res|q' k'|q' k' c'|q'|d|slot comm vidx r'| |da sta]; simpl in H1; auto.
  destruct st; auto.
  assert (In (k, c) (flat_map (offers_pk (fst d)) vis ++ g_offpk g)).
  { destruct (kind_of_dt (fst d)); [destruct (resolved_res res)|]; exact H1. }
  apply in_app_or in H0. destruct H0 as [H0|H0]; [|left; exact H0].
  apply in_flat_map in H0. destruct H0 as [e [He H0]]. right. exists d, vis, unv, res, e. split; [left; reflexivity|split; assumption].
Qed.

(* a blocking query returns only data that was handed, for that very key, to a Store that was not refused *)
Theorem answer_facts ls : monitor ls = true ->
  forall pre q k c post, ls = pre ++ LAnswer q k c :: post ->
  In (LAwaitReg q k) pre /\
  exists d vis unv res e, In (LStore d Scheduled vis unv res) pre /\ In e vis /\ In (k, c) (offers (fst d) e).
Proof.
  intros M pre q k c post E. subst ls. destruct (monitor_split _ _ _ _ _ M) as [C _].
  unfold check in C. rewrite !andb_true_iff in C. destruct C as [[C1 C2] _].
  apply qk_in_In in C1. apply pair_in_In in C2. split.
  - destruct (pend_origin _ _ _ _ C1) as [H|H]; [contradiction|exact H].
  - destruct (off_origin _ _ _ _ C2) as [H|H]; [contradiction|exact H].
Qed.

Theorem pubkey_facts ls : monitor ls = true ->
  forall pre slot comm vidx p post, ls = pre ++ LPubKey slot comm vidx (Some p) :: post ->
  exists d vis unv res e, In (LStore d Scheduled vis unv res) pre /\ In e vis /\ In ((slot, comm, vidx), p) (offers_pk (fst d) e).
Proof.
  intros M pre slot comm vidx p post E. subst ls. destruct (monitor_split _ _ _ _ _ M) as [C _].
  unfold check in C. apply pk_in_In in C.
  destruct (offpk_origin _ _ _ _ C) as [H|H]; [contradiction|exact H].
Qed.

(* data for an expired (or exempt) duty is refused: error, no entry touched; and only then *)
Theorem refused_facts ls : monitor ls = true ->
  forall pre d st vis unv res post, ls = pre ++ LStore d st vis unv res :: post ->
  (st <> Scheduled -> res = Some ERefused /\ vis = []) /\ (st = Scheduled -> res <> Some ERefused).
Proof.
  intros M pre d st vis unv res post E. subst ls. destruct (monitor_split _ _ _ _ _ M) as [C _].
  unfold check in C. split.
  - intro Hs. destruct st; try contradiction; apply andb_true_iff in C; destruct C as [C1 C2];
      apply res_eqb_eq in C1; apply nil_entries_nil in C2; split; assumption.
  - intros -> E. subst res. discriminate.
Qed.

Lemma step_store_inv s a d st vis unv res s' a' :
  step (s, a) (LStore d st vis unv res) = Some (s', a') ->
  core_step false s (LStore d st vis unv res) = Some s' /\ a = Some (d, st) /\ a' = None.
Proof.
  unfold step, step_gen. destruct a as [[d' st']|]; cbn [add_eqb]; [|intro H; discriminate H].
  destruct (duty_eqb d' d && status_eqb st' st) eqn:E; [|intro H; discriminate H].
  apply andb_true_iff in E. destruct E as [E1 E2]. apply duty_eqb_eq in E1. subst d'.
  assert (st' = st) by (destruct st', st; try discriminate; reflexivity). subst st'.
  destruct (core_step false s (LStore d st vis unv res)) as [s1|]; cbn [with_add]; [|intro H; discriminate H].
  intro H. injection H as <- <-. auto.
Qed.

Lemma refused_no_change_core s d st vis unv res s' :
  core_step false s (LStore d st vis unv res) = Some s' -> st <> Scheduled -> s' = s.
Proof.
  destruct d as [t sl]. cbv beta iota delta [core_step]. intros H Hs.
  destruct st; try contradiction; destruct (res_eqb res (Some ERefused) && nil_entries vis); congruence.
Qed.

Theorem refused_no_change s a d st vis unv res s' a' :
  step (s, a) (LStore d st vis unv res) = Some (s', a') -> st <> Scheduled -> s' = s.
Proof. intros H. apply step_store_inv in H. destruct H as [H _]. eapply refused_no_change_core. exact H. Qed.

(* ---- no lost wake-up, on the trace ---- *)
Definition returns (q : N) (l : label) : Prop := l = LCancel q \/ exists k c, l = LAnswer q k c.

(* q asked for k and has not returned yet *)
Definition outstanding (pre : list label) (q : N) (k : key) : Prop := In (q, k) (g_pend (ghost_after ginit pre)).
(* k was provided by a successful Store and no deletion can have happened since *)
Definition provided (pre : list label) (k : key) : Prop := In k (g_prov (ghost_after ginit pre)).

Lemma must_returns mid : forall g a q post,
  In q (g_must g) -> monitor_from (g, a) (mid ++ LQuiet :: post) = true -> exists l, In l mid /\ returns q l.
Proof.
  induction mid as [|l r IH]; intros g a q post Hq M; simpl in M.
  - apply andb_true_iff in M. destruct M as [M _]. destruct (g_must g); [contradiction|discriminate].
  - apply andb_true_iff in M. destruct M as [_ M].
    assert (Keep : In q (g_must (gstep g l)) -> exists l0, In l0 (l :: r) /\ returns q l0).
    { intro H. destruct (IH _ _ _ _ H M) as [l0 [H1 H2]]. exists l0. split; [right; exact H1|exact H2]. }
    destruct l as [d st vis unv res|q' k'|q' k' c'|q'|d|slot comm vidx r'| |da sta]; simpl in Keep; auto.
    + destruct st; auto. destruct (kind_of_dt (fst d)); [destruct (resolved_res res)|]; simpl in Keep; auto.
      apply Keep. apply in_or_app. right. exact Hq.
    + apply Keep. destruct (in_keys k' (g_prov g)); [right|]; exact Hq.
    + destruct (N.eqb_spec q q') as [->|Hne].
      * exists (LAnswer q' k' c'). split; [left; reflexivity|right; exists k', c'; reflexivity].
      * apply Keep. apply drop_n_In. split; assumption.
    + destruct (N.eqb_spec q q') as [->|Hne].
      * exists (LCancel q'). split; [left; reflexivity|left; reflexivity].
      * apply Keep. apply drop_n_In. split; assumption.
Qed.

(* once a Store that got through has provided k, every reader waiting for k returns before the
   next quiescent point *)
Theorem wakeup_on_store ls : monitor ls = true ->
  forall pre d vis unv res mid post q k,
    ls = pre ++ LStore d Scheduled vis unv res :: mid ++ LQuiet :: post ->
    kind_of_dt (fst d) <> None -> resolved_res res = true ->
    outstanding pre q k -> In k (store_keys (fst d) vis) ->
    exists l, In l mid /\ returns q l.
Proof.
  intros M pre d vis unv res mid post q k E Hk Hr Ho Hin. subst ls.
  destruct (monitor_split _ _ _ _ _ M) as [_ [a1 [_ M2]]]. unfold xgstep in M2. eapply must_returns; [|exact M2].
  unfold gstep. destruct (kind_of_dt (fst d)) as [kd|]; [|contradiction]. rewrite Hr. simpl.
  apply in_or_app. left. apply in_map_iff. exists (q, k). split; [reflexivity|].
  apply filter_In. split; [exact Ho|]. simpl. apply in_keys_In. exact Hin.
Qed.

(* a query for a key that is provided returns before the next quiescent point *)
Theorem wakeup_on_await ls : monitor ls = true ->
  forall pre q k mid post, ls = pre ++ LAwaitReg q k :: mid ++ LQuiet :: post ->
    provided pre k -> exists l, In l mid /\ returns q l.
Proof.
  intros M pre q k mid post E Hp. subst ls.
  destruct (monitor_split _ _ _ _ _ M) as [_ [a1 [_ M2]]]. unfold xgstep in M2. eapply must_returns; [|exact M2].
  simpl. apply in_keys_In in Hp. rewrite Hp. left. reflexivity.
Qed.

(* ---- the verdict and the write are one atomic step ---- *)
Definition passive (l : label) : Prop :=
  match l with LExpire _ | LAnswer _ _ _ | LCancel _ | LQuiet => True | _ => False end.

Lemma passive_keeps mid : forall g a l post, (forall x, In x mid -> passive x) ->
  monitor_from (g, a) (mid ++ l :: post) = true -> exists g', xcheck (g', a) l = true.
Proof.
  induction mid as [|x r IH]; intros g a l post Hp M; cbn [app monitor_from] in M.
  - apply andb_true_iff in M. destruct M as [M _]. exists g. exact M.
  - apply andb_true_iff in M. destruct M as [_ M].
    assert (E : xgstep (g, a) x = (gstep g x, a)).
    { specialize (Hp x (or_introl eq_refl)). destruct x; try contradiction; reflexivity. }
    rewrite E in M. eapply IH; [|exact M]. intros y Hy. apply Hp. right. exact Hy.
Qed.

(* between the deadline verdict of a Store and the end of that Store only events that do not need
   the lock are observed: the deadliner emitting duties, readers returning *)
Theorem verdict_write_atomic ls : monitor ls = true ->
  forall pre d st mid l post, ls = pre ++ LAdd d st :: mid ++ l :: post ->
  (forall x, In x mid -> passive x) ->
  passive l \/ exists vis unv res, l = LStore d st vis unv res.
Proof.
  intros M pre d st mid l post E Hp. subst ls. unfold monitor, xginit in M.
  destruct (monitor_split _ _ _ _ _ M) as [_ [a1 [_ M2]]]. cbn [xgstep] in M2.
  destruct (passive_keeps _ _ _ _ _ Hp M2) as [g' C].
  destruct l as [d' st' vis unv res|q k|q k c|q|d'|slot comm vidx r| |d' st']; simpl in C; try (left; exact I); try discriminate.
  right. apply andb_true_iff in C. destruct C as [C _]. apply andb_true_iff in C. destruct C as [C1 C2].
  apply duty_eqb_eq in C1. subst d'. assert (st = st') by (destruct st, st'; try discriminate; reflexivity). subst st'.
  exists vis, unv, res. reflexivity.
Qed.

(* ---- no lost wake-up, on the state ---- *)
Theorem stale_only_after_failed_store ls s a : run xinit ls = Some (s, a) ->
  forall q k, In (q, k) (pend s) -> lookup k (vals (st_db s)) <> None -> In (k_kind k) (g_dirty (ghost_after ginit ls)).
Proof. intros H q k. apply (a7 _ _ _ (run_inv _ _ _ H)). Qed.

Theorem no_lost_wakeup_store pre t sl vis unv res s a kd :
  run xinit (pre ++ [LStore (t, sl) Scheduled vis unv res]) = Some (s, a) ->
  kind_of_dt t = Some kd -> resolved_res res = true ->
  forall q k, In (q, k) (pend s) -> k_kind k = kd -> lookup k (vals (st_db s)) = None.
Proof.
  intros H Hk Hr q k Hin Hkd. destruct (lookup k (vals (st_db s))) eqn:E; [|reflexivity]. exfalso.
  assert (P : In (k_kind k) (g_dirty (ghost_after ginit (pre ++ [LStore (t, sl) Scheduled vis unv res])))).
  { eapply stale_only_after_failed_store; [exact H|exact Hin|]. rewrite E. discriminate. }
  rewrite ghost_after_app in P. simpl in P. rewrite Hk, Hr in P. simpl in P.
  apply drop_kind_In in P. destruct P as [_ P]. contradiction.
Qed.

Theorem no_lost_wakeup_await pre q0 k0 s a :
  run xinit (pre ++ [LAwaitReg q0 k0]) = Some (s, a) ->
  forall q k, In (q, k) (pend s) -> k_kind k = k_kind k0 -> lookup k (vals (st_db s)) = None.
Proof.
  intros H q k Hin Hkd. destruct (lookup k (vals (st_db s))) eqn:E; [|reflexivity]. exfalso.
  assert (P : In (k_kind k) (g_dirty (ghost_after ginit (pre ++ [LAwaitReg q0 k0])))).
  { eapply stale_only_after_failed_store; [exact H|exact Hin|]. rewrite E. discriminate. }
  rewrite ghost_after_app in P. simpl in P. apply drop_kind_In in P. destruct P as [_ P]. contradiction.
Qed.

(* ---------- clashes ---------- *)
(* entry e, stored as part of a set of type t, conflicts with what db d holds *)
Definition conflicts (t : dtype) (e : entry) (d : db) : Prop :=
  match t, e with
  | DAtt, EAtt pk _ slot comm vidx cid src tgt =>
      (exists p, lookup_pk (slot, comm, vidx) (pks d) = Some p /\ p <> pk) \/
      (exists w, lookup (K KAtt slot comm 0) (vals d) = Some w /\ v_root w <> cid) \/
      (exists p, lookup_pk (slot, 0, vidx) (pks d) = Some p /\ p <> pk) \/
      (exists w, lookup (K KAtt slot 0 0) (vals d) = Some w /\ (v_src w <> src \/ v_tgt w <> tgt))
  | DPro, EPro slot root _ => exists w, lookup (K KPro slot 0 0) (vals d) = Some w /\ v_root w <> root
  | DCon, ECon cs =>
      exists slot sub broot cid w, In (slot, sub, broot, cid) cs /\
        lookup (K KCon slot sub broot) (vals d) = Some w /\ v_root w <> cid
  | _, _ => False     (* aggregates: the key contains the data root, equal keys never clash *)
  end.

Lemma conflicts_mono t e ov op ob d d' : ext ov op ob d d' -> conflicts t e d -> conflicts t e d'.
Proof.
  intros X. destruct t, e; simpl; auto.
  - intros [[p [H1 H2]]|[[w [H1 H2]]|[[p [H1 H2]]|[w [H1 H2]]]]].
    + left. exists p. split; [eapply x_pmono; eassumption|exact H2].
    + right. left. exists w. split; [eapply x_mono; eassumption|exact H2].
    + right. right. left. exists p. split; [eapply x_pmono; eassumption|exact H2].
    + right. right. right. exists w. split; [eapply x_mono; eassumption|exact H2].
  - intros [w [H1 H2]]. exists w. split; [eapply x_mono; eassumption|exact H2].
  - intros [a [b [c [dd [w [H0 [H1 H2]]]]]]]. exists a, b, c, dd, w. split; [exact H0|]. split; [eapply x_mono; eassumption|exact H2].
Qed.

Lemma put_root_clash e k v d w : lookup k (vals d) = Some w -> v_root w <> v_root v -> put_root e k v d = (d, Some e).
Proof. intros H1 H2. unfold put_root. rewrite H1. destruct (N.eqb_spec (v_root w) (v_root v)); [contradiction|reflexivity]. Qed.
Lemma put_pk_clash pk ds pkk d p : lookup_pk pkk (pks d) = Some p -> p <> pk -> put_pk pk ds pkk d = (d, Some EClashPK).
Proof. intros H1 H2. unfold put_pk. rewrite H1. destruct (N.eqb_spec p pk); [contradiction|reflexivity]. Qed.
Lemma put_att0_clash k v d w : lookup k (vals d) = Some w -> (v_src w <> v_src v \/ v_tgt w <> v_tgt v) ->
  exists er, put_att0 k v d = (d, Some er).
Proof.
  intros H1 H2. unfold put_att0. rewrite H1. destruct (N.eqb_spec (v_src w) (v_src v)); simpl; [|eexists; reflexivity].
  destruct (N.eqb_spec (v_tgt w) (v_tgt v)); simpl; [tauto|eexists; reflexivity].
Qed.

Lemma store_cons_no_conflict cs : forall d d', store_cons cs d = (d', None) ->
  forall slot sub broot cid w, In (slot, sub, broot, cid) cs -> lookup (K KCon slot sub broot) (vals d) = Some w -> v_root w = cid.
Proof.
  induction cs as [|[[[s0 b0] r0] c0] cs IH]; intros d d' H slot sub broot cid w Hin Hl; [contradiction|].
  simpl in H. apply bind_inv in H. destruct H as [[e [_ H]]|[d1 [H1 H2]]]; [discriminate|].
  destruct (N.eqb_spec (v_root w) cid) as [|Hne]; [assumption|exfalso].
  destruct Hin as [E|Hin].
  - injection E as -> -> -> ->. rewrite (put_root_clash EClashCon _ (V cid cid 0 0) _ _ Hl) in H1; [discriminate|exact Hne].
  - apply put_root_spec in H1. destruct H1 as [X _].
    apply Hne. eapply (IH _ _ H2); [exact Hin|]. eapply x_mono; eassumption.
Qed.

Lemma success_no_conflict t e d d' : store_entry false t e d = (d', None) -> ~ conflicts t e d.
Proof.
  destruct t, e; simpl; try tauto.
  - (* att *)
    intros H C. unfold store_att in H.
    apply bind_inv in H. destruct H as [[er [_ H]]|[d3 [H H4]]]; [discriminate|].
    apply bind_inv in H. destruct H as [[er [_ H]]|[d2 [H H3]]]; [discriminate|].
    apply bind_inv in H. destruct H as [[er [_ H]]|[d1 [H H2]]]; [discriminate|].
    pose proof (put_pk_spec _ _ _ _ _ _ H) as [X1 _].
    pose proof (put_root_spec _ _ _ _ _ _ H2) as [X2 _].
    pose proof (put_pk_spec _ _ _ _ _ _ H3) as [X3 _].
    destruct C as [[p [C1 C2]]|[[w [C1 C2]]|[[p [C1 C2]]|[w [C1 C2]]]]].
    + rewrite (put_pk_clash _ _ _ _ _ C1 C2) in H. discriminate.
    + apply (x_mono _ _ _ _ _ X1) in C1.
      rewrite (put_root_clash EClashAtt _ (V cid cid src tgt) _ _ C1) in H2; [discriminate|exact C2].
    + apply (x_pmono _ _ _ _ _ X1) in C1. apply (x_pmono _ _ _ _ _ X2) in C1.
      rewrite (put_pk_clash _ _ _ _ _ C1 C2) in H3. discriminate.
    + apply (x_mono _ _ _ _ _ X1) in C1. apply (x_mono _ _ _ _ _ X2) in C1. apply (x_mono _ _ _ _ _ X3) in C1.
      destruct (put_att0_clash _ (V cid cid src tgt) _ _ C1 C2) as [er E]. rewrite E in H4. discriminate.
  - intros H [w [C1 C2]]. rewrite (put_root_clash EClashPro _ (V cid root 0 0) _ _ C1) in H; [discriminate|exact C2].
  - intros H [slot [sub [broot [cid [w [C0 [C1 C2]]]]]]]. apply C2. eapply store_cons_no_conflict; eassumption.
Qed.

Lemma store_entries_no_conflict t vis : forall d d', store_entries false t vis d = Some (d', None) ->
  forall e, In e vis -> ~ conflicts t e d.
Proof.
  induction vis as [|e0 vis IH]; intros d d' H e Hin; [contradiction|]. simpl in H.
  destruct (store_entry false t e0 d) as [d1 [er|]] eqn:E; [destruct vis; discriminate|].
  destruct Hin as [<-|Hin].
  - eapply success_no_conflict. exact E.
  - intro C. apply store_entry_spec in E. destruct E as [X _].
    eapply (IH _ _ H _ Hin). eapply conflicts_mono; eassumption.
Qed.

(* a set containing a datum that conflicts with what is stored is rejected with an error ... *)
Theorem clash_is_error s a t sl vis unv res s' a' :
  step (s, a) (LStore (t, sl) Scheduled vis unv res) = Some (s', a') ->
  forall e, In e vis -> conflicts t e (st_db s) -> exists er, res = Some er /\ resolved_res res = false.
Proof.
  intro H. apply step_store_inv in H. destruct H as [H _]. revert H.
  cbv beta iota delta [core_step]. intros H e He C.
  destruct (kind_of_dt t) as [kd|] eqn:Ek.
  - destruct (dtype_eqb t DPro && Nat.ltb 1 (length (vis ++ unv))).
    + destruct (res_eqb res (Some ELen) && nil_entries vis) eqn:E; [|discriminate].
      apply andb_true_iff in E. destruct E as [E _]. apply res_eqb_eq in E. subst res. exists ELen. split; reflexivity.
    + destruct (store_entries false t vis (st_db s)) as [[d' [er|]]|] eqn:ES; [| |discriminate].
      * destruct (res_eqb res (Some er)) eqn:E; [|discriminate]. apply res_eqb_eq in E. subst res.
        destruct (store_entries_spec _ _ _ _ _ ES) as [_ [_ He']].
        exists er. split; [reflexivity|]. apply entry_err_not_resolved. apply He'. reflexivity.
      * exfalso. eapply store_entries_no_conflict; eassumption.
  - destruct (res_eqb res _ && nil_entries vis) eqn:E; [|discriminate].
    apply andb_true_iff in E. destruct E as [_ E]. apply nil_entries_nil in E. subst vis. contradiction.
Qed.

(* ... and a Store that returns such an error wakes nobody, consumes no expiry, and changes the maps
   only by ADDING keys that were absent, with data of the visited entries (partial effects) *)
Theorem error_only_adds s a t sl vis unv res s' a' :
  step (s, a) (LStore (t, sl) Scheduled vis unv res) = Some (s', a') -> resolved_res res = false ->
  pend s' = pend s /\ outbox s' = outbox s /\ expq s' = expq s /\
  ext (flat_map (offers_v t) vis) (flat_map (offers_pk t) vis) (flat_map (offers_b t) vis) (st_db s) (st_db s').
Proof.
  intro H. apply step_store_inv in H. destruct H as [H _]. revert H.
  cbv beta iota delta [core_step]. intros H Hr.
  assert (Same : Some s = Some s' -> pend s' = pend s /\ outbox s' = outbox s /\ expq s' = expq s /\
     ext (flat_map (offers_v t) vis) (flat_map (offers_pk t) vis) (flat_map (offers_b t) vis) (st_db s) (st_db s')).
  { intro E. injection E as <-. repeat split; try reflexivity; auto. }
  destruct (kind_of_dt t) as [kd|] eqn:Ek.
  - destruct (dtype_eqb t DPro && Nat.ltb 1 (length (vis ++ unv))).
    + destruct (res_eqb res (Some ELen) && nil_entries vis); [apply Same; exact H|discriminate].
    + destruct (store_entries false t vis (st_db s)) as [[d' [er|]]|] eqn:ES; [| |discriminate].
      * destruct (res_eqb res (Some er)); [|discriminate]. injection H as <-. simpl.
        destruct (store_entries_spec _ _ _ _ _ ES) as [X _]. auto.
      * destruct (nil_entries unv); [|discriminate]. cbv zeta in H.
        destruct (drain _ _) as [[d2 q2] er] eqn:ED. destruct (res_eqb res er) eqn:E; [|discriminate].
        apply res_eqb_eq in E. subst res. destruct (drain_spec _ _ _ _ _ ED) as [_ [_ [_ [_ [_ [De _]]]]]].
        destruct er as [e|]; [|discriminate]. destruct (De _ eq_refl) as [-> | ->]; discriminate.
  - destruct (res_eqb res _ && nil_entries vis); [apply Same; exact H|discriminate].
Qed.

(* no Store, successful or not, ever replaces the value stored under a key (it may delete it on expiry) *)
Theorem store_never_replaces s a d st vis unv res s' a' :
  step (s, a) (LStore d st vis unv res) = Some (s', a') ->
  forall k v v', lookup k (vals (st_db s)) = Some v -> lookup k (vals (st_db s')) = Some v' -> v' = v.
Proof.
  intro H. apply step_store_inv in H. destruct H as [H _]. revert H.
  destruct d as [t sl]. cbv beta iota delta [core_step]. intros H k v v' H1 H2.
  assert (Same : Some s = Some s' -> v' = v) by (intro E; injection E as <-; congruence).
  destruct st; try (destruct (res_eqb res (Some ERefused) && nil_entries vis); [apply Same; exact H|discriminate]).
  destruct (kind_of_dt t) as [kd|] eqn:Ek.
  - destruct (dtype_eqb t DPro && Nat.ltb 1 (length (vis ++ unv))).
    + destruct (res_eqb res (Some ELen) && nil_entries vis); [apply Same; exact H|discriminate].
    + destruct (store_entries false t vis (st_db s)) as [[d' [er|]]|] eqn:ES; [| |discriminate];
        destruct (store_entries_spec _ _ _ _ _ ES) as [X _]; apply (x_mono _ _ _ _ _ X) in H1.
      * destruct (res_eqb res (Some er)); [|discriminate]. injection H as <-. simpl in H2. congruence.
      * destruct (nil_entries unv); [|discriminate]. cbv zeta in H.
        destruct (drain _ _) as [[d2 q2] er] eqn:ED. destruct (res_eqb res er); [|discriminate].
        injection H as <-. simpl in H2. destruct (drain_spec _ _ _ _ _ ED) as [D1 _].
        apply D1 in H2. unfold do_resolve in H2. simpl in H2.
        destruct (resolve kd (vals d') (pend s)). simpl in H2. congruence.
  - destruct (res_eqb res _ && nil_entries vis); [apply Same; exact H|discriminate].
Qed.

(* ---------- non-vacuity and counterexamples (closed computations) ---------- *)
(* a disciplined history with a clash, a partial failure, three readers blocked and then woken, a
   cancellation, an expiry and a refused late store: accepted by the model, passes the monitor *)
Definition demo_trace : list label := [
  LAwaitReg 1 (K KAtt 5 1 0); LQuiet; LAwaitReg 2 (K KAtt 5 1 0); LQuiet; LAwaitReg 3 (K KAtt 5 0 0); LQuiet;
  LAwaitReg 4 (K KAtt 5 2 0); LQuiet;
  LAdd (DAtt, 5) Scheduled; LStore (DAtt, 5) Scheduled [EAtt 1 5 5 1 1 10 7 8] [] None;
  LAnswer 1 (K KAtt 5 1 0) 10; LAnswer 2 (K KAtt 5 1 0) 10; LAnswer 3 (K KAtt 5 0 0) 10; LQuiet;
  LAdd (DAtt, 5) Scheduled; LStore (DAtt, 5) Scheduled [EAtt 2 5 5 2 2 11 7 8; EAtt 1 5 5 1 1 12 7 8] [] (Some EClashAtt); LQuiet;
  LPubKey 5 2 2 (Some 2);
  LAwaitReg 5 (K KAtt 5 0 0); LAnswer 4 (K KAtt 5 2 0) 11; LAnswer 5 (K KAtt 5 0 0) 10; LQuiet;
  LAwaitReg 6 (K KPro 5 0 0); LQuiet; LCancel 6; LQuiet;
  LExpire (DAtt, 5); LQuiet;
  LAdd (DPro, 6) Scheduled; LStore (DPro, 6) Scheduled [EPro 6 1 20] [] None; LQuiet;
  LAdd (DAtt, 5) Expired; LStore (DAtt, 5) Expired [] [EAtt 1 5 5 1 1 13 7 8] (Some ERefused); LQuiet;
  LPubKey 5 2 2 None;
  LAwaitReg 7 (K KAtt 5 1 0); LQuiet ].

Lemma demo_accepted : (exists s, run xinit demo_trace = Some s) /\ monitor demo_trace = true /\ disciplined demo_trace = true.
Proof. split; [eexists; vm_compute; reflexivity|split; vm_compute; reflexivity]. Qed.

(* F2: before the repair an aggregate with the same key (same data root) but other aggregation
   bits replaced the stored one; two readers of the same key got different data *)
Definition f2_trace : list label := [
  LAdd (DAgg, 2) Scheduled; LStore (DAgg, 2) Scheduled [EAgg 2 1 1 2] [] None; LQuiet;
  LAwaitReg 1 (K KAgg 2 1 1); LAnswer 1 (K KAgg 2 1 1) 2; LQuiet;
  LAdd (DAgg, 2) Scheduled; LStore (DAgg, 2) Scheduled [EAgg 2 1 1 3] [] None; LQuiet;
  LAwaitReg 2 (K KAgg 2 1 1); LAnswer 2 (K KAgg 2 1 1) 3; LQuiet ].

Lemma answers_unique_agg_refuted_before_fix :
  (exists s, run_gen true xinit f2_trace = Some s) /\ disciplined f2_trace = true /\ monitor f2_trace = false
  /\ run xinit f2_trace = None.
Proof. split; [eexists; vm_compute; reflexivity|repeat split; vm_compute; reflexivity]. Qed.

(* Uniqueness across an expiry rests on the deadliner (C16) and the caller: if a duty that was
   emitted on C() is Scheduled again, other data is accepted and served for the same key. *)
Definition undisciplined_trace : list label := [
  LAdd (DPro, 3) Scheduled; LStore (DPro, 3) Scheduled [EPro 3 1 10] [] None; LQuiet;
  LAwaitReg 1 (K KPro 3 0 0); LAnswer 1 (K KPro 3 0 0) 10; LQuiet;
  LExpire (DPro, 3); LQuiet;
  LAdd (DPro, 4) Scheduled; LStore (DPro, 4) Scheduled [] [] None; LQuiet;
  LAdd (DPro, 3) Scheduled; LStore (DPro, 3) Scheduled [EPro 3 2 11] [] None; LQuiet;
  LAwaitReg 2 (K KPro 3 0 0); LAnswer 2 (K KPro 3 0 0) 11; LQuiet ].

Lemma answers_unique_needs_discipline :
  (exists s, run xinit undisciplined_trace = Some s) /\ disciplined undisciplined_trace = false.
Proof. split; [eexists; vm_compute; reflexivity|vm_compute; reflexivity]. Qed.

(* The deadline verdict and the write are one atomic step.  If they were not (deadliner.Add before
   taking the lock), this history would be possible: the second Store of the attester duty gets the
   verdict Scheduled BEFORE the duty expires, another Store then processes the expiry (deleting X),
   and only then the second Store writes Y: accepted although it conflicts with data already served,
   and the key is answered X, then Y.  The history is disciplined (the verdict came before the
   expiry); the model refuses it (at the second LAdd) and the monitor rejects it. *)
Definition race_trace : list label := [
  LAdd (DAtt, 5) Scheduled; LStore (DAtt, 5) Scheduled [EAtt 1 5 5 1 1 10 7 8] [] None; LQuiet;
  LAwaitReg 1 (K KAtt 5 1 0); LAnswer 1 (K KAtt 5 1 0) 10; LQuiet;
  LAdd (DAtt, 5) Scheduled;                      (* Store(Y): verdict *)
  LExpire (DAtt, 5);                             (* the deadline passes *)
  LAdd (DPro, 9) Scheduled; LStore (DPro, 9) Scheduled [EPro 9 1 20] [] None;   (* another Store drains the expiry *)
  LStore (DAtt, 5) Scheduled [EAtt 1 5 5 1 1 11 7 8] [] None; LQuiet;           (* Store(Y): write *)
  LAwaitReg 2 (K KAtt 5 1 0); LAnswer 2 (K KAtt 5 1 0) 11; LQuiet ].

Lemma verdict_write_race_rejected :
  run xinit race_trace = None /\ monitor race_trace = false /\ disciplined race_trace = true /\
  first_violation xginit race_trace 0 = Some 8%nat.
Proof. repeat split; vm_compute; reflexivity. Qed.

(* ---------- what "disciplined" says, in words ---------- *)
Definition Disciplined (ls : list label) : Prop :=
  (forall pre d post, ls = pre ++ LAdd d Scheduled :: post -> ~ In (LExpire d) pre) /\
  (forall pre d vis unv res post, ls = pre ++ LStore d Scheduled vis unv res :: post ->
     forall e, In e vis -> entry_slots_ok (snd d) e = true).

Lemma dead_spec ls : forall g d, In d (g_dead (ghost_after g ls)) <-> In d (g_dead g) \/ In (LExpire d) ls.
Proof.
  induction ls as [|l r IH]; intros g d; simpl; [tauto|]. rewrite IH.
  destruct l as [d0 st vis unv res|q k|q k c|q|d0|slot comm vidx r0| |da sta]; simpl;
    try (split; [intros [H|H]; [left; exact H|right; right; exact H] | intros [H|[H|H]]; [left; exact H|discriminate H|right; exact H]]).
  - assert (E : g_dead (gstep g (LStore d0 st vis unv res)) = g_dead g).
    { simpl. destruct st; try reflexivity. destruct (kind_of_dt (fst d0)); [destruct (resolved_res res)|]; reflexivity. }
    simpl in E. rewrite E. split; [intros [H|H]; [left; exact H|right; right; exact H] | intros [H|[H|H]]; [left; exact H|discriminate H|right; exact H]].
  - split.
    + intros [[H|H]|H]; [right; left; congruence|left; exact H|right; right; exact H].
    + intros [H|[H|H]]; [left; right; exact H|left; left; congruence|right; exact H].
Qed.

Lemma disciplined_snoc ls l :
  disciplined (ls ++ [l]) =
  disciplined ls && match l with
                    | LStore d Scheduled vis _ _ => forallb (entry_slots_ok (snd d)) vis
                    | LAdd d Scheduled => negb (in_duties d (g_dead (ghost_after ginit ls)))
                    | _ => true
                    end.
Proof.
  unfold disciplined. rewrite ghost_after_app. simpl.
  destruct l as [d st vis unv res|q k|q k c|q|d|slot comm vidx r| |d st]; simpl; try (rewrite andb_true_r; reflexivity).
  - destruct st; try (rewrite andb_true_r; reflexivity).
    destruct (kind_of_dt (fst d)); [destruct (resolved_res res)|]; reflexivity.
  - destruct st; reflexivity.
Qed.

Lemma snoc_split {A} (a : list A) x b y c :
  a ++ [x] = b ++ y :: c -> (c = [] /\ a = b /\ x = y) \/ (exists c', c = c' ++ [x] /\ a = b ++ y :: c').
Proof.
  intro H. destruct c as [|z c] using rev_ind.
  - left. apply app_inj_tail in H. destruct H as [-> ->]. auto.
  - right. clear IHc. exists c. replace (b ++ y :: c ++ [z]) with ((b ++ y :: c) ++ [z]) in H by (rewrite <- app_assoc; reflexivity).
    apply app_inj_tail in H. destruct H as [-> ->]. auto.
Qed.

Theorem disciplined_spec ls : disciplined ls = true <-> Disciplined ls.
Proof.
  induction ls as [|l ls IH] using rev_ind.
  - split; [|reflexivity]. intros _. split; intros; destruct pre; discriminate.
  - rewrite disciplined_snoc, andb_true_iff, IH. split.
    + intros [[H1 H1'] H2]. split.
      * intros pre d post E. apply snoc_split in E. destruct E as [[-> [-> ->]]|[c' [-> ->]]].
        -- intro Hin. assert (In d (g_dead (ghost_after ginit pre))) by (apply dead_spec; right; exact Hin).
           apply in_duties_In in H. rewrite H in H2. discriminate.
        -- eapply H1. reflexivity.
      * intros pre d vis unv res post E. apply snoc_split in E. destruct E as [[-> [-> ->]]|[c' [-> ->]]].
        -- intros e He. rewrite forallb_forall in H2. apply H2. exact He.
        -- eapply H1'. reflexivity.
    + intros [H H']. split; [split|].
      * intros pre d post E. apply (H pre d (post ++ [l])). rewrite E, <- app_assoc. reflexivity.
      * intros pre d vis unv res post E. apply (H' pre d vis unv res (post ++ [l])). rewrite E, <- app_assoc. reflexivity.
      * destruct l as [d st vis unv res|q k|q k c|q|d|slot comm vidx r| |d st]; try reflexivity; destruct st; try reflexivity.
        -- apply forallb_forall. exact (H' ls d vis unv res [] eq_refl).
        -- pose proof (H ls d [] eq_refl) as H1.
           destruct (in_duties d (g_dead (ghost_after ginit ls))) eqn:E; [|reflexivity].
           apply in_duties_In in E. apply dead_spec in E. destruct E as [[]|E]. contradiction.
Qed.
