(* Proofs about the duty store model: every trace accepted by the model satisfies the trace
   monitor (which transcribes property C06), plus the Prop-level readings of the monitor and the
   state-level facts (clash handling, refusal of expired duties, no lost wake-up). *)
From Coq Require Import List NArith Bool Lia.
From Charon Require Import Stores.DutyDB.
Import ListNotations.
Local Open Scope N_scope.

(* ---------- decidable equalities ---------- *)
Lemma kind_eqb_eq a b : kind_eqb a b = true <-> a = b.
Proof. destruct a, b; simpl; split; intro H; try reflexivity; try discriminate. Qed.
Lemma dtype_eqb_eq a b : dtype_eqb a b = true <-> a = b.
Proof. destruct a, b; simpl; split; intro H; try reflexivity; try discriminate. Qed.
Lemma err_eqb_eq a b : err_eqb a b = true <-> a = b.
Proof. destruct a, b; simpl; split; intro H; try reflexivity; try discriminate. Qed.
Lemma res_eqb_eq a b : res_eqb a b = true <-> a = b.
Proof.
  destruct a as [x|], b as [y|]; simpl; try (split; [discriminate|discriminate]); try tauto.
  rewrite err_eqb_eq. split; congruence.
Qed.
Lemma key_eqb_eq x y : key_eqb x y = true <-> x = y.
Proof.
  destruct x as [a b c d], y as [a' b' c' d']. unfold key_eqb. simpl.
  rewrite !andb_true_iff, kind_eqb_eq, !N.eqb_eq. split.
  - intros [[[-> ->] ->] ->]. reflexivity.
  - intro H. injection H as -> -> -> ->. tauto.
Qed.
Lemma key_eqb_refl x : key_eqb x x = true.
Proof. apply key_eqb_eq. reflexivity. Qed.
Lemma key_eqb_neq x y : key_eqb x y = false <-> x <> y.
Proof. rewrite <- key_eqb_eq. destruct (key_eqb x y); split; congruence. Qed.
Lemma pkkey_eqb_eq x y : pkkey_eqb x y = true <-> x = y.
Proof.
  destruct x as [[a b] c], y as [[a' b'] c']. simpl.
  rewrite !andb_true_iff, !N.eqb_eq. split.
  - intros [[-> ->] ->]. reflexivity.
  - intro H. injection H as -> -> ->. tauto.
Qed.
Lemma duty_eqb_eq x y : duty_eqb x y = true <-> x = y.
Proof.
  destruct x as [a b], y as [a' b']. unfold duty_eqb. simpl.
  rewrite andb_true_iff, dtype_eqb_eq, N.eqb_eq. split; [intros [-> ->]; reflexivity | intro H; injection H as -> ->; tauto].
Qed.
Lemma status_not_sched st : st <> Scheduled -> st = Expired \/ st = Exempt.
Proof. destruct st; intro H; [left|congruence|right]; reflexivity. Qed.

Lemma in_keys_In k l : in_keys k l = true <-> In k l.
Proof.
  unfold in_keys. rewrite existsb_exists. split.
  - intros [x [Hx He]]. apply key_eqb_eq in He. subst. exact Hx.
  - intro H. exists k. split; [exact H | apply key_eqb_refl].
Qed.
Lemma in_duties_In d l : in_duties d l = true <-> In d l.
Proof.
  unfold in_duties. rewrite existsb_exists. split.
  - intros [x [Hx He]]. apply duty_eqb_eq in He. subst. exact Hx.
  - intro H. exists d. split; [exact H | apply duty_eqb_eq; reflexivity].
Qed.
Lemma pair_in_In k c l : pair_in k c l = true <-> In (k, c) l.
Proof.
  unfold pair_in. rewrite existsb_exists. split.
  - intros [[k' c'] [Hx He]]. simpl in He. apply andb_true_iff in He. destruct He as [H1 H2].
    apply key_eqb_eq in H1. apply N.eqb_eq in H2. subst. exact Hx.
  - intro H. exists (k, c). split; [exact H|]. simpl. rewrite key_eqb_refl, N.eqb_refl. reflexivity.
Qed.
Lemma pk_in_In k c l : pk_in k c l = true <-> In (k, c) l.
Proof.
  unfold pk_in. rewrite existsb_exists. split.
  - intros [[k' c'] [Hx He]]. simpl in He. apply andb_true_iff in He. destruct He as [H1 H2].
    apply pkkey_eqb_eq in H1. apply N.eqb_eq in H2. subst. exact Hx.
  - intro H. exists (k, c). split; [exact H|]. simpl. rewrite N.eqb_refl.
    replace (pkkey_eqb k k) with true; [reflexivity|]. symmetry. apply pkkey_eqb_eq. reflexivity.
Qed.
Lemma qk_in_In q k l : qk_in q k l = true <-> In (q, k) l.
Proof.
  unfold qk_in. rewrite existsb_exists. split.
  - intros [[q' k'] [Hx He]]. simpl in He. apply andb_true_iff in He. destruct He as [H1 H2].
    apply key_eqb_eq in H2. apply N.eqb_eq in H1. subst. exact Hx.
  - intro H. exists (q, k). split; [exact H|]. simpl. rewrite key_eqb_refl, N.eqb_refl. reflexivity.
Qed.
Lemma ans_in_In q k c l : existsb (ans_eqb (q, k, c)) l = true <-> In (q, k, c) l.
Proof.
  rewrite existsb_exists. split.
  - intros [[[q' k'] c'] [Hx He]]. simpl in He. rewrite !andb_true_iff in He. destruct He as [[H1 H2] H3].
    apply key_eqb_eq in H2. apply N.eqb_eq in H1. apply N.eqb_eq in H3. subst. exact Hx.
  - intro H. exists (q, k, c). split; [exact H|]. simpl. rewrite key_eqb_refl, !N.eqb_refl. reflexivity.
Qed.
Lemma nil_entries_nil l : nil_entries l = true <-> l = [].
Proof. destruct l; simpl; split; congruence. Qed.
Lemma ans_agree_spec k c l : ans_agree k c l = true <-> (forall c', In (k, c') l -> c' = c).
Proof.
  unfold ans_agree. rewrite forallb_forall. split.
  - intros H c' Hin. specialize (H _ Hin). simpl in H. rewrite key_eqb_refl in H. simpl in H.
    apply N.eqb_eq in H. exact H.
  - intros H [k' c'] Hin. simpl. destruct (key_eqb k' k) eqn:E; [|reflexivity]. simpl.
    apply key_eqb_eq in E. subst. apply N.eqb_eq. apply H. exact Hin.
Qed.

(* ---------- maps ---------- *)
Lemma lookup_del k p m : lookup k (del_vals p m) = if p k then None else lookup k m.
Proof.
  induction m as [|[k' v] r IH]; simpl; [destruct (p k); reflexivity|].
  destruct (p k') eqn:Ep; simpl.
  - rewrite IH. destruct (key_eqb k' k) eqn:E; [|reflexivity].
    apply key_eqb_eq in E. subst. rewrite Ep. reflexivity.
  - destruct (key_eqb k' k) eqn:E.
    + apply key_eqb_eq in E. subst. rewrite Ep. reflexivity.
    + exact IH.
Qed.
Lemma lookup_pk_filter k (p : pkkey -> bool) m :
  lookup_pk k (filter (fun kp => negb (p (fst kp))) m) = if p k then None else lookup_pk k m.
Proof.
  induction m as [|[k' v] r IH]; simpl; [destruct (p k); reflexivity|].
  destruct (p k') eqn:Ep; simpl.
  - rewrite IH. destruct (pkkey_eqb k' k) eqn:E; [|reflexivity].
    apply pkkey_eqb_eq in E. subst. rewrite Ep. reflexivity.
  - destruct (pkkey_eqb k' k) eqn:E.
    + apply pkkey_eqb_eq in E. subst. rewrite Ep. reflexivity.
    + exact IH.
Qed.
Lemma lookup_cons k k' v m : lookup k ((k', v) :: m) = if key_eqb k' k then Some v else lookup k m.
Proof. reflexivity. Qed.

(* ---------- what one store step may do ---------- *)
(* [ext ov op ob d d']: d' extends d; new values come from ov, new public keys from op, new bucket
   entries from ob. *)
Record ext (ov : list (key * val)) (op : list (pkkey * N)) (ob : list (N * pkkey)) (d d' : db) : Prop := {
  x_mono : forall k v, lookup k (vals d) = Some v -> lookup k (vals d') = Some v;
  x_new : forall k v, lookup k (vals d') = Some v -> lookup k (vals d) = Some v \/ (lookup k (vals d) = None /\ In (k, v) ov);
  x_pmono : forall k p, lookup_pk k (pks d) = Some p -> lookup_pk k (pks d') = Some p;
  x_pnew : forall k p, lookup_pk k (pks d') = Some p -> lookup_pk k (pks d) = Some p \/ In (k, p) op;
  x_abk : forall x, In x (abk d') -> In x (abk d) \/ In x ob;
  x_abk_mono : forall x, In x (abk d) -> In x (abk d')
}.

Lemma ext_refl ov op ob d : ext ov op ob d d.
Proof. constructor; intros; auto. Qed.

Lemma ext_weaken ov op ob ov' op' ob' d d' :
  ext ov op ob d d' -> incl ov ov' -> incl op op' -> incl ob ob' -> ext ov' op' ob' d d'.
Proof.
  intros [A B C D E G] Hv Hp Hb. constructor; auto.
  - intros k v H. destruct (B k v H) as [|[? ?]]; auto.
  - intros k p H. destruct (D k p H); auto.
  - intros x H. destruct (E x H); auto.
Qed.

Lemma ext_trans ov op ob d d1 d2 : ext ov op ob d d1 -> ext ov op ob d1 d2 -> ext ov op ob d d2.
Proof.
  intros [A B C D E G] [A' B' C' D' E' G']. constructor; auto.
  - intros k v H. destruct (B' k v H) as [H1|[H1 H2]].
    + apply B. exact H1.
    + right. split; [|exact H2]. destruct (lookup k (vals d)) as [w|] eqn:Ew; [|reflexivity].
      apply A in Ew. congruence.
  - intros k p H. destruct (D' k p H) as [H1|H1]; auto.
  - intros x H. destruct (E' x H) as [H1|H1]; auto.
Qed.

Lemma put_root_spec e k v d d' r :
  put_root e k v d = (d', r) ->
  ext [(k, v)] [] [] d d' /\ (r = None -> lookup k (vals d') <> None) /\ (r <> None -> d' = d /\ r = Some e).
Proof.
  unfold put_root, okr. destruct (lookup k (vals d)) as [w|] eqn:Ew.
  - destruct (v_root w =? v_root v); intro H; injection H as <- <-; (split; [apply ext_refl|]); split; try congruence.
    intros _. split; reflexivity.
  - intro H. injection H as <- <-. split; [|split; [|congruence]].
    + constructor; simpl; auto.
      * intros k0 v0 H. destruct (key_eqb k k0) eqn:E; [|exact H].
        apply key_eqb_eq in E. subst. congruence.
      * intros k0 v0. destruct (key_eqb k k0) eqn:E; [|auto].
        apply key_eqb_eq in E. subst. intro H. injection H as <-. right. split; [exact Ew|left; reflexivity].
    + intros _. simpl. rewrite key_eqb_refl. discriminate.
Qed.

Lemma put_agg_spec k v d d' r :
  put_agg false k v d = (d', r) ->
  ext [(k, v)] [] [] d d' /\ (r = None -> lookup k (vals d') <> None) /\ (r <> None -> d' = d /\ r = Some EClashAgg).
Proof.
  unfold put_agg, okr. destruct (lookup k (vals d)) as [w|] eqn:Ew.
  - destruct (v_root w =? v_root v); intro H; injection H as <- <-; (split; [apply ext_refl|]); split; try congruence.
    intros _. split; reflexivity.
  - intro H. injection H as <- <-. split; [|split; [|congruence]].
    + constructor; simpl; auto.
      * intros k0 v0 H. destruct (key_eqb k k0) eqn:E; [|exact H].
        apply key_eqb_eq in E. subst. congruence.
      * intros k0 v0. destruct (key_eqb k k0) eqn:E; [|auto].
        apply key_eqb_eq in E. subst. intro H. injection H as <-. right. split; [exact Ew|left; reflexivity].
    + intros _. simpl. rewrite key_eqb_refl. discriminate.
Qed.

Lemma put_att0_spec k v d d' r :
  put_att0 k v d = (d', r) ->
  ext [(k, v)] [] [] d d' /\ (r = None -> lookup k (vals d') <> None) /\ (r <> None -> d' = d /\ (r = Some EClashSrc \/ r = Some EClashTgt)).
Proof.
  unfold put_att0, okr. destruct (lookup k (vals d)) as [w|] eqn:Ew.
  - destruct (negb (v_src w =? v_src v)); [|destruct (negb (v_tgt w =? v_tgt v))];
      intro H; injection H as <- <-; (split; [apply ext_refl|]); split; try congruence; intros _; split; auto.
  - intro H. injection H as <- <-. split; [|split; [|congruence]].
    + constructor; simpl; auto.
      * intros k0 v0 H. destruct (key_eqb k k0) eqn:E; [|exact H].
        apply key_eqb_eq in E. subst. congruence.
      * intros k0 v0. destruct (key_eqb k k0) eqn:E; [|auto].
        apply key_eqb_eq in E. subst. intro H. injection H as <-. right. split; [exact Ew|left; reflexivity].
    + intros _. simpl. rewrite key_eqb_refl. discriminate.
Qed.

Lemma put_pk_spec pk ds pkk d d' r :
  put_pk pk ds pkk d = (d', r) ->
  ext [] [(pkk, pk)] [(ds, pkk)] d d' /\ (r <> None -> d' = d /\ r = Some EClashPK).
Proof.
  unfold put_pk, okr. destruct (lookup_pk pkk (pks d)) as [p|] eqn:Ep.
  - destruct (p =? pk); intro H; injection H as <- <-; (split; [apply ext_refl|]); try congruence.
    intros _. split; reflexivity.
  - intro H. injection H as <- <-. split; [|congruence].
    constructor; simpl; auto.
    + intros k0 p0 H. destruct (pkkey_eqb pkk k0) eqn:E; [|exact H].
      apply pkkey_eqb_eq in E. subst. congruence.
    + intros k0 p0. destruct (pkkey_eqb pkk k0) eqn:E; [|auto].
      apply pkkey_eqb_eq in E. subst. intro H. injection H as <-. right. left. reflexivity.
    + intros x H. apply in_app_or in H. destruct H as [H|H]; auto.
    + intros x H. apply in_or_app. left. exact H.
Qed.
