(* Proofs about the partial-signature store model (Stores/ParSigDB.v).

   Part A  basic facts (decidable equalities, maps, lists).
   Part B  facts about the model that hold for EVERY accepted trace, without any assumption on
           the environment: what a call delivers is exactly what its own entries fired; a fired
           group has exactly t partials, one root, distinct shares and is everything stored for
           that root; at most one firing per (key, root) between trims (and per key if 2t > n);
           a stored root group of size >= t has fired; duplicates / equivocations / expired.
   Part C  conformance with the eviction-free specification (the trace monitor) under the
           environment guards status_ok and no_evict.
   Part D  witnesses: the code before the repairs violates the property; non-vacuity. *)
From Coq Require Import List Arith Bool Lia PeanoNat.
From Charon Require Import Stores.ParSigDB.
Import ListNotations.

(* ---------------------------------------------------------------- Part A *)

Lemma duty_eqb_eq a b : duty_eqb a b = true <-> a = b.
Proof.
  destruct a as [a1 a2], b as [b1 b2]. unfold duty_eqb. simpl.
  rewrite andb_true_iff, !Nat.eqb_eq. split; [intros [-> ->]; reflexivity | intro H; injection H; auto].
Qed.

Lemma key_eqb_eq a b : key_eqb a b = true <-> a = b.
Proof.
  destruct a as [[ad ap] asb], b as [[bd bp] bs]. unfold key_eqb, kduty, kpk. simpl.
  rewrite !andb_true_iff, duty_eqb_eq, !Nat.eqb_eq.
  split; [intros [[-> ->] ->]; reflexivity | intro H; injection H; auto].
Qed.

Lemma key_eqb_refl k : key_eqb k k = true.
Proof. apply key_eqb_eq. reflexivity. Qed.

Lemma key_eqb_neq a b : a <> b -> key_eqb a b = false.
Proof. intro H. destruct (key_eqb a b) eqn:E; [apply key_eqb_eq in E; contradiction | reflexivity]. Qed.

Lemma ekey_eqb_eq a b : ekey_eqb a b = true <-> a = b.
Proof.
  destruct a as [[a1 a2] a3], b as [[b1 b2] b3]. unfold ekey_eqb. simpl.
  rewrite !andb_true_iff, !Nat.eqb_eq.
  split; [intros [[-> ->] ->]; reflexivity | intro H; injection H; auto].
Qed.

Lemma partial_eqb_eq a b : partial_eqb a b = true <-> a = b.
Proof.
  destruct a, b. unfold partial_eqb. simpl. rewrite !andb_true_iff, !Nat.eqb_eq.
  split; [intros [[-> ->] ->]; reflexivity | intro H; injection H; auto].
Qed.

Lemma plist_eqb_eq a : forall b, plist_eqb a b = true <-> a = b.
Proof.
  induction a as [|x r IH]; intros [|y s]; simpl; try (split; [discriminate | discriminate]); [tauto|].
  rewrite andb_true_iff, partial_eqb_eq, IH. split; [intros [-> ->]; reflexivity | intro H; injection H; auto].
Qed.

Lemma entry_eqb_eq a b : entry_eqb a b = true <-> a = b.
Proof.
  destruct a, b; simpl; try (split; discriminate).
  - rewrite !andb_true_iff, !Nat.eqb_eq, partial_eqb_eq.
    split; [intros [[-> ->] ->]; reflexivity | intro H; injection H; auto].
  - rewrite Nat.eqb_eq. split; [intros ->; reflexivity | intro H; injection H; auto].
Qed.

Lemma oelt_eqb_eq a b : oelt_eqb a b = true <-> a = b.
Proof.
  destruct a as [[a1 a2] a3], b as [[b1 b2] b3]. unfold oelt_eqb. simpl.
  rewrite !andb_true_iff, !Nat.eqb_eq, plist_eqb_eq.
  split; [intros [[-> ->] ->]; reflexivity | intro H; injection H; auto].
Qed.

Lemma status_eqb_eq a b : status_eqb a b = true <-> a = b.
Proof. destruct a, b; simpl; split; intro H; try reflexivity; try discriminate. Qed.

Lemma mem_out_In x l : mem_out x l = true <-> In x l.
Proof.
  unfold mem_out. rewrite existsb_exists. split.
  - intros [y [Hy E]]. apply oelt_eqb_eq in E. subst. exact Hy.
  - intro H. exists x. split; [exact H | apply oelt_eqb_eq; reflexivity].
Qed.

Lemma mem_entry_In e l : mem_entry e l = true <-> In e l.
Proof.
  unfold mem_entry. rewrite existsb_exists. split.
  - intros [y [Hy E]]. apply entry_eqb_eq in E. subst. exact Hy.
  - intro H. exists e. split; [exact H | apply entry_eqb_eq; reflexivity].
Qed.

Lemma memk_In k l : memk k l = true <-> In k l.
Proof.
  unfold memk. rewrite existsb_exists. split.
  - intros [y [Hy E]]. apply key_eqb_eq in E. subst. exact Hy.
  - intro H. exists k. split; [exact H | apply key_eqb_refl].
Qed.

Lemma upd_same {A} (f : key -> A) k v : upd f k v k = v.
Proof. unfold upd. rewrite key_eqb_refl. reflexivity. Qed.

Lemma upd_other {A} (f : key -> A) k v k' : k' <> k -> upd f k v k' = f k'.
Proof. intro H. unfold upd. rewrite key_eqb_neq by exact H. reflexivity. Qed.

Lemma updc_same {A} (f : nat -> A) c v : updc f c v c = v.
Proof. unfold updc. rewrite Nat.eqb_refl. reflexivity. Qed.

Lemma updc_other {A} (f : nat -> A) c v c' : c' <> c -> updc f c v c' = f c'.
Proof. intro H. unfold updc. apply Nat.eqb_neq in H. rewrite H. reflexivity. Qed.

Lemma is_nil_true {A} (l : list A) : is_nil l = true <-> l = [].
Proof. destruct l; simpl; split; intro H; try reflexivity; discriminate. Qed.

Lemma filter_length_le {A} (f : A -> bool) l : length (filter f l) <= length l.
Proof. induction l as [|x r IH]; simpl; [lia|]. destruct (f x); simpl; lia. Qed.

Lemma filter_all {A} (f : A -> bool) l : (forall x, In x l -> f x = true) -> filter f l = l.
Proof.
  induction l as [|x r IH]; intro H; simpl; [reflexivity|].
  rewrite (H x (or_introl eq_refl)). f_equal. apply IH. intros y Hy. apply H. right. exact Hy.
Qed.

Lemma NoDup_map_filter {A B} (f : A -> B) (g : A -> bool) l :
  NoDup (map f l) -> NoDup (map f (filter g l)).
Proof.
  induction l as [|x r IH]; simpl; intro H; [constructor|].
  inversion H as [|y ys Hn Hr]; subst. destruct (g x); simpl; [|apply IH; exact Hr].
  constructor; [|apply IH; exact Hr].
  intro Hin. apply Hn. apply in_map_iff in Hin. destruct Hin as [z [Ez Hz]].
  apply filter_In in Hz. apply in_map_iff. exists z. tauto.
Qed.

Lemma find_share_none sh l : find_share sh l = None <-> ~ In sh (map share l).
Proof.
  unfold find_share. induction l as [|x r IH]; simpl; [tauto|].
  destruct (Nat.eqb_spec (share x) sh) as [E|E].
  - split; [discriminate | intro H; exfalso; apply H; left; exact E].
  - rewrite IH. tauto.
Qed.

Lemma find_share_some sh l q : find_share sh l = Some q -> In q l /\ share q = sh.
Proof.
  unfold find_share. intro H. apply find_some in H. destruct H as [H1 H2].
  apply Nat.eqb_eq in H2. tauto.
Qed.

(* two ways of splitting one list at an element *)
Lemma split_compare {A} (a : list A) : forall a' x x' b b',
  a ++ x :: b = a' ++ x' :: b' ->
  (a = a' /\ x = x' /\ b = b')
  \/ (exists m, a' = a ++ x :: m /\ b = m ++ x' :: b')
  \/ (exists m, a = a' ++ x' :: m /\ b' = m ++ x :: b).
Proof.
  induction a as [|y a IH]; intros a' x x' b b' H.
  - destruct a' as [|z a']; simpl in H.
    + injection H as -> ->. left. auto.
    + injection H as -> ->. right. left. exists a'. auto.
  - destruct a' as [|z a']; simpl in H.
    + injection H as -> <-. right. right. exists a. auto.
    + injection H as -> H. destruct (IH _ _ _ _ _ H) as [[-> [-> ->]]|[[m [-> ->]]|[m [-> ->]]]].
      * left. auto.
      * right. left. exists m. auto.
      * right. right. exists m. auto.
Qed.

Lemma snoc_split {A} (pre : list A) l p1 l0 p2 :
  pre ++ [l] = p1 ++ l0 :: p2 ->
  (p2 = [] /\ p1 = pre /\ l0 = l) \/ (exists p2', p2 = p2' ++ [l] /\ pre = p1 ++ l0 :: p2').
Proof.
  intro H. destruct p2 as [|y p2] using rev_ind.
  - left. apply app_inj_tail in H. destruct H as [-> ->]. auto.
  - right. clear IHp2. exists p2.
    change (p1 ++ l0 :: p2 ++ [y]) with (p1 ++ (l0 :: p2) ++ [y]) in H.
    rewrite app_assoc in H. apply app_inj_tail in H. destruct H as [-> ->]. auto.
Qed.

(* ---------------------------------------------------------------- Part B *)

Section Facts.
Variable t : nat.

Definition cnt (ty r : nat) (l : list partial) : nat := length (filter (fun q => eroot ty q =? r) l).

Lemma group_cnt ty p l : length (group ty p l) = cnt ty (eroot ty p) l.
Proof. reflexivity. Qed.

Lemma cnt_app ty r l1 l2 : cnt ty r (l1 ++ l2) = cnt ty r l1 + cnt ty r l2.
Proof. unfold cnt. rewrite filter_app, app_length. reflexivity. Qed.

Lemma cnt_le ty r l : cnt ty r l <= length l.
Proof. apply filter_length_le. Qed.

Lemma cnt_one ty r p : cnt ty r [p] = if eroot ty p =? r then 1 else 0.
Proof. unfold cnt. simpl. destruct (eroot ty p =? r); reflexivity. Qed.

Lemma cnt_filter_le ty r f l : cnt ty r (filter f l) <= cnt ty r l.
Proof.
  unfold cnt. induction l as [|x l IH]; simpl; [lia|].
  destruct (f x); simpl; destruct (eroot ty x =? r); simpl; lia.
Qed.

Lemma cnt_disjoint ty r1 r2 l : r1 <> r2 -> cnt ty r1 l + cnt ty r2 l <= length l.
Proof.
  intro H. unfold cnt. induction l as [|x l IH]; simpl; [lia|].
  destruct (Nat.eqb_spec (eroot ty x) r1), (Nat.eqb_spec (eroot ty x) r2); simpl; lia.
Qed.

(* getThresholdMatching, as it is now, in terms of the root group of the last partial *)
Lemma thresh_spec ty l :
  thresh t ty l = if length (group ty (last l dflt) l) =? t then Some (group ty (last l dflt) l) else None.
Proof.
  unfold thresh. destruct (length l <? t) eqn:E.
  - apply Nat.ltb_lt in E. pose proof (filter_length_le (fun q => eroot ty q =? eroot ty (last l dflt)) l) as Hle.
    unfold group. destruct (Nat.eqb_spec (length (filter (fun q => eroot ty q =? eroot ty (last l dflt)) l)) t); [lia | reflexivity].
  - destruct (is_sig ty) eqn:Es.
    + assert (Hg : group ty (last l dflt) l = l).
      { unfold group. apply filter_all. intros x _. unfold eroot. rewrite Es. reflexivity. }
      rewrite Hg. reflexivity.
    + unfold group, eroot. rewrite Es. reflexivity.
Qed.

Lemma group_In ty p l q : In q (group ty p l) <-> In q l /\ eroot ty q = eroot ty p.
Proof. unfold group. rewrite filter_In, Nat.eqb_eq. tauto. Qed.

Lemma group_self ty p l : In p (group ty p (l ++ [p])).
Proof. apply group_In. split; [apply in_or_app; right; left; reflexivity | reflexivity]. Qed.

Lemma group_nodup ty p l : NoDup (map share l) -> NoDup (map share (group ty p l)).
Proof. apply NoDup_map_filter. Qed.

(* ---- run ---- *)
Lemma run_app pre prec l1 : forall s l2 s',
  run_gen t pre prec s (l1 ++ l2) = Some s' <->
  exists s1, run_gen t pre prec s l1 = Some s1 /\ run_gen t pre prec s1 l2 = Some s'.
Proof.
  induction l1 as [|l r IH]; intros s l2 s'; simpl.
  - split; [intro H; exists s; auto | intros [s1 [H1 H2]]; injection H1 as <-; exact H2].
  - destruct (step_gen t pre prec s l) as [s1|]; [apply IH|].
    split; [discriminate | intros [s1 [H _]]; discriminate].
Qed.

Lemma run_snoc l1 l s s' :
  run t s (l1 ++ [l]) = Some s' <-> exists s1, run t s l1 = Some s1 /\ step t s1 l = Some s'.
Proof.
  unfold run. rewrite run_app. split; intros [s1 [H1 H2]]; exists s1; split; auto; simpl in *.
  - unfold step. destruct (step_gen t false false s1 l); [exact H2 | discriminate].
  - unfold step in H2. rewrite H2. reflexivity.
Qed.

Lemma run_cons l ls s s' :
  run t s (l :: ls) = Some s' <-> exists s1, step t s l = Some s1 /\ run t s1 ls = Some s'.
Proof.
  unfold run, step. simpl. destruct (step_gen t false false s l) as [s1|].
  - split; [intro H; exists s1; auto | intros [s2 [H1 H2]]; injection H1 as <-; exact H2].
  - split; [discriminate | intros [s2 [H _]]; discriminate].
Qed.

(* ---- what one entry does to the model ---- *)
Definition ekey_of (cl : call) (pk sub : nat) : key := (c_duty cl, pk, sub).
Definition ex_of (cl : call) : bool := status_eqb (c_st cl) Exempt.

(* the group an entry hands to the threshold subscribers (None = it does not fire) *)
Definition mfire (s : state) (cl : call) (e : entry) : option (nat * nat * list partial) :=
  match e with
  | EBad _ => None
  | EGood pk sub p =>
      match classify p (ent s (ekey_of cl pk sub)) with
      | VNew => option_map (fun g => (pk, sub, g))
                  (s_fired (store_new t false false s (ex_of cl) (ekey_of cl pk sub) p))
      | _ => None
      end
  end.

Definition mcall (s : state) (cl : call) (e : entry) : call :=
  match e with
  | EBad _ => set_oth false (took cl e)
  | EGood pk sub p =>
      match classify p (ent s (ekey_of cl pk sub)) with
      | VDup => took cl e
      | VMismatch => set_mis false (took cl e)
      | VNew => add_out (took cl e) (opt_list (mfire s cl e))
      end
  end.

Definition mstore (s : state) (cl : call) (e : entry) : stored :=
  match e with
  | EBad _ => Sd (ent s) (kbd s) (exm s) None
  | EGood pk sub p =>
      match classify p (ent s (ekey_of cl pk sub)) with
      | VNew => store_new t false false s (ex_of cl) (ekey_of cl pk sub) p
      | _ => Sd (ent s) (kbd s) (exm s) None
      end
  end.

Lemma step_entry s c e s' : step t s (AEntry c e) = Some s' ->
  exists cl, calls s c = Some cl /\ c_open cl = true /\ c_abort cl = false /\ In e (c_todo cl) /\
    s' = St (s_ent (mstore s cl e)) (s_kbd (mstore s cl e)) (s_exm (mstore s cl e))
            (updc (calls s) c (Some (mcall s cl e))).
Proof.
  unfold step, step_gen. destruct (calls s c) as [cl|] eqn:Ec; [|discriminate].
  destruct (c_open cl && negb (c_abort cl) && mem_entry e (c_todo cl)) eqn:Eg; [|discriminate].
  apply andb_true_iff in Eg. destruct Eg as [Eg Hm]. apply andb_true_iff in Eg. destruct Eg as [Ho Ha].
  apply negb_true_iff in Ha. apply mem_entry_In in Hm.
  intro H. exists cl. repeat split; auto.
  destruct e as [pk sub p|pk]; simpl in *.
  - unfold ekey_of. destruct (classify p (ent s (c_duty cl, pk, sub))) eqn:Ecl; injection H as <-; simpl; try reflexivity.
  - injection H as <-. reflexivity.
Qed.

Lemma mcall_out s cl e : c_out (mcall s cl e) = c_out cl ++ opt_list (mfire s cl e).
Proof.
  destruct e as [pk sub p|pk]; simpl; [|rewrite app_nil_r; reflexivity].
  destruct (classify p (ent s (ekey_of cl pk sub))); simpl; try (rewrite app_nil_r; reflexivity). reflexivity.
Qed.

Lemma mcall_static s cl e :
  c_open (mcall s cl e) = c_open cl /\ c_int (mcall s cl e) = c_int cl /\ c_duty (mcall s cl e) = c_duty cl
  /\ c_st (mcall s cl e) = c_st cl /\ c_todo (mcall s cl e) = remove1 e (c_todo cl)
  /\ c_abort (mcall s cl e) = c_abort cl.
Proof.
  destruct e as [pk sub p|pk]; simpl; [|rewrite orb_false_r; auto 10].
  destruct (classify p (ent s (ekey_of cl pk sub))); simpl; rewrite ?orb_false_r; auto 10.
Qed.

(* where the new partial went: the entry of its key is extended by it; any entry can only have
   been shrunk by the per-share cap if it was below the threshold *)
Lemma store_new_ent s ex k p k' :
  let r := store_new t false false s ex k p in
  let en1 := upd (ent s) k (ent s k ++ [p]) in
  s_ent r k' = en1 k' \/
  (length (en1 k') < t /\ s_ent r k' = filter (fun q => negb (share q =? share p)) (en1 k')).
Proof.
  unfold store_new. simpl. destruct ex; simpl; [|left; reflexivity].
  unfold track. destruct (max_exempt <? length (exm s (share p, kpk k, dtype (kduty k)) ++ [k])); simpl; [|left; reflexivity].
  destruct (exm s (share p, kpk k, dtype (kduty k)) ++ [k]) as [|k0 rest]; simpl; [left; reflexivity|].
  unfold evict. simpl. destruct (t <=? length (upd (ent s) k (ent s k ++ [p]) k0)) eqn:E; [left; reflexivity|].
  apply Nat.leb_gt in E. destruct (key_eqb k' k0) eqn:Ek.
  - apply key_eqb_eq in Ek. subst k0. right. rewrite upd_same. split; [exact E | reflexivity].
  - left. unfold upd at 1. rewrite Ek. reflexivity.
Qed.

Lemma store_new_fired s ex k p :
  s_fired (store_new t false false s ex k p) = thresh t (dtype (kduty k)) (s_ent (store_new t false false s ex k p) k).
Proof. reflexivity. Qed.

(* an entry fires iff it is accepted (no partial of that share stored for the key) and the
   partials stored for the key over its root, itself included, are exactly t; it hands over
   exactly that group *)
Lemma mfire_iff s cl pk sub p x :
  let k := ekey_of cl pk sub in
  let g := group (dtype (c_duty cl)) p (ent s k ++ [p]) in
  mfire s cl (EGood pk sub p) = Some x <->
  classify p (ent s k) = VNew /\ length g = t /\ x = (pk, sub, g).
Proof.
  cbv zeta. unfold mfire. destruct (classify p (ent s (ekey_of cl pk sub))) eqn:Ecl;
    try (split; [discriminate | intros [H _]; discriminate]).
  rewrite store_new_fired.
  pose proof (store_new_ent s (ex_of cl) (ekey_of cl pk sub) p (ekey_of cl pk sub)) as Hs. cbv zeta in Hs.
  rewrite upd_same in Hs. change (dtype (kduty (ekey_of cl pk sub))) with (dtype (c_duty cl)).
  destruct Hs as [Hs|[Hlt Hs]]; rewrite Hs, thresh_spec.
  - rewrite last_last.
    destruct (Nat.eqb_spec (length (group (dtype (c_duty cl)) p (ent s (ekey_of cl pk sub) ++ [p]))) t) as [E|E]; simpl.
    + split; [intro H; injection H as <-; auto | intros [_ [_ ->]]; reflexivity].
    + split; [discriminate | intros [_ [H _]]; contradiction].
  - set (l' := filter _ _) in *.
    assert (Hl : length (group (dtype (c_duty cl)) (last l' dflt) l') < t).
    { unfold group. eapply Nat.le_lt_trans; [apply filter_length_le|]. unfold l'.
      eapply Nat.le_lt_trans; [apply filter_length_le | exact Hlt]. }
    destruct (Nat.eqb_spec (length (group (dtype (c_duty cl)) (last l' dflt) l')) t) as [E|E]; [lia|].
    split; [discriminate|]. intros [_ [H _]].
    pose proof (filter_length_le (fun q => eroot (dtype (c_duty cl)) q =? eroot (dtype (c_duty cl)) p) (ent s (ekey_of cl pk sub) ++ [p])) as Hle.
    unfold group in H. lia.
Qed.

Lemma mfire_ent s cl pk sub p x :
  mfire s cl (EGood pk sub p) = Some x ->
  s_ent (mstore s cl (EGood pk sub p)) (ekey_of cl pk sub) = ent s (ekey_of cl pk sub) ++ [p].
Proof.
  intro H. pose proof H as H0. apply mfire_iff in H0. destruct H0 as [Ecl [Hlen _]].
  unfold mstore. rewrite Ecl.
  pose proof (store_new_ent s (ex_of cl) (ekey_of cl pk sub) p (ekey_of cl pk sub)) as Hs. cbv zeta in Hs.
  rewrite upd_same in Hs. destruct Hs as [Hs|[Hlt _]]; [exact Hs|].
  pose proof (filter_length_le (fun q => eroot (dtype (c_duty cl)) q =? eroot (dtype (c_duty cl)) p) (ent s (ekey_of cl pk sub) ++ [p])) as Hle.
  unfold group in Hlen. lia.
Qed.

(* the entries of the store after one entry step *)
Lemma mstore_ent s cl e k' :
  s_ent (mstore s cl e) k' = ent s k' \/
  (exists pk sub p, e = EGood pk sub p /\ classify p (ent s (ekey_of cl pk sub)) = VNew /\
     ((k' = ekey_of cl pk sub /\ s_ent (mstore s cl e) k' = ent s k' ++ [p]) \/
      (length (ent s k') < t /\ s_ent (mstore s cl e) k' = filter (fun q => negb (share q =? share p)) (ent s k')) \/
      (k' = ekey_of cl pk sub /\ length (ent s k' ++ [p]) < t /\
       s_ent (mstore s cl e) k' = filter (fun q => negb (share q =? share p)) (ent s k' ++ [p])))).
Proof.
  destruct e as [pk sub p|pk]; simpl; [|left; reflexivity].
  destruct (classify p (ent s (ekey_of cl pk sub))) eqn:Ecl; simpl; try (left; reflexivity).
  pose proof (store_new_ent s (ex_of cl) (ekey_of cl pk sub) p k') as Hs. cbv zeta in Hs.
  destruct (key_eqb k' (ekey_of cl pk sub)) eqn:Ek.
  - apply key_eqb_eq in Ek. subst k'. rewrite upd_same in Hs. right. exists pk, sub, p. repeat split; auto.
    destruct Hs as [Hs|[Hlt Hs]]; [left; auto | right; right; auto].
  - assert (Hne : k' <> ekey_of cl pk sub) by (intro; subst; rewrite key_eqb_refl in Ek; discriminate).
    rewrite upd_other in Hs by exact Hne. destruct Hs as [Hs|[Hlt Hs]]; [left; exact Hs|].
    right. exists pk, sub, p. repeat split; auto.
Qed.

(* ---- invariants of reachable states ---- *)
Record MInv (s : state) : Prop := {
  m_nodup : forall k, NoDup (map share (ent s k));
  m_noab : forall c cl, calls s c = Some cl -> c_abort cl = false
}.

Lemma minv_init : MInv init.
Proof. split; simpl; [constructor | discriminate]. Qed.

Lemma classify_new p l : classify p l = VNew -> ~ In (share p) (map share l).
Proof.
  unfold classify. destruct (find_share (share p) l) as [q|] eqn:E.
  - destruct (pid q =? pid p); discriminate.
  - intros _. apply find_share_none. exact E.
Qed.

Lemma nodup_snoc_gen {A} (l : list A) x : NoDup l -> ~ In x l -> NoDup (l ++ [x]).
Proof.
  induction l as [|y l IH]; simpl; intros Hn Hx; [constructor; [tauto | constructor]|].
  inversion Hn as [|z zs Hy Hl]; subst. constructor.
  - rewrite in_app_iff. simpl. intros [H|[H|[]]]; [contradiction | subst; apply Hx; left; reflexivity].
  - apply IH; [exact Hl | tauto].
Qed.

Lemma nodup_snoc p l : NoDup (map share l) -> ~ In (share p) (map share l) -> NoDup (map share (l ++ [p])).
Proof. intros Hn Hp. rewrite map_app. simpl. apply nodup_snoc_gen; auto. Qed.

Lemma step_begin s c i d st b s' : step t s (ABegin c i d st b) = Some s' ->
  calls s c = None /\ NoDup (map epk b) /\
  s' = St (ent s) (kbd s) (exm s) (updc (calls s) c (Some (new_call i d st b))).
Proof.
  unfold step, step_gen. destruct (calls s c); [discriminate|].
  destruct (nodupb (map epk b)) eqn:E; [|discriminate]. intro H. injection H as <-.
  repeat split; auto. clear -E. induction (map epk b) as [|x r IH]; [constructor|].
  simpl in E. apply andb_true_iff in E. destruct E as [E1 E2]. constructor; [|apply IH; exact E2].
  intro Hin. apply negb_true_iff in E1. assert (existsb (Nat.eqb x) r = true); [|congruence].
  apply existsb_exists. exists x. split; [exact Hin | apply Nat.eqb_refl].
Qed.

Lemma step_end s c er out il s' : step t s (AEnd c er out il) = Some s' ->
  exists cl, calls s c = Some cl /\ c_open cl = true /\
    (c_abort cl = false -> c_todo cl = [] /\ out_ok (c_out cl) out = true) /\
    err_ok cl er = true /\ il = (c_int cl && is_enone er) /\
    s' = St (ent s) (kbd s) (exm s) (updc (calls s) c (Some (closed cl))).
Proof.
  unfold step, step_gen. destruct (calls s c) as [cl|]; [|discriminate].
  destruct (c_open cl && _ && err_ok cl er && Bool.eqb il (c_int cl && is_enone er)) eqn:E; [|discriminate].
  intro H. injection H as <-. exists cl.
  apply andb_true_iff in E. destruct E as [E E4]. apply andb_true_iff in E. destruct E as [E E3].
  apply andb_true_iff in E. destruct E as [E1 E2]. apply eqb_prop in E4.
  split; [reflexivity|]. split; [exact E1|]. split; [|auto].
  intro Ha. rewrite Ha in E2. apply andb_true_iff in E2. destruct E2 as [E2 E2'].
  split; [apply is_nil_true; exact E2 | exact E2'].
Qed.

Lemma step_trim s d s' : step t s (ATrim d) = Some s' ->
  s' = St (fun k => if duty_eqb (kduty k) d && memk k (kbd s) then [] else ent s k)
          (filter (fun k => negb (duty_eqb (kduty k) d)) (kbd s)) (exm s) (calls s).
Proof. unfold step, step_gen. intro H. injection H as <-. reflexivity. Qed.

Lemma step_minv s l s' : MInv s -> step t s l = Some s' -> MInv s'.
Proof.
  intros [Hn Ha] H. destruct l as [c i d st b|c e|c er out il|d].
  - apply step_begin in H. destruct H as [Hc [_ ->]]. split; simpl; [exact Hn|].
    intros c' cl'. unfold updc. destruct (c' =? c); [intro E; injection E as <-; reflexivity | apply Ha].
  - apply step_entry in H. destruct H as [cl [Hc [Ho [Hab [Hin ->]]]]]. split; simpl.
    + intro k. destruct (mstore_ent s cl e k) as [E|[pk [sub [p [-> [Ecl [[-> E]|[[_ E]|[-> [_ E]]]]]]]]]]; rewrite E.
      * apply Hn.
      * apply nodup_snoc; [apply Hn | apply classify_new; exact Ecl].
      * apply NoDup_map_filter, Hn.
      * apply NoDup_map_filter, nodup_snoc; [apply Hn | apply classify_new; exact Ecl].
    + intros c' cl'. unfold updc. destruct (c' =? c); [|apply Ha].
      intro E; injection E as <-. destruct (mcall_static s cl e) as [_ [_ [_ [_ [_ ->]]]]]. exact Hab.
  - apply step_end in H. destruct H as [cl [Hc [_ [_ [_ [_ ->]]]]]]. split; simpl; [exact Hn|].
    intros c' cl'. unfold updc. destruct (c' =? c); [|apply Ha].
    intro E; injection E as <-. simpl. eapply Ha; eauto.
  - apply step_trim in H. subst s'. split; simpl; [|exact Ha].
    intro k. destruct (duty_eqb (kduty k) d && memk k (kbd s)); [constructor | apply Hn].
Qed.

Lemma run_minv ls : forall s s', MInv s -> run t s ls = Some s' -> MInv s'.
Proof.
  induction ls as [|l r IH]; intros s s' I H; [injection H as <-; exact I|].
  apply run_cons in H. destruct H as [s1 [H1 H2]]. eapply IH; [eapply step_minv; eauto | exact H2].
Qed.

(* ---- how the record of call c evolves ---- *)
Definition is_entry_of (c : nat) (l : label) : Prop := exists e, l = AEntry c e.

Lemma step_call s l s' c cl : step t s l = Some s' -> calls s' c = Some cl ->
  (exists e cl1, l = AEntry c e /\ calls s c = Some cl1 /\ cl = mcall s cl1 e)
  \/ (~ is_entry_of c l /\
      ((calls s c = None /\ c_out cl = [] /\ exists i d st b, l = ABegin c i d st b /\ cl = new_call i d st b)
       \/ (exists cl1, calls s c = Some cl1 /\ c_out cl = c_out cl1 /\ c_duty cl = c_duty cl1 /\ c_st cl = c_st cl1
                       /\ c_int cl = c_int cl1 /\ c_mis cl = c_mis cl1 /\ c_oth cl = c_oth cl1))).
Proof.
  intros H Hc. destruct l as [c' i d st b|c' e|c' er out il|d].
  - right. split; [intros [e E]; discriminate|].
    apply step_begin in H. destruct H as [Hn [_ ->]]. simpl in Hc. unfold updc in Hc.
    destruct (Nat.eqb_spec c c') as [->|Hne].
    + injection Hc as <-. left. repeat split; auto. exists i, d, st, b. auto.
    + right. exists cl. auto 10.
  - apply step_entry in H. destruct H as [cl1 [Hc1 [_ [_ [_ ->]]]]]. simpl in Hc. unfold updc in Hc.
    destruct (Nat.eqb_spec c c') as [->|Hne].
    + injection Hc as <-. left. exists e, cl1. auto.
    + right. split; [intros [e' E]; injection E as -> _; contradiction|]. right. exists cl. auto 10.
  - right. split; [intros [e E]; discriminate|].
    apply step_end in H. destruct H as [cl1 [Hc1 [_ [_ [_ [_ ->]]]]]]. simpl in Hc. unfold updc in Hc.
    destruct (Nat.eqb_spec c c') as [->|Hne].
    + injection Hc as <-. right. exists cl1. simpl. auto 10.
    + right. exists cl. auto 10.
  - right. split; [intros [e E]; discriminate|].
    apply step_trim in H. subst s'. simpl in Hc. right. exists cl. auto 10.
Qed.

Lemma step_calls_mono s l s' c cl : step t s l = Some s' -> calls s c = Some cl -> exists cl', calls s' c = Some cl'.
Proof.
  intros H Hc. destruct l as [c' i d st b|c' e|c' er out il|d].
  - apply step_begin in H. destruct H as [Hn [_ ->]]. simpl. unfold updc.
    destruct (Nat.eqb_spec c c') as [->|Hne]; [congruence | eauto].
  - apply step_entry in H. destruct H as [cl1 [Hc1 [_ [_ [_ ->]]]]]. simpl. unfold updc. destruct (c =? c'); eauto.
  - apply step_end in H. destruct H as [cl1 [Hc1 [_ [_ [_ [_ ->]]]]]]. simpl. unfold updc. destruct (c =? c'); eauto.
  - apply step_trim in H. subst s'. simpl. eauto.
Qed.

Lemma run_calls_mono ls : forall s s' c cl, run t s ls = Some s' -> calls s c = Some cl -> exists cl', calls s' c = Some cl'.
Proof.
  induction ls as [|l r IH]; intros s s' c cl H Hc; [injection H as <-; eauto|].
  apply run_cons in H. destruct H as [s1 [H1 H2]].
  destruct (step_calls_mono _ _ _ _ _ H1 Hc) as [cl1 Hc1]. eapply IH; eauto.
Qed.

(* A firing of call c at a position of the trace. *)
Definition fired_in (pre : list label) (c : nat) (x : nat * nat * list partial) : Prop :=
  exists p1 e p2 s0 cl0, pre = p1 ++ AEntry c e :: p2 /\ run t init p1 = Some s0 /\
                         calls s0 c = Some cl0 /\ mfire s0 cl0 e = Some x.

Lemma fired_in_snoc pre l c x : fired_in pre c x -> fired_in (pre ++ [l]) c x.
Proof.
  intros [p1 [e [p2 [s0 [cl0 [-> H]]]]]]. exists p1, e, (p2 ++ [l]), s0, cl0.
  split; [rewrite <- app_assoc; reflexivity | exact H].
Qed.

(* B: what is due to the threshold subscribers in call c is exactly what c's own entries fired *)
Theorem due_exact pre : forall s c cl, run t init pre = Some s -> calls s c = Some cl ->
  forall x, In x (c_out cl) <-> fired_in pre c x.
Proof.
  induction pre as [|l pre IH] using rev_ind; intros s c cl Hrun Hc x.
  - injection Hrun as <-. discriminate.
  - apply run_snoc in Hrun. destruct Hrun as [s1 [Hrun Hstep]].
    destruct (step_call _ _ _ _ _ Hstep Hc) as [[e [cl1 [-> [Hc1 ->]]]]|[Hne [[Hn [Ho _]]|[cl1 [Hc1 [Ho _]]]]]].
    + rewrite mcall_out, in_app_iff, (IH _ _ _ Hrun Hc1). split.
      * intros [H|H]; [apply fired_in_snoc; exact H|].
        exists pre, e, [], s1, cl1. repeat split; auto.
        destruct (mfire s1 cl1 e); simpl in H; [destruct H as [->|[]]; reflexivity | contradiction].
      * intros [p1 [e' [p2 [s0 [cl0 [E [Hr0 [Hc0 Hf]]]]]]]].
        apply snoc_split in E. destruct E as [[-> [-> E]]|[p2' [-> ->]]].
        -- injection E as <-. rewrite Hrun in Hr0. injection Hr0 as <-. rewrite Hc1 in Hc0. injection Hc0 as <-.
           right. rewrite Hf. left. reflexivity.
        -- left. exists p1, e', p2', s0, cl0. auto.
    + rewrite Ho. split; [contradiction|].
      intros [p1 [e' [p2 [s0 [cl0 [E [Hr0 [Hc0 Hf]]]]]]]].
      apply snoc_split in E. destruct E as [[-> [-> E]]|[p2' [-> ->]]].
      * exfalso. apply Hne. exists e'. auto.
      * unfold run in Hrun. apply run_app in Hrun. destruct Hrun as [s0' [Hr0' Hrest]].
        unfold run in Hr0. rewrite Hr0 in Hr0'. injection Hr0' as <-.
        destruct (run_calls_mono _ _ _ _ _ Hrest Hc0) as [cl' Hc']. congruence.
    + rewrite Ho, (IH _ _ _ Hrun Hc1). split; [apply fired_in_snoc|].
      intros [p1 [e' [p2 [s0 [cl0 [E [Hr0 [Hc0 Hf]]]]]]]].
      apply snoc_split in E. destruct E as [[-> [-> E]]|[p2' [-> ->]]].
      * exfalso. apply Hne. exists e'. auto.
      * exists p1, e', p2', s0, cl0. auto.
Qed.

Definition outl (out : option outmap) : outmap := match out with Some o => o | None => [] end.

Lemma out_ok_spec due out : out_ok due out = true ->
  (forall x, In x (outl out) <-> In x due) /\ (out = None <-> due = []) /\ length (outl out) = length due.
Proof.
  destruct out as [o|]; simpl.
  - rewrite !andb_true_iff, !forallb_forall, negb_true_iff, Nat.eqb_eq. intros [[[Hn Hl] H1] H2]. repeat split.
    + intro Hx. apply mem_out_In. apply H1. exact Hx.
    + intro Hx. apply mem_out_In. apply H2. exact Hx.
    + discriminate.
    + intros ->. discriminate.
    + exact Hl.
  - intro H. apply is_nil_true in H. subst. simpl. repeat split; tauto.
Qed.

(* A: a call returns after all its entries were processed; the threshold subscribers get exactly
   what is due (and are not called iff nothing is due); an error is returned iff an entry was
   rejected; the internal subscribers run iff the call is internal and no error is returned *)
Theorem delivery pre c er out il post s :
  run t init (pre ++ AEnd c er out il :: post) = Some s ->
  exists s1 cl, run t init pre = Some s1 /\ calls s1 c = Some cl /\ c_open cl = true /\ c_todo cl = [] /\
    (forall x, In x (outl out) <-> In x (c_out cl)) /\ (out = None <-> c_out cl = []) /\
    length (outl out) = length (c_out cl) /\
    (er = ENone <-> c_mis cl = false /\ c_oth cl = false) /\
    (er = EMismatch -> c_mis cl = true) /\ (er = EOther -> c_oth cl = true) /\
    il = (c_int cl && is_enone er).
Proof.
  intro H. unfold run in H. apply run_app in H. destruct H as [s1 [H1 H2]].
  fold (run t s1 (AEnd c er out il :: post)) in H2. apply run_cons in H2. destruct H2 as [s2 [H2 _]].
  apply step_end in H2. destruct H2 as [cl [Hc [Ho [Hab [He [Hil _]]]]]].
  assert (I : MInv s1) by (eapply run_minv; [apply minv_init | exact H1]).
  destruct (Hab (m_noab _ I _ _ Hc)) as [Ht Hok]. apply out_ok_spec in Hok. destruct Hok as [Hi [Hn Hl]].
  exists s1, cl. repeat split; auto; try (apply Hi); try (apply Hn).
  - intros ->. simpl in He. apply andb_true_iff in He. destruct He as [A _]. apply negb_true_iff in A. exact A.
  - intros ->. simpl in He. apply andb_true_iff in He. destruct He as [_ A]. apply negb_true_iff in A. exact A.
  - intros [A B]. destruct er; simpl in He; [reflexivity | congruence | congruence].
  - intros ->. exact He.
  - intros ->. exact He.
Qed.

(* A + B: delivered = fired by an entry of this very call, whatever else is in the set and
   whatever error the call returns *)
Theorem delivered_iff_fired pre c er out il post s :
  run t init (pre ++ AEnd c er out il :: post) = Some s ->
  forall x, In x (outl out) <-> fired_in pre c x.
Proof.
  intros H x. destruct (delivery _ _ _ _ _ _ _ H) as [s1 [cl [H1 [Hc [_ [_ [Hi _]]]]]]].
  rewrite Hi. eapply due_exact; eauto.
Qed.
